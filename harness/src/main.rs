//! Correspondence harness: runs the real engine code (path dependency on /repo, built with
//! --cfg qe_verif) on cases given as JSON lines on stdin and prints one JSON line per case.
use serde_json::{json, Value};
use std::io::{BufRead, Write};

mod c12;

pub type CaseFn = fn(&Value) -> Value;

fn registry(name: &str) -> Option<CaseFn> {
    Some(match name {
        "c12" => c12::case,
        _ => return None,
    })
}

fn main() {
    let args: Vec<String> = std::env::args().collect();
    if args.len() < 2 {
        eprintln!("usage: qeh <property-module>  (JSON lines on stdin)");
        std::process::exit(2);
    }
    let f = match registry(&args[1]) {
        Some(f) => f,
        None => {
            eprintln!("unknown module {}", args[1]);
            std::process::exit(2);
        }
    };
    std::panic::set_hook(Box::new(|_| {}));
    let stdin = std::io::stdin();
    let stdout = std::io::stdout();
    let mut out = std::io::BufWriter::new(stdout.lock());
    for line in stdin.lock().lines() {
        let line = line.expect("stdin");
        if line.trim().is_empty() {
            continue;
        }
        let v: Value = match serde_json::from_str(&line) {
            Ok(v) => v,
            Err(e) => {
                writeln!(out, "{}", json!({"harness_error": format!("bad json: {e}")})).unwrap();
                continue;
            }
        };
        let r = std::panic::catch_unwind(std::panic::AssertUnwindSafe(|| f(&v)));
        let o = match r {
            Ok(o) => o,
            Err(p) => {
                let msg = if let Some(s) = p.downcast_ref::<String>() {
                    s.clone()
                } else if let Some(s) = p.downcast_ref::<&str>() {
                    s.to_string()
                } else {
                    "panic".to_string()
                };
                json!({"panic": msg})
            }
        };
        writeln!(out, "{}", o).unwrap();
        out.flush().unwrap();
    }
}
