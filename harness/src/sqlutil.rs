//! Shared helpers: build an ExecutionContext from a JSON table spec (memory or Parquet layout),
//! run SQL through the real engine, and render results as canonical JSON.
//!
//! Table spec:
//!   {"name":"t","cols":[["a","i64"],["b","str"]],"rows":[[1,"x"],[null,"y"]],
//!    "batch_sizes":[1,1],                       // optional: memory batch split (default one batch)
//!    "parquet":{"files":[1,1],"row_group":1}}   // optional: write as Parquet instead of memory
//! Column types: i64 i32 f64 str date bool.
//! Cells: null | integer | string | bool | ["f","<u64 bits>"] (double by bit pattern) | float number
//!        | ["d", days] or integer for date columns.
//! Result cells use the same encoding; doubles always come back as ["f","<bits>"], dates as ["d",n];
//! other Arrow types as ["o","<arrow type>","<display>"].
use arrow::array::*;
use arrow::datatypes::{DataType, Field, Schema, SchemaRef};
use arrow::record_batch::RecordBatch;
use query_engine::ExecutionContext;
use serde_json::{json, Value};
use std::path::{Path, PathBuf};
use std::sync::Arc;

pub fn dtype(t: &str) -> DataType {
    match t {
        "i64" => DataType::Int64,
        "i32" => DataType::Int32,
        "f64" => DataType::Float64,
        "str" => DataType::Utf8,
        "date" => DataType::Date32,
        "bool" => DataType::Boolean,
        other => panic!("unknown column type {other}"),
    }
}

pub fn cell_f64(v: &Value) -> Option<f64> {
    match v {
        Value::Null => None,
        Value::Array(a) if a.len() == 2 && a[0] == "f" => {
            Some(f64::from_bits(a[1].as_str().unwrap().parse::<u64>().unwrap()))
        }
        Value::Number(n) => Some(n.as_f64().unwrap()),
        Value::String(s) => Some(match s.as_str() {
            "NaN" => f64::NAN,
            "inf" => f64::INFINITY,
            "-inf" => f64::NEG_INFINITY,
            "-0" => -0.0,
            o => o.parse().unwrap(),
        }),
        _ => panic!("bad f64 cell {v}"),
    }
}

pub fn cell_i64(v: &Value) -> Option<i64> {
    match v {
        Value::Null => None,
        Value::Array(a) if a.len() == 2 && a[0] == "d" => a[1].as_i64(),
        _ => Some(v.as_i64().unwrap_or_else(|| panic!("bad int cell {v}"))),
    }
}

pub fn column(t: &str, cells: &[&Value]) -> ArrayRef {
    match t {
        "i64" => Arc::new(Int64Array::from(cells.iter().map(|c| cell_i64(c)).collect::<Vec<_>>())),
        "i32" => Arc::new(Int32Array::from(
            cells.iter().map(|c| cell_i64(c).map(|x| x as i32)).collect::<Vec<_>>(),
        )),
        "date" => Arc::new(Date32Array::from(
            cells.iter().map(|c| cell_i64(c).map(|x| x as i32)).collect::<Vec<_>>(),
        )),
        "f64" => Arc::new(Float64Array::from(cells.iter().map(|c| cell_f64(c)).collect::<Vec<_>>())),
        "str" => Arc::new(StringArray::from(
            cells.iter().map(|c| c.as_str().map(|s| s.to_string())).collect::<Vec<Option<String>>>(),
        )),
        "bool" => Arc::new(BooleanArray::from(cells.iter().map(|c| c.as_bool()).collect::<Vec<_>>())),
        other => panic!("unknown column type {other}"),
    }
}

pub fn schema_of(spec: &Value) -> SchemaRef {
    let fields: Vec<Field> = spec["cols"]
        .as_array()
        .unwrap()
        .iter()
        .map(|c| Field::new(c[0].as_str().unwrap(), dtype(c[1].as_str().unwrap()), true))
        .collect();
    Arc::new(Schema::new(fields))
}

/// rows[lo..hi] of the spec as one RecordBatch
pub fn batch_of(spec: &Value, lo: usize, hi: usize) -> RecordBatch {
    let schema = schema_of(spec);
    let rows = spec["rows"].as_array().unwrap();
    let cols: Vec<ArrayRef> = spec["cols"]
        .as_array()
        .unwrap()
        .iter()
        .enumerate()
        .map(|(j, c)| {
            let cells: Vec<&Value> = rows[lo..hi].iter().map(|r| &r[j]).collect();
            column(c[1].as_str().unwrap(), &cells)
        })
        .collect();
    if cols.is_empty() {
        RecordBatch::try_new_with_options(
            schema,
            cols,
            &arrow::record_batch::RecordBatchOptions::new().with_row_count(Some(hi - lo)),
        )
        .unwrap()
    } else {
        RecordBatch::try_new(schema, cols).unwrap()
    }
}

pub fn split_points(n: usize, sizes: Option<&Value>) -> Vec<(usize, usize)> {
    let mut out = Vec::new();
    let mut lo = 0usize;
    if let Some(Value::Array(a)) = sizes {
        for s in a {
            let k = (s.as_u64().unwrap() as usize).min(n - lo);
            out.push((lo, lo + k));
            lo += k;
        }
    }
    if lo < n || out.is_empty() {
        out.push((lo, n));
    }
    out
}

pub fn batches_of(spec: &Value) -> Vec<RecordBatch> {
    let n = spec["rows"].as_array().unwrap().len();
    split_points(n, spec.get("batch_sizes"))
        .into_iter()
        .map(|(lo, hi)| batch_of(spec, lo, hi))
        .collect()
}

/// Write the spec's rows as Parquet files under `dir/<name>/part-i.parquet`.
pub fn write_parquet(spec: &Value, dir: &Path) -> Vec<PathBuf> {
    use parquet::arrow::ArrowWriter;
    use parquet::file::properties::WriterProperties;
    let name = spec["name"].as_str().unwrap();
    let tdir = dir.join(name);
    std::fs::create_dir_all(&tdir).unwrap();
    let n = spec["rows"].as_array().unwrap().len();
    let p = &spec["parquet"];
    let rg = p["row_group"].as_u64().unwrap_or(1024 * 1024) as usize;
    let stats = p["statistics"].as_bool().unwrap_or(true);
    let mut files = Vec::new();
    for (i, (lo, hi)) in split_points(n, p.get("files")).into_iter().enumerate() {
        let path = tdir.join(format!("part-{i:03}.parquet"));
        let mut b = WriterProperties::builder().set_max_row_group_size(rg.max(1));
        if !stats {
            b = b.set_statistics_enabled(parquet::file::properties::EnabledStatistics::None);
        }
        let f = std::fs::File::create(&path).unwrap();
        let mut w = ArrowWriter::try_new(f, schema_of(spec), Some(b.build())).unwrap();
        // write in row-group-sized pieces so row group boundaries are exactly as requested
        let mut a = lo;
        while a < hi {
            let e = (a + rg.max(1)).min(hi);
            w.write(&batch_of(spec, a, e)).unwrap();
            w.flush().unwrap();
            a = e;
        }
        w.close().unwrap();
        files.push(path);
    }
    files
}

pub fn register(ctx: &mut ExecutionContext, spec: &Value, dir: &Path) {
    let name = spec["name"].as_str().unwrap();
    if spec.get("parquet").map(|p| !p.is_null()).unwrap_or(false) {
        write_parquet(spec, dir);
        ctx.register_parquet(name, dir.join(name)).unwrap();
    } else {
        ctx.register_table(name, schema_of(spec), batches_of(spec));
    }
}

pub fn make_ctx(tables: &Value, dir: &Path) -> ExecutionContext {
    let mut ctx = ExecutionContext::new();
    for t in tables.as_array().unwrap() {
        register(&mut ctx, t, dir);
    }
    ctx
}

pub fn type_name(dt: &DataType) -> String {
    match dt {
        DataType::Int64 => "i64".into(),
        DataType::Int32 => "i32".into(),
        DataType::Float64 => "f64".into(),
        DataType::Utf8 => "str".into(),
        DataType::Date32 => "date".into(),
        DataType::Boolean => "bool".into(),
        o => format!("{o:?}"),
    }
}

pub fn cell_json(a: &ArrayRef, i: usize) -> Value {
    if a.is_null(i) || matches!(a.data_type(), DataType::Null) {
        return Value::Null;
    }
    match a.data_type() {
        DataType::Int64 => json!(a.as_any().downcast_ref::<Int64Array>().unwrap().value(i)),
        DataType::Int32 => json!(a.as_any().downcast_ref::<Int32Array>().unwrap().value(i)),
        DataType::Int16 => json!(a.as_any().downcast_ref::<Int16Array>().unwrap().value(i)),
        DataType::Int8 => json!(a.as_any().downcast_ref::<Int8Array>().unwrap().value(i)),
        DataType::UInt64 => json!(a.as_any().downcast_ref::<UInt64Array>().unwrap().value(i)),
        DataType::UInt32 => json!(a.as_any().downcast_ref::<UInt32Array>().unwrap().value(i)),
        DataType::Float64 => json!([
            "f",
            a.as_any().downcast_ref::<Float64Array>().unwrap().value(i).to_bits().to_string()
        ]),
        DataType::Float32 => json!([
            "f",
            (a.as_any().downcast_ref::<Float32Array>().unwrap().value(i) as f64).to_bits().to_string()
        ]),
        DataType::Utf8 => json!(a.as_any().downcast_ref::<StringArray>().unwrap().value(i)),
        DataType::LargeUtf8 => json!(a.as_any().downcast_ref::<LargeStringArray>().unwrap().value(i)),
        DataType::Boolean => json!(a.as_any().downcast_ref::<BooleanArray>().unwrap().value(i)),
        DataType::Date32 => json!(["d", a.as_any().downcast_ref::<Date32Array>().unwrap().value(i)]),
        DataType::Dictionary(_, v) => {
            let c = arrow::compute::cast(a.as_ref(), v).unwrap();
            cell_json(&c, i)
        }
        other => {
            let s = arrow::util::display::array_value_to_string(a.as_ref(), i).unwrap_or_default();
            json!(["o", format!("{other:?}"), s])
        }
    }
}

pub fn batches_json(schema: &SchemaRef, batches: &[RecordBatch]) -> Value {
    let mut rows = Vec::new();
    let mut batch_schemas_match = true;
    for b in batches {
        if b.num_columns() != schema.fields().len() {
            batch_schemas_match = false;
        }
        for i in 0..b.num_rows() {
            let r: Vec<Value> = (0..b.num_columns()).map(|j| cell_json(b.column(j), i)).collect();
            rows.push(Value::Array(r));
        }
    }
    json!({
        "cols": schema.fields().iter().map(|f| f.name().clone()).collect::<Vec<_>>(),
        "types": schema.fields().iter().map(|f| type_name(f.data_type())).collect::<Vec<_>>(),
        "batch_types": batches.first().map(|b| b.schema().fields().iter().map(|f| type_name(f.data_type())).collect::<Vec<_>>()),
        "batch_cols": batches.first().map(|b| b.schema().fields().iter().map(|f| f.name().clone()).collect::<Vec<_>>()),
        "ncols_match": batch_schemas_match,
        "rows": rows,
    })
}

/// Run one statement; {"ok": {...}} or {"err": msg} or {"panic": msg}
pub fn run_sql(rt: &tokio::runtime::Runtime, ctx: &ExecutionContext, sql: &str) -> Value {
    let r = std::panic::catch_unwind(std::panic::AssertUnwindSafe(|| rt.block_on(ctx.sql(sql))));
    match r {
        Ok(Ok(res)) => json!({"ok": batches_json(&res.schema, &res.batches)}),
        Ok(Err(e)) => json!({"err": e.to_string()}),
        Err(p) => json!({"panic": crate::panic_message(p)}),
    }
}

/// Execute a logical plan with the real physical planner and operators (what ctx.sql does after
/// optimisation), so callers can run the bound, UNOPTIMISED plan or a plan optimised by a chosen
/// rule list.
pub fn run_logical(
    rt: &tokio::runtime::Runtime,
    ctx: &ExecutionContext,
    plan: &query_engine::planner::LogicalPlan,
) -> Value {
    use futures::TryStreamExt;
    use query_engine::physical::PhysicalPlanner;
    let r = std::panic::catch_unwind(std::panic::AssertUnwindSafe(|| -> query_engine::Result<Value> {
        let mut planner = PhysicalPlanner::with_config(ctx.memory_pool().clone(), ctx.config().clone());
        for name in ctx.table_names() {
            planner.register_table(name.clone(), ctx.table_provider(&name).unwrap());
        }
        planner.enable_subquery_execution();
        let physical = planner.create_physical_plan(plan)?;
        let n = physical.output_partitions().max(1);
        let mut all = Vec::new();
        for p in 0..n {
            let ph = physical.clone();
            let batches: Vec<RecordBatch> = rt.block_on(async move {
                let s = ph.execute(p).await?;
                s.try_collect().await
            })?;
            all.extend(batches);
        }
        Ok(batches_json(&physical.schema(), &all))
    }));
    match r {
        Ok(Ok(v)) => json!({ "ok": v }),
        Ok(Err(e)) => json!({"err": e.to_string()}),
        Err(p) => json!({"panic": crate::panic_message(p)}),
    }
}

/// Bound but unoptimised plan of `sql`, executed.
pub fn run_sql_noopt(rt: &tokio::runtime::Runtime, ctx: &ExecutionContext, sql: &str) -> Value {
    match std::panic::catch_unwind(std::panic::AssertUnwindSafe(|| ctx.logical_plan(sql))) {
        Ok(Ok(plan)) => run_logical(rt, ctx, &plan),
        Ok(Err(e)) => json!({"err": e.to_string()}),
        Err(p) => json!({"panic": crate::panic_message(p)}),
    }
}
