//! Shared by the C34 and C35 harness binaries (`#[path = "../frontdoor.rs"] mod frontdoor;`, NOT part of lib.rs).
//! A long-lived "world": Parquet data directories, a local reference ExecutionContext, and REAL in-process nodes
//! (`query_engine::distributed::spawn`) grouped into named clusters that live for the whole run (spawned by one
//! `setup` line, not per case).  Every other input line is one operation against the world:
//!
//!   {"op":"setup","tables":[spec..],"alt_tables":[spec..],"clusters":{name:{"nodes":[{"data":"A|B|fail|block"}..],
//!                  "extra_peers":[addr..]}}}
//!   {"op":"stmt","cluster":c,"node":i,"sql":s,"http":[query strings],"flight":[null | mode string ..]}
//!   {"op":"http","cluster":c,"node":i,"method":"POST","path":"/sql?..","body":<string> | {"bytes":[..]} | {"pad":n,"byte":b}}
//!   {"op":"ticket","cluster":c,"node":i,"ticket":<string> | {"bytes":[..]} | {"prefix":s,"pad":n,"suffix":s}}
//!   {"op":"descriptor","cluster":c,"node":i,"cmd":<string|bytes|pad>,"path":[..]}   (GetFlightInfo + GetSchema)
//!   {"op":"kill","cluster":c,"node":j}      {"op":"release","cluster":c,"node":j}     {"op":"members","cluster":c,"node":i}
//!
//! Bodies are DECODED here (Arrow IPC by arrow, JSON by serde_json, CSV by the RFC 4180 reader below) into the
//! canonical cell encoding of sqlutil::cell_json and summarised as {n, hash, rows (when small)} over the SORTED
//! canonical rows; all comparisons (HTTP vs Flight vs local) are made by the check, not here.
use arrow::datatypes::{DataType, SchemaRef};
use arrow::record_batch::RecordBatch;
use arrow_flight::decode::{DecodedPayload, FlightDataDecoder};
use arrow_flight::error::FlightError;
use arrow_flight::flight_service_client::FlightServiceClient;
use arrow_flight::{FlightDescriptor, Ticket};
use futures::{StreamExt, TryStreamExt};
use qe_verif_harness::sqlutil;
use query_engine::distributed::{PeerStatus, ServeOptions, ServerHandle, TableLoader};
use query_engine::ExecutionContext;
use serde_json::{json, Value};
use std::collections::HashMap;
use std::path::PathBuf;
use std::sync::atomic::{AtomicUsize, Ordering};
use std::sync::mpsc;
use std::sync::{Arc, Mutex};
use std::time::Duration;

pub const SMALL: usize = 80;

// ---------------------------------------------------------------------------------------------
// RFC 4180 reader: records of (field text, was_quoted).  CRLF or LF record ends; a quoted field may
// contain commas, line breaks and doubled quotes.  Returns Err on a stray quote / unterminated field.
// ---------------------------------------------------------------------------------------------
pub fn csv_records(data: &[u8]) -> Result<Vec<Vec<(String, bool)>>, String> {
    let mut recs: Vec<Vec<(String, bool)>> = Vec::new();
    let mut rec: Vec<(String, bool)> = Vec::new();
    let mut i = 0usize;
    let n = data.len();
    if n == 0 {
        return Ok(recs);
    }
    loop {
        // parse one field starting at i
        let mut field: Vec<u8> = Vec::new();
        let mut quoted = false;
        if i < n && data[i] == b'"' {
            quoted = true;
            i += 1;
            loop {
                if i >= n {
                    return Err("unterminated quoted field".into());
                }
                if data[i] == b'"' {
                    if i + 1 < n && data[i + 1] == b'"' {
                        field.push(b'"');
                        i += 2;
                    } else {
                        i += 1;
                        break;
                    }
                } else {
                    field.push(data[i]);
                    i += 1;
                }
            }
            if i < n && !(data[i] == b',' || data[i] == b'\n' || data[i] == b'\r') {
                return Err(format!("text after closing quote at byte {i}"));
            }
        } else {
            while i < n && data[i] != b',' && data[i] != b'\n' && data[i] != b'\r' {
                if data[i] == b'"' {
                    return Err(format!("quote inside unquoted field at byte {i}"));
                }
                field.push(data[i]);
                i += 1;
            }
        }
        rec.push((String::from_utf8(field).map_err(|_| "field is not UTF-8".to_string())?, quoted));
        if i >= n {
            recs.push(std::mem::take(&mut rec));
            break;
        }
        match data[i] {
            b',' => {
                i += 1;
                if i >= n {
                    // trailing comma then EOF: one more empty field
                    rec.push((String::new(), false));
                    recs.push(std::mem::take(&mut rec));
                    break;
                }
            }
            b'\r' => {
                if i + 1 < n && data[i + 1] == b'\n' {
                    i += 2;
                } else {
                    return Err("bare CR".into());
                }
                recs.push(std::mem::take(&mut rec));
                if i >= n {
                    break;
                }
            }
            _ => {
                i += 1;
                recs.push(std::mem::take(&mut rec));
                if i >= n {
                    break;
                }
            }
        }
    }
    Ok(recs)
}

// ---------------------------------------------------------------------------------------------
// canonical rows
// ---------------------------------------------------------------------------------------------
fn fnv(h: &mut u64, bytes: &[u8]) {
    for b in bytes {
        *h ^= *b as u64;
        *h = h.wrapping_mul(0x100000001b3);
    }
}

/// Summary of a bag of canonical rows: count, order-independent hash (FNV over the sorted row strings) and the
/// sorted rows themselves when there are at most SMALL of them.
pub fn bag(rows: Vec<Value>) -> Value {
    let mut strs: Vec<String> = rows.iter().map(|r| r.to_string()).collect();
    strs.sort();
    let mut h: u64 = 0xcbf29ce484222325;
    for s in &strs {
        fnv(&mut h, s.as_bytes());
        fnv(&mut h, b"\n");
    }
    let mut o = json!({"n": strs.len(), "hash": format!("{h:016x}")});
    if strs.len() <= SMALL {
        o["rows"] = Value::Array(strs.iter().map(|s| serde_json::from_str(s).unwrap()).collect());
    }
    o
}

pub fn schema_json(s: &SchemaRef) -> Value {
    json!({
        "cols": s.fields().iter().map(|f| f.name().clone()).collect::<Vec<_>>(),
        "types": s.fields().iter().map(|f| sqlutil::type_name(f.data_type())).collect::<Vec<_>>(),
    })
}

pub fn batch_rows(batches: &[RecordBatch]) -> Vec<Value> {
    let mut rows = Vec::new();
    for b in batches {
        for i in 0..b.num_rows() {
            rows.push(Value::Array((0..b.num_columns()).map(|j| sqlutil::cell_json(b.column(j), i)).collect()));
        }
    }
    rows
}

/// The view of a canonical row that a CSV body can carry: NULL and the empty string are both the empty field.
/// The view of a canonical row that arrow's JSON writer can carry: a non-finite double is written as `null`.
pub fn json_view(rows: &[Value]) -> Vec<Value> {
    rows.iter()
        .map(|r| {
            Value::Array(
                r.as_array()
                    .unwrap()
                    .iter()
                    .map(|c| match c.as_array() {
                        Some(a) if a.len() == 2 && a[0] == "f" => {
                            let x = f64::from_bits(a[1].as_str().unwrap().parse::<u64>().unwrap());
                            if x.is_finite() { c.clone() } else { Value::Null }
                        }
                        _ => c.clone(),
                    })
                    .collect(),
            )
        })
        .collect()
}

pub fn csv_view(rows: &[Value]) -> Vec<Value> {
    rows.iter()
        .map(|r| {
            Value::Array(
                r.as_array()
                    .unwrap()
                    .iter()
                    .map(|c| if c.as_str() == Some("") { Value::Null } else { c.clone() })
                    .collect(),
            )
        })
        .collect()
}

fn days_from_ymd(s: &str) -> Option<i64> {
    let d = chrono::NaiveDate::parse_from_str(s, "%Y-%m-%d").ok()?;
    Some((d - chrono::NaiveDate::from_ymd_opt(1970, 1, 1).unwrap()).num_days())
}

/// One text cell (CSV field, or the text of a JSON scalar) -> canonical cell, by the column's Arrow type.
fn typed_text(t: &DataType, s: &str) -> Value {
    match t {
        DataType::Int64 | DataType::Int32 | DataType::Int16 | DataType::Int8 | DataType::UInt32 | DataType::UInt64 => {
            match s.parse::<i128>() {
                Ok(v) => json!(v as i64),
                Err(_) => json!(["undecodable", s]),
            }
        }
        DataType::Float64 | DataType::Float32 => match s.parse::<f64>() {
            Ok(v) => json!(["f", v.to_bits().to_string()]),
            Err(_) => json!(["undecodable", s]),
        },
        DataType::Boolean => match s {
            "true" => json!(true),
            "false" => json!(false),
            _ => json!(["undecodable", s]),
        },
        DataType::Date32 => match days_from_ymd(s) {
            Some(d) => json!(["d", d]),
            None => json!(["undecodable", s]),
        },
        DataType::Utf8 | DataType::LargeUtf8 => json!(s),
        other => json!(["o", format!("{other:?}"), s]),
    }
}

/// CSV body -> (header names, canonical rows) using `types` (the types of the engine's own result for the
/// statement).  An empty field is NULL (the CSV writer renders NULL and '' alike; see csv_view).
pub fn decode_csv(body: &[u8], types: &[DataType]) -> Value {
    let recs = match csv_records(body) {
        Ok(r) => r,
        Err(e) => return json!({"decode_error": e}),
    };
    if recs.is_empty() {
        return json!({"header": Value::Null, "bag": bag(vec![]), "width_ok": true});
    }
    let header: Vec<String> = recs[0].iter().map(|(s, _)| s.clone()).collect();
    let mut rows = Vec::new();
    let mut width_ok = true;
    for r in &recs[1..] {
        if r.len() != header.len() {
            width_ok = false;
        }
        let cells: Vec<Value> = r
            .iter()
            .enumerate()
            .map(|(j, (s, _q))| {
                if s.is_empty() {
                    Value::Null
                } else {
                    match types.get(j) {
                        Some(t) => typed_text(t, s),
                        None => json!(s),
                    }
                }
            })
            .collect();
        rows.push(Value::Array(cells));
    }
    json!({"header": header, "bag": bag(rows), "width_ok": width_ok})
}

/// serde_json's default f64 parser is not correctly rounded (that needs its `float_roundtrip` feature), so number
/// tokens are handed to Rust's std parser instead: every number token outside a string is re-written as the string
/// "\u0001<token>" before serde_json sees the document.
pub fn quote_numbers(body: &[u8]) -> Vec<u8> {
    let mut out = Vec::with_capacity(body.len() + body.len() / 4);
    let mut i = 0;
    let n = body.len();
    while i < n {
        let c = body[i];
        if c == b'"' {
            out.push(c);
            i += 1;
            while i < n {
                out.push(body[i]);
                if body[i] == b'\\' && i + 1 < n {
                    out.push(body[i + 1]);
                    i += 2;
                    continue;
                }
                if body[i] == b'"' {
                    i += 1;
                    break;
                }
                i += 1;
            }
        } else if c == b'-' || c.is_ascii_digit() {
            out.extend_from_slice(b"\"\\u0001");
            while i < n && (body[i] == b'-' || body[i] == b'+' || body[i] == b'.' || body[i] == b'e' || body[i] == b'E' || body[i].is_ascii_digit()) {
                out.push(body[i]);
                i += 1;
            }
            out.push(b'"');
        } else {
            out.push(c);
            i += 1;
        }
    }
    out
}

/// JSON body (array of objects; a NULL is an absent key) -> canonical rows in the column order `names`.
pub fn decode_json(body: &[u8], names: &[String], types: &[DataType]) -> Value {
    // the document must be JSON as it stands
    if let Err(e) = serde_json::from_slice::<Value>(body) {
        return json!({"decode_error": e.to_string()});
    }
    let v: Value = match serde_json::from_slice(&quote_numbers(body)) {
        Ok(v) => v,
        Err(e) => return json!({"decode_error": format!("after number quoting: {e}")}),
    };
    let Some(arr) = v.as_array() else {
        return json!({"decode_error": "not an array"});
    };
    let mut rows = Vec::new();
    let mut unknown_keys = false;
    for o in arr {
        let Some(obj) = o.as_object() else {
            return json!({"decode_error": "element is not an object"});
        };
        for k in obj.keys() {
            if !names.contains(k) {
                unknown_keys = true;
            }
        }
        let cells: Vec<Value> = names
            .iter()
            .zip(types.iter())
            .map(|(name, t)| match obj.get(name) {
                None | Some(Value::Null) => Value::Null,
                Some(Value::String(s)) if s.starts_with('\u{1}') => match t {
                    // a JSON number where the engine has a string column would be a wrong body
                    DataType::Utf8 | DataType::LargeUtf8 => json!(["undecodable", &s[1..]]),
                    _ => typed_text(t, &s[1..]),
                },
                Some(Value::String(s)) => match t {
                    DataType::Utf8 | DataType::LargeUtf8 => json!(s),
                    DataType::Date32 => typed_text(t, s),
                    _ => json!(["undecodable", s]),
                },
                Some(Value::Bool(b)) => match t {
                    DataType::Boolean => json!(b),
                    _ => json!(["undecodable", b.to_string()]),
                },
                Some(other) => json!(["undecodable", other.to_string()]),
            })
            .collect();
        rows.push(Value::Array(cells));
    }
    json!({"bag": bag(rows), "unknown_keys": unknown_keys})
}

pub fn decode_arrow(body: &[u8]) -> Value {
    let r = arrow::ipc::reader::StreamReader::try_new(std::io::Cursor::new(body), None);
    let mut reader = match r {
        Ok(r) => r,
        Err(e) => return json!({"decode_error": e.to_string()}),
    };
    let schema = reader.schema();
    let mut batches = Vec::new();
    for b in &mut reader {
        match b {
            Ok(b) => batches.push(b),
            Err(e) => return json!({"decode_error": e.to_string()}),
        }
    }
    json!({"schema": schema_json(&schema), "bag": bag(batch_rows(&batches)),
           "batch_rows": batches.iter().map(|b| b.num_rows()).collect::<Vec<_>>()})
}

// ---------------------------------------------------------------------------------------------
// the world
// ---------------------------------------------------------------------------------------------
pub struct Node {
    pub handle: Option<ServerHandle>,
    pub http: String,
    pub flight: Option<String>,
    pub release: Option<mpsc::Sender<()>>,
    pub data: String,
    /// Some(counter of POST /fragment requests received) for a test-owned "silent" peer: a TCP socket that accepts, holds every
    /// /healthz probe open forever (so the peer stays `Unknown` in every member's view) and answers 500 to anything else
    pub silent: Option<Arc<AtomicUsize>>,
}

fn spawn_silent_peer() -> (String, Arc<AtomicUsize>) {
    use std::io::{Read, Write};
    let l = std::net::TcpListener::bind("127.0.0.1:0").unwrap();
    let addr = format!("127.0.0.1:{}", l.local_addr().unwrap().port());
    let frags = Arc::new(AtomicUsize::new(0));
    let f2 = frags.clone();
    std::thread::spawn(move || {
        for c in l.incoming() {
            let Ok(mut s) = c else { break };
            let f3 = f2.clone();
            std::thread::spawn(move || {
                let mut buf = Vec::new();
                let mut tmp = [0u8; 4096];
                loop {
                    match s.read(&mut tmp) {
                        Ok(0) | Err(_) => return,
                        Ok(n) => {
                            buf.extend_from_slice(&tmp[..n]);
                            if buf.windows(4).any(|w| w == b"\r\n\r\n") {
                                break;
                            }
                        }
                    }
                }
                let head = String::from_utf8_lossy(&buf).to_string();
                let first = head.lines().next().unwrap_or("").to_string();
                if first.contains("/healthz") {
                    // the probe is never answered and never closed
                    loop {
                        std::thread::sleep(Duration::from_secs(3600));
                    }
                }
                let hl = buf.windows(4).position(|w| w == b"\r\n\r\n").unwrap() + 4;
                let cl = head
                    .lines()
                    .find_map(|l| l.to_ascii_lowercase().strip_prefix("content-length:").map(|v| v.trim().parse::<usize>().unwrap_or(0)))
                    .unwrap_or(0);
                while buf.len() < hl + cl {
                    match s.read(&mut tmp) {
                        Ok(0) | Err(_) => break,
                        Ok(n) => buf.extend_from_slice(&tmp[..n]),
                    }
                }
                if first.contains("/fragment") {
                    f3.fetch_add(1, Ordering::SeqCst);
                }
                let body = b"{\"error\":\"verif: silent peer\",\"status\":500}";
                let _ = write!(s, "HTTP/1.1 500 Internal Server Error\r\nContent-Type: application/json\r\nContent-Length: {}\r\nConnection: close\r\n\r\n", body.len());
                let _ = s.write_all(body);
            });
        }
    });
    (addr, frags)
}

pub struct World {
    // field order = drop order: the nodes (and the Senders that gate "block" loaders) go before the runtime,
    // whose drop waits for blocking tasks
    pub clusters: HashMap<String, Vec<Node>>,
    pub local: Option<ExecutionContext>,
    pub dir: Option<tempfile::TempDir>,
    pub rt: tokio::runtime::Runtime,
}

fn opts(peers: Vec<String>, node_id: u64, probe_timeout_ms: u64) -> ServeOptions {
    ServeOptions {
        bind: "127.0.0.1:0".into(),
        advertise: None,
        node_id: Some(node_id),
        peers,
        peers_dns: None,
        peers_dns_port: None,
        discovery_interval: Duration::from_millis(150),
        probe_timeout: Duration::from_millis(probe_timeout_ms),
        drain: Duration::ZERO,
        shutdown_grace: Duration::from_secs(1),
        flight_bind: None,
    }
}

fn loader(kind: &str, dir_a: PathBuf, dir_b: PathBuf, names: Vec<String>, mem: Vec<Value>, gate: Option<mpsc::Receiver<()>>) -> TableLoader {
    let kind = kind.to_string();
    // the Receiver is moved into the closure behind a Mutex so the closure stays Send
    let gate = Mutex::new(gate);
    Box::new(move || {
        if kind == "fail" {
            return Err(query_engine::error::QueryError::Execution("verif: injected table load failure".into()));
        }
        if kind == "block" {
            if let Some(rx) = gate.lock().unwrap().take() {
                let _ = rx.recv();
            }
        }
        let dir = if kind == "B" { dir_b } else { dir_a };
        let mut c = ExecutionContext::new();
        for n in &names {
            c.register_parquet(n, dir.join(n))?;
        }
        // memory tables (a spec without "parquet"): the same batches on every node
        for t in &mem {
            c.register_table(t["name"].as_str().unwrap(), sqlutil::schema_of(t), sqlutil::batches_of(t));
        }
        Ok(c)
    })
}

impl World {
    pub fn new() -> Self {
        World { rt: qe_verif_harness::runtime(), dir: None, local: None, clusters: HashMap::new() }
    }

    pub fn op(&mut self, v: &Value) -> Value {
        match v["op"].as_str().unwrap_or("") {
            "setup" => self.setup(v),
            "stmt" => self.stmt(v),
            "http" => self.http_op(v),
            "ticket" => self.ticket_op(v),
            "descriptor" => self.descriptor_op(v),
            "kill" => self.kill(v),
            "release" => self.release(v),
            "members" => {
                let n = self.node(v);
                json!({"members": members_json(n)})
            }
            other => json!({"harness_error": format!("unknown op {other}")}),
        }
    }

    fn node(&self, v: &Value) -> &Node {
        let c = v["cluster"].as_str().unwrap();
        let i = v["node"].as_u64().unwrap_or(0) as usize;
        &self.clusters.get(c).unwrap_or_else(|| panic!("no cluster {c}"))[i]
    }

    fn setup(&mut self, v: &Value) -> Value {
        let dir = tempfile::tempdir().unwrap();
        let dir_a = dir.path().join("A");
        let dir_b = dir.path().join("B");
        std::fs::create_dir_all(&dir_a).unwrap();
        std::fs::create_dir_all(&dir_b).unwrap();
        let mut local = ExecutionContext::new();
        let mut names = Vec::new();
        let mut mem: Vec<Value> = Vec::new();
        for t in v["tables"].as_array().unwrap() {
            let n = t["name"].as_str().unwrap().to_string();
            if t.get("parquet").map(|p| !p.is_null()).unwrap_or(false) {
                sqlutil::write_parquet(t, &dir_a);
                local.register_parquet(&n, dir_a.join(&n)).unwrap();
                names.push(n);
            } else {
                local.register_table(&n, sqlutil::schema_of(t), sqlutil::batches_of(t));
                mem.push(t.clone());
            }
        }
        for t in v["alt_tables"].as_array().unwrap() {
            if t.get("parquet").map(|p| !p.is_null()).unwrap_or(false) {
                sqlutil::write_parquet(t, &dir_b);
            }
        }
        let mut info = serde_json::Map::new();
        let mut next_id: u64 = 1;
        let clusters = v["clusters"].as_object().unwrap().clone();
        for (cname, spec) in clusters.iter() {
            let mut nodes = Vec::new();
            // a cluster with a silent peer needs a probe that never times out, or the peer would turn Down
            let probe_ms = spec["probe_timeout_ms"].as_u64().unwrap_or(5000);
            for n in spec["nodes"].as_array().unwrap() {
                let kind = n["data"].as_str().unwrap_or("A").to_string();
                if kind == "silent" {
                    let (addr, frags) = spawn_silent_peer();
                    nodes.push(Node { handle: None, http: addr, flight: None, release: None, data: kind, silent: Some(frags) });
                    continue;
                }
                let (tx, rx) = mpsc::channel::<()>();
                let gate = if kind == "block" { Some(rx) } else { None };
                let l = loader(&kind, dir_a.clone(), dir_b.clone(), names.clone(), mem.clone(), gate);
                let h = self.rt.block_on(query_engine::distributed::spawn(opts(vec![], next_id, probe_ms), l)).expect("spawn");
                next_id += 1;
                let http = format!("127.0.0.1:{}", h.local_addr().port());
                let flight = h.flight_addr().map(|a| format!("127.0.0.1:{}", a.port()));
                nodes.push(Node { handle: Some(h), http, flight, release: if kind == "block" { Some(tx) } else { None }, data: kind, silent: None });
            }
            let mut peers: Vec<String> = nodes.iter().map(|n| n.http.clone()).collect();
            if let Some(extra) = spec["extra_peers"].as_array() {
                for e in extra {
                    peers.push(e.as_str().unwrap().to_string());
                }
            }
            for n in nodes.iter().filter(|n| n.handle.is_some()) {
                n.handle.as_ref().unwrap().set_peers(peers.clone());
            }
            self.clusters.insert(cname.clone(), nodes);
        }
        // wait until every node that can load has loaded and every node has probed every live peer
        let mut settled = false;
        for _ in 0..400 {
            settled = self.clusters.values().all(|nodes| {
                let silent: Vec<&String> = nodes.iter().filter(|n| n.silent.is_some()).map(|n| &n.http).collect();
                nodes.iter().filter(|n| n.handle.is_some()).all(|n| {
                    let st = n.handle.as_ref().unwrap().state();
                    let loaded_ok = match n.data.as_str() {
                        "fail" => st.load_error().is_some(),
                        "block" => true,
                        _ => st.tables_loaded(),
                    };
                    let ms = st.membership.members();
                    let peers_seen = st.membership.resolved()
                        && ms.len() >= nodes.len()
                        && ms.iter().all(|m| m.is_self || silent.contains(&&m.address) || m.status != PeerStatus::Unknown);
                    loaded_ok && peers_seen
                })
            });
            if settled {
                break;
            }
            std::thread::sleep(Duration::from_millis(25));
        }
        for (cname, nodes) in self.clusters.iter() {
            info.insert(
                cname.clone(),
                Value::Array(
                    nodes
                        .iter()
                        .map(|n| json!({"http": n.http, "flight": n.flight, "data": n.data, "members": members_json(n)}))
                        .collect(),
                ),
            );
        }
        self.dir = Some(dir);
        self.local = Some(local);
        json!({"setup": true, "settled": settled, "clusters": info})
    }

    fn kill(&mut self, v: &Value) -> Value {
        let c = v["cluster"].as_str().unwrap().to_string();
        let j = v["node"].as_u64().unwrap() as usize;
        let nodes = self.clusters.get_mut(&c).unwrap();
        let addr = nodes[j].http.clone();
        if let Some(h) = nodes[j].handle.take() {
            if let Some(tx) = nodes[j].release.take() {
                let _ = tx.send(());
            }
            self.rt.block_on(h.shutdown());
        }
        // wait until every surviving node of the cluster has seen it Down
        let mut seen = false;
        for _ in 0..400 {
            seen = nodes.iter().filter(|n| n.handle.is_some()).all(|n| {
                n.handle.as_ref().unwrap().state().membership.members().iter().any(|m| m.address == addr && m.status == PeerStatus::Down)
            });
            if seen {
                break;
            }
            std::thread::sleep(Duration::from_millis(25));
        }
        json!({"killed": j, "seen_down": seen})
    }

    fn release(&mut self, v: &Value) -> Value {
        let c = v["cluster"].as_str().unwrap().to_string();
        let j = v["node"].as_u64().unwrap() as usize;
        let nodes = self.clusters.get_mut(&c).unwrap();
        if let Some(tx) = nodes[j].release.take() {
            let _ = tx.send(());
        }
        let mut loaded = false;
        for _ in 0..400 {
            loaded = nodes[j].handle.as_ref().unwrap().state().tables_loaded();
            if loaded {
                break;
            }
            std::thread::sleep(Duration::from_millis(25));
        }
        json!({"released": j, "loaded": loaded})
    }

    // ------------------------------------------------------------------ HTTP
    fn http_raw(&self, addr: &str, method: &str, path: &str, body: &[u8]) -> Result<query_engine::distributed::HttpResponse, String> {
        self.rt
            .block_on(query_engine::distributed::http_client::request(
                addr,
                method,
                path,
                Some("text/plain; charset=utf-8"),
                Some(body),
                Duration::from_secs(120),
            ))
            .map_err(|e| e.to_string())
    }

    fn http_sql(&self, n: &Node, qs: &str, sql: &str, names: &[String], types: &[DataType]) -> Value {
        let path = if qs.is_empty() { "/sql".to_string() } else { format!("/sql?{qs}") };
        let r = match self.http_raw(&n.http, "POST", &path, sql.as_bytes()) {
            Ok(r) => r,
            Err(e) => return json!({"qs": qs, "client_error": e}),
        };
        let mut o = response_json(&r);
        o["qs"] = json!(qs);
        if r.status == 200 {
            let ct = r.header("content-type").unwrap_or("").to_string();
            if ct.starts_with("application/vnd.apache.arrow.stream") {
                o["format"] = json!("arrow");
                o["decoded"] = decode_arrow(&r.body);
            } else if ct.starts_with("application/json") {
                o["format"] = json!("json");
                o["decoded"] = decode_json(&r.body, names, types);
            } else if ct.starts_with("text/csv") {
                o["format"] = json!("csv");
                o["decoded"] = decode_csv(&r.body, types);
            } else {
                o["format"] = json!(ct);
            }
            o["body_len"] = json!(r.body.len());
        }
        o
    }

    fn http_op(&self, v: &Value) -> Value {
        let n = self.node(v);
        let body = bytes_spec(&v["body"]);
        let method = v["method"].as_str().unwrap_or("POST");
        match self.http_raw(&n.http, method, v["path"].as_str().unwrap(), &body) {
            Ok(r) => {
                let mut o = response_json(&r);
                o["loaded"] = json!(n.handle.as_ref().map(|h| h.state().tables_loaded()));
                o["load_error"] = json!(n.handle.as_ref().and_then(|h| h.state().load_error()));
                if r.status != 200 || r.body.len() < 4000 {
                    o["text"] = json!(r.text().chars().take(400).collect::<String>());
                }
                o
            }
            Err(e) => json!({"client_error": e}),
        }
    }

    // ------------------------------------------------------------------ Flight
    fn flight_client(&self, n: &Node) -> Result<FlightServiceClient<tonic::transport::Channel>, String> {
        let addr = n.flight.clone().ok_or("flight disabled")?;
        self.rt.block_on(async move {
            let ch = tonic::transport::Endpoint::from_shared(format!("http://{addr}"))
                .map_err(|e| e.to_string())?
                .connect()
                .await
                .map_err(|e| e.to_string())?;
            Ok(FlightServiceClient::new(ch).max_decoding_message_size(64 * 1024 * 1024).max_encoding_message_size(64 * 1024 * 1024))
        })
    }

    /// DoGet on raw ticket bytes: every message's kind / rows / app_metadata, the decoded rows, the trailer.
    fn do_get(&self, client: &mut FlightServiceClient<tonic::transport::Channel>, ticket: Vec<u8>) -> Value {
        self.rt.block_on(async move {
            let stream = match client.do_get(Ticket::new(ticket)).await {
                Ok(s) => s.into_inner(),
                Err(st) => return status_json(&st),
            };
            let mut dec = FlightDataDecoder::new(stream.map_err(FlightError::from));
            let mut kinds: Vec<String> = Vec::new();
            let mut msg_rows: Vec<usize> = Vec::new();
            let mut meta_at: Vec<usize> = Vec::new();
            let mut last_meta: Option<Vec<u8>> = None;
            let mut schema: Option<SchemaRef> = None;
            let mut batches = Vec::new();
            let mut idx = 0usize;
            while let Some(item) = dec.next().await {
                let d = match item {
                    Ok(d) => d,
                    Err(e) => return json!({"stream_error": e.to_string()}),
                };
                if !d.inner.app_metadata.is_empty() {
                    meta_at.push(idx);
                    last_meta = Some(d.inner.app_metadata.to_vec());
                }
                match d.payload {
                    DecodedPayload::None => kinds.push("none".into()),
                    DecodedPayload::Schema(s) => {
                        kinds.push("schema".into());
                        schema = Some(s);
                    }
                    DecodedPayload::RecordBatch(b) => {
                        kinds.push("batch".into());
                        msg_rows.push(b.num_rows());
                        batches.push(b);
                    }
                }
                idx += 1;
            }
            let trailer: Value = last_meta
                .as_ref()
                .and_then(|m| serde_json::from_slice::<Value>(m).ok())
                .map(|mut t| {
                    // the full distribution record is large; keep what the check compares
                    if let Some(o) = t.as_object_mut() {
                        o.remove("distribution");
                    }
                    t
                })
                .unwrap_or(Value::Null);
            json!({
                "ok": true,
                "n_messages": idx,
                "first_kind": kinds.first(),
                "last_kind": kinds.last(),
                "n_schema_msgs": kinds.iter().filter(|k| *k == "schema").count(),
                "msg_rows": msg_rows,
                "meta_at": meta_at,
                "trailer": trailer,
                "schema": schema.as_ref().map(schema_json),
                "bag": bag(batch_rows(&batches)),
            })
        })
    }

    fn flight_sequence(&self, n: &Node, sql: &str, mode: Option<&str>) -> Value {
        let mut client = match self.flight_client(n) {
            Ok(c) => c,
            Err(e) => return json!({"mode": mode, "client_error": e}),
        };
        let cmd: Vec<u8> = match mode {
            None => sql.as_bytes().to_vec(),
            Some(m) => json!({"sql": sql, "mode": m}).to_string().into_bytes(),
        };
        let info = self.rt.block_on(client.get_flight_info(FlightDescriptor::new_cmd(cmd.clone())));
        let gs = self.rt.block_on(client.get_schema(FlightDescriptor::new_cmd(cmd)));
        let mut o = json!({"mode": mode});
        o["get_schema"] = match gs {
            Ok(r) => match arrow::datatypes::Schema::try_from(&r.into_inner()) {
                Ok(s) => json!({"ok": true, "schema": schema_json(&std::sync::Arc::new(s))}),
                Err(e) => json!({"decode_error": e.to_string()}),
            },
            Err(st) => status_json(&st),
        };
        match info {
            Err(st) => {
                o["info"] = status_json(&st);
            }
            Ok(r) => {
                let info = r.into_inner();
                let schema = info.clone().try_decode_schema();
                let tickets: Vec<Vec<u8>> = info.endpoint.iter().filter_map(|e| e.ticket.as_ref().map(|t| t.ticket.to_vec())).collect();
                o["info"] = json!({
                    "ok": true,
                    "schema": schema.ok().map(|s| schema_json(&std::sync::Arc::new(s))),
                    "n_endpoints": info.endpoint.len(),
                    "n_locations": info.endpoint.iter().map(|e| e.location.len()).sum::<usize>(),
                    "ticket_len": tickets.first().map(|t| t.len()),
                    "ticket": tickets.first().filter(|t| t.len() <= 600).map(|t| String::from_utf8_lossy(t).into_owned()),
                });
                if let Some(t) = tickets.into_iter().next() {
                    o["get"] = self.do_get(&mut client, t);
                }
            }
        }
        o
    }

    fn ticket_op(&self, v: &Value) -> Value {
        let n = self.node(v);
        let mut client = match self.flight_client(n) {
            Ok(c) => c,
            Err(e) => return json!({"client_error": e}),
        };
        let t = bytes_spec(&v["ticket"]);
        let len = t.len();
        let mut o = self.do_get(&mut client, t);
        o["ticket_len"] = json!(len);
        o
    }

    fn descriptor_op(&self, v: &Value) -> Value {
        let n = self.node(v);
        let mut client = match self.flight_client(n) {
            Ok(c) => c,
            Err(e) => return json!({"client_error": e}),
        };
        let d = if v["path"].is_array() {
            FlightDescriptor::new_path(v["path"].as_array().unwrap().iter().map(|s| s.as_str().unwrap().to_string()).collect())
        } else {
            FlightDescriptor::new_cmd(bytes_spec(&v["cmd"]))
        };
        let info = self.rt.block_on(client.get_flight_info(d.clone()));
        let gs = self.rt.block_on(client.get_schema(d));
        json!({
            "info": match info {
                Ok(r) => {
                    let i = r.into_inner();
                    let t = i.endpoint.first().and_then(|e| e.ticket.as_ref()).map(|t| t.ticket.to_vec());
                    json!({"ok": true, "ticket_len": t.as_ref().map(|t| t.len()),
                           "ticket": t.filter(|t| t.len() <= 600).map(|t| String::from_utf8_lossy(&t).into_owned())})
                }
                Err(st) => status_json(&st),
            },
            "get_schema": match gs {
                Ok(r) => match arrow::datatypes::Schema::try_from(&r.into_inner()) {
                    Ok(s) => json!({"ok": true, "schema": schema_json(&std::sync::Arc::new(s))}),
                    Err(e) => json!({"decode_error": e.to_string()}),
                },
                Err(st) => status_json(&st),
            },
        })
    }

    // ------------------------------------------------------------------ one statement through every door
    fn stmt(&self, v: &Value) -> Value {
        let n = self.node(v);
        let sql_owned = String::from_utf8(bytes_spec(&v["sql"])).expect("sql must be UTF-8");
        let sql = sql_owned.as_str();
        let local_ctx = self.local.as_ref().unwrap();
        // the reference: ExecutionContext::sql on the same Parquet data, in this process
        let local_res = std::panic::catch_unwind(std::panic::AssertUnwindSafe(|| self.rt.block_on(local_ctx.sql(sql))));
        let (local, names, types): (Value, Vec<String>, Vec<DataType>) = match local_res {
            Ok(Ok(res)) => {
                let schema = res.batches.first().map(|b| b.schema()).unwrap_or_else(|| res.schema.clone());
                let rows = batch_rows(&res.batches);
                let has_empty_str = rows.iter().any(|r| r.as_array().unwrap().iter().any(|c| c.as_str() == Some("")));
                let nonfinite = res.batches.iter().any(|b| {
                    b.columns().iter().any(|c| {
                        c.as_any().downcast_ref::<arrow::array::Float64Array>().map(|a| a.iter().flatten().any(|x| !x.is_finite())).unwrap_or(false)
                    })
                });
                let names: Vec<String> = schema.fields().iter().map(|f| f.name().clone()).collect();
                let mut dup = names.clone();
                dup.sort();
                dup.dedup();
                (
                    json!({"ok": true, "schema": schema_json(&schema), "plan_schema": schema_json(&res.schema),
                           "row_count": res.row_count, "bag": bag(rows.clone()), "csv_bag": bag(csv_view(&rows)), "json_bag": bag(json_view(&rows)),
                           "has_empty_str": has_empty_str, "has_nonfinite": nonfinite, "dup_names": dup.len() != names.len(),
                           "batch_rows": res.batches.iter().map(|b| b.num_rows()).collect::<Vec<_>>()}),
                    names,
                    schema.fields().iter().map(|f| f.data_type().clone()).collect(),
                )
            }
            Ok(Err(e)) => (json!({"err": e.to_string(), "kind": format!("{e:?}").split('(').next().unwrap_or("").to_string()}), vec![], vec![]),
            Err(p) => (json!({"panic": qe_verif_harness::panic_message(p)}), vec![], vec![]),
        };
        let mut plan_error = Value::Null;
        let plannable = match std::panic::catch_unwind(std::panic::AssertUnwindSafe(|| query_engine::distributed::plan_distributed(local_ctx, sql))) {
            Ok(Ok(_)) => json!(true),
            Ok(Err(e)) => {
                plan_error = json!(e.to_string());
                json!(false)
            }
            Err(_) => json!("panic"),
        };
        let silent_count = |w: &World| -> usize {
            w.clusters.get(v["cluster"].as_str().unwrap()).map(|ns| ns.iter().filter_map(|x| x.silent.as_ref()).map(|c| c.load(Ordering::SeqCst)).sum()).unwrap_or(0)
        };
        let frag_before = silent_count(self);
        let before = members_json(n);
        // per request: how many fragments the cluster's silent (Unknown) peers were sent while it ran
        let http: Vec<Value> = v["http"]
            .as_array()
            .map(|a| {
                a.iter()
                    .map(|q| {
                        let f0 = silent_count(self);
                        let mut r = self.http_sql(n, q.as_str().unwrap(), sql, &names, &types);
                        r["silent_fragments"] = json!(silent_count(self) - f0);
                        r
                    })
                    .collect()
            })
            .unwrap_or_default();
        let flight: Vec<Value> = v["flight"].as_array().map(|a| a.iter().map(|m| self.flight_sequence(n, sql, m.as_str())).collect()).unwrap_or_default();
        let after = members_json(n);
        let frag_after = silent_count(self);
        json!({"silent_fragments": frag_after - frag_before, "local": local, "plannable": plannable, "plan_error": plan_error, "members": before, "members_after": after,
               "loaded": n.handle.as_ref().map(|h| h.state().tables_loaded()),
               "load_error": n.handle.as_ref().and_then(|h| h.state().load_error()),
               "http": http, "flight": flight})
    }
}

pub fn members_json(n: &Node) -> Value {
    match &n.handle {
        None => Value::Null,
        Some(h) => {
            let ms = h.state().membership.members();
            let up = ms.iter().filter(|m| m.is_self || m.status == PeerStatus::Up).count();
            let unknown = ms.iter().filter(|m| !m.is_self && m.status == PeerStatus::Unknown).count();
            let down = ms.iter().filter(|m| !m.is_self && m.status == PeerStatus::Down).count();
            json!({"up": up, "unknown": unknown, "down": down, "total": ms.len(),
                   "status": ms.iter().map(|m| format!("{}:{:?}", if m.is_self { "self" } else { "peer" }, m.status)).collect::<Vec<_>>()})
        }
    }
}

fn response_json(r: &query_engine::distributed::HttpResponse) -> Value {
    let mut h = serde_json::Map::new();
    for (k, val) in &r.headers {
        if k.starts_with("x-qe-") && k != "x-qe-distribution" || k == "content-type" {
            h.insert(k.clone(), json!(val));
        }
    }
    let mut o = json!({"status": r.status, "headers": h});
    if r.status != 200 {
        let e: Option<Value> = serde_json::from_slice(&r.body).ok();
        o["error"] = json!(e.as_ref().and_then(|v| v.get("error")).and_then(|e| e.as_str()).map(|s| s.chars().take(300).collect::<String>()));
        o["error_status"] = json!(e.as_ref().and_then(|v| v.get("status")).and_then(|e| e.as_u64()));
    }
    o
}

fn status_json(st: &tonic::Status) -> Value {
    json!({"ok": false, "code": format!("{:?}", st.code()), "message": st.message().chars().take(300).collect::<String>()})
}

/// string | {"bytes":[..]} | {"prefix":s,"pad":n,"byte":b,"suffix":s}
pub fn bytes_spec(v: &Value) -> Vec<u8> {
    match v {
        Value::String(s) => s.as_bytes().to_vec(),
        Value::Object(o) => {
            if let Some(b) = o.get("bytes") {
                return b.as_array().unwrap().iter().map(|x| x.as_u64().unwrap() as u8).collect();
            }
            let mut out = o.get("prefix").and_then(|s| s.as_str()).unwrap_or("").as_bytes().to_vec();
            let n = o.get("pad").and_then(|n| n.as_u64()).unwrap_or(0) as usize;
            let b = o.get("byte").and_then(|n| n.as_u64()).unwrap_or(32) as u8;
            out.extend(std::iter::repeat(b).take(n));
            out.extend_from_slice(o.get("suffix").and_then(|s| s.as_str()).unwrap_or("").as_bytes());
            out
        }
        _ => Vec::new(),
    }
}
