//! Correspondence harness library. Each property has its own binary under src/bin/; a binary
//! reads cases as JSON lines on stdin, runs the REAL engine code (path dependency on /repo,
//! built with --cfg qe_verif) and prints exactly one JSON line per case. Panics are caught
//! and reported as {"panic": msg}.
use serde_json::{json, Value};
use std::io::{BufRead, Write};

pub mod sqlutil;

pub fn panic_message(p: Box<dyn std::any::Any + Send>) -> String {
    if let Some(s) = p.downcast_ref::<String>() {
        s.clone()
    } else if let Some(s) = p.downcast_ref::<&str>() {
        s.to_string()
    } else {
        "panic".to_string()
    }
}

/// Run `f` on every JSON line of stdin.
pub fn run_lines<F: FnMut(&Value) -> Value>(mut f: F) {
    std::panic::set_hook(Box::new(|_| {}));
    let stdin = std::io::stdin();
    let stdout = std::io::stdout();
    let mut out = std::io::BufWriter::new(stdout.lock());
    for line in stdin.lock().lines() {
        let line = line.expect("stdin");
        if line.trim().is_empty() {
            continue;
        }
        let v: Value = match serde_json::from_str(&line) {
            Ok(v) => v,
            Err(e) => {
                writeln!(out, "{}", json!({"harness_error": format!("bad json: {e}")})).unwrap();
                continue;
            }
        };
        let r = std::panic::catch_unwind(std::panic::AssertUnwindSafe(|| f(&v)));
        let o = match r {
            Ok(o) => o,
            Err(p) => json!({"panic": panic_message(p)}),
        };
        writeln!(out, "{}", o).unwrap();
        out.flush().unwrap();
    }
}

pub fn runtime() -> tokio::runtime::Runtime {
    tokio::runtime::Builder::new_multi_thread()
        .worker_threads(4)
        .enable_all()
        .build()
        .unwrap()
}
