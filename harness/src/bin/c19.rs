//! C19: histories of write / rewrite (controlled mtime, length) / query on one Parquet path, through the
//! real engine with its process-global footer caches and the IPC sidecar cache.
//!
//! case: {"ops":[op...], "dir": optional existing directory (used by child processes)}
//! ops:
//!   {"op":"write","content":k,"rows":n,"rg":r,"mtime":[secs,nanos]|null,"strcol":"dict"|"plain"|null}
//!        table file <dir>/t.parquet := rows a = k*1000000+i (i<n) [, s = "v<k>_<i%3>"], row groups of r rows,
//!        no compression, PLAIN int encoding (so the length depends on n, r only); then set the mtime
//!   {"op":"touch","mtime":[secs,nanos]}
//!   {"op":"query","sql":"SELECT a FROM t"}         fresh ExecutionContext, register_parquet, run
//!   {"op":"stat"}                                  file len/mtime, sidecar marker
//!   {"op":"rm_sidecar"}
//!   {"op":"child","env":{"QE_IPC_CACHE":"1"},"ops":[...]}   run ops in a child process on the same dir
//! output: {"results":[...one per op...], "mode": QE_IPC_CACHE as seen by this process}
use arrow::array::{ArrayRef, Int64Array, StringArray};
use arrow::datatypes::{DataType, Field, Schema};
use arrow::record_batch::RecordBatch;
use parquet::arrow::ArrowWriter;
use parquet::file::properties::{EnabledStatistics, WriterProperties};
use parquet::schema::types::ColumnPath;
use qe_verif_harness::sqlutil;
use serde_json::{json, Value};
use std::io::Write;
use std::path::{Path, PathBuf};
use std::sync::Arc;
use std::time::{Duration, SystemTime, UNIX_EPOCH};

fn main() {
    qe_verif_harness::run_lines(case)
}

fn table_path(dir: &Path) -> PathBuf {
    dir.join("t.parquet")
}

fn to_time(v: &Value) -> SystemTime {
    UNIX_EPOCH + Duration::new(v[0].as_u64().unwrap(), v[1].as_u64().unwrap() as u32)
}

fn set_mtime(p: &Path, t: SystemTime) {
    let f = std::fs::OpenOptions::new().write(true).open(p).unwrap();
    f.set_modified(t).unwrap();
}

fn write_table(dir: &Path, op: &Value) -> Value {
    let k = op["content"].as_i64().unwrap();
    let n = op["rows"].as_u64().unwrap() as usize;
    let rg = (op["rg"].as_u64().unwrap_or(1 << 20) as usize).max(1);
    let strcol = op["strcol"].as_str();
    let mut fields = vec![Field::new("a", DataType::Int64, true)];
    if strcol.is_some() {
        fields.push(Field::new("s", DataType::Utf8, true));
    }
    let schema = Arc::new(Schema::new(fields));
    let mut b = WriterProperties::builder()
        .set_max_row_group_size(rg)
        .set_statistics_enabled(EnabledStatistics::Chunk)
        .set_column_dictionary_enabled(ColumnPath::from("a"), false);
    if strcol == Some("plain") {
        b = b.set_column_dictionary_enabled(ColumnPath::from("s"), false);
    }
    let path = table_path(dir);
    // replace in place (same inode) unless "rename" is asked for
    let tmp = dir.join("t.parquet.tmp");
    let target = if op["rename"].as_bool().unwrap_or(false) { &tmp } else { &path };
    {
        let file = std::fs::File::create(target).unwrap();
        let mut w = ArrowWriter::try_new(file, schema.clone(), Some(b.build())).unwrap();
        let mut a = 0;
        while a < n {
            let e = (a + rg).min(n);
            let mut cols: Vec<ArrayRef> =
                vec![Arc::new(Int64Array::from((a..e).map(|i| k * 1_000_000 + i as i64).collect::<Vec<_>>()))];
            if strcol.is_some() {
                cols.push(Arc::new(StringArray::from(
                    (a..e).map(|i| format!("v{}_{}", k, i % 3)).collect::<Vec<_>>(),
                )));
            }
            w.write(&RecordBatch::try_new(schema.clone(), cols).unwrap()).unwrap();
            w.flush().unwrap();
            a = e;
        }
        w.close().unwrap();
    }
    if let Some(m) = op.get("mtime").filter(|m| !m.is_null()) {
        set_mtime(target, to_time(m));
    }
    if op["rename"].as_bool().unwrap_or(false) {
        std::fs::rename(&tmp, &path).unwrap();
    }
    stat(dir)
}

fn stat(dir: &Path) -> Value {
    let p = table_path(dir);
    let md = std::fs::metadata(&p).unwrap();
    let d = md.modified().unwrap().duration_since(UNIX_EPOCH).unwrap();
    let side = dir.join("t.parquet.qeipc");
    let marker = std::fs::read_to_string(side.join(".complete")).ok();
    let n_side = std::fs::read_dir(&side).map(|r| r.count()).ok();
    json!({"len": md.len(), "mtime": [d.as_secs(), d.subsec_nanos()], "sidecar_marker": marker, "sidecar_entries": n_side})
}

fn query(dir: &Path, sql: &str) -> Value {
    static RT: std::sync::OnceLock<tokio::runtime::Runtime> = std::sync::OnceLock::new();
    let rt = RT.get_or_init(qe_verif_harness::runtime);
    let mut ctx = query_engine::ExecutionContext::new();
    let r = std::panic::catch_unwind(std::panic::AssertUnwindSafe(|| ctx.register_parquet("t", table_path(dir))));
    match r {
        Err(p) => return json!({"panic": qe_verif_harness::panic_message(p)}),
        Ok(Err(e)) => return json!({"err": format!("register: {e}")}),
        Ok(Ok(())) => {}
    }
    let out = sqlutil::run_sql(rt, &ctx, sql);
    match out.get("ok") {
        Some(ok) => json!({"rows": ok["rows"]}),
        None => out,
    }
}

/// what the engine's per-directory cache says the sidecar stores dictionary-encoded, and what it stores
fn dict_cols(dir: &Path) -> Value {
    let side = dir.join("t.parquet.qeipc");
    let mut cached: Vec<String> = query_engine::storage::ipc_cache::sidecar_dict_cols(&side).into_iter().collect();
    cached.sort();
    let mut actual: Vec<String> = Vec::new();
    if let Ok(f) = std::fs::File::open(side.join("rg_00000.arrow")) {
        if let Ok(r) = arrow::ipc::reader::FileReader::try_new(f, None) {
            for fl in r.schema().fields() {
                if matches!(fl.data_type(), DataType::Dictionary(_, _)) {
                    actual.push(fl.name().to_lowercase());
                }
            }
        }
    }
    actual.sort();
    json!({"cached": cached, "actual": actual})
}

fn child(dir: &Path, op: &Value) -> Value {
    let exe = std::env::current_exe().unwrap();
    let mut cmd = std::process::Command::new(exe);
    cmd.stdin(std::process::Stdio::piped()).stdout(std::process::Stdio::piped()).stderr(std::process::Stdio::null());
    cmd.env_remove("QE_IPC_CACHE");
    if let Some(env) = op["env"].as_object() {
        for (k, v) in env {
            cmd.env(k, v.as_str().unwrap());
        }
    }
    let mut ch = cmd.spawn().unwrap();
    let line = json!({"dir": dir.to_str().unwrap(), "ops": op["ops"]}).to_string();
    ch.stdin.take().unwrap().write_all(format!("{line}\n").as_bytes()).unwrap();
    let out = ch.wait_with_output().unwrap();
    serde_json::from_slice::<Value>(&out.stdout).unwrap_or(json!({"harness_error": "child produced no JSON"}))
}

/// One history = the life of ONE engine process from its start (the model's `init`: empty footer caches, empty
/// dict-cols cache, a usable BUILD_LOCK).  The path-keyed caches are per history anyway (every history has its
/// own directory); the one process-global thing that leaks is BUILD_LOCK: a panic inside build_sidecar —
/// reachable through a stale footer of another layout — poisons it and the process never builds a sidecar
/// again.  So in Build mode every top-level history is followed by a probe (a fresh 2-row table must get its
/// sidecar built); when the probe fails the process retires: it answers the current history (which started with
/// a usable lock) and exits before the next one, and the check re-submits the rest to a new process.
static RETIRED: std::sync::atomic::AtomicBool = std::sync::atomic::AtomicBool::new(false);

fn build_lock_usable() -> bool {
    let tmp = tempfile::tempdir().unwrap();
    write_table(tmp.path(), &json!({"content": 1, "rows": 2, "rg": 2, "mtime": [1600000000u64, 0]}));
    let _ = query(tmp.path(), "SELECT count(*) FROM t WHERE a >= 0");
    tmp.path().join("t.parquet.qeipc").join(".complete").exists()
}

fn case(v: &Value) -> Value {
    let top = v["dir"].as_str().is_none();
    if top && RETIRED.load(std::sync::atomic::Ordering::SeqCst) {
        std::process::exit(0);
    }
    let mut out = run_history(v);
    if top && std::env::var("QE_IPC_CACHE").as_deref() == Ok("1") && !build_lock_usable() {
        RETIRED.store(true, std::sync::atomic::Ordering::SeqCst);
        out["retired_after"] = json!(true);
    }
    out
}

fn run_history(v: &Value) -> Value {
    let tmp;
    let dir: PathBuf = match v["dir"].as_str() {
        Some(d) => PathBuf::from(d),
        None => {
            tmp = tempfile::tempdir().unwrap();
            tmp.path().to_path_buf()
        }
    };
    let mut results = Vec::new();
    for op in v["ops"].as_array().unwrap() {
        let r = match op["op"].as_str().unwrap() {
            "write" => write_table(&dir, op),
            "touch" => {
                set_mtime(&table_path(&dir), to_time(&op["mtime"]));
                stat(&dir)
            }
            "query" => query(&dir, op["sql"].as_str().unwrap()),
            "stat" => stat(&dir),
            "rm_sidecar" => {
                let _ = std::fs::remove_dir_all(dir.join("t.parquet.qeipc"));
                json!({})
            }
            "child" => child(&dir, op),
            "dict_cols" => dict_cols(&dir),
            o => json!({"harness_error": format!("unknown op {o}")}),
        };
        results.push(r);
    }
    json!({"results": results, "mode": std::env::var("QE_IPC_CACHE").ok()})
}
