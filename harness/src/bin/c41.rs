//! C41: metastore::gravitino::dechunk via the cfg(qe_verif) hook, and (cases with "e2e": true) the same
//! bytes served as a `Transfer-Encoding: chunked` reply by a scripted TCP server to the public
//! GravitinoSource::list_tables -> get_json -> http_get -> dechunk path.
//! case {"b":[bytes], "e2e":bool} -> {"hook": {"ok":[bytes]} | "none" | {"panic":msg}, "e2e": null | {"ok":[names]} | {"err":msg} | {"panic":msg}}
use query_engine::metastore::gravitino::{verif_dechunk, GravitinoSource};
use serde_json::{json, Value};
use std::io::{Read, Write};

fn main() {
    qe_verif_harness::run_lines(case)
}

fn bytes_of(v: &Value) -> Vec<u8> {
    v.as_array().unwrap().iter().map(|x| x.as_u64().unwrap() as u8).collect()
}

fn e2e(body: Vec<u8>) -> Value {
    let listener = std::net::TcpListener::bind("127.0.0.1:0").unwrap();
    let addr = listener.local_addr().unwrap();
    let t = std::thread::spawn(move || {
        let (mut s, _) = listener.accept().unwrap();
        let mut req = Vec::new();
        let mut buf = [0u8; 1024];
        while !req.windows(4).any(|w| w == b"\r\n\r\n") {
            match s.read(&mut buf) {
                Ok(0) | Err(_) => break,
                Ok(n) => req.extend_from_slice(&buf[..n]),
            }
        }
        let _ = s.write_all(b"HTTP/1.1 200 OK\r\nContent-Type: application/json\r\nTransfer-Encoding: chunked\r\nConnection: close\r\n\r\n");
        let _ = s.write_all(&body);
        let _ = s.flush();
        let _ = s.shutdown(std::net::Shutdown::Write);
        // drain until the client closes so that no RST cuts the reply short
        while let Ok(n) = s.read(&mut buf) {
            if n == 0 {
                break;
            }
        }
        String::from_utf8_lossy(&req).into_owned()
    });
    let src = GravitinoSource {
        base_url: format!("http://{addr}"),
        metalake: "m".into(),
        catalog: "c".into(),
        schema: "s".into(),
    };
    let r = std::panic::catch_unwind(std::panic::AssertUnwindSafe(|| src.list_tables()));
    let req = t.join().unwrap_or_default();
    let path_ok = req.starts_with("GET /api/metalakes/m/catalogs/c/schemas/s/tables HTTP/1.1\r\n");
    match r {
        Ok(Ok(names)) => json!({"ok": names, "request_ok": path_ok}),
        Ok(Err(e)) => json!({"err": e.to_string(), "request_ok": path_ok}),
        Err(p) => json!({"panic": qe_verif_harness::panic_message(p), "request_ok": path_ok}),
    }
}

fn case(v: &Value) -> Value {
    let b = bytes_of(&v["b"]);
    let hook = match std::panic::catch_unwind(std::panic::AssertUnwindSafe(|| verif_dechunk(&b))) {
        Ok(Some(out)) => json!({"ok": out}),
        Ok(None) => json!("none"),
        Err(p) => json!({"panic": qe_verif_harness::panic_message(p)}),
    };
    let e = if v["e2e"].as_bool().unwrap_or(false) { e2e(b) } else { Value::Null };
    json!({"hook": hook, "e2e": e})
}
