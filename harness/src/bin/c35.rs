//! C35: front doors of a serving node (POST /sql, POST /fragment, Arrow Flight) observed on REAL in-process nodes.
//! All operations live in ../frontdoor.rs (shared with the sibling front-door property); see its header for the
//! line protocol.  Nodes are spawned once by the `setup` line and live until the process exits.
#[path = "../frontdoor.rs"]
mod frontdoor;

fn main() {
    let mut world = frontdoor::World::new();
    qe_verif_harness::run_lines(|v| world.op(v));
    // the nodes die with the process; do not wait for runtimes to wind down
    use std::io::Write;
    std::io::stdout().flush().ok();
    drop(world.dir.take());
    std::process::exit(0);
}
