//! C12: distributed::splits::assign_lpt on an arbitrary SplitSet.
use query_engine::distributed::splits::{assign_lpt, Split, SplitSet};
use serde_json::{json, Value};
use std::path::PathBuf;

fn main() {
    qe_verif_harness::run_lines(case)
}

fn case(v: &Value) -> Value {
    let nodes = v["nodes"].as_u64().unwrap() as usize;
    let mut splits = Vec::new();
    let mut total_bytes = 0u64;
    let mut total_rows = 0i64;
    for s in v["splits"].as_array().unwrap() {
        let bytes = s["bytes"].as_u64().unwrap();
        let rows = s["rows"].as_i64().unwrap();
        total_bytes += bytes;
        total_rows += rows;
        splits.push(Split {
            table: s["table"].as_str().unwrap().to_string(),
            path: PathBuf::from(format!("/x/{}", s["file"].as_str().unwrap())),
            file: s["file"].as_str().unwrap().to_string(),
            row_group: s["rg"].as_u64().unwrap() as usize,
            row_offset: s["off"].as_i64().unwrap(),
            num_rows: rows,
            bytes,
        });
    }
    let set = SplitSet {
        table: "t".into(),
        splits,
        total_bytes,
        total_rows,
        target_split_bytes: 1,
    };
    let a = assign_lpt(&set, nodes);
    let b = assign_lpt(&set, nodes);
    let same = a.per_node == b.per_node && a.node_bytes == b.node_bytes && a.node_rows == b.node_rows;
    json!({
        "nodes": a.nodes, "per_node": a.per_node, "node_bytes": a.node_bytes,
        "node_rows": a.node_rows, "node_splits": a.node_splits, "total_bytes": a.total_bytes,
        "repeat_same": same,
    })
}
