//! C17: materialise a concrete Iceberg table description as a real directory (metadata JSON,
//! Avro manifest lists / manifests written with apache-avro, small real Parquet data files) and
//! read it back through the REAL `query_engine::storage::open_iceberg_table` and
//! `ExecutionContext::register_iceberg` + SELECT.
//!
//! Case:
//!  {"hint": null|"<text of version-hint.text>",
//!   "meta":  [{"name":"v1.metadata.json","body":null|{"fv":2,"lu":5,"cur":null|id,"snaps":[{"id":1,"ts":5,"ml":"<uri>"}]}}],
//!   "lists": [{"rel":"metadata/snap-1.avro","manifests":["<uri>",..],"deflate":bool}],
//!   "mans":  [{"rel":"metadata/m1.avro","v1":bool,"deflate":bool,"wrap":bool,
//!              "entries":[{"status":1,"content":0,"format":"PARQUET","path":"<uri>"}]}],
//!   "data":  [{"rel":"data/f1.parquet","rows":[100,101]}],
//!   "queries": [null|id, ...], "tslash": bool}
//! `@T@` inside any URI / rel is replaced by the absolute table directory (no trailing slash).
//! body == null writes a file that is not JSON. "v1": the data_file record has no `content` field.
//! "wrap": `data_file` is declared as a union ["null", record].
//!
//! Output: {"tdir":..., "results":[ per query {"open": {"ok":{"files":[..],"sid":..,"md":"<file name>","nsnaps":n}} | {"err":{"variant":..,"msg":..}},
//!          "sql": {"ok":[sorted ids]} | {"err":{...}}} ]}
use apache_avro::types::Value as A;
use apache_avro::{Codec, Schema, Writer};
use arrow::array::{ArrayRef, Int64Array};
use arrow::datatypes::{DataType, Field, Schema as ASchema};
use arrow::record_batch::RecordBatch;
use query_engine::error::QueryError;
use query_engine::ExecutionContext;
use serde_json::{json, Value};
use std::path::Path;
use std::sync::Arc;

fn main() {
    let rt = qe_verif_harness::runtime();
    qe_verif_harness::run_lines(|v| case(&rt, v))
}

fn variant(e: &QueryError) -> &'static str {
    match e {
        QueryError::Storage(_) => "Storage",
        QueryError::NotImplemented(_) => "NotImplemented",
        QueryError::Io(_) => "Io",
        QueryError::Parquet(_) => "Parquet",
        QueryError::Arrow(_) => "Arrow",
        QueryError::Execution(_) => "Execution",
        QueryError::Internal(_) => "Internal",
        _ => "Other",
    }
}

fn err_json(e: &QueryError, tdir: &str) -> Value {
    json!({"err": {"variant": variant(e), "msg": e.to_string().replace(tdir, "@T@")}})
}

fn ensure_parent(p: &Path) {
    if let Some(d) = p.parent() {
        std::fs::create_dir_all(d).unwrap();
    }
}

fn write_parquet(path: &Path, rows: &[i64]) {
    use parquet::arrow::ArrowWriter;
    ensure_parent(path);
    let schema = Arc::new(ASchema::new(vec![Field::new("id", DataType::Int64, false)]));
    let col: ArrayRef = Arc::new(Int64Array::from(rows.to_vec()));
    let batch = RecordBatch::try_new(schema.clone(), vec![col]).unwrap();
    let f = std::fs::File::create(path).unwrap();
    let mut w = ArrowWriter::try_new(f, schema, None).unwrap();
    w.write(&batch).unwrap();
    w.close().unwrap();
}

const LIST_SCHEMA: &str = r#"{"type":"record","name":"manifest_file","fields":[
 {"name":"manifest_path","type":"string","field-id":500},
 {"name":"manifest_length","type":"long","field-id":501},
 {"name":"partition_spec_id","type":"int","field-id":502},
 {"name":"content","type":"int","field-id":517},
 {"name":"added_snapshot_id","type":["null","long"],"default":null,"field-id":503}]}"#;

fn manifest_schema(v1: bool, wrap: bool) -> String {
    let content = if v1 { "" } else { r#"{"name":"content","type":"int","field-id":134},"# };
    let rec = format!(
        r#"{{"type":"record","name":"r2","fields":[{content}
 {{"name":"file_path","type":"string","field-id":100}},
 {{"name":"file_format","type":"string","field-id":101}},
 {{"name":"record_count","type":"long","field-id":103}},
 {{"name":"file_size_in_bytes","type":"long","field-id":104}}]}}"#
    );
    let df = if wrap { format!(r#"["null",{rec}]"#) } else { rec };
    format!(
        r#"{{"type":"record","name":"manifest_entry","fields":[
 {{"name":"status","type":"int","field-id":0}},
 {{"name":"snapshot_id","type":["null","long"],"default":null,"field-id":1}},
 {{"name":"data_file","type":{df},"field-id":2}}]}}"#
    )
}

fn write_avro(path: &Path, schema_text: &str, deflate: bool, recs: Vec<A>) {
    ensure_parent(path);
    let schema = Schema::parse_str(schema_text).unwrap();
    let codec = if deflate { Codec::Deflate(Default::default()) } else { Codec::Null };
    let f = std::fs::File::create(path).unwrap();
    let mut w = Writer::with_codec(&schema, f, codec).unwrap();
    for r in recs {
        w.append(r).unwrap();
    }
    w.flush().unwrap();
    w.into_inner().unwrap();
}

fn case(rt: &tokio::runtime::Runtime, v: &Value) -> Value {
    let tmp = tempfile::Builder::new().prefix("c17").tempdir().unwrap();
    let tdirp = tmp.path().join("t");
    std::fs::create_dir_all(tdirp.join("metadata")).unwrap();
    let tdir = tdirp.to_str().unwrap().to_string();
    let sub = |s: &str| s.replace("@T@", &tdir);

    if let Some(h) = v["hint"].as_str() {
        std::fs::write(tdirp.join("metadata/version-hint.text"), h).unwrap();
    }
    for m in v["meta"].as_array().unwrap() {
        let p = tdirp.join("metadata").join(m["name"].as_str().unwrap());
        let b = &m["body"];
        if b.is_null() {
            std::fs::write(&p, "this is not json {").unwrap();
            continue;
        }
        let snaps: Vec<Value> = b["snaps"]
            .as_array()
            .unwrap()
            .iter()
            .map(|s| {
                json!({"snapshot-id": s["id"], "timestamp-ms": s["ts"], "sequence-number": 0,
                       "manifest-list": sub(s["ml"].as_str().unwrap()),
                       "summary": {"operation": "append"}, "schema-id": 0})
            })
            .collect();
        let mut doc = json!({
            "format-version": b["fv"], "table-uuid": "00000000-0000-0000-0000-000000000017",
            "location": format!("file://{tdir}"), "last-sequence-number": 0,
            "last-updated-ms": b["lu"], "last-column-id": 1,
            "schemas": [{"type":"struct","schema-id":0,"fields":[{"id":1,"name":"id","required":true,"type":"long"}]}],
            "current-schema-id": 0, "partition-specs": [{"spec-id":0,"fields":[]}], "default-spec-id": 0,
            "last-partition-id": 999, "properties": {}, "snapshots": snaps, "snapshot-log": [], "metadata-log": [],
            "sort-orders": [{"order-id":0,"fields":[]}], "default-sort-order-id": 0, "refs": {}
        });
        if !b["cur"].is_null() {
            doc["current-snapshot-id"] = b["cur"].clone();
        } else if b["cur_null"].as_bool().unwrap_or(false) {
            doc["current-snapshot-id"] = Value::Null;
        }
        std::fs::write(&p, serde_json::to_string_pretty(&doc).unwrap()).unwrap();
    }
    for l in v["lists"].as_array().unwrap() {
        let p = tdirp.join(l["rel"].as_str().unwrap());
        let recs = l["manifests"]
            .as_array()
            .unwrap()
            .iter()
            .map(|m| {
                A::Record(vec![
                    ("manifest_path".into(), A::String(sub(m.as_str().unwrap()))),
                    ("manifest_length".into(), A::Long(1)),
                    ("partition_spec_id".into(), A::Int(0)),
                    ("content".into(), A::Int(0)),
                    ("added_snapshot_id".into(), A::Union(1, Box::new(A::Long(1)))),
                ])
            })
            .collect();
        write_avro(&p, LIST_SCHEMA, l["deflate"].as_bool().unwrap_or(false), recs);
    }
    for m in v["mans"].as_array().unwrap() {
        let p = tdirp.join(m["rel"].as_str().unwrap());
        let v1 = m["v1"].as_bool().unwrap_or(false);
        let wrap = m["wrap"].as_bool().unwrap_or(false);
        let recs = m["entries"]
            .as_array()
            .unwrap()
            .iter()
            .map(|e| {
                let mut df = Vec::new();
                if !v1 {
                    df.push(("content".to_string(), A::Int(e["content"].as_i64().unwrap() as i32)));
                }
                df.push(("file_path".to_string(), A::String(sub(e["path"].as_str().unwrap()))));
                df.push(("file_format".to_string(), A::String(e["format"].as_str().unwrap().to_string())));
                df.push(("record_count".to_string(), A::Long(1)));
                df.push(("file_size_in_bytes".to_string(), A::Long(1)));
                let dfv = A::Record(df);
                let dfv = if wrap { A::Union(1, Box::new(dfv)) } else { dfv };
                A::Record(vec![
                    ("status".into(), A::Int(e["status"].as_i64().unwrap() as i32)),
                    ("snapshot_id".into(), A::Union(1, Box::new(A::Long(1)))),
                    ("data_file".into(), dfv),
                ])
            })
            .collect();
        write_avro(&p, &manifest_schema(v1, wrap), m["deflate"].as_bool().unwrap_or(false), recs);
    }
    for d in v["data"].as_array().unwrap() {
        let p = tdirp.join(d["rel"].as_str().unwrap());
        let rows: Vec<i64> = d["rows"].as_array().unwrap().iter().map(|x| x.as_i64().unwrap()).collect();
        write_parquet(&p, &rows);
    }

    let open_dir = if v["tslash"].as_bool().unwrap_or(false) { format!("{tdir}/") } else { tdir.clone() };
    let results: Vec<Value> = v["queries"]
        .as_array()
        .unwrap()
        .iter()
        .map(|qv| one_query(rt, &tdirp, &tdir, &open_dir, qv.as_i64()))
        .collect();
    json!({"tdir": tdir, "results": results})
}

fn one_query(rt: &tokio::runtime::Runtime, tdirp: &Path, tdir: &str, open_dir: &str, q: Option<i64>) -> Value {

    let open = match query_engine::storage::open_iceberg_table(open_dir, q) {
        Ok(t) => {
            use query_engine::physical::operators::TableProvider;
            let files: Vec<String> = t
                .table
                .parquet_files()
                .unwrap_or_default()
                .iter()
                .map(|p| p.to_str().unwrap().replace(tdir, "@T@"))
                .collect();
            json!({"ok": {"files": files, "sid": t.snapshot_id,
                          "md": t.metadata_path.file_name().unwrap().to_str().unwrap(),
                          "md_parent_ok": t.metadata_path.parent().map(|p| p == tdirp.join("metadata")).unwrap_or(false),
                          "nsnaps": t.snapshots.len()}})
        }
        Err(e) => err_json(&e, tdir),
    };

    let mut ctx = ExecutionContext::new();
    let sql = match ctx.register_iceberg("t", open_dir, q) {
        Err(e) => err_json(&e, tdir),
        Ok(()) => match rt.block_on(ctx.sql("SELECT id FROM t")) {
            Err(e) => err_json(&e, tdir),
            Ok(res) => {
                let mut ids: Vec<i64> = Vec::new();
                for b in &res.batches {
                    let a = b.column(0).as_any().downcast_ref::<Int64Array>().expect("id is Int64");
                    ids.extend(a.iter().map(|x| x.expect("non-null id")));
                }
                ids.sort();
                json!({"ok": ids, "row_count": res.row_count})
            }
        },
    };
    json!({"open": open, "sql": sql})
}
