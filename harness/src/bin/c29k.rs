//! C29 kernel correspondence (the PROOF part of C29; the search part is c29.rs).
//! One JSON case per line on stdin, one JSON line per case on stdout.
//!   {"mode":"guard","s":"<text>"}
//!       -> {"guard": true|false, "parse": "ok"|"err", "ms": t}
//!          guard = query_engine::parser::parse_sql(s) failed with the nesting guard's message
//!          ("expression nesting deeper than"); a parse still running after 10 s is reported as
//!          {"timeout": true} and the process exits with status 3 (its thread cannot be stopped).
//!   {"mode":"sql","tables":[<sqlutil table spec>...],"queries":["SELECT ...", ...]}
//!       -> {"results":[{"ok":{cols,types,rows,..}} | {"err": msg} | {"panic": msg}, ...]}
//!          every statement through ExecutionContext::sql under catch_unwind (sqlutil::run_sql).
use qe_verif_harness::sqlutil;
use serde_json::{json, Value};
use std::io::{BufRead, Write};
use std::sync::mpsc;
use std::time::{Duration, Instant};

const GUARD_MSG: &str = "expression nesting deeper than";

fn main() {
    std::panic::set_hook(Box::new(|_| {}));
    let rt = qe_verif_harness::runtime();
    let dir = tempfile::tempdir().unwrap();
    let stdin = std::io::stdin();
    let stdout = std::io::stdout();
    for line in stdin.lock().lines() {
        let line = line.expect("stdin");
        if line.trim().is_empty() {
            continue;
        }
        let v: Value = match serde_json::from_str(&line) {
            Ok(v) => v,
            Err(e) => {
                println!("{}", json!({"harness_error": format!("bad json: {e}")}));
                continue;
            }
        };
        let out = match v["mode"].as_str().unwrap_or("") {
            "guard" => {
                let s = v["s"].as_str().unwrap_or("").to_string();
                let (tx, rx) = mpsc::channel();
                let t0 = Instant::now();
                let h = std::thread::Builder::new()
                    .stack_size(16 * 1024 * 1024)
                    .spawn(move || {
                        let r = std::panic::catch_unwind(|| query_engine::parser::parse_sql(&s));
                        let o = match r {
                            Ok(Ok(_)) => json!({"guard": false, "parse": "ok"}),
                            Ok(Err(e)) => {
                                let m = e.to_string();
                                json!({"guard": m.contains(GUARD_MSG), "parse": "err"})
                            }
                            Err(p) => json!({"panic": qe_verif_harness::panic_message(p)}),
                        };
                        let _ = tx.send(o);
                    })
                    .expect("spawn");
                match rx.recv_timeout(Duration::from_secs(10)) {
                    Ok(mut o) => {
                        let _ = h.join();
                        o["ms"] = json!(t0.elapsed().as_millis() as u64);
                        o
                    }
                    Err(mpsc::RecvTimeoutError::Timeout) => {
                        let mut o = stdout.lock();
                        writeln!(o, "{}", json!({"timeout": true})).unwrap();
                        o.flush().unwrap();
                        std::process::exit(3);
                    }
                    Err(mpsc::RecvTimeoutError::Disconnected) => {
                        let _ = h.join();
                        json!({"panic": "parser thread died without a result"})
                    }
                }
            }
            "sql" => {
                let r = std::panic::catch_unwind(std::panic::AssertUnwindSafe(|| {
                    let mut ctx = query_engine::ExecutionContext::new();
                    for t in v["tables"].as_array().map(|a| a.as_slice()).unwrap_or(&[]) {
                        sqlutil::register(&mut ctx, t, dir.path());
                    }
                    let results: Vec<Value> = v["queries"]
                        .as_array()
                        .map(|a| a.as_slice())
                        .unwrap_or(&[])
                        .iter()
                        .map(|q| sqlutil::run_sql(&rt, &ctx, q.as_str().unwrap_or("")))
                        .collect();
                    json!({ "results": results })
                }));
                match r {
                    Ok(o) => o,
                    Err(p) => json!({"harness_error": format!("setup panicked: {}", qe_verif_harness::panic_message(p))}),
                }
            }
            other => json!({"harness_error": format!("unknown mode {other}")}),
        };
        let mut o = stdout.lock();
        writeln!(o, "{}", out).unwrap();
        o.flush().unwrap();
    }
}
