//! C30: for each statement, the schema the result reports, the schema of every returned batch,
//! the schema of `ctx.physical_plan(sql)`, and the row count.
//! case: {"tables": [sqlutil table specs], "queries": [sql, ...]}
//! out:  {"results": [ {"ok": {"result": [[name,type]..], "batches": [[[name,type]..]..], "rows": n,
//!                             "physical": [[name,type]..] | {"err": ..}}} | {"err": msg} | {"panic": msg} ]}
use arrow::datatypes::Schema;
use qe_verif_harness::sqlutil;
use serde_json::{json, Value};

fn main() {
    qe_verif_harness::run_lines(case)
}

fn schema_json(s: &Schema) -> Value {
    Value::Array(
        s.fields()
            .iter()
            .map(|f| json!([f.name(), sqlutil::type_name(f.data_type())]))
            .collect(),
    )
}

fn case(v: &Value) -> Value {
    let rt = qe_verif_harness::runtime();
    let dir = tempfile::tempdir().unwrap();
    let ctx = sqlutil::make_ctx(&v["tables"], dir.path());
    let mut outs = Vec::new();
    for q in v["queries"].as_array().unwrap() {
        let sql = q.as_str().unwrap();
        let r = std::panic::catch_unwind(std::panic::AssertUnwindSafe(|| rt.block_on(ctx.sql(sql))));
        let o = match r {
            Ok(Ok(res)) => {
                let phys = match std::panic::catch_unwind(std::panic::AssertUnwindSafe(|| ctx.physical_plan(sql))) {
                    Ok(Ok(p)) => schema_json(&p.schema()),
                    Ok(Err(e)) => json!({"err": e.to_string()}),
                    Err(p) => json!({"panic": qe_verif_harness::panic_message(p)}),
                };
                let batches: Vec<Value> = res.batches.iter().map(|b| schema_json(&b.schema())).collect();
                // the arrays themselves, not only the batch's declared schema
                let arrays_match = res.batches.iter().all(|b| {
                    b.columns().iter().zip(b.schema().fields().iter()).all(|(c, f)| c.data_type() == f.data_type())
                });
                json!({"ok": {"result": schema_json(&res.schema), "batches": batches,
                              "rows": res.batches.iter().map(|b| b.num_rows()).sum::<usize>(),
                              "row_count": res.row_count,
                              "arrays_match": arrays_match, "physical": phys}})
            }
            Ok(Err(e)) => json!({"err": e.to_string()}),
            Err(p) => json!({"panic": qe_verif_harness::panic_message(p)}),
        };
        outs.push(o);
    }
    json!({"results": outs})
}
