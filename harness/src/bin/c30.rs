//! C30: for each statement, the schema the result reports, the schema of every returned batch,
//! the schema of `ctx.physical_plan(sql)`, and the row count.
//! case: {"tables": [sqlutil table specs], "queries": [sql, ...]}
//! Besides sqlutil's column types a memory table may have columns of type i16, i8, f32: they are built as
//! i32 / i32 / f64 by sqlutil and cast to Int16 / Int8 / Float32 here (sqlutil.rs is shared and unchanged).
//! out:  {"results": [ {"ok": {"result": [[name,type]..], "batches": [[[name,type]..]..], "rows": n,
//!                             "physical": [[name,type]..] | {"err": ..}}} | {"err": msg} | {"panic": msg} ]}
use arrow::datatypes::{DataType, Field, Schema};
use arrow::record_batch::RecordBatch;
use qe_verif_harness::sqlutil;
use serde_json::{json, Value};

fn main() {
    qe_verif_harness::run_lines(case)
}

fn schema_json(s: &Schema) -> Value {
    Value::Array(
        s.fields()
            .iter()
            .map(|f| json!([f.name(), sqlutil::type_name(f.data_type())]))
            .collect(),
    )
}

fn small_type(t: &str) -> Option<(&'static str, DataType)> {
    match t {
        "i16" => Some(("i32", DataType::Int16)),
        "i8" => Some(("i32", DataType::Int8)),
        "f32" => Some(("f64", DataType::Float32)),
        _ => None,
    }
}

fn register(ctx: &mut query_engine::ExecutionContext, spec: &Value, dir: &std::path::Path) {
    let cols = spec["cols"].as_array().unwrap();
    if !cols.iter().any(|c| small_type(c[1].as_str().unwrap()).is_some()) {
        return sqlutil::register(ctx, spec, dir);
    }
    let mut base = spec.clone();
    let mut targets = Vec::new();
    for (j, c) in cols.iter().enumerate() {
        let ty = c[1].as_str().unwrap();
        match small_type(ty) {
            Some((b, dt)) => {
                base["cols"][j][1] = json!(b);
                targets.push(dt);
            }
            None => targets.push(sqlutil::dtype(ty)),
        }
    }
    let fields: Vec<Field> = cols
        .iter()
        .zip(targets.iter())
        .map(|(c, dt)| Field::new(c[0].as_str().unwrap(), dt.clone(), true))
        .collect();
    let schema = std::sync::Arc::new(Schema::new(fields));
    let batches: Vec<RecordBatch> = sqlutil::batches_of(&base)
        .into_iter()
        .map(|b| {
            let arrays = b
                .columns()
                .iter()
                .zip(targets.iter())
                .map(|(a, dt)| arrow::compute::cast(a, dt).unwrap())
                .collect();
            RecordBatch::try_new(schema.clone(), arrays).unwrap()
        })
        .collect();
    ctx.register_table(spec["name"].as_str().unwrap(), schema, batches);
}

fn case(v: &Value) -> Value {
    let rt = qe_verif_harness::runtime();
    let dir = tempfile::tempdir().unwrap();
    let mut ctx = query_engine::ExecutionContext::new();
    for t in v["tables"].as_array().unwrap() {
        register(&mut ctx, t, dir.path());
    }
    let mut outs = Vec::new();
    for q in v["queries"].as_array().unwrap() {
        let sql = q.as_str().unwrap();
        let r = std::panic::catch_unwind(std::panic::AssertUnwindSafe(|| rt.block_on(ctx.sql(sql))));
        let o = match r {
            Ok(Ok(res)) => {
                let phys = match std::panic::catch_unwind(std::panic::AssertUnwindSafe(|| ctx.physical_plan(sql))) {
                    Ok(Ok(p)) => schema_json(&p.schema()),
                    Ok(Err(e)) => json!({"err": e.to_string()}),
                    Err(p) => json!({"panic": qe_verif_harness::panic_message(p)}),
                };
                let batches: Vec<Value> = res.batches.iter().map(|b| schema_json(&b.schema())).collect();
                // the arrays themselves, not only the batch's declared schema
                let arrays_match = res.batches.iter().all(|b| {
                    b.columns().iter().zip(b.schema().fields().iter()).all(|(c, f)| c.data_type() == f.data_type())
                });
                json!({"ok": {"result": schema_json(&res.schema), "batches": batches,
                              "rows": res.batches.iter().map(|b| b.num_rows()).sum::<usize>(),
                              "row_count": res.row_count,
                              "arrays_match": arrays_match, "physical": phys}})
            }
            Ok(Err(e)) => json!({"err": e.to_string()}),
            Err(p) => json!({"panic": qe_verif_harness::panic_message(p)}),
        };
        outs.push(o);
    }
    json!({"results": outs})
}
