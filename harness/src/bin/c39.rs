//! C39: tpch::generator::TpchGenerator — row counts, key ranges, foreign keys, and determinism of
//! the generated data across repeated runs, 4 concurrent threads and the Parquet writer.
//! case: {"sf_bits": "<u64 bits of the f64 scale factor>", "seed": n, "threads": 4, "parquet": bool}
//! `generate_to_parquet` prints progress to stdout, so it runs in a child process of this same
//! binary (`c39 gen-parquet <bits> <seed> <dir>`) with stdout discarded.
use arrow::array::*;
use arrow::datatypes::DataType;
use arrow::record_batch::RecordBatch;
use query_engine::tpch::{TpchGenerator, TPCH_TABLES};
use query_engine::ExecutionContext;
use serde_json::{json, Value};
use std::collections::hash_map::DefaultHasher;
use std::collections::HashSet;
use std::hash::Hasher;

type Tables = Vec<(String, Vec<RecordBatch>)>;

fn main() {
    let args: Vec<String> = std::env::args().collect();
    if args.len() == 5 && args[1] == "gen-parquet" {
        let sf = f64::from_bits(args[2].parse::<u64>().unwrap());
        let seed = args[3].parse::<u64>().unwrap();
        TpchGenerator::with_seed(sf, seed)
            .generate_to_parquet(std::path::Path::new(&args[4]))
            .unwrap();
        return;
    }
    qe_verif_harness::run_lines(case)
}

fn gen_memory(sf: f64, seed: u64) -> Tables {
    let mut ctx = ExecutionContext::new();
    TpchGenerator::with_seed(sf, seed).generate_all(&mut ctx);
    TPCH_TABLES
        .iter()
        .map(|t| (t.to_string(), ctx.table_provider(t).unwrap().scan(None).unwrap()))
        .collect()
}

fn gen_parquet(bits: u64, seed: u64) -> Result<Tables, String> {
    let dir = tempfile::tempdir().map_err(|e| e.to_string())?;
    let st = std::process::Command::new(std::env::current_exe().unwrap())
        .args(["gen-parquet", &bits.to_string(), &seed.to_string(), dir.path().to_str().unwrap()])
        .stdout(std::process::Stdio::null())
        .stderr(std::process::Stdio::null())
        .status()
        .map_err(|e| e.to_string())?;
    if !st.success() {
        return Err(format!("generate_to_parquet child failed: {st}"));
    }
    let mut out = Vec::new();
    for t in TPCH_TABLES {
        let f = std::fs::File::open(dir.path().join(format!("{t}.parquet"))).map_err(|e| e.to_string())?;
        let rd = parquet::arrow::arrow_reader::ParquetRecordBatchReaderBuilder::try_new(f)
            .map_err(|e| e.to_string())?
            .build()
            .map_err(|e| e.to_string())?;
        let mut bs = Vec::new();
        for b in rd {
            bs.push(b.map_err(|e| e.to_string())?);
        }
        out.push((t.to_string(), bs));
    }
    Ok(out)
}

/// hash of every cell of the table, column by column in row order (independent of batch boundaries)
fn digest(batches: &[RecordBatch]) -> String {
    let mut h = DefaultHasher::new();
    if let Some(b0) = batches.first() {
        for c in 0..b0.num_columns() {
            h.write(b0.schema().field(c).name().as_bytes());
            h.write(format!("{:?}", b0.schema().field(c).data_type()).as_bytes());
            for b in batches {
                let a = b.column(c);
                for i in 0..a.len() {
                    if a.is_null(i) {
                        h.write_u8(0);
                        continue;
                    }
                    h.write_u8(1);
                    match a.data_type() {
                        DataType::Int64 => h.write_i64(a.as_any().downcast_ref::<Int64Array>().unwrap().value(i)),
                        DataType::Int32 => h.write_i32(a.as_any().downcast_ref::<Int32Array>().unwrap().value(i)),
                        DataType::Date32 => h.write_i32(a.as_any().downcast_ref::<Date32Array>().unwrap().value(i)),
                        DataType::Float64 => {
                            h.write_u64(a.as_any().downcast_ref::<Float64Array>().unwrap().value(i).to_bits())
                        }
                        DataType::Utf8 => {
                            let s = a.as_any().downcast_ref::<StringArray>().unwrap().value(i);
                            h.write_usize(s.len());
                            h.write(s.as_bytes())
                        }
                        other => panic!("unexpected column type {other:?}"),
                    }
                }
            }
        }
    }
    format!("{:016x}", h.finish())
}

fn digests(t: &Tables) -> Vec<String> {
    t.iter().map(|(_, b)| digest(b)).collect()
}

fn rows(t: &Tables) -> Vec<usize> {
    t.iter().map(|(_, b)| b.iter().map(|x| x.num_rows()).sum()).collect()
}

fn col(t: &Tables, table: &str, name: &str) -> Vec<i64> {
    let bs = &t.iter().find(|(n, _)| n == table).unwrap().1;
    let mut out = Vec::new();
    for b in bs {
        let i = b.schema().index_of(name).unwrap();
        let a = b.column(i).as_any().downcast_ref::<Int64Array>().unwrap();
        assert_eq!(a.null_count(), 0, "{table}.{name} has NULL keys");
        out.extend(a.values().iter().copied());
    }
    out
}

fn minmax(v: &[i64]) -> Value {
    match (v.iter().min(), v.iter().max()) {
        (Some(a), Some(b)) => json!([a, b]),
        _ => json!([0, -1]),
    }
}

fn dangling(child: &[i64], parent: &[i64]) -> usize {
    let p: HashSet<i64> = parent.iter().copied().collect();
    child.iter().filter(|k| !p.contains(k)).count()
}

fn is_dense(v: &[i64]) -> bool {
    v.iter().enumerate().all(|(i, k)| *k == i as i64 + 1)
}

fn case(v: &Value) -> Value {
    let bits: u64 = v["sf_bits"].as_str().unwrap().parse().unwrap();
    let sf = f64::from_bits(bits);
    let seed = v["seed"].as_u64().unwrap();
    let threads = v["threads"].as_u64().unwrap_or(4) as usize;

    let a = gen_memory(sf, seed);
    let b = gen_memory(sf, seed);
    let da = digests(&a);
    let seq_same = da == digests(&b) && rows(&a) == rows(&b);
    drop(b);

    let conc: Vec<Vec<String>> = std::thread::scope(|s| {
        let hs: Vec<_> = (0..threads).map(|_| s.spawn(move || digests(&gen_memory(sf, seed)))).collect();
        hs.into_iter().map(|h| h.join().unwrap()).collect()
    });
    let conc_same = conc.iter().all(|d| *d == da);

    let (pq_same, pq_rows, pq_err) = if v["parquet"].as_bool().unwrap_or(false) {
        match gen_parquet(bits, seed) {
            Ok(p) => (Some(digests(&p) == da), Some(rows(&p)), None),
            Err(e) => (Some(false), None, Some(e)),
        }
    } else {
        (None, None, None)
    };
    // a different seed must not be ignored (guards against a generator that drops the seed)
    let other_seed_differs = digests(&gen_memory(sf, seed ^ 0x5bd1e995)) != da;

    let p_partkey = col(&a, "part", "p_partkey");
    let s_suppkey = col(&a, "supplier", "s_suppkey");
    let s_nationkey = col(&a, "supplier", "s_nationkey");
    let ps_partkey = col(&a, "partsupp", "ps_partkey");
    let ps_suppkey = col(&a, "partsupp", "ps_suppkey");
    let c_custkey = col(&a, "customer", "c_custkey");
    let c_nationkey = col(&a, "customer", "c_nationkey");
    let o_orderkey = col(&a, "orders", "o_orderkey");
    let o_custkey = col(&a, "orders", "o_custkey");
    let l_orderkey = col(&a, "lineitem", "l_orderkey");
    let l_partkey = col(&a, "lineitem", "l_partkey");
    let l_suppkey = col(&a, "lineitem", "l_suppkey");
    let n_nationkey = col(&a, "nation", "n_nationkey");
    let n_regionkey = col(&a, "nation", "n_regionkey");
    let r_regionkey = col(&a, "region", "r_regionkey");

    let ps: HashSet<(i64, i64)> = ps_partkey.iter().copied().zip(ps_suppkey.iter().copied()).collect();
    let composite = l_partkey
        .iter()
        .zip(l_suppkey.iter())
        .filter(|(p, s)| !ps.contains(&(**p, **s)))
        .count();
    let first_dangling: Option<usize> =
        l_partkey.iter().zip(l_suppkey.iter()).position(|(p, s)| !ps.contains(&(*p, *s)));

    let fk = vec![
        dangling(&o_custkey, &c_custkey),
        dangling(&l_orderkey, &o_orderkey),
        dangling(&l_partkey, &p_partkey),
        dangling(&l_suppkey, &s_suppkey),
        dangling(&ps_partkey, &p_partkey),
        dangling(&ps_suppkey, &s_suppkey),
        dangling(&s_nationkey, &n_nationkey),
        dangling(&c_nationkey, &n_nationkey),
        dangling(&n_regionkey, &r_regionkey),
        composite,
    ];
    let mm: Vec<Value> = [
        &p_partkey, &s_suppkey, &s_nationkey, &ps_partkey, &ps_suppkey, &c_custkey, &c_nationkey, &o_orderkey,
        &o_custkey, &l_orderkey, &l_partkey, &l_suppkey, &n_nationkey, &n_regionkey, &r_regionkey,
    ]
    .iter()
    .map(|c| minmax(c))
    .collect();
    // primary keys are 1..=n in row order (so min/max describe the whole key set)
    let pk_dense = is_dense(&p_partkey) && is_dense(&s_suppkey) && is_dense(&c_custkey) && is_dense(&o_orderkey);
    // deterministic key formulas, row by row
    let np = p_partkey.len().max(1);
    let ns = s_suppkey.len().max(1);
    let formula_ok = ps_partkey.iter().enumerate().all(|(i, k)| *k == (i % np) as i64 + 1)
        && ps_suppkey.iter().enumerate().all(|(i, k)| *k == (i % ns) as i64 + 1)
        && l_partkey.iter().enumerate().all(|(i, k)| *k == (i % np) as i64 + 1)
        && l_suppkey.iter().enumerate().all(|(i, k)| *k == (i % ns) as i64 + 1);
    // l_orderkey moves by the coded step only: stays, or (cur % orders) + 1
    let no = o_orderkey.len().max(1) as i64;
    let order_step_ok = l_orderkey.first().map(|k| *k == 1).unwrap_or(true)
        && l_orderkey.windows(2).all(|w| w[1] == w[0] || w[1] == (w[0] % no) + 1);

    json!({
        "counts": rows(&a), "tables": TPCH_TABLES, "digests": da,
        "seq_same": seq_same, "conc_same": conc_same, "parquet_same": pq_same, "parquet_rows": pq_rows,
        "parquet_err": pq_err, "other_seed_differs": other_seed_differs,
        "fk": fk, "minmax": mm, "pk_dense": pk_dense, "formula_ok": formula_ok, "order_step_ok": order_step_ok,
        "first_dangling_lineitem_row": first_dangling,
    })
}
