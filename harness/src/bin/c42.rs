//! C42: execution::topology::parse_cpulist (via the cfg(qe_verif) hook) and workers_for.
//! case {"k":"cpulist","s":[code points]} -> {"out":[usize...]}
//! case {"k":"workers","work":u64,"pool":u64} -> {"w":usize}
use query_engine::execution::topology::{verif_parse_cpulist, workers_for};
use serde_json::{json, Value};

fn main() {
    qe_verif_harness::run_lines(case)
}

fn case(v: &Value) -> Value {
    match v["k"].as_str().unwrap() {
        "cpulist" => {
            let mut s = String::new();
            for c in v["s"].as_array().unwrap() {
                match char::from_u32(c.as_u64().unwrap() as u32) {
                    Some(ch) => s.push(ch),
                    None => return json!({"harness_error": "not a scalar value"}),
                }
            }
            let a = verif_parse_cpulist(&s);
            let b = verif_parse_cpulist(&s);
            json!({"out": a.iter().map(|x| *x as u64).collect::<Vec<u64>>(), "repeat_same": a == b})
        }
        "workers" => {
            let w = workers_for(v["work"].as_u64().unwrap() as usize, v["pool"].as_u64().unwrap() as usize);
            json!({"w": w as u64})
        }
        _ => json!({"harness_error": "unknown kind"}),
    }
}
