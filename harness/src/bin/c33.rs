//! C33: execution::memory::{MemoryPool, MemoryReservation} — the real pool.
//! Sequential mode  {"limit":n,"ops":[{"op":"try_allocate"|"allocate"|"resize"|"drop","r":id,"n":bytes},..]}
//!   -> {"obs":[{"ok":bool,"used":u64,"live":[[id,size],..sorted by id]},..],"final_used":u64 (after dropping all)}
//! Stress mode      {"limit":n,"scripts":[[ops]..],"reps":m,"shrink_only":bool}
//!   one OS thread per script on one shared pool, each script repeated `reps` times; ids are per-thread slots
//!   (try/allocate into an occupied slot drops the old reservation first; with shrink_only a growing resize is skipped)
//!   -> per-thread observations + used before / after dropping everything.
use query_engine::execution::{MemoryPool, MemoryReservation};
use serde_json::{json, Value};
use std::collections::BTreeMap;
use std::sync::Barrier;

#[derive(Clone, Copy)]
enum Op {
    Try(u64, usize),
    Alloc(u64, usize),
    Resize(u64, usize),
    Drop(u64),
}

fn parse_ops(v: &Value) -> Vec<Op> {
    v.as_array()
        .unwrap()
        .iter()
        .map(|o| {
            let r = o["r"].as_u64().unwrap();
            let n = o["n"].as_u64().unwrap_or(0) as usize;
            match o["op"].as_str().unwrap() {
                "try_allocate" => Op::Try(r, n),
                "allocate" => Op::Alloc(r, n),
                "resize" => Op::Resize(r, n),
                "drop" => Op::Drop(r),
                x => panic!("unknown op {x}"),
            }
        })
        .collect()
}

fn main() {
    qe_verif_harness::run_lines(case)
}

fn case(v: &Value) -> Value {
    if v.get("scripts").is_some() {
        stress(v)
    } else {
        sequential(v)
    }
}

fn sequential(v: &Value) -> Value {
    let limit = v["limit"].as_u64().unwrap() as usize;
    let ops = parse_ops(&v["ops"]);
    let pool = MemoryPool::new(limit);
    let mut live: BTreeMap<u64, MemoryReservation<'_>> = BTreeMap::new();
    let mut obs = Vec::new();
    for op in ops {
        let ok = match op {
            Op::Try(r, n) => {
                assert!(!live.contains_key(&r), "generator must use fresh ids");
                match pool.try_allocate(n) {
                    Some(res) => {
                        live.insert(r, res);
                        true
                    }
                    None => false,
                }
            }
            Op::Alloc(r, n) => {
                assert!(!live.contains_key(&r), "generator must use fresh ids");
                live.insert(r, pool.allocate(n));
                true
            }
            Op::Resize(r, n) => match live.get_mut(&r) {
                Some(res) => {
                    res.resize(n);
                    true
                }
                None => false,
            },
            Op::Drop(r) => match live.remove(&r) {
                Some(res) => {
                    drop(res);
                    true
                }
                None => false,
            },
        };
        let l: Vec<Value> = live.iter().map(|(k, r)| json!([k, r.size() as u64])).collect();
        obs.push(json!({"ok": ok, "used": pool.used() as u64, "live": l}));
    }
    live.clear();
    json!({"obs": obs, "final_used": pool.used() as u64, "max": pool.max() as u64})
}

fn stress(v: &Value) -> Value {
    let limit = v["limit"].as_u64().unwrap() as usize;
    let reps = v["reps"].as_u64().unwrap_or(1);
    let shrink_only = v["shrink_only"].as_bool().unwrap_or(false);
    let scripts: Vec<Vec<Op>> = v["scripts"].as_array().unwrap().iter().map(parse_ops).collect();
    let k = scripts.len();
    let pool = MemoryPool::new(limit);
    let start = Barrier::new(k);
    let a = Barrier::new(k + 1);
    let b = Barrier::new(k + 1);
    let mut used_before_drop = 0u64;
    let per_thread: Vec<Value> = std::thread::scope(|sc| {
        let mut hs = Vec::new();
        for script in &scripts {
            let (pool, start, a, b) = (&pool, &start, &a, &b);
            hs.push(sc.spawn(move || {
                let mut live: BTreeMap<u64, MemoryReservation<'_>> = BTreeMap::new();
                let mut own: u128 = 0; // sum of this thread's live reservation sizes
                let (mut grants, mut refusals, mut over_limit, mut below_own, mut samples) = (0u64, 0u64, 0u64, 0u64, 0u64);
                let mut max_after_grant = 0u64;
                let mut first_bad: Option<Value> = None;
                start.wait();
                for _ in 0..reps {
                    for op in script {
                        let mut granted = false;
                        match *op {
                            Op::Try(r, n) => {
                                if let Some(old) = live.remove(&r) {
                                    own -= old.size() as u128;
                                    drop(old);
                                }
                                match pool.try_allocate(n) {
                                    Some(res) => {
                                        own += res.size() as u128;
                                        live.insert(r, res);
                                        grants += 1;
                                        granted = true;
                                    }
                                    None => refusals += 1,
                                }
                            }
                            Op::Alloc(r, n) => {
                                if let Some(old) = live.remove(&r) {
                                    own -= old.size() as u128;
                                    drop(old);
                                }
                                let res = pool.allocate(n);
                                own += res.size() as u128;
                                live.insert(r, res);
                            }
                            Op::Resize(r, n) => {
                                if let Some(res) = live.get_mut(&r) {
                                    if !(shrink_only && n > res.size()) {
                                        own -= res.size() as u128;
                                        res.resize(n);
                                        own += res.size() as u128;
                                    }
                                }
                            }
                            Op::Drop(r) => {
                                if let Some(old) = live.remove(&r) {
                                    own -= old.size() as u128;
                                    drop(old);
                                }
                            }
                        }
                        // observation right after the op (and so right after every successful conditional grant)
                        let u = pool.used() as u64;
                        samples += 1;
                        if granted {
                            max_after_grant = max_after_grant.max(u);
                        }
                        let bad_over = u as u128 > limit as u128;
                        let bad_below = (u as u128) < own;
                        if bad_over {
                            over_limit += 1;
                        }
                        if bad_below {
                            below_own += 1;
                        }
                        if (bad_over && shrink_only || bad_below) && first_bad.is_none() {
                            first_bad = Some(json!({"used": u, "own": own as u64, "granted": granted}));
                        }
                    }
                }
                let sizes_sum: u128 = live.values().map(|r| r.size() as u128).sum();
                a.wait();
                b.wait();
                live.clear();
                json!({"grants": grants, "refusals": refusals, "samples": samples, "over_limit": over_limit,
                       "below_own": below_own, "max_after_grant": max_after_grant, "own_sum": own as u64,
                       "sizes_sum": sizes_sum as u64, "first_bad": first_bad})
            }));
        }
        a.wait();
        used_before_drop = pool.used() as u64;
        b.wait();
        hs.into_iter().map(|h| h.join().unwrap()).collect()
    });
    json!({"threads": per_thread, "used_before_drop": used_before_drop, "final_used": pool.used() as u64})
}
