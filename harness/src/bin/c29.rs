//! C29: arbitrary SQL text through ExecutionContext::sql with a per-statement wall-clock limit.
//! Protocol (NOT run_lines: a hang or an abort must be attributable to one statement):
//!   stdin : one JSON object per line {"id": n, "sql": "..."}        (first line may be {"config": {...}})
//!   stdout: {"id": n, "start": true}            flushed BEFORE the statement runs
//!           {"id": n, "outcome": "ok"|"err"|"panic"|"timeout", "ms": t, "detail": "..."}   after it
//! A statement still running after `timeout_ms` is reported as `timeout` and the process exits with
//! status 3 (its thread cannot be stopped); a stack overflow or any other abort kills the process and
//! the driver attributes it to the last `start` without an outcome, then restarts with the rest.
//! Each statement runs on its own thread with an 8 MiB stack (the size of a main thread; override with
//! config.stack_kib), `catch_unwind` inside, over a context with three registered tables.
use arrow::array::*;
use arrow::datatypes::{DataType, Field, Schema};
use arrow::record_batch::RecordBatch;
use query_engine::ExecutionContext;
use serde_json::{json, Value};
use std::io::{BufRead, Write};
use std::sync::{mpsc, Arc};
use std::time::{Duration, Instant};

fn make_ctx() -> ExecutionContext {
    let mut ctx = ExecutionContext::new();
    let s1 = Arc::new(Schema::new(vec![
        Field::new("a", DataType::Int64, true),
        Field::new("b", DataType::Utf8, true),
        Field::new("c", DataType::Float64, true),
        Field::new("d", DataType::Date32, true),
        Field::new("e", DataType::Boolean, true),
    ]));
    let b1 = RecordBatch::try_new(
        s1.clone(),
        vec![
            Arc::new(Int64Array::from(vec![Some(1), Some(0), None, Some(i64::MAX), Some(i64::MIN), Some(-1), Some(2)])),
            Arc::new(StringArray::from(vec![Some("a"), Some(""), None, Some("é%_"), Some("a\u{0}b"), Some("B"), Some("a")])),
            Arc::new(Float64Array::from(vec![
                Some(1.5), Some(0.0), None, Some(f64::MAX), Some(f64::NAN), Some(-0.0), Some(f64::INFINITY),
            ])),
            Arc::new(Date32Array::from(vec![Some(0), Some(-1), None, Some(i32::MAX), Some(i32::MIN), Some(19000), Some(1)])),
            Arc::new(BooleanArray::from(vec![Some(true), Some(false), None, Some(true), Some(false), None, Some(true)])),
        ],
    )
    .unwrap();
    ctx.register_table("t1", s1, vec![b1]);
    let s2 = Arc::new(Schema::new(vec![
        Field::new("a", DataType::Int64, true),
        Field::new("x", DataType::Int32, true),
        Field::new("y", DataType::Utf8, true),
    ]));
    let b2 = RecordBatch::try_new(
        s2.clone(),
        vec![
            Arc::new(Int64Array::from(vec![Some(1), Some(1), None, Some(3)])),
            Arc::new(Int32Array::from(vec![Some(i32::MAX), Some(i32::MIN), None, Some(0)])),
            Arc::new(StringArray::from(vec![Some("a"), None, Some("zz"), Some("")])),
        ],
    )
    .unwrap();
    ctx.register_table("t2", s2, vec![b2]);
    let s3 = Arc::new(Schema::new(vec![
        Field::new("k", DataType::Utf8, true),
        Field::new("v", DataType::Float64, true),
    ]));
    ctx.register_table("t3", s3.clone(), vec![RecordBatch::new_empty(s3)]);
    ctx
}

fn main() {
    std::panic::set_hook(Box::new(|_| {}));
    let ctx = Arc::new(make_ctx());
    let rt = Arc::new(qe_verif_harness::runtime());
    let mut timeout = Duration::from_millis(10_000);
    let mut stack = 8 * 1024 * 1024usize;
    let stdin = std::io::stdin();
    let stdout = std::io::stdout();
    for line in stdin.lock().lines() {
        let line = line.expect("stdin");
        if line.trim().is_empty() {
            continue;
        }
        let v: Value = match serde_json::from_str(&line) {
            Ok(v) => v,
            Err(e) => {
                println!("{}", json!({"harness_error": format!("bad json: {e}")}));
                continue;
            }
        };
        if let Some(c) = v.get("config") {
            if let Some(t) = c["timeout_ms"].as_u64() {
                timeout = Duration::from_millis(t);
            }
            if let Some(k) = c["stack_kib"].as_u64() {
                stack = k as usize * 1024;
            }
            continue;
        }
        let id = v["id"].clone();
        let sql = v["sql"].as_str().unwrap_or("").to_string();
        {
            let mut o = stdout.lock();
            writeln!(o, "{}", json!({"id": id, "start": true})).unwrap();
            o.flush().unwrap();
        }
        let (tx, rx) = mpsc::channel();
        let (c2, r2) = (ctx.clone(), rt.clone());
        let t0 = Instant::now();
        let h = std::thread::Builder::new()
            .stack_size(stack)
            .spawn(move || {
                let r = std::panic::catch_unwind(std::panic::AssertUnwindSafe(|| r2.block_on(c2.sql(&sql))));
                let out = match r {
                    Ok(Ok(res)) => ("ok", format!("{} rows, {} cols", res.row_count, res.schema.fields().len())),
                    Ok(Err(e)) => ("err", e.to_string().chars().take(160).collect()),
                    Err(p) => ("panic", qe_verif_harness::panic_message(p).chars().take(300).collect()),
                };
                let _ = tx.send(out);
            })
            .expect("spawn");
        let res = rx.recv_timeout(timeout);
        let ms = t0.elapsed().as_millis() as u64;
        let mut o = stdout.lock();
        match res {
            Ok((k, d)) => {
                let _ = h.join();
                writeln!(o, "{}", json!({"id": id, "outcome": k, "ms": ms, "detail": d})).unwrap();
                o.flush().unwrap();
            }
            Err(mpsc::RecvTimeoutError::Timeout) => {
                writeln!(o, "{}", json!({"id": id, "outcome": "timeout", "ms": ms, "detail": ""})).unwrap();
                o.flush().unwrap();
                std::process::exit(3);
            }
            Err(mpsc::RecvTimeoutError::Disconnected) => {
                // the thread died without sending: a panic outside catch_unwind (e.g. while unwinding)
                let _ = h.join();
                writeln!(o, "{}", json!({"id": id, "outcome": "panic", "ms": ms, "detail": "thread died without a result"})).unwrap();
                o.flush().unwrap();
            }
        }
    }
}
