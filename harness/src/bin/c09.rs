//! C09 / C45: the REAL `execute_any_distributed` (scatter, top-N merge, gather) with an in-process
//! `FragmentTransport`; every participant is its own ExecutionContext over the same Parquet files.
//!
//! case: {"tables":[spec...], "queries":[sql...], "nodes":[1,3,8], "self_at":k?, "memory_limit":n?}
//! out:  {"results":[{"single":res, "plan":{"shape","table","partial_sql","final_sql"}|{"refused":msg}|{"err":msg},
//!                    "gather":{"tables":[{"name","columns","sql"}]}|{"err":msg}|null,
//!                    "dist":[{"n":N,"res":res,"shape":..,"nodes":[[shard_index,assigned_splits,result_rows,local]]}]}]}
//! res = {"ok":{cols,types,rows,..}} | {"err":msg} | {"panic":msg}
use query_engine::distributed::coordinator::{encode_ipc, execute_any_distributed, execute_fragment};
use query_engine::distributed::{plan_distributed, plan_gather, FragmentRequest, FragmentTransport, Participant};
use query_engine::{ExecutionContext, QueryError};
use qe_verif_harness::sqlutil;
use serde_json::{json, Value};
use std::future::Future;
use std::pin::Pin;
use std::sync::Arc;

type SendOut = query_engine::Result<(Vec<u8>, usize, f64)>;

/// Runs the peer's fragment in-process against the peer's own context (what server.rs `/fragment` does:
/// execute_fragment, encode_ipc, rows, elapsed).
struct InProcess {
    peers: Vec<(String, Arc<ExecutionContext>)>,
}

impl FragmentTransport for InProcess {
    fn send<'life0, 'life1, 'life2, 'async_trait>(
        &'life0 self,
        address: &'life1 str,
        req: &'life2 FragmentRequest,
    ) -> Pin<Box<dyn Future<Output = SendOut> + Send + 'async_trait>>
    where
        'life0: 'async_trait,
        'life1: 'async_trait,
        'life2: 'async_trait,
        Self: 'async_trait,
    {
        Box::pin(async move {
            let peer = self
                .peers
                .iter()
                .find(|(a, _)| a == address)
                .map(|(_, c)| c.clone())
                .ok_or_else(|| QueryError::Execution(format!("connection refused: {address}")))?;
            let (r, _) = execute_fragment(&peer, req).await?;
            let bytes = encode_ipc(&r.schema, &r.batches)?;
            Ok((bytes, r.row_count, 0.0))
        })
    }
}

// ---- the optimized plan as JSON (C45: what collect_scans walks, and what it does not) ----
// expr: {"c":name} | "l" | {"o":[expr..]} | {"s":plan} | {"i":[expr,plan]}
// plan: {"scan":table,"proj":[idx]|null,"f":expr|null} | {"leaf":1} | {"un":plan,"e":[expr..]} | {"bin":[l,r],"e":[expr..]}
//       | {"nary":[plan..]}
fn expr_json(e: &query_engine::planner::Expr) -> Value {
    use query_engine::planner::Expr;
    let many = |v: Vec<&Expr>| json!({"o": v.into_iter().map(expr_json).collect::<Vec<_>>()});
    match e {
        Expr::Column(c) => json!({"c": c.name}),
        Expr::Literal(_) | Expr::Wildcard | Expr::QualifiedWildcard(_) => json!("l"),
        Expr::BinaryExpr { left, right, .. } => many(vec![left, right]),
        Expr::UnaryExpr { expr, .. } | Expr::Cast { expr, .. } | Expr::Alias { expr, .. } => many(vec![expr]),
        Expr::Aggregate { args, .. } | Expr::ScalarFunc { args, .. } => many(args.iter().collect()),
        Expr::Case { operand, when_then, else_expr } => {
            let mut v: Vec<&Expr> = Vec::new();
            if let Some(o) = operand {
                v.push(o);
            }
            for (w, t) in when_then {
                v.push(w);
                v.push(t);
            }
            if let Some(x) = else_expr {
                v.push(x);
            }
            many(v)
        }
        Expr::InList { expr, list, .. } => {
            let mut v: Vec<&Expr> = vec![expr];
            v.extend(list.iter());
            many(v)
        }
        Expr::Between { expr, low, high, .. } => many(vec![expr, low, high]),
        Expr::ScalarSubquery(p) => json!({"s": plan_json(p)}),
        Expr::Exists { subquery, .. } => json!({"s": plan_json(subquery)}),
        Expr::InSubquery { expr, subquery, .. } => json!({"i": [expr_json(expr), plan_json(subquery)]}),
        Expr::WindowFunction(w) => {
            let mut v: Vec<&Expr> = w.args.iter().chain(w.partition_by.iter()).collect();
            v.extend(w.order_by.iter().map(|s| &s.expr));
            many(v)
        }
    }
}

fn plan_json(p: &query_engine::planner::LogicalPlan) -> Value {
    use query_engine::planner::LogicalPlan as L;
    let es = |v: Vec<&query_engine::planner::Expr>| v.into_iter().map(expr_json).collect::<Vec<_>>();
    match p {
        L::Scan(n) => json!({"scan": n.table_name, "proj": n.projection, "f": n.filter.as_ref().map(expr_json)}),
        L::EmptyRelation(_) | L::Values(_) | L::DelimGet(_) => json!({"leaf": 1}),
        L::Filter(n) => json!({"un": plan_json(&n.input), "e": es(vec![&n.predicate])}),
        L::Project(n) => json!({"un": plan_json(&n.input), "e": es(n.exprs.iter().collect())}),
        L::Aggregate(n) => json!({"un": plan_json(&n.input), "e": es(n.group_by.iter().chain(n.aggregates.iter()).collect())}),
        L::Sort(n) => json!({"un": plan_json(&n.input), "e": es(n.order_by.iter().map(|s| &s.expr).collect())}),
        L::Window(n) => {
            let mut v: Vec<&query_engine::planner::Expr> = Vec::new();
            for (_, w) in &n.window_exprs {
                v.extend(w.args.iter().chain(w.partition_by.iter()));
                v.extend(w.order_by.iter().map(|s| &s.expr));
            }
            json!({"un": plan_json(&n.input), "e": es(v)})
        }
        L::Limit(n) => json!({"un": plan_json(&n.input), "e": []}),
        L::Distinct(n) => json!({"un": plan_json(&n.input), "e": []}),
        L::SubqueryAlias(n) => json!({"un": plan_json(&n.input), "e": []}),
        L::VectorSearch(n) => json!({"un": plan_json(&n.input), "e": []}),
        L::Join(n) => {
            let mut v: Vec<&query_engine::planner::Expr> = Vec::new();
            for (l, r) in &n.on {
                v.push(l);
                v.push(r);
            }
            if let Some(f) = &n.filter {
                v.push(f);
            }
            json!({"bin": [plan_json(&n.left), plan_json(&n.right)], "e": es(v)})
        }
        L::DelimJoin(n) => json!({"bin": [plan_json(&n.left), plan_json(&n.right)], "e": es(n.delim_columns.iter().collect())}),
        L::Union(n) => json!({"nary": n.inputs.iter().map(|x| plan_json(x)).collect::<Vec<_>>()}),
    }
}

pub fn main() {
    let rt = qe_verif_harness::runtime();
    qe_verif_harness::run_lines(|v| case(&rt, v))
}

fn new_ctx(v: &Value) -> ExecutionContext {
    match v.get("memory_limit").and_then(|m| m.as_u64()) {
        Some(m) => ExecutionContext::with_memory_limit(m as usize),
        None => ExecutionContext::new(),
    }
}

fn case(rt: &tokio::runtime::Runtime, v: &Value) -> Value {
    let dir = tempfile::tempdir().unwrap();
    // the initiator writes the files; every other node registers the same directories
    let mut base = new_ctx(v);
    for t in v["tables"].as_array().unwrap() {
        sqlutil::register(&mut base, t, dir.path());
    }
    let max_n = v["nodes"].as_array().unwrap().iter().map(|x| x.as_u64().unwrap() as usize).max().unwrap_or(1);
    let mut peers: Vec<(String, Arc<ExecutionContext>)> = Vec::new();
    for i in 0..max_n {
        let mut c = new_ctx(v);
        for t in v["tables"].as_array().unwrap() {
            let name = t["name"].as_str().unwrap();
            if t.get("parquet").map(|p| !p.is_null()).unwrap_or(false) {
                c.register_parquet(name, dir.path().join(name)).unwrap();
            } else {
                c.register_table(name, sqlutil::schema_of(t), sqlutil::batches_of(t));
            }
        }
        peers.push((format!("node-{i}"), Arc::new(c)));
    }
    let transport = InProcess { peers };
    let self_at = v.get("self_at").and_then(|x| x.as_u64()).map(|x| x as usize);

    let mut results = Vec::new();
    for q in v["queries"].as_array().unwrap() {
        let sql = q.as_str().unwrap();
        let single = sqlutil::run_sql(rt, &base, sql);
        let plan = match std::panic::catch_unwind(std::panic::AssertUnwindSafe(|| plan_distributed(&base, sql))) {
            Ok(Ok(p)) => json!({"shape": p.shape, "table": p.table, "partial_sql": p.partial_sql, "final_sql": p.final_sql}),
            Ok(Err(QueryError::NotImplemented(m))) => json!({ "refused": m }),
            Ok(Err(e)) => json!({"err": e.to_string()}),
            Err(p) => json!({"panic": qe_verif_harness::panic_message(p)}),
        };
        let gather = if plan.get("refused").is_some() {
            match std::panic::catch_unwind(std::panic::AssertUnwindSafe(|| plan_gather(&base, sql))) {
                Ok(Ok(g)) => json!({"tables": g.tables.iter().map(|t| json!({"name": t.name, "columns": t.columns, "sql": t.gather_sql})).collect::<Vec<_>>()}),
                Ok(Err(e)) => json!({"err": e.to_string()}),
                Err(p) => json!({"panic": qe_verif_harness::panic_message(p)}),
            }
        } else {
            Value::Null
        };
        let mut dist = Vec::new();
        for n in v["nodes"].as_array().unwrap() {
            let n = n.as_u64().unwrap() as usize;
            let participants: Vec<Participant> = (0..n)
                .map(|i| Participant {
                    node_id: i as u64,
                    address: format!("node-{i}"),
                    is_self: match self_at {
                        Some(k) => i == k % n.max(1),
                        None => i == 0,
                    },
                })
                .collect();
            let r = std::panic::catch_unwind(std::panic::AssertUnwindSafe(|| {
                rt.block_on(execute_any_distributed(&base, sql, &participants, &transport))
            }));
            // the assignment of the scattered table for this cluster size (also known when the run fails)
            let assign = match plan.get("table").and_then(|t| t.as_str()) {
                Some(t) => match query_engine::distributed::splits_of(&base, t, n) {
                    Ok(set) => {
                        let a = query_engine::distributed::assign_lpt(&set, n);
                        json!({"splits": a.node_splits, "rows": a.node_rows,
                               "self": participants.iter().map(|p| p.is_self).collect::<Vec<_>>()})
                    }
                    Err(e) => json!({"err": e.to_string()}),
                },
                None => Value::Null,
            };
            let mut entry = match r {
                Ok(Ok(d)) => json!({
                    "n": n,
                    "res": {"ok": sqlutil::batches_json(&d.result.schema, &d.result.batches)},
                    "row_count": d.result.row_count,
                    "shape": d.distribution.shape,
                    "table": d.distribution.table,
                    "total_splits": d.distribution.total_splits,
                    "nodes": d.distribution.nodes.iter().map(|c| json!([c.shard_index, c.assigned_splits, c.result_rows, c.local, c.table])).collect::<Vec<_>>(),
                }),
                Ok(Err(e)) => json!({"n": n, "res": {"err": e.to_string()},
                                     "refusal": matches!(e, QueryError::NotImplemented(_))}),
                Err(p) => json!({"n": n, "res": {"panic": qe_verif_harness::panic_message(p)}}),
            };
            entry["assign"] = assign;
            dist.push(entry);
        }
        let oplan = if gather.get("tables").is_some() && v.get("oplan").and_then(|b| b.as_bool()).unwrap_or(false) {
            match base.optimized_plan(sql) {
                Ok(p) => plan_json(&p),
                Err(e) => json!({"err": e.to_string()}),
            }
        } else {
            Value::Null
        };
        results.push(json!({"single": single, "plan": plan, "gather": gather, "dist": dist, "oplan": oplan}));
    }
    json!({ "results": results })
}
