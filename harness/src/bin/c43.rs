//! C43: ORDER BY <distance> LIMIT k over an in-memory FixedSizeList<Float32> table, with the
//! VectorSearchPushdown rule on (default context, Exact mode), on in Indexed mode (the memory
//! provider has no index), and off (same optimizer rule list without VectorSearchPushdown).
//! case: {"dim": d, "rows": [[id, cat|null, g|null, [f32..]|null], ..], "batch_sizes": [..]?, "queries": [sql..]}
//! per query: {"on","idx","off": sqlutil results, "fired": null | node summary,
//!             "pre": the plan the rule saw (shape only, names lower-cased),
//!             "spy_exact","spy_idx": results over a provider that DOES implement scan_knn (KnnSpy below),
//!             "spy_exact_calls","spy_idx_calls": how often its scan_knn was called by that statement,
//!             "spy_idx_use_index": the use_index flags it was called with}
//! KnnSpy wraps a MemoryTable and answers scan_knn with a plausible but DIFFERENT top-k than the SQL: rows with a NULL
//! vector are dropped and ties come in reverse row order (what a provider-side flat search may do); with a prefilter it
//! declines (Ok(None)). It records every call.
use arrow::array::*;
use arrow::datatypes::{DataType, Field, Schema};
use arrow::record_batch::RecordBatch;
use qe_verif_harness::sqlutil;
use query_engine::execution::{ExecutionConfig, VectorSearchMode};
use query_engine::optimizer as rules;
use query_engine::optimizer::{Optimizer, OptimizerRule};
use query_engine::planner::vector_types::{as_float_vector, VectorMetric};
use query_engine::planner::{Expr, LogicalPlan, NullOrdering, ScalarFunction, ScalarValue, SortDirection};
use query_engine::ExecutionContext;
use serde_json::{json, Value};
use query_engine::physical::operators::{MemoryTable, TableProvider, TableStatistics};
use query_engine::physical::vector::VectorQuery;
use std::collections::HashMap;
use std::sync::atomic::{AtomicUsize, Ordering};
use std::sync::{Arc, Mutex};

#[derive(Debug)]
struct KnnSpy {
    inner: MemoryTable,
    batches: Vec<RecordBatch>,
    calls: AtomicUsize,
    use_index: Mutex<Vec<bool>>,
}

impl TableProvider for KnnSpy {
    fn schema(&self) -> arrow::datatypes::SchemaRef {
        self.inner.schema()
    }
    fn scan(&self, projection: Option<&[usize]>) -> query_engine::Result<Vec<RecordBatch>> {
        self.inner.scan(projection)
    }
    fn scan_with_filter(
        &self,
        projection: Option<&[usize]>,
        filter: Option<&Expr>,
    ) -> query_engine::Result<Vec<RecordBatch>> {
        self.inner.scan_with_filter(projection, filter)
    }
    fn statistics(&self) -> Option<TableStatistics> {
        self.inner.statistics()
    }
    fn scan_knn(&self, projection: Option<&[usize]>, q: &VectorQuery) -> query_engine::Result<Option<Vec<RecordBatch>>> {
        self.calls.fetch_add(1, Ordering::SeqCst);
        self.use_index.lock().unwrap().push(q.use_index);
        if q.filter.is_some() || self.batches.is_empty() {
            return Ok(None);
        }
        let all = arrow::compute::concat_batches(&self.inner.schema(), &self.batches)?;
        let ci = match all.schema().index_of(&q.column) {
            Ok(i) => i,
            Err(_) => return Ok(None),
        };
        let Some(list) = all.column(ci).as_any().downcast_ref::<FixedSizeListArray>() else {
            return Ok(None);
        };
        let vals = list.values().as_any().downcast_ref::<Float32Array>().unwrap();
        let d = list.value_length() as usize;
        if d != q.query.len() {
            return Ok(None);
        }
        // (score, row): smaller score = nearer
        let mut scored: Vec<(f64, usize)> = Vec::new();
        for r in (0..all.num_rows()).rev() {
            if list.is_null(r) {
                continue; // a provider-side search never returns rows without a vector
            }
            let (mut dot, mut na, mut nb, mut l2) = (0f64, 0f64, 0f64, 0f64);
            for j in 0..d {
                let a = vals.value(r * d + j) as f64;
                let b = q.query[j] as f64;
                dot += a * b;
                na += a * a;
                nb += b * b;
                l2 += (a - b) * (a - b);
            }
            let score = match q.metric {
                VectorMetric::L2 => l2.sqrt(),
                VectorMetric::Cosine => 1.0 - dot / (na.sqrt() * nb.sqrt()),
                VectorMetric::Dot => -dot,
            };
            scored.push((score, r));
        }
        scored.sort_by(|x, y| x.0.partial_cmp(&y.0).unwrap_or(std::cmp::Ordering::Equal)); // stable: ties stay in reverse row order
        let idx = UInt32Array::from(scored.iter().take(q.k).map(|(_, r)| *r as u32).collect::<Vec<_>>());
        let taken = arrow::compute::take_record_batch(&all, &idx)?;
        let out = match projection {
            Some(p) => taken.project(p)?,
            None => taken,
        };
        Ok(Some(vec![out]))
    }
}


fn main() {
    qe_verif_harness::run_lines(case)
}

fn table(v: &Value) -> (Arc<Schema>, Vec<RecordBatch>) {
    let d = v["dim"].as_u64().unwrap() as i32;
    let schema = Arc::new(Schema::new(vec![
        Field::new("id", DataType::Int64, true),
        Field::new("cat", DataType::Utf8, true),
        Field::new("g", DataType::Int64, true),
        Field::new(
            "emb",
            DataType::FixedSizeList(Arc::new(Field::new("item", DataType::Float32, true)), d),
            true,
        ),
    ]));
    let rows = v["rows"].as_array().unwrap();
    let mk = |lo: usize, hi: usize| {
        let ids: Int64Array = rows[lo..hi].iter().map(|r| r[0].as_i64()).collect();
        let cats: StringArray = rows[lo..hi].iter().map(|r| r[1].as_str().map(|s| s.to_string())).collect();
        let gs: Int64Array = rows[lo..hi].iter().map(|r| r[2].as_i64()).collect();
        let mut b = FixedSizeListBuilder::new(Float32Builder::new(), d);
        for r in &rows[lo..hi] {
            match r[3].as_array() {
                Some(xs) => {
                    for x in xs {
                        match x.as_f64() {
                            Some(f) => b.values().append_value(f as f32),
                            None => b.values().append_null(),
                        }
                    }
                    b.append(true);
                }
                None => {
                    for _ in 0..d {
                        b.values().append_null();
                    }
                    b.append(false);
                }
            }
        }
        RecordBatch::try_new(
            schema.clone(),
            vec![Arc::new(ids), Arc::new(cats), Arc::new(gs), Arc::new(b.finish())],
        )
        .unwrap()
    };
    let batches = sqlutil::split_points(rows.len(), v.get("batch_sizes"))
        .into_iter()
        .map(|(lo, hi)| mk(lo, hi))
        .collect();
    (schema, batches)
}

fn strip_alias(e: &Expr) -> &Expr {
    match e {
        Expr::Alias { expr, .. } => strip_alias(expr),
        o => o,
    }
}

fn arg_json(e: &Expr) -> Value {
    match strip_alias(e) {
        Expr::Column(c) => json!({"c": c.name.to_ascii_lowercase()}),
        Expr::Literal(v @ ScalarValue::List(_, _)) => match query_engine::physical::vector::query_vector_from_scalar(v) {
            Some(q) => json!({"lit": q.len()}),
            None => json!({"o": 1}),
        },
        _ => json!({"o": 1}),
    }
}

fn plan_json(p: &LogicalPlan) -> Value {
    match p {
        LogicalPlan::Limit(l) => json!({"n": "limit", "skip": l.skip, "fetch": l.fetch, "in": plan_json(&l.input)}),
        LogicalPlan::Sort(s) => {
            let keys: Vec<Value> = s
                .order_by
                .iter()
                .map(|k| {
                    let (f, args) = match strip_alias(&k.expr) {
                        Expr::ScalarFunc { func, args } => (
                            Some(match func {
                                ScalarFunction::L2Distance => "l2",
                                ScalarFunction::CosineDistance => "cosd",
                                ScalarFunction::CosineSimilarity => "coss",
                                ScalarFunction::DotProduct => "dot",
                                _ => "other",
                            }),
                            args.iter().map(arg_json).collect::<Vec<_>>(),
                        ),
                        _ => (None, vec![]),
                    };
                    json!({"fn": f, "args": args,
                           "dir": if k.direction == SortDirection::Asc { "asc" } else { "desc" },
                           "nulls": if k.nulls == NullOrdering::NullsFirst { "first" } else { "last" }})
                })
                .collect();
            json!({"n": "sort", "keys": keys, "in": plan_json(&s.input)})
        }
        LogicalPlan::Project(pr) => {
            let items: Vec<Value> = pr
                .exprs
                .iter()
                .enumerate()
                .map(|(i, e)| {
                    let out = pr.schema.fields().get(i).map(|f| f.name.to_ascii_lowercase());
                    let src = match strip_alias(e) {
                        Expr::Column(c) => Some(c.name.to_ascii_lowercase()),
                        _ => None,
                    };
                    json!({"out": out, "src": src})
                })
                .collect();
            json!({"n": "project", "items": items, "in": plan_json(&pr.input)})
        }
        LogicalPlan::Scan(s) => {
            let fields: Vec<Value> = s
                .schema
                .fields()
                .iter()
                .map(|f| json!([f.name.to_ascii_lowercase(), as_float_vector(&f.data_type).map(|(_, d)| d)]))
                .collect();
            json!({"n": "scan", "table": s.table_name.to_ascii_lowercase(), "fields": fields, "filter": s.filter.is_some()})
        }
        other => {
            let kind = format!("{other:?}");
            let kind = kind.split(|c: char| !c.is_alphanumeric()).next().unwrap_or("").to_string();
            json!({"n": "other", "kind": kind, "in": other.children().first().map(|c| plan_json(c))})
        }
    }
}

fn find_vs(p: &LogicalPlan) -> Option<&query_engine::planner::VectorSearchNode> {
    if let LogicalPlan::VectorSearch(n) = p {
        return Some(n);
    }
    p.children().into_iter().find_map(find_vs)
}

fn rules_without_vs() -> Vec<Arc<dyn OptimizerRule>> {
    // the list of Optimizer::new(), minus the last rule
    vec![
        Arc::new(rules::ConstantFolding),
        Arc::new(rules::DeriveOrPredicates),
        Arc::new(rules::PredicatePushdown),
        Arc::new(rules::FlattenDependentJoin),
        Arc::new(rules::SubqueryDecorrelation),
        Arc::new(rules::SemiJoinPushdown),
        Arc::new(rules::JoinReorder::new()),
        Arc::new(rules::PredicatePushdown),
        Arc::new(rules::HavingTotalCse),
        Arc::new(rules::GroupKeyReduction::new()),
        Arc::new(rules::EagerAggregation::new()),
        Arc::new(rules::PackedGroupKeys::new()),
        Arc::new(rules::PackedJoinKeys::new()),
        Arc::new(rules::ProjectionPushdown),
    ]
}

fn case(v: &Value) -> Value {
    let rt = qe_verif_harness::runtime();
    let (schema, batches) = table(v);
    let mut ctx = ExecutionContext::new();
    ctx.register_table("v", schema.clone(), batches.clone());
    let mut cfg = ExecutionConfig::default();
    cfg.vector_search_mode = VectorSearchMode::Indexed;
    let mut ictx = ExecutionContext::with_config(cfg);
    ictx.register_table("v", schema.clone(), batches.clone());
    let mk_spy = || {
        Arc::new(KnnSpy {
            inner: MemoryTable::new(schema.clone(), batches.clone()),
            batches: batches.clone(),
            calls: AtomicUsize::new(0),
            use_index: Mutex::new(Vec::new()),
        })
    };
    let (spy_e, spy_i) = (mk_spy(), mk_spy());
    let mut sctx = ExecutionContext::new();
    sctx.register_table_provider("v", spy_e.clone());
    let mut cfg2 = ExecutionConfig::default();
    cfg2.vector_search_mode = VectorSearchMode::Indexed;
    let mut sictx = ExecutionContext::with_config(cfg2);
    sictx.register_table_provider("v", spy_i.clone());
    let default_is_exact = ExecutionConfig::default().vector_search_mode == VectorSearchMode::Exact
        || std::env::var("QE_VECTOR_SEARCH").is_ok();

    let mut stats = HashMap::new();
    for name in ctx.table_names() {
        if let Some(s) = ctx.table_provider(&name).unwrap().statistics() {
            stats.insert(name.clone(), s);
        }
    }

    let mut outs = Vec::new();
    let mut rule_list_ok = true;
    for q in v["queries"].as_array().unwrap() {
        let sql = q.as_str().unwrap();
        let on = sqlutil::run_sql(&rt, &ctx, sql);
        let idx = sqlutil::run_sql(&rt, &ictx, sql);
        let c0 = spy_e.calls.load(Ordering::SeqCst);
        let spy_exact = sqlutil::run_sql(&rt, &sctx, sql);
        let spy_exact_calls = spy_e.calls.load(Ordering::SeqCst) - c0;
        let c1 = spy_i.calls.load(Ordering::SeqCst);
        let u1 = spy_i.use_index.lock().unwrap().len();
        let spy_idx = sqlutil::run_sql(&rt, &sictx, sql);
        let spy_idx_calls = spy_i.calls.load(Ordering::SeqCst) - c1;
        let spy_idx_use_index: Vec<bool> = spy_i.use_index.lock().unwrap()[u1..].to_vec();
        let (off, pre) = match std::panic::catch_unwind(std::panic::AssertUnwindSafe(|| ctx.logical_plan(sql))) {
            Ok(Ok(lp)) => {
                let mut opt = Optimizer::with_rules(rules_without_vs());
                if !stats.is_empty() {
                    opt = opt.with_table_statistics(stats.clone());
                }
                // rules_without_vs() + VectorSearchPushdown must reproduce the default optimizer's plan
                let mut with_vs = rules_without_vs();
                with_vs.push(Arc::new(rules::VectorSearchPushdown));
                let mut full = Optimizer::with_rules(with_vs);
                if !stats.is_empty() {
                    full = full.with_table_statistics(stats.clone());
                }
                let same = match (full.optimize(lp.clone()), ctx.optimized_plan(sql)) {
                    (Ok(a), Ok(b)) => format!("{a:?}") == format!("{b:?}"),
                    (Err(_), Err(_)) => true,
                    _ => false,
                };
                rule_list_ok &= same;
                match opt.optimize(lp) {
                    Ok(p) => (sqlutil::run_logical(&rt, &ctx, &p), plan_json(&p)),
                    Err(e) => (json!({"err": e.to_string()}), Value::Null),
                }
            }
            Ok(Err(e)) => (json!({"err": e.to_string()}), Value::Null),
            Err(p) => (json!({"panic": qe_verif_harness::panic_message(p)}), Value::Null),
        };
        let fired = match ctx.optimized_plan(sql) {
            Ok(p) => find_vs(&p).map(|n| {
                json!({"k": n.k, "skip": n.skip,
                       "metric": match n.metric { VectorMetric::L2 => "l2", VectorMetric::Cosine => "cos", VectorMetric::Dot => "dot" },
                       "column": n.column.to_ascii_lowercase(), "qlen": n.query.len(), "filter": n.filter.is_some(),
                       "at_root": matches!(p, LogicalPlan::VectorSearch(_)),
                       "fallback": plan_json(&LogicalPlan::Limit(query_engine::planner::LimitNode {
                           input: Arc::new(LogicalPlan::Sort(query_engine::planner::SortNode {
                               input: n.input.clone(), order_by: vec![n.sort_key.clone()] })),
                           skip: n.skip, fetch: Some(n.k) }))})
            }),
            Err(_) => None,
        };
        outs.push(json!({"on": on, "idx": idx, "off": off, "fired": fired, "pre": pre,
                         "spy_exact": spy_exact, "spy_idx": spy_idx, "spy_exact_calls": spy_exact_calls,
                         "spy_idx_calls": spy_idx_calls, "spy_idx_use_index": spy_idx_use_index}));
    }
    json!({"results": outs, "default_is_exact": default_is_exact, "rule_list_ok": rule_list_ok})
}
