//! C20: answers with IPC sidecars off / absent / freshly built / reused, and 1..8 builder PROCESSES (each
//! with several threads) racing with reader processes on the same table.
//!
//! parent case: {"table":{"nrows":N,"rg":R,"files":F,"smode":"dict"|"plain"|"wide"|"none","null_every":m},
//!               "queries":[sql...], "rounds":[{"builders":k,"readers":r,"threads":t,"iters":i}],
//!               "directed_missing_rg": bool}
//! child case (same binary, spawned with its own QE_IPC_CACHE): {"child":true,"dir":..,"queries":[..],
//!               "iters":i,"threads":t,"start_at_ms":epoch_ms}
use arrow::array::{ArrayRef, Int64Array, StringArray};
use arrow::datatypes::{DataType, Field, Schema};
use arrow::record_batch::RecordBatch;
use parquet::arrow::ArrowWriter;
use parquet::file::properties::WriterProperties;
use parquet::schema::types::ColumnPath;
use qe_verif_harness::sqlutil;
use serde_json::{json, Value};
use std::io::Write;
use std::path::{Path, PathBuf};
use std::sync::Arc;

fn main() {
    qe_verif_harness::run_lines(case)
}

fn now_ms() -> u64 {
    std::time::SystemTime::now().duration_since(std::time::UNIX_EPOCH).unwrap().as_millis() as u64
}

fn write_table(dir: &Path, t: &Value) {
    let n = t["nrows"].as_u64().unwrap() as usize;
    let rg = (t["rg"].as_u64().unwrap() as usize).max(1);
    let files = (t["files"].as_u64().unwrap_or(1) as usize).max(1);
    let smode = t["smode"].as_str().unwrap_or("none");
    let null_every = t["null_every"].as_u64().unwrap_or(0) as usize;
    let mut fields = vec![Field::new("a", DataType::Int64, true), Field::new("b", DataType::Int64, true)];
    if smode != "none" {
        fields.push(Field::new("s", DataType::Utf8, true));
    }
    let schema = Arc::new(Schema::new(fields));
    std::fs::create_dir_all(dir).unwrap();
    let per = n.div_ceil(files);
    for f in 0..files {
        let (lo, hi) = (f * per, ((f + 1) * per).min(n));
        let mut b = WriterProperties::builder().set_max_row_group_size(rg);
        if smode == "plain" {
            b = b.set_column_dictionary_enabled(ColumnPath::from("s"), false);
        }
        let file = std::fs::File::create(dir.join(format!("part-{f:03}.parquet"))).unwrap();
        let mut w = ArrowWriter::try_new(file, schema.clone(), Some(b.build())).unwrap();
        let mut a = lo;
        while a < hi {
            let e = (a + rg).min(hi);
            let isnull = |i: usize| null_every > 0 && i % null_every == 0;
            let mut cols: Vec<ArrayRef> = vec![
                Arc::new(Int64Array::from((a..e).map(|i| i as i64).collect::<Vec<_>>())),
                Arc::new(Int64Array::from(
                    (a..e).map(|i| if isnull(i) { None } else { Some(((i * 7919) % 1000) as i64) }).collect::<Vec<_>>(),
                )),
            ];
            if smode != "none" {
                let card = if smode == "wide" { 5000 } else { 5 };
                cols.push(Arc::new(StringArray::from(
                    (a..e)
                        .map(|i| if isnull(i + 1) { None } else { Some(format!("s{}", (i * 31) % card)) })
                        .collect::<Vec<_>>(),
                )));
            }
            w.write(&RecordBatch::try_new(schema.clone(), cols).unwrap()).unwrap();
            w.flush().unwrap();
            a = e;
        }
        w.close().unwrap();
    }
}

fn canon(v: &Value) -> Value {
    // row order is free: compare as sorted multisets
    match v.get("ok") {
        Some(ok) => {
            let mut rows: Vec<String> = ok["rows"].as_array().unwrap().iter().map(|r| r.to_string()).collect();
            rows.sort();
            json!({"rows": rows})
        }
        None => v.clone(),
    }
}

fn run_queries(dir: &Path, queries: &[String], rt: &tokio::runtime::Runtime) -> Vec<Value> {
    let mut ctx = query_engine::ExecutionContext::new();
    let reg = std::panic::catch_unwind(std::panic::AssertUnwindSafe(|| ctx.register_parquet("t", dir)));
    match reg {
        Ok(Ok(())) => {}
        Ok(Err(e)) => return queries.iter().map(|_| json!({"err": format!("register: {e}")})).collect(),
        Err(p) => {
            let m = qe_verif_harness::panic_message(p);
            return queries.iter().map(|_| json!({"panic": m.clone()})).collect();
        }
    }
    queries.iter().map(|q| canon(&sqlutil::run_sql(rt, &ctx, q))).collect()
}

fn child_main(v: &Value) -> Value {
    let dir = PathBuf::from(v["dir"].as_str().unwrap());
    let queries: Vec<String> = v["queries"].as_array().unwrap().iter().map(|q| q.as_str().unwrap().to_string()).collect();
    let iters = v["iters"].as_u64().unwrap_or(1) as usize;
    let threads = (v["threads"].as_u64().unwrap_or(1) as usize).max(1);
    let start = v["start_at_ms"].as_u64().unwrap_or(0);
    let rt = Arc::new(qe_verif_harness::runtime());
    while now_ms() < start {
        std::hint::spin_loop();
    }
    let mut handles = Vec::new();
    for _ in 0..threads {
        let (dir, queries, rt) = (dir.clone(), queries.clone(), rt.clone());
        handles.push(std::thread::spawn(move || {
            let mut out = Vec::new();
            for _ in 0..iters {
                out.push(Value::Array(run_queries(&dir, &queries, &rt)));
            }
            out
        }));
    }
    let mut all = Vec::new();
    for h in handles {
        match h.join() {
            Ok(o) => all.extend(o),
            Err(_) => all.push(json!([{"panic": "thread"}])),
        }
    }
    json!({"runs": all})
}

fn spawn_child(dir: &Path, mode: Option<&str>, spec: &Value) -> std::process::Child {
    let mut cmd = std::process::Command::new(std::env::current_exe().unwrap());
    cmd.stdin(std::process::Stdio::piped()).stdout(std::process::Stdio::piped()).stderr(std::process::Stdio::null());
    cmd.env_remove("QE_IPC_CACHE");
    if let Some(m) = mode {
        cmd.env("QE_IPC_CACHE", m);
    }
    let mut ch = cmd.spawn().unwrap();
    let mut line = spec.clone();
    line["child"] = json!(true);
    line["dir"] = json!(dir.to_str().unwrap());
    ch.stdin.take().unwrap().write_all(format!("{line}\n").as_bytes()).unwrap();
    ch
}

fn wait_child(ch: std::process::Child) -> Value {
    let out = ch.wait_with_output().unwrap();
    serde_json::from_slice::<Value>(&out.stdout).unwrap_or(json!({"runs": [[{"err": "child produced no JSON"}]]}))
}

fn one_shot(dir: &Path, mode: Option<&str>, queries: &Value) -> Value {
    let r = wait_child(spawn_child(dir, mode, &json!({"queries": queries, "iters": 1, "threads": 1})));
    r["runs"][0].clone()
}

fn remove_sidecars(dir: &Path) {
    for e in std::fs::read_dir(dir).unwrap().flatten() {
        let p = e.path();
        if p.is_dir() {
            let _ = std::fs::remove_dir_all(&p);
        }
    }
}

/// every published sidecar (has `.complete`) holds one readable IPC file per row group
fn sidecars_whole(dir: &Path) -> Value {
    let mut n_side = 0;
    let mut whole = true;
    let mut leftovers = Vec::new();
    for e in std::fs::read_dir(dir).unwrap().flatten() {
        let p = e.path();
        let name = p.file_name().unwrap().to_string_lossy().to_string();
        if !p.is_dir() {
            continue;
        }
        if name.ends_with(".building") {
            leftovers.push(name);
            continue;
        }
        if !p.join(".complete").exists() {
            continue;
        }
        n_side += 1;
        let pq = dir.join(name.trim_end_matches(".qeipc"));
        let nrg = parquet::file::reader::SerializedFileReader::new(std::fs::File::open(&pq).unwrap())
            .map(|r| parquet::file::reader::FileReader::metadata(&r).num_row_groups())
            .unwrap_or(0);
        for rg in 0..nrg {
            let ok = std::fs::File::open(p.join(format!("rg_{rg:05}.arrow")))
                .ok()
                .and_then(|f| arrow::ipc::reader::FileReader::try_new(f, None).ok())
                .map(|r| r.into_iter().all(|b| b.is_ok()))
                .unwrap_or(false);
            whole &= ok;
        }
    }
    json!({"published": n_side, "whole": whole, "staging_leftovers": leftovers})
}

fn classify(runs: &Value, baseline: &Value, counts: &mut [u64; 3], samples: &mut Vec<Value>) {
    for run in runs["runs"].as_array().unwrap_or(&vec![]) {
        let rs = run.as_array().cloned().unwrap_or_default();
        for (qi, r) in rs.iter().enumerate() {
            if r.get("rows").is_some() {
                if *r == baseline[qi] {
                    counts[0] += 1;
                } else {
                    counts[2] += 1;
                    if samples.len() < 3 {
                        samples.push(json!({"WRONG": r, "expected": baseline[qi], "query": qi}));
                    }
                }
            } else {
                counts[1] += 1;
                if samples.len() < 3 {
                    samples.push(json!({"error": r, "query": qi}));
                }
            }
        }
    }
}

fn case(v: &Value) -> Value {
    if v["child"].as_bool().unwrap_or(false) {
        return child_main(v);
    }
    let tmp = tempfile::tempdir().unwrap();
    let dir = tmp.path().join("t");
    write_table(&dir, &v["table"]);
    let queries = &v["queries"];
    // Phase A: the same answers with sidecars off / absent / freshly built / reused / reused by Auto
    let baseline = one_shot(&dir, Some("0"), queries);
    let auto_absent = one_shot(&dir, None, queries);
    let built = one_shot(&dir, Some("1"), queries);
    let after_build = sidecars_whole(&dir);
    let reused = one_shot(&dir, Some("1"), queries);
    let auto_reused = one_shot(&dir, None, queries);
    let off_again = one_shot(&dir, Some("0"), queries);
    let mut out = json!({
        "baseline": baseline, "auto_absent": auto_absent == baseline, "built": built == baseline,
        "reused": reused == baseline, "auto_reused": auto_reused == baseline, "off_again": off_again == baseline,
        "after_build": after_build,
        "baseline_ok": baseline.as_array().map(|a| a.iter().all(|r| r.get("rows").is_some())).unwrap_or(false),
    });
    // directed: the state the cross-process interleaving of the model reaches (fresh marker, one row-group file gone)
    if v["directed_missing_rg"].as_bool().unwrap_or(false) {
        let mut removed = false;
        for e in std::fs::read_dir(&dir).unwrap().flatten() {
            let p = e.path();
            if p.is_dir() && p.join(".complete").exists() {
                let last = std::fs::read_dir(&p).unwrap().flatten().map(|e| e.path())
                    .filter(|q| q.extension().map(|x| x == "arrow").unwrap_or(false)).max();
                if let Some(q) = last {
                    removed |= std::fs::remove_file(q).is_ok();
                }
            }
        }
        let r = wait_child(spawn_child(&dir, None, &json!({"queries": queries, "iters": 1, "threads": 1})));
        let (mut c, mut s) = ([0u64; 3], Vec::new());
        classify(&r, &baseline, &mut c, &mut s);
        out["directed"] = json!({"removed": removed, "ok": c[0], "error": c[1], "wrong": c[2], "samples": s});
    }
    // Phase B: races
    let mut rounds = Vec::new();
    for round in v["rounds"].as_array().unwrap_or(&vec![]) {
        remove_sidecars(&dir);
        let k = round["builders"].as_u64().unwrap_or(1);
        let r = round["readers"].as_u64().unwrap_or(0);
        let spec = json!({"queries": queries, "iters": round["iters"], "threads": round["threads"],
                          "start_at_ms": now_ms() + 400});
        let mut kids = Vec::new();
        for _ in 0..k {
            kids.push(spawn_child(&dir, Some("1"), &spec));
        }
        for _ in 0..r {
            kids.push(spawn_child(&dir, None, &spec));
        }
        let (mut c, mut s) = ([0u64; 3], Vec::new());
        for ch in kids {
            classify(&wait_child(ch), &baseline, &mut c, &mut s);
        }
        rounds.push(json!({"builders": k, "readers": r, "threads": round["threads"], "ok": c[0], "error": c[1], "wrong": c[2],
                           "samples": s, "after": sidecars_whole(&dir)}));
    }
    out["rounds"] = Value::Array(rounds);
    out
}
