//! C14: distributed::coordinator::execute_fragment on an initiator copy and a worker copy of one
//! Parquet table (two directories), with shard indices in and out of range.
//!
//! case: {"table":"t", "init":[{"name":"a.parquet","rows":[5,3],"width":4}, ...], "worker":[...],
//!        "init_order":[0,1], "worker_order":[1,0], "shard_count":3, "shard_index":1, "tamper":0}
//! The request digest is the REAL initiator digest (splits_of(init ctx).digest()), xor `tamper`.
use arrow::array::{Array, ArrayRef, Int64Array, StringArray};
use arrow::datatypes::{DataType, Field, Schema};
use arrow::record_batch::RecordBatch;
use parquet::arrow::ArrowWriter;
use parquet::file::properties::WriterProperties;
use query_engine::distributed::coordinator::{execute_fragment, splits_of, FragmentRequest};
use query_engine::{ExecutionContext, ParquetTable};
use serde_json::{json, Value};
use std::path::{Path, PathBuf};
use std::sync::Arc;

fn main() {
    let rt = qe_verif_harness::runtime();
    qe_verif_harness::run_lines(|v| case(&rt, v))
}

fn write_real(path: &Path, rows: &[i64], width: usize) {
    let schema = Arc::new(Schema::new(vec![
        Field::new("a", DataType::Int64, false),
        Field::new("s", DataType::Utf8, false),
    ]));
    let props = WriterProperties::builder().set_max_row_group_size(1 << 30).build();
    let f = std::fs::File::create(path).unwrap();
    let mut w = ArrowWriter::try_new(f, schema.clone(), Some(props)).unwrap();
    let mut next = 0i64;
    for &r in rows {
        let a: ArrayRef = Arc::new(Int64Array::from_iter_values(next..next + r));
        let s: ArrayRef = Arc::new(StringArray::from_iter_values(
            (next..next + r).map(|i| format!("{:0>w$}", i % 7, w = width)),
        ));
        next += r;
        w.write(&RecordBatch::try_new(schema.clone(), vec![a, s]).unwrap()).unwrap();
        w.flush().unwrap();
    }
    w.close().unwrap();
}

/// Write one copy of the table; returns (paths in spec order, footer inventory in spec order).
fn write_copy(dir: &Path, files: &[Value]) -> (Vec<PathBuf>, Vec<Value>) {
    std::fs::create_dir_all(dir).unwrap();
    let mut paths = Vec::new();
    let mut inv = Vec::new();
    for f in files {
        let name = f["name"].as_str().unwrap();
        let p = dir.join(name);
        let rows: Vec<i64> = f["rows"].as_array().unwrap().iter().map(|x| x.as_i64().unwrap()).collect();
        write_real(&p, &rows, f["width"].as_u64().unwrap_or(1) as usize);
        let md = query_engine::storage::metadata_cache::cached_metadata(&p).unwrap();
        let rgs: Vec<Value> = md.metadata().row_groups().iter().map(|rg| json!([rg.num_rows(), rg.total_byte_size()])).collect();
        inv.push(json!({"name": name, "rgs": rgs}));
        paths.push(p);
    }
    (paths, inv)
}

fn ctx_for(table: &str, paths: &[PathBuf], order: &Value) -> ExecutionContext {
    let ordered: Vec<PathBuf> = order.as_array().unwrap().iter().map(|i| paths[i.as_u64().unwrap() as usize].clone()).collect();
    let mut ctx = ExecutionContext::new();
    ctx.register_table_provider(table, Arc::new(ParquetTable::try_from_files(ordered).unwrap()));
    ctx
}

fn case(rt: &tokio::runtime::Runtime, v: &Value) -> Value {
    let table = v["table"].as_str().unwrap();
    let tmp = tempfile::Builder::new().prefix("qv-c14-").tempdir().unwrap();
    let (ip, iinv) = write_copy(&tmp.path().join("initiator").join(table), v["init"].as_array().unwrap());
    let (wp, winv) = write_copy(&tmp.path().join("mnt").join("worker").join(table), v["worker"].as_array().unwrap());
    let ictx = ctx_for(table, &ip, &v["init_order"]);
    let wctx = ctx_for(table, &wp, &v["worker_order"]);
    let count = v["shard_count"].as_u64().unwrap() as usize;
    let index = v["shard_index"].as_u64().unwrap() as usize;
    let iset = splits_of(&ictx, table, count).unwrap();
    let wset = splits_of(&wctx, table, count).unwrap();
    let req = FragmentRequest {
        sql: format!("SELECT COUNT(*) FROM {table}"),
        table: table.to_string(),
        shard_index: index,
        shard_count: count,
        splits_digest: iset.digest() ^ v["tamper"].as_u64().unwrap_or(0),
    };
    let r = rt.block_on(execute_fragment(&wctx, &req));
    let mut out = json!({
        "init_inventory": iinv, "worker_inventory": winv,
        "init_digest": iset.digest().to_string(), "worker_digest": wset.digest().to_string(),
        "request_digest": req.splits_digest.to_string(),
        "worker_total_rows": wset.total_rows,
    });
    match r {
        Ok((res, stats)) => {
            let cnt = res.batches.iter().map(|b| {
                let c = b.column(0).as_any().downcast_ref::<Int64Array>().map(|a| (0..a.len()).map(|i| a.value(i)).sum::<i64>());
                c.unwrap_or(-1)
            }).sum::<i64>();
            out["accepted"] = json!(true);
            out["verdict"] = json!(0);
            out["count"] = json!(cnt);
            out["stats_rows"] = json!(stats.rows);
        }
        Err(e) => {
            let msg = e.to_string();
            out["accepted"] = json!(false);
            out["verdict"] = json!(if msg.contains("split digest mismatch") { 1 } else if msg.contains("out of range") { 2 } else { 9 });
            out["error"] = json!(msg.chars().take(200).collect::<String>());
        }
    }
    out
}
