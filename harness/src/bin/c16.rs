//! C16: distributed::http_client. Three modes per case, each over a list of cut points of `raw`:
//!  "hook"   -> verif_parse_response(&raw[..k])                         (cfg(qe_verif) hook on the private parser)
//!  "socket" -> a scripted std::net TCP server reads the request, writes raw[..k], closes; the REAL async client
//!              (get / post_text / post_json) is called with a timeout
//!  "stall"  -> same, but the server keeps the connection open past the client's timeout after writing raw[..k]
//! case {"mode":..,"raw":[bytes],"cuts":[k..],"client":"get"|"post_text"|"post_json","timeout_ms":n}
//!   -> {"outs":[ {"ok":{"status":u16,"headers":[[[cp..],[cp..]]..],"body":[bytes]}} | {"err":kind} | {"panic":msg}, +"ms","req_ok" ]}
use query_engine::distributed::http_client::{self, verif_parse_response, HttpResponse};
use serde_json::{json, Value};
use std::io::{Read, Write};
use std::sync::OnceLock;
use std::time::{Duration, Instant};

static RT: OnceLock<tokio::runtime::Runtime> = OnceLock::new();

fn main() {
    RT.get_or_init(qe_verif_harness::runtime);
    qe_verif_harness::run_lines(case)
}

fn cps(s: &str) -> Vec<u32> {
    s.chars().map(|c| c as u32).collect()
}

fn outcome(r: std::io::Result<HttpResponse>) -> Value {
    match r {
        Ok(h) => json!({"ok": {"status": h.status,
                               "headers": h.headers.iter().map(|(k, v)| json!([cps(k), cps(v)])).collect::<Vec<_>>(),
                               "body": h.body}}),
        Err(e) => json!({"err": format!("{:?}", e.kind())}),
    }
}

fn find(h: &[u8], n: &[u8]) -> Option<usize> {
    h.windows(n.len()).position(|w| w == n)
}

/// Scripted peer: read one request completely, write `bytes`, then close (or stall).
fn serve(bytes: Vec<u8>, stall_ms: u64) -> (String, std::thread::JoinHandle<Vec<u8>>) {
    let listener = std::net::TcpListener::bind("127.0.0.1:0").unwrap();
    let addr = listener.local_addr().unwrap().to_string();
    let t = std::thread::spawn(move || {
        let (mut s, _) = listener.accept().unwrap();
        s.set_read_timeout(Some(Duration::from_secs(5))).ok();
        let mut req = Vec::new();
        let mut buf = [0u8; 4096];
        let head_end = loop {
            if let Some(p) = find(&req, b"\r\n\r\n") {
                break Some(p);
            }
            match s.read(&mut buf) {
                Ok(0) | Err(_) => break None,
                Ok(n) => req.extend_from_slice(&buf[..n]),
            }
        };
        if let Some(p) = head_end {
            let head = String::from_utf8_lossy(&req[..p]).to_ascii_lowercase();
            let cl = head.lines().find_map(|l| l.strip_prefix("content-length:").and_then(|v| v.trim().parse::<usize>().ok())).unwrap_or(0);
            while req.len() < p + 4 + cl {
                match s.read(&mut buf) {
                    Ok(0) | Err(_) => break,
                    Ok(n) => req.extend_from_slice(&buf[..n]),
                }
            }
        }
        let _ = s.write_all(&bytes);
        let _ = s.flush();
        if stall_ms > 0 {
            std::thread::sleep(Duration::from_millis(stall_ms));
        }
        let _ = s.shutdown(std::net::Shutdown::Write);
        // drain until the client has closed, so the reply is never cut short by a reset
        while let Ok(n) = s.read(&mut buf) {
            if n == 0 {
                break;
            }
        }
        req
    });
    (addr, t)
}

fn over_socket(bytes: Vec<u8>, client: &str, timeout_ms: u64, stall: bool) -> Value {
    let (addr, t) = serve(bytes, if stall { timeout_ms + 1200 } else { 0 });
    let to = Duration::from_millis(timeout_ms);
    let sent_body: &str = "select 1 -- probe";
    let t0 = Instant::now();
    let r = std::panic::catch_unwind(std::panic::AssertUnwindSafe(|| {
        RT.get().unwrap().block_on(async {
            match client {
                "get" => http_client::get(&addr, "/healthz", to).await,
                "post_json" => http_client::post_json(&addr, "/v1/fragment", sent_body.as_bytes(), to).await,
                _ => http_client::post_text(&addr, "/v1/sql", sent_body, to).await,
            }
        })
    }));
    let ms = t0.elapsed().as_millis() as u64;
    let req = t.join().unwrap_or_default();
    let reqs = String::from_utf8_lossy(&req).into_owned();
    let (line, ct, body) = match client {
        "get" => ("GET /healthz HTTP/1.1\r\n".to_string(), None, ""),
        "post_json" => ("POST /v1/fragment HTTP/1.1\r\n".to_string(), Some("Content-Type: application/json\r\n"), sent_body),
        _ => ("POST /v1/sql HTTP/1.1\r\n".to_string(), Some("Content-Type: text/plain; charset=utf-8\r\n"), sent_body),
    };
    let req_ok = reqs.starts_with(&line)
        && reqs.contains(&format!("\r\nHost: {addr}\r\n"))
        && reqs.contains("\r\nConnection: close\r\n")
        && reqs.contains(&format!("\r\nContent-Length: {}\r\n", body.len()))
        && ct.map(|c| reqs.contains(c)).unwrap_or(true)
        && reqs.ends_with(&format!("\r\n\r\n{body}"));
    let mut o = match r {
        Ok(r) => outcome(r),
        Err(p) => json!({"panic": qe_verif_harness::panic_message(p)}),
    };
    o["ms"] = json!(ms);
    o["req_ok"] = json!(req_ok);
    o
}

fn case(v: &Value) -> Value {
    let raw: Vec<u8> = v["raw"].as_array().unwrap().iter().map(|x| x.as_u64().unwrap() as u8).collect();
    let cuts: Vec<usize> = match v["cuts"].as_array() {
        Some(a) => a.iter().map(|x| x.as_u64().unwrap() as usize).collect(),
        None => vec![raw.len()],
    };
    let mode = v["mode"].as_str().unwrap_or("hook");
    let client = v["client"].as_str().unwrap_or("post_text");
    let timeout_ms = v["timeout_ms"].as_u64().unwrap_or(3000);
    let mut outs = Vec::new();
    for k in cuts {
        let bytes = raw[..k.min(raw.len())].to_vec();
        let o = match mode {
            "hook" => match std::panic::catch_unwind(std::panic::AssertUnwindSafe(|| verif_parse_response(&bytes))) {
                Ok(r) => outcome(r),
                Err(p) => json!({"panic": qe_verif_harness::panic_message(p)}),
            },
            "socket" => over_socket(bytes, client, timeout_ms, false),
            "stall" => over_socket(bytes, client, timeout_ms, true),
            _ => json!({"harness_error": "unknown mode"}),
        };
        outs.push(o);
    }
    json!({"outs": outs})
}
