//! Debug helper: like `sql` but lets panics print (RUST_BACKTRACE=1) — one JSON case on stdin.
use qe_verif_harness::sqlutil;
use serde_json::Value;
use std::io::Read;
fn main() {
    let rt = qe_verif_harness::runtime();
    let mut s = String::new();
    std::io::stdin().read_to_string(&mut s).unwrap();
    let v: Value = serde_json::from_str(&s).unwrap();
    let dir = tempfile::tempdir().unwrap();
    let mut ctx = query_engine::ExecutionContext::new();
    for t in v["tables"].as_array().unwrap() {
        sqlutil::register(&mut ctx, t, dir.path());
    }
    for q in v["queries"].as_array().unwrap() {
        let r = rt.block_on(ctx.sql(q.as_str().unwrap()));
        match r {
            Ok(res) => println!("{}", sqlutil::batches_json(&res.schema, &res.batches)),
            Err(e) => println!("ERR {e}"),
        }
    }
}
