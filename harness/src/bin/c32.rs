//! C32: the optimized LogicalPlan's join structure for a multi-way inner-join query.
//! Input  {"tables":[table spec (see sqlutil)...], "sql": "SELECT ... FROM ... WHERE ...", "run": bool}
//! Output {"full": tree | {"err":..},            // ExecutionContext::optimized_plan(sql): the whole rule pipeline
//!         "reorder_only": tree | {"err":..},    // Optimizer::with_rules([JoinReorder(with the providers' statistics)]) on logical_plan(sql)
//!         "bound": tree,                         // the bound, unoptimised plan (what the rule starts from)
//!         "stats": {table: {"rows":n,"cols":k}}, // what TableProvider::statistics() reports (k = columns with footer stats)
//!         "opt": result, "noopt": result,        // with "run": ctx.sql(sql) vs the bound plan executed unoptimised
//!         "reorder_only_result": result}         // with "run": the JoinReorder-alone plan executed
//! tree := {"scan": table, "filter": [conj...]}                       (filter pushed into the scan)
//!       | {"join": "Inner"|"Cross"|..., "on": [pair...], "filter": [conj...], "left": tree, "right": tree}
//!       | {"filter": [conj...], "input": tree}
//!       | {"alias": name, "input": tree}                                 (SubqueryAlias)
//!       | {"node": kind, "inputs": [tree...]}                        (Project, SubqueryAlias, ... kept so nothing is hidden)
//! pair := {"l": [col...], "r": [col...], "plain": bool, "text": "l = r"}   columns of each side in traversal order;
//!          plain = both sides are bare columns
//! conj := {"eq": [col, col]} for column = column, else {"other": text, "cols": [col...]}
//! col  := "relation.name" or "name"
use query_engine::optimizer::{JoinReorder, Optimizer, OptimizerRule};
use query_engine::physical::operators::TableStatistics;
use query_engine::planner::{BinaryOp, Expr, LogicalPlan};
use qe_verif_harness::sqlutil;
use serde_json::{json, Value};
use std::collections::HashMap;
use std::sync::Arc;

fn main() {
    let rt = qe_verif_harness::runtime();
    qe_verif_harness::run_lines(|v| case(&rt, v))
}

fn col_name(c: &query_engine::planner::Column) -> String {
    match &c.relation {
        Some(r) => format!("{}.{}", r, c.name),
        None => c.name.clone(),
    }
}

/// columns of an expression in left-to-right traversal order (only the shapes a join key can take here)
fn cols(e: &Expr, out: &mut Vec<String>) {
    match e {
        Expr::Column(c) => out.push(col_name(c)),
        Expr::BinaryExpr { left, right, .. } => {
            cols(left, out);
            cols(right, out);
        }
        Expr::UnaryExpr { expr, .. } | Expr::Cast { expr, .. } | Expr::Alias { expr, .. } => cols(expr, out),
        Expr::ScalarFunc { args, .. } => {
            for a in args {
                cols(a, out)
            }
        }
        _ => {}
    }
}

fn conjuncts(e: &Expr, out: &mut Vec<Value>) {
    match e {
        Expr::BinaryExpr { left, op: BinaryOp::And, right } => {
            conjuncts(left, out);
            conjuncts(right, out);
        }
        Expr::BinaryExpr { left, op: BinaryOp::Eq, right } => match (&**left, &**right) {
            (Expr::Column(a), Expr::Column(b)) => out.push(json!({"eq": [col_name(a), col_name(b)]})),
            _ => {
                let mut c = Vec::new();
                cols(e, &mut c);
                out.push(json!({"other": e.to_string(), "cols": c}))
            }
        },
        _ => {
            let mut c = Vec::new();
            cols(e, &mut c);
            out.push(json!({"other": e.to_string(), "cols": c}))
        }
    }
}

fn tree(p: &LogicalPlan) -> Value {
    match p {
        LogicalPlan::Scan(n) => {
            let mut f = Vec::new();
            if let Some(e) = &n.filter {
                conjuncts(e, &mut f);
            }
            json!({"scan": n.table_name, "filter": f})
        }
        LogicalPlan::Filter(n) => {
            let mut f = Vec::new();
            conjuncts(&n.predicate, &mut f);
            json!({"filter": f, "input": tree(&n.input)})
        }
        LogicalPlan::Join(n) => {
            let on: Vec<Value> = n
                .on
                .iter()
                .map(|(l, r)| {
                    let (mut lc, mut rc) = (Vec::new(), Vec::new());
                    cols(l, &mut lc);
                    cols(r, &mut rc);
                    let plain = matches!(l, Expr::Column(_)) && matches!(r, Expr::Column(_));
                    json!({"l": lc, "r": rc, "plain": plain, "text": format!("{} = {}", l, r)})
                })
                .collect();
            let mut f = Vec::new();
            if let Some(e) = &n.filter {
                conjuncts(e, &mut f);
            }
            json!({"join": format!("{:?}", n.join_type), "on": on, "filter": f,
                   "left": tree(&n.left), "right": tree(&n.right)})
        }
        LogicalPlan::SubqueryAlias(n) => json!({"alias": n.alias, "input": tree(&n.input)}),
        other => {
            let kind = format!("{:?}", other);
            let kind = kind.split(|c: char| !c.is_alphanumeric()).next().unwrap_or("?").to_string();
            let inputs: Vec<Value> = other.children().iter().map(|c| tree(c)).collect();
            json!({"node": kind, "inputs": inputs})
        }
    }
}

fn guarded<F: FnOnce() -> query_engine::Result<LogicalPlan>>(f: F) -> Value {
    match std::panic::catch_unwind(std::panic::AssertUnwindSafe(f)) {
        Ok(Ok(p)) => tree(&p),
        Ok(Err(e)) => json!({"err": e.to_string()}),
        Err(p) => json!({"panic": qe_verif_harness::panic_message(p)}),
    }
}

fn case(rt: &tokio::runtime::Runtime, v: &Value) -> Value {
    let dir = tempfile::tempdir().unwrap();
    let ctx = sqlutil::make_ctx(&v["tables"], dir.path());
    let sql = v["sql"].as_str().unwrap();

    let mut stats: HashMap<String, TableStatistics> = HashMap::new();
    let mut stats_json = serde_json::Map::new();
    for name in ctx.table_names() {
        if let Some(s) = ctx.table_provider(&name).and_then(|p| p.statistics()) {
            stats_json.insert(name.clone(), json!({"rows": s.row_count, "cols": s.column_stats.len()}));
            stats.insert(name, s);
        }
    }

    if v.get("diag").and_then(|b| b.as_bool()).unwrap_or(false) {
        // rule-by-rule trace on stderr (debugging aid only)
        let _ = ctx.logical_plan(sql).and_then(|p| Optimizer::new().with_table_statistics(stats.clone()).optimize_with_diag(p));
    }
    let full = guarded(|| ctx.optimized_plan(sql));
    let bound = guarded(|| ctx.logical_plan(sql));
    let reorder_plan = std::panic::catch_unwind(std::panic::AssertUnwindSafe(|| {
        let logical = ctx.logical_plan(sql)?;
        let rule: Arc<dyn OptimizerRule> = Arc::new(JoinReorder::with_table_statistics(stats.clone()));
        Optimizer::with_rules(vec![rule]).optimize(logical)
    }));
    let reorder_only = match &reorder_plan {
        Ok(Ok(p)) => tree(p),
        Ok(Err(e)) => json!({"err": e.to_string()}),
        Err(_) => json!({"panic": "JoinReorder alone panicked"}),
    };
    let mut out = json!({"full": full, "reorder_only": reorder_only, "bound": bound,
                         "stats": Value::Object(stats_json)});
    if v.get("run").and_then(|b| b.as_bool()).unwrap_or(false) {
        out["opt"] = sqlutil::run_sql(rt, &ctx, sql);
        out["noopt"] = sqlutil::run_sql_noopt(rt, &ctx, sql);
        // the plan produced by JoinReorder alone, executed
        if let Ok(Ok(p)) = &reorder_plan {
            out["reorder_only_result"] = sqlutil::run_logical(rt, &ctx, p);
        }
    }
    out
}
