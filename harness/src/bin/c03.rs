//! C03: optimised vs unoptimised answers, production pipeline and every optimizer rule ALONE.
//! Input  {"tables":[table spec (see sqlutil)...], "queries":[sql...],
//!         "rules":[rule names in production order, re-read from src/optimizer/mod.rs by the check],
//!         "each": bool}
//!   extension of the table spec handled here: "parquet": {..., "nostat_tail": n}  = the last n rows go to an
//!   extra file written WITHOUT statistics (footer bounds then cover only part of the data).
//! Output {"stats": {table: {"rows": n, "cols": {col: {"min","max","nulls","ndv"}}}},   // TableProvider::statistics()
//!         "q": [ {"opt": result,            // ExecutionContext::sql
//!                 "noopt": result,          // bound plan executed by the real physical planner
//!                 "prod": result,           // Optimizer::with_rules(production list, statistics-aware) on the bound plan
//!                 "each": {rule: result | {"same": true}},   // Optimizer::with_rules([rule]) ; same = plan unchanged
//!                 "flags": {"fd","pk","ea_cnt","ea_key","packed_join","scan_filter"},  // what the optimised plan contains
//!                 "plan": text} ...]}
use qe_verif_harness::sqlutil;
use query_engine::optimizer::*;
use query_engine::physical::operators::TableStatistics;
use query_engine::planner::{BinaryOp, Expr, LogicalPlan};
use query_engine::ExecutionContext;
use serde_json::{json, Map, Value};
use std::collections::HashMap;
use std::path::Path;
use std::sync::Arc;

fn main() {
    let rt = qe_verif_harness::runtime();
    qe_verif_harness::run_lines(|v| case(&rt, v))
}

pub fn make_rule(name: &str, stats: &HashMap<String, TableStatistics>) -> Option<Arc<dyn OptimizerRule>> {
    let with = !stats.is_empty();
    Some(match name {
        "ConstantFolding" => Arc::new(ConstantFolding),
        "DeriveOrPredicates" => Arc::new(DeriveOrPredicates),
        "PredicatePushdown" => Arc::new(PredicatePushdown),
        "FlattenDependentJoin" => Arc::new(FlattenDependentJoin),
        "SubqueryDecorrelation" => Arc::new(SubqueryDecorrelation),
        "SemiJoinPushdown" => Arc::new(SemiJoinPushdown),
        "JoinReorder" => {
            if with {
                Arc::new(JoinReorder::with_table_statistics(stats.clone()))
            } else {
                Arc::new(JoinReorder::new())
            }
        }
        "HavingTotalCse" => Arc::new(HavingTotalCse),
        "GroupKeyReduction" => {
            if with {
                Arc::new(GroupKeyReduction::with_table_statistics(stats.clone()))
            } else {
                Arc::new(GroupKeyReduction::new())
            }
        }
        "EagerAggregation" => {
            if with {
                Arc::new(EagerAggregation::with_table_statistics(stats.clone()))
            } else {
                Arc::new(EagerAggregation::new())
            }
        }
        "PackedGroupKeys" => {
            if with {
                Arc::new(PackedGroupKeys::with_table_statistics(stats.clone()))
            } else {
                Arc::new(PackedGroupKeys::new())
            }
        }
        "PackedJoinKeys" => {
            if with {
                Arc::new(PackedJoinKeys::with_table_statistics(stats.clone()))
            } else {
                Arc::new(PackedJoinKeys::new())
            }
        }
        "ProjectionPushdown" => Arc::new(ProjectionPushdown),
        "VectorSearchPushdown" => Arc::new(VectorSearchPushdown),
        _ => return None,
    })
}

fn register(ctx: &mut ExecutionContext, spec: &Value, dir: &Path) {
    let tail = spec["parquet"].get("nostat_tail").and_then(|x| x.as_u64()).unwrap_or(0) as usize;
    if tail == 0 {
        sqlutil::register(ctx, spec, dir);
        return;
    }
    use parquet::arrow::ArrowWriter;
    use parquet::file::properties::{EnabledStatistics, WriterProperties};
    let name = spec["name"].as_str().unwrap();
    let n = spec["rows"].as_array().unwrap().len();
    let tail = tail.min(n);
    let mut head = spec.clone();
    head["rows"] = Value::Array(spec["rows"].as_array().unwrap()[..n - tail].to_vec());
    sqlutil::write_parquet(&head, dir);
    let path = dir.join(name).join("part-zzz.parquet");
    let props = WriterProperties::builder().set_statistics_enabled(EnabledStatistics::None).build();
    let f = std::fs::File::create(&path).unwrap();
    let mut w = ArrowWriter::try_new(f, sqlutil::schema_of(spec), Some(props)).unwrap();
    w.write(&sqlutil::batch_of(spec, n - tail, n)).unwrap();
    w.close().unwrap();
    ctx.register_parquet(name, dir.join(name)).unwrap();
}

fn stats_of(ctx: &ExecutionContext) -> HashMap<String, TableStatistics> {
    let mut m = HashMap::new();
    for name in ctx.table_names() {
        if let Some(p) = ctx.table_provider(&name) {
            if let Some(s) = p.statistics() {
                m.insert(name.clone(), s);
            }
        }
    }
    m
}

fn stats_json(stats: &HashMap<String, TableStatistics>) -> Value {
    let mut out = Map::new();
    for (t, s) in stats {
        let mut cols = Map::new();
        for (c, cs) in &s.column_stats {
            cols.insert(
                c.clone(),
                json!({"min": cs.min_i64, "max": cs.max_i64, "nulls": cs.null_count, "ndv": cs.ndv_est}),
            );
        }
        out.insert(t.clone(), json!({"rows": s.row_count, "cols": Value::Object(cols)}));
    }
    Value::Object(out)
}

fn expr_is_pack(e: &Expr) -> bool {
    matches!(e, Expr::BinaryExpr { left, op: BinaryOp::Add, .. }
        if matches!(&**left, Expr::BinaryExpr { op: BinaryOp::Multiply, right, .. } if matches!(&**right, Expr::Literal(_))))
}

fn flags(p: &LogicalPlan, f: &mut Map<String, Value>) {
    let mut set = |k: &str| {
        f.insert(k.to_string(), Value::Bool(true));
    };
    match p {
        LogicalPlan::Aggregate(n) => {
            for a in &n.aggregates {
                if let Expr::Alias { name, .. } = a {
                    if name.starts_with("__fd_") {
                        set("fd");
                    }
                    if name == "__ea_cnt" {
                        set("ea_cnt");
                    }
                    if name.starts_with("__ea_sum") {
                        set("ea_key");
                    }
                }
            }
            for g in &n.group_by {
                if let Expr::Alias { name, .. } = g {
                    if name == "__pk" {
                        set("pk");
                    }
                }
            }
        }
        LogicalPlan::Join(n) => {
            if n.on.len() == 1 && expr_is_pack(&n.on[0].0) && expr_is_pack(&n.on[0].1) {
                set("packed_join");
            }
        }
        LogicalPlan::Scan(n) => {
            if n.filter.is_some() {
                set("scan_filter");
            }
        }
        _ => {}
    }
    for c in p.children() {
        flags(c, f);
    }
}

fn run_rules(
    rt: &tokio::runtime::Runtime,
    ctx: &ExecutionContext,
    bound: &LogicalPlan,
    rules: Vec<Arc<dyn OptimizerRule>>,
    skip_if_same: bool,
) -> Value {
    let b = bound.clone();
    let r = std::panic::catch_unwind(std::panic::AssertUnwindSafe(|| Optimizer::with_rules(rules).optimize(b)));
    match r {
        Ok(Ok(p)) => {
            if skip_if_same && format!("{:?}", p) == format!("{:?}", bound) {
                json!({"same": true})
            } else {
                sqlutil::run_logical(rt, ctx, &p)
            }
        }
        Ok(Err(e)) => json!({"err": e.to_string(), "stage": "optimizer"}),
        Err(p) => json!({"panic": qe_verif_harness::panic_message(p), "stage": "optimizer"}),
    }
}

fn case(rt: &tokio::runtime::Runtime, v: &Value) -> Value {
    let dir = tempfile::tempdir().unwrap();
    let mut ctx = ExecutionContext::new();
    for t in v["tables"].as_array().unwrap() {
        register(&mut ctx, t, dir.path());
    }
    let stats = stats_of(&ctx);
    let names: Vec<String> =
        v["rules"].as_array().map(|a| a.iter().map(|x| x.as_str().unwrap().to_string()).collect()).unwrap_or_default();
    let each = v.get("each").and_then(|b| b.as_bool()).unwrap_or(false);
    let mut unknown: Vec<String> = Vec::new();
    for n in &names {
        if make_rule(n, &stats).is_none() && !unknown.contains(n) {
            unknown.push(n.clone());
        }
    }
    let mut qs = Vec::new();
    for q in v["queries"].as_array().unwrap() {
        let sql = q.as_str().unwrap();
        let mut o = Map::new();
        o.insert("opt".into(), sqlutil::run_sql(rt, &ctx, sql));
        let bound = match std::panic::catch_unwind(std::panic::AssertUnwindSafe(|| ctx.logical_plan(sql))) {
            Ok(Ok(p)) => p,
            Ok(Err(e)) => {
                o.insert("noopt".into(), json!({"err": e.to_string(), "stage": "bind"}));
                qs.push(Value::Object(o));
                continue;
            }
            Err(p) => {
                o.insert("noopt".into(), json!({"panic": qe_verif_harness::panic_message(p), "stage": "bind"}));
                qs.push(Value::Object(o));
                continue;
            }
        };
        o.insert("noopt".into(), sqlutil::run_logical(rt, &ctx, &bound));
        if !names.is_empty() {
            let prod: Vec<Arc<dyn OptimizerRule>> = names.iter().filter_map(|n| make_rule(n, &stats)).collect();
            o.insert("prod".into(), run_rules(rt, &ctx, &bound, prod, false));
        }
        if each {
            let mut m = Map::new();
            let mut seen: Vec<&String> = Vec::new();
            for n in &names {
                if seen.contains(&n) {
                    continue;
                }
                seen.push(n);
                if let Some(r) = make_rule(n, &stats) {
                    m.insert(n.clone(), run_rules(rt, &ctx, &bound, vec![r], true));
                }
            }
            o.insert("each".into(), Value::Object(m));
        }
        match std::panic::catch_unwind(std::panic::AssertUnwindSafe(|| ctx.optimized_plan(sql))) {
            Ok(Ok(p)) => {
                let mut f = Map::new();
                flags(&p, &mut f);
                o.insert("flags".into(), Value::Object(f));
                let mut text = format!("{}", p);
                text.truncate(1500);
                o.insert("plan".into(), Value::String(text));
            }
            Ok(Err(e)) => {
                o.insert("flags".into(), json!({"err": e.to_string()}));
            }
            Err(p) => {
                o.insert("flags".into(), json!({"panic": qe_verif_harness::panic_message(p)}));
            }
        }
        qs.push(Value::Object(o));
    }
    json!({"stats": stats_json(&stats), "q": qs, "unknown_rules": unknown})
}
