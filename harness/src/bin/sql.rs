//! Generic SQL runner: {"tables":[spec...], "queries":["SELECT ...", ...], "memory_limit": n?}
//!  optional "noopt": true also runs every query through the bound, unoptimised plan
//! -> {"results":[{"ok":{cols,types,rows}} | {"err":..} | {"panic":..}, ...], "noopt":[...]}
use qe_verif_harness::sqlutil;
use serde_json::{json, Value};

fn main() {
    let rt = qe_verif_harness::runtime();
    qe_verif_harness::run_lines(|v: &Value| {
        let dir = tempfile::tempdir().unwrap();
        let mut ctx = match v.get("memory_limit").and_then(|m| m.as_u64()) {
            Some(m) => query_engine::ExecutionContext::with_memory_limit(m as usize),
            None => query_engine::ExecutionContext::new(),
        };
        for t in v["tables"].as_array().unwrap() {
            sqlutil::register(&mut ctx, t, dir.path());
        }
        let results: Vec<Value> = v["queries"]
            .as_array()
            .unwrap()
            .iter()
            .map(|q| sqlutil::run_sql(&rt, &ctx, q.as_str().unwrap()))
            .collect();
        let mut out = json!({ "results": results });
        if v.get("noopt").and_then(|b| b.as_bool()).unwrap_or(false) {
            let r2: Vec<Value> = v["queries"]
                .as_array()
                .unwrap()
                .iter()
                .map(|q| sqlutil::run_sql_noopt(&rt, &ctx, q.as_str().unwrap()))
                .collect();
            out["noopt"] = Value::Array(r2);
        }
        out
    });
}
