//! C38: physical::vector::{distance_column, distance_columns, query_vector_from_scalar} on
//! FixedSizeList<Float32> arrays built from JSON (f32 bit patterns), sliced, with NULL rows.
use arrow::array::*;
use arrow::buffer::{NullBuffer, ScalarBuffer};
use arrow::datatypes::{DataType, Field};
use query_engine::physical::vector::{distance_column, distance_columns, query_vector_from_scalar, DistanceKind};
use query_engine::planner::ScalarValue as SV;
use serde_json::{json, Value};
use std::sync::Arc;

fn main() {
    qe_verif_harness::run_lines(case)
}

fn f32s(v: &Value) -> Vec<f32> {
    v.as_array().unwrap().iter().map(|b| f32::from_bits(b.as_u64().unwrap() as u32)).collect()
}

/// {"dim": d, "vals": [u32 bits; rows*d], "valid": [bool; rows], "off": k, "len": n, "slice2": [o, l]?}
fn build(v: &Value) -> ArrayRef {
    let dim = v["dim"].as_u64().unwrap() as i32;
    let vals = f32s(&v["vals"]);
    let valid: Vec<bool> = v["valid"].as_array().unwrap().iter().map(|b| b.as_bool().unwrap()).collect();
    let all_valid = valid.iter().all(|b| *b);
    let nulls = if all_valid && !v["force_nullbuf"].as_bool().unwrap_or(false) { None } else { Some(NullBuffer::from(valid.clone())) };
    let child = Float32Array::new(ScalarBuffer::from(vals), None);
    let field = Arc::new(Field::new("item", DataType::Float32, true));
    let full = FixedSizeListArray::new(field, dim, Arc::new(child), nulls);
    let off = v["off"].as_u64().unwrap_or(0) as usize;
    let len = v["len"].as_u64().map(|x| x as usize).unwrap_or(valid.len() - off);
    let mut a: ArrayRef = Arc::new(full.slice(off, len));
    if let Some(s2) = v.get("slice2").and_then(|s| s.as_array()) {
        a = a.slice(s2[0].as_u64().unwrap() as usize, s2[1].as_u64().unwrap() as usize);
    }
    if v["via_data"].as_bool().unwrap_or(false) {
        // rebuild from ArrayData (offset kept in the parent ArrayData, child unsliced)
        a = make_array(a.to_data());
    }
    a
}

fn out(r: query_engine::error::Result<ArrayRef>) -> Value {
    match r {
        Err(e) => json!({"err": e.to_string()}),
        Ok(a) => {
            let f = a.as_any().downcast_ref::<Float64Array>().expect("Float64 result");
            let v: Vec<Value> = (0..f.len()).map(|i| if f.is_null(i) { Value::Null } else { json!(f.value(i).to_bits()) }).collect();
            json!({"ok": v})
        }
    }
}

fn kind(s: &str) -> DistanceKind {
    match s {
        "l2" => DistanceKind::L2,
        "cosine" => DistanceKind::Cosine,
        "cosine_similarity" => DistanceKind::CosineSimilarity,
        "dot" => DistanceKind::Dot,
        _ => panic!("bad kind"),
    }
}

fn literal(v: &Value) -> Option<Vec<f32>> {
    let vals = v["vals"].as_array().unwrap();
    let kinds = v["kinds"].as_array().unwrap();
    let elems: Vec<SV> = vals
        .iter()
        .zip(kinds.iter())
        .map(|(x, k)| match k.as_str().unwrap() {
            "f64" => SV::Float64(f64::from_bits(x.as_u64().unwrap()).into()),
            "f32" => SV::Float32(f32::from_bits(x.as_u64().unwrap() as u32).into()),
            "i64" => SV::Int64(x.as_i64().unwrap()),
            "i32" => SV::Int32(x.as_i64().unwrap() as i32),
            "u8" => SV::UInt8(x.as_u64().unwrap() as u8),
            "utf8" => SV::Utf8(x.as_str().unwrap().to_string()),
            "null" => SV::Null,
            _ => panic!("bad literal kind"),
        })
        .collect();
    query_vector_from_scalar(&SV::List(elems, Box::new(DataType::Float64)))
}

fn case(v: &Value) -> Value {
    let k = kind(v["kind"].as_str().unwrap());
    match v["op"].as_str().unwrap() {
        "column" => {
            let col = build(&v["col"]);
            let mut o = json!({});
            let q = if let Some(l) = v.get("lit") {
                match literal(l) {
                    Some(q) => {
                        o["query_bits"] = json!(q.iter().map(|f| f.to_bits()).collect::<Vec<u32>>());
                        q
                    }
                    None => return json!({"lit_none": true}),
                }
            } else {
                f32s(&v["query"])
            };
            o["res"] = out(distance_column(&col, &q, k, "v"));
            o["rows"] = json!(col.len());
            o
        }
        "columns" => {
            let l = build(&v["col"]);
            let r = build(&v["right"]);
            json!({"res": out(distance_columns(&l, &r, k)), "rows": l.len().min(r.len())})
        }
        o => json!({"harness_error": format!("unknown op {o}")}),
    }
}
