//! C18: ParquetTable::statistics() on real multi-file Parquet tables.
//!
//! case: {"cols":[["a","i64"],["s","str"]],
//!        "files":[{"rows":[[1,"x"],[null,"y"]], "row_group":2, "stats":"chunk"|"page"|"none",
//!                  "stats_off":["a"]}],              // per-column statistics switched off
//!        "sql":["SELECT ..."]}                       // optional: statements run against table `t`
//! output: {"stats": {...} | "panic": msg, "footers":[file][row group]{rows, chunks:[{col,isint,stats}]},
//!          "scan": {col: {rows,nulls,min,max}}, "overflow_checks": bool, "sql": [...]}
use arrow::array::{Array, Date32Array, Int32Array, Int64Array};
use parquet::arrow::ArrowWriter;
use parquet::basic::Type as PhysType;
use parquet::file::properties::{EnabledStatistics, WriterProperties};
use parquet::file::reader::{FileReader, SerializedFileReader};
use parquet::file::statistics::Statistics;
use parquet::schema::types::ColumnPath;
use qe_verif_harness::sqlutil;
use query_engine::physical::operators::TableProvider;
use serde_json::{json, Value};
use std::path::Path;

fn main() {
    qe_verif_harness::run_lines(case)
}

fn overflow_checks_on() -> bool {
    let x: i64 = std::hint::black_box(i64::MAX);
    std::panic::catch_unwind(|| std::hint::black_box(x + std::hint::black_box(1))).is_err()
}

fn write_files(v: &Value, dir: &Path) {
    std::fs::create_dir_all(dir).unwrap();
    for (i, f) in v["files"].as_array().unwrap().iter().enumerate() {
        let spec = json!({"name": "t", "cols": v["cols"], "rows": f["rows"]});
        let n = f["rows"].as_array().unwrap().len();
        let rg = (f["row_group"].as_u64().unwrap_or(1 << 20) as usize).max(1);
        let mut b = WriterProperties::builder().set_max_row_group_size(rg);
        b = match f["stats"].as_str().unwrap_or("chunk") {
            "none" => b.set_statistics_enabled(EnabledStatistics::None),
            "page" => b.set_statistics_enabled(EnabledStatistics::Page),
            _ => b.set_statistics_enabled(EnabledStatistics::Chunk),
        };
        if let Some(off) = f["stats_off"].as_array() {
            for c in off {
                b = b.set_column_statistics_enabled(
                    ColumnPath::from(c.as_str().unwrap()),
                    EnabledStatistics::None,
                );
            }
        }
        if let Some(on) = f["stats_on"].as_array() {
            for c in on {
                b = b.set_column_statistics_enabled(
                    ColumnPath::from(c.as_str().unwrap()),
                    EnabledStatistics::Chunk,
                );
            }
        }
        let path = dir.join(format!("part-{i:03}.parquet"));
        let file = std::fs::File::create(&path).unwrap();
        let mut w = ArrowWriter::try_new(file, sqlutil::schema_of(&spec), Some(b.build())).unwrap();
        let mut a = 0;
        while a < n {
            let e = (a + rg).min(n);
            w.write(&sqlutil::batch_of(&spec, a, e)).unwrap();
            w.flush().unwrap();
            a = e;
        }
        w.close().unwrap();
    }
}

fn footers(dir: &Path, nfiles: usize) -> Value {
    let mut files = Vec::new();
    for i in 0..nfiles {
        let path = dir.join(format!("part-{i:03}.parquet"));
        let r = SerializedFileReader::new(std::fs::File::open(&path).unwrap()).unwrap();
        let mut rgs = Vec::new();
        for rg in r.metadata().row_groups() {
            let mut chunks = Vec::new();
            for c in rg.columns() {
                let isint = matches!(c.column_type(), PhysType::INT64 | PhysType::INT32);
                let stats = match c.statistics() {
                    None => Value::Null,
                    Some(s) => {
                        let mm = match s {
                            Statistics::Int64(x) => match (x.min_opt(), x.max_opt()) {
                                (Some(a), Some(b)) => json!([*a, *b]),
                                _ => Value::Null,
                            },
                            Statistics::Int32(x) => match (x.min_opt(), x.max_opt()) {
                                (Some(a), Some(b)) => json!([*a as i64, *b as i64]),
                                _ => Value::Null,
                            },
                            _ => Value::Null,
                        };
                        json!({"nulls": s.null_count_opt(), "minmax": mm})
                    }
                };
                chunks.push(json!({
                    "col": c.column_path().parts().join(".").to_lowercase(),
                    "isint": isint, "stats": stats}));
            }
            rgs.push(json!({"rows": rg.num_rows(), "chunks": chunks}));
        }
        files.push(Value::Array(rgs));
    }
    Value::Array(files)
}

fn scan_truth(table: &dyn TableProvider) -> Value {
    let schema = table.schema();
    let batches = match table.scan(None) {
        Ok(b) => b,
        Err(e) => return json!({"err": e.to_string()}),
    };
    let mut out = serde_json::Map::new();
    for (ci, f) in schema.fields().iter().enumerate() {
        let (mut rows, mut nulls) = (0u64, 0u64);
        let (mut lo, mut hi): (Option<i64>, Option<i64>) = (None, None);
        for b in &batches {
            let a = b.column(ci);
            rows += a.len() as u64;
            nulls += a.null_count() as u64;
            let mut see = |x: i64| {
                lo = Some(lo.map_or(x, |m| m.min(x)));
                hi = Some(hi.map_or(x, |m| m.max(x)));
            };
            if let Some(x) = a.as_any().downcast_ref::<Int64Array>() {
                x.iter().flatten().for_each(&mut see);
            } else if let Some(x) = a.as_any().downcast_ref::<Int32Array>() {
                x.iter().flatten().for_each(|v| see(v as i64));
            } else if let Some(x) = a.as_any().downcast_ref::<Date32Array>() {
                x.iter().flatten().for_each(|v| see(v as i64));
            }
        }
        out.insert(f.name().to_lowercase(), json!({"rows": rows, "nulls": nulls, "min": lo, "max": hi}));
    }
    Value::Object(out)
}

fn case(v: &Value) -> Value {
    let tmp = tempfile::tempdir().unwrap();
    let dir = tmp.path().join("t");
    write_files(v, &dir);
    let nfiles = v["files"].as_array().unwrap().len();
    let table = query_engine::ParquetTable::try_new(&dir).unwrap();
    let mut out = serde_json::Map::new();
    out.insert("overflow_checks".into(), json!(overflow_checks_on()));
    out.insert("footers".into(), footers(&dir, nfiles));
    out.insert("scan".into(), scan_truth(&table));
    match std::panic::catch_unwind(std::panic::AssertUnwindSafe(|| table.statistics())) {
        Err(p) => {
            out.insert("panic".into(), json!(qe_verif_harness::panic_message(p)));
        }
        Ok(None) => {
            out.insert("stats".into(), Value::Null);
        }
        Ok(Some(s)) => {
            let mut cols = serde_json::Map::new();
            for (k, c) in &s.column_stats {
                cols.insert(
                    k.clone(),
                    json!({"min": c.min_i64, "max": c.max_i64, "nulls": c.null_count, "ndv": c.ndv_est,
                           "min_f64": c.min_f64.map(|x| x.to_bits().to_string()),
                           "max_f64": c.max_f64.map(|x| x.to_bits().to_string()), "ndv_str": c.ndv_str}),
                );
            }
            // second call: the cached report must be the same report
            let again = table.statistics().map(|s2| s2.row_count);
            out.insert(
                "stats".into(),
                json!({"row_count": s.row_count, "bytes": s.total_byte_size, "cols": cols, "again_rows": again}),
            );
        }
    }
    if let Some(sqls) = v["sql"].as_array() {
        let rt = qe_verif_harness::runtime();
        let mut ctx = query_engine::ExecutionContext::new();
        let mut res = Vec::new();
        match ctx.register_parquet("t", &dir) {
            Err(e) => res.push(json!({"err": e.to_string()})),
            Ok(()) => {
                for s in sqls {
                    res.push(sqlutil::run_sql(&rt, &ctx, s.as_str().unwrap()));
                }
            }
        }
        out.insert("sql".into(), Value::Array(res));
    }
    Value::Object(out)
}
