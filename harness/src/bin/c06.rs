//! C06: CompiledPredicate::compile/evaluate vs evaluate_expr on one RecordBatch.
//!
//! case: {"schema":[["c0","f64"],...],
//!        "rows":[ [cell,...] | {"repeat":k,"row":[cell,...]} , ...],
//!        "force_null_buffer": bool?,        // attach a validity buffer even when no cell is NULL
//!        "compile_schema": [["c0","i32"],...]?,  // compile against this schema instead of the batch's
//!        "expr": AST}
//! cell: null | integer | ["f","<u64 bits>"] | ["d",days] | string (str columns)
//!       | ["n", cell]   NULL whose underlying value slot holds `cell` (garbage under a NULL)
//! AST:  {"col":"c0"} | {"lit":["f64","<bits>"]|["i64",n]|["i32",n]|["date",n]|["null"]|["str",s]|["bool",b]}
//!       | {"arith":"+|-|*|/","l":A,"r":A} | {"cmp":"=|!=|<|<=|>|>=","l":A,"r":A}
//!       | {"and":[A,A]} | {"or":[A,A]} | {"not":A} | {"between":[A,A,A],"neg":bool}
//!       | {"alias":A} | {"cast":A,"to":"f64|i64|i32"} | {"isnull":A} | {"mod":[A,A]} | {"neg":A}
//! output: {"n":rows,"compiled":"declined"|"evalnone"|"<digits>","interp":"<digits>"|{"err":..}|{"nonbool":..},
//!          "pe": same as interp}      digits per row: 0 false, 1 true, 2 NULL (logical value only)
use arrow::array::*;
use arrow::buffer::{NullBuffer, ScalarBuffer};
use arrow::datatypes::{DataType, Field, Schema};
use arrow::record_batch::RecordBatch;
use qe_verif_harness::sqlutil;
use query_engine::physical::compiled_expr::{CompiledPredicate, PredicateEvaluator};
use query_engine::physical::evaluate_expr;
use query_engine::planner::{BinaryOp, Column, Expr, ScalarValue, UnaryOp};
use serde_json::{json, Value};
use std::sync::Arc;

fn main() {
    qe_verif_harness::run_lines(case)
}

fn bx(v: &Value) -> Box<Expr> {
    Box::new(expr(v))
}

fn expr(v: &Value) -> Expr {
    if let Some(c) = v.get("col") {
        return Expr::Column(Column { relation: None, name: c.as_str().unwrap().to_string() });
    }
    if let Some(l) = v.get("lit") {
        let a = l.as_array().unwrap();
        return Expr::Literal(match a[0].as_str().unwrap() {
            "f64" => ScalarValue::Float64(f64::from_bits(a[1].as_str().unwrap().parse::<u64>().unwrap()).into()),
            "i64" => ScalarValue::Int64(a[1].as_i64().unwrap()),
            "i32" => ScalarValue::Int32(a[1].as_i64().unwrap() as i32),
            "date" => ScalarValue::Date32(a[1].as_i64().unwrap() as i32),
            "null" => ScalarValue::Null,
            "str" => ScalarValue::Utf8(a[1].as_str().unwrap().to_string()),
            "bool" => ScalarValue::Boolean(a[1].as_bool().unwrap()),
            o => panic!("bad literal kind {o}"),
        });
    }
    if let Some(op) = v.get("arith") {
        let op = match op.as_str().unwrap() {
            "+" => BinaryOp::Add,
            "-" => BinaryOp::Subtract,
            "*" => BinaryOp::Multiply,
            "/" => BinaryOp::Divide,
            o => panic!("bad arith {o}"),
        };
        return Expr::BinaryExpr { left: bx(&v["l"]), op, right: bx(&v["r"]) };
    }
    if let Some(op) = v.get("cmp") {
        let op = match op.as_str().unwrap() {
            "=" => BinaryOp::Eq,
            "!=" => BinaryOp::NotEq,
            "<" => BinaryOp::Lt,
            "<=" => BinaryOp::LtEq,
            ">" => BinaryOp::Gt,
            ">=" => BinaryOp::GtEq,
            o => panic!("bad cmp {o}"),
        };
        return Expr::BinaryExpr { left: bx(&v["l"]), op, right: bx(&v["r"]) };
    }
    if let Some(a) = v.get("and") {
        return Expr::BinaryExpr { left: bx(&a[0]), op: BinaryOp::And, right: bx(&a[1]) };
    }
    if let Some(a) = v.get("or") {
        return Expr::BinaryExpr { left: bx(&a[0]), op: BinaryOp::Or, right: bx(&a[1]) };
    }
    if let Some(a) = v.get("mod") {
        return Expr::BinaryExpr { left: bx(&a[0]), op: BinaryOp::Modulo, right: bx(&a[1]) };
    }
    if let Some(a) = v.get("not") {
        return Expr::UnaryExpr { op: UnaryOp::Not, expr: bx(a) };
    }
    if let Some(a) = v.get("isnull") {
        return Expr::UnaryExpr { op: UnaryOp::IsNull, expr: bx(a) };
    }
    if let Some(a) = v.get("neg") {
        if !a.is_boolean() {
            return Expr::UnaryExpr { op: UnaryOp::Negate, expr: bx(a) };
        }
    }
    if let Some(a) = v.get("between") {
        return Expr::Between {
            expr: bx(&a[0]),
            low: bx(&a[1]),
            high: bx(&a[2]),
            negated: v["neg"].as_bool().unwrap_or(false),
        };
    }
    if let Some(a) = v.get("alias") {
        return Expr::Alias { expr: bx(a), name: "x".to_string() };
    }
    if let Some(a) = v.get("cast") {
        return Expr::Cast { expr: bx(a), data_type: sqlutil::dtype(v["to"].as_str().unwrap()) };
    }
    panic!("bad expr {v}")
}

/// (is_valid, value cell)
fn split_null(c: &Value) -> (bool, Option<&Value>) {
    match c {
        Value::Null => (false, None),
        Value::Array(a) if a.len() == 2 && a[0] == "n" => (false, Some(&a[1])),
        _ => (true, Some(c)),
    }
}

fn column(t: &str, cells: &[&Value], force_nulls: bool) -> ArrayRef {
    let valid: Vec<bool> = cells.iter().map(|c| split_null(c).0).collect();
    let any_null = valid.iter().any(|v| !*v);
    let nulls = if any_null || force_nulls { Some(NullBuffer::from(valid.clone())) } else { None };
    match t {
        "f64" => {
            let vals: Vec<f64> =
                cells.iter().map(|c| split_null(c).1.and_then(sqlutil::cell_f64).unwrap_or(0.0)).collect();
            Arc::new(Float64Array::new(ScalarBuffer::from(vals), nulls))
        }
        "i64" => {
            let vals: Vec<i64> =
                cells.iter().map(|c| split_null(c).1.and_then(sqlutil::cell_i64).unwrap_or(0)).collect();
            Arc::new(Int64Array::new(ScalarBuffer::from(vals), nulls))
        }
        "i32" => {
            let vals: Vec<i32> =
                cells.iter().map(|c| split_null(c).1.and_then(sqlutil::cell_i64).unwrap_or(0) as i32).collect();
            Arc::new(Int32Array::new(ScalarBuffer::from(vals), nulls))
        }
        "date" => {
            let vals: Vec<i32> =
                cells.iter().map(|c| split_null(c).1.and_then(sqlutil::cell_i64).unwrap_or(0) as i32).collect();
            Arc::new(Date32Array::new(ScalarBuffer::from(vals), nulls))
        }
        "str" => Arc::new(StringArray::from(
            cells.iter().map(|c| c.as_str().map(|s| s.to_string())).collect::<Vec<Option<String>>>(),
        )),
        o => panic!("unknown column type {o}"),
    }
}

fn digits(a: &BooleanArray) -> String {
    (0..a.len())
        .map(|i| if a.is_null(i) { '2' } else if a.value(i) { '1' } else { '0' })
        .collect()
}

fn case(v: &Value) -> Value {
    // expand {"repeat":k,"row":[..]}
    let mut rows: Vec<&Value> = Vec::new();
    for r in v["rows"].as_array().unwrap() {
        if let Some(k) = r.get("repeat") {
            for _ in 0..k.as_u64().unwrap() {
                rows.push(&r["row"]);
            }
        } else {
            rows.push(r);
        }
    }
    let force = v["force_null_buffer"].as_bool().unwrap_or(false);
    let sch = v["schema"].as_array().unwrap();
    let fields: Vec<Field> = sch
        .iter()
        .map(|c| Field::new(c[0].as_str().unwrap(), sqlutil::dtype(c[1].as_str().unwrap()), true))
        .collect();
    let schema = Arc::new(Schema::new(fields));
    let cols: Vec<ArrayRef> = sch
        .iter()
        .enumerate()
        .map(|(j, c)| {
            let cells: Vec<&Value> = rows.iter().map(|r| &r[j]).collect();
            column(c[1].as_str().unwrap(), &cells, force)
        })
        .collect();
    let batch = if cols.is_empty() {
        RecordBatch::try_new_with_options(
            schema.clone(),
            cols,
            &arrow::record_batch::RecordBatchOptions::new().with_row_count(Some(rows.len())),
        )
        .unwrap()
    } else {
        RecordBatch::try_new(schema.clone(), cols).unwrap()
    };
    let e = expr(&v["expr"]);

    // optional: compile against a different schema than the batch's (per-batch type drift)
    let cschema = match v.get("compile_schema") {
        Some(Value::Array(cs)) => Arc::new(Schema::new(
            cs.iter()
                .map(|c| Field::new(c[0].as_str().unwrap(), sqlutil::dtype(c[1].as_str().unwrap()), true))
                .collect::<Vec<Field>>(),
        )),
        _ => schema.clone(),
    };
    let compiled = match CompiledPredicate::compile(&e, &cschema) {
        None => json!("declined"),
        Some(p) => match p.evaluate(&batch) {
            None => json!("evalnone"),
            Some(m) => json!(digits(&m)),
        },
    };
    let interp = match evaluate_expr(&batch, &e) {
        Err(err) => json!({"err": err.to_string()}),
        Ok(a) => match a.as_any().downcast_ref::<BooleanArray>() {
            Some(m) => json!(digits(m)),
            None => json!({"nonbool": format!("{:?}", a.data_type())}),
        },
    };
    let pe = match PredicateEvaluator::new(e.clone()).evaluate(&batch) {
        Err(err) => json!({"err": err.to_string()}),
        Ok(m) => json!(digits(&m)),
    };
    json!({"n": batch.num_rows(), "compiled": compiled, "interp": interp, "pe": pe,
           "compile_enabled": query_engine::physical::compiled_expr::compilation_enabled()})
}
