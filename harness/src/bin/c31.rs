//! C31: serialise the engine's real LogicalPlan before and after optimizer rules.
//! Input  {"tables":[table spec...], "queries":[sql...], "rules":[rule names in production order], "run": bool}
//! Output {"q": [ {"bound": plan | {"err":..,"stage":"bind"},
//!                 "each": {rule: plan | {"same":true} | {"err"|"panic":..}},      // Optimizer::with_rules([rule]) (stats-aware)
//!                 "each_nostats": {rule: ...}                                     // same without statistics (stat rules only)
//!                 "prod": plan | {"err"..},          // ExecutionContext::optimized_plan (production pipeline, with statistics)
//!                 "prod_nostats": plan | {"err"..},  // Optimizer::new().optimize(bound): production pipeline, no statistics
//!                 "exec": "ok" | {"err"|"panic": msg},             // with "run": ExecutionContext::sql outcome
//!                 "exec_noopt": "ok" | {...}} ...]}                // only when exec failed: the bound plan executed unoptimised
//! plan := {"k": node kind, "jt": join type (joins), "schema": [[relation|null, name, type]...]   (LogicalPlan::schema())
//!          "e": {role: [ [ [relation|null, name] ... ] ... ]}   per role, per expression, the column references in order
//!          "sub": [plan...]      plans of subqueries inside this node's expressions
//!          "c": [plan...]}       children
//! roles: pred (Filter), scanfilter, proj, onl / onr (join key pairs, left / right expression), jfilter, group, agg, sort,
//!        win, delim, vals
use qe_verif_harness::sqlutil;
use query_engine::optimizer::*;
use query_engine::physical::operators::TableStatistics;
use query_engine::planner::{Column, Expr, LogicalPlan, PlanSchema, SortExpr};
use query_engine::ExecutionContext;
use serde_json::{json, Map, Value};
use std::collections::HashMap;
use std::sync::Arc;

fn main() {
    let rt = qe_verif_harness::runtime();
    qe_verif_harness::run_lines(|v| case(&rt, v))
}

fn make_rule(name: &str, stats: &HashMap<String, TableStatistics>) -> Option<Arc<dyn OptimizerRule>> {
    let with = !stats.is_empty();
    Some(match name {
        "ConstantFolding" => Arc::new(ConstantFolding),
        "DeriveOrPredicates" => Arc::new(DeriveOrPredicates),
        "PredicatePushdown" => Arc::new(PredicatePushdown),
        "FlattenDependentJoin" => Arc::new(FlattenDependentJoin),
        "SubqueryDecorrelation" => Arc::new(SubqueryDecorrelation),
        "SemiJoinPushdown" => Arc::new(SemiJoinPushdown),
        "JoinReorder" if with => Arc::new(JoinReorder::with_table_statistics(stats.clone())),
        "JoinReorder" => Arc::new(JoinReorder::new()),
        "HavingTotalCse" => Arc::new(HavingTotalCse),
        "GroupKeyReduction" if with => Arc::new(GroupKeyReduction::with_table_statistics(stats.clone())),
        "GroupKeyReduction" => Arc::new(GroupKeyReduction::new()),
        "EagerAggregation" if with => Arc::new(EagerAggregation::with_table_statistics(stats.clone())),
        "EagerAggregation" => Arc::new(EagerAggregation::new()),
        "PackedGroupKeys" if with => Arc::new(PackedGroupKeys::with_table_statistics(stats.clone())),
        "PackedGroupKeys" => Arc::new(PackedGroupKeys::new()),
        "PackedJoinKeys" if with => Arc::new(PackedJoinKeys::with_table_statistics(stats.clone())),
        "PackedJoinKeys" => Arc::new(PackedJoinKeys::new()),
        "ProjectionPushdown" => Arc::new(ProjectionPushdown),
        "VectorSearchPushdown" => Arc::new(VectorSearchPushdown),
        _ => return None,
    })
}

fn colref(c: &Column) -> Value {
    json!([c.relation, c.name])
}

/// column references of an expression in traversal order; subquery plans are collected separately
fn refs(e: &Expr, out: &mut Vec<Value>, subs: &mut Vec<Value>) {
    match e {
        Expr::Column(c) => out.push(colref(c)),
        Expr::Literal(_) | Expr::Wildcard | Expr::QualifiedWildcard(_) => {}
        Expr::BinaryExpr { left, right, .. } => {
            refs(left, out, subs);
            refs(right, out, subs);
        }
        Expr::UnaryExpr { expr, .. } | Expr::Cast { expr, .. } | Expr::Alias { expr, .. } => refs(expr, out, subs),
        Expr::Aggregate { args, .. } | Expr::ScalarFunc { args, .. } => {
            for a in args {
                refs(a, out, subs)
            }
        }
        Expr::Case { operand, when_then, else_expr } => {
            if let Some(o) = operand {
                refs(o, out, subs)
            }
            for (w, t) in when_then {
                refs(w, out, subs);
                refs(t, out, subs);
            }
            if let Some(x) = else_expr {
                refs(x, out, subs)
            }
        }
        Expr::InList { expr, list, .. } => {
            refs(expr, out, subs);
            for x in list {
                refs(x, out, subs)
            }
        }
        Expr::Between { expr, low, high, .. } => {
            refs(expr, out, subs);
            refs(low, out, subs);
            refs(high, out, subs);
        }
        Expr::ScalarSubquery(p) => subs.push(plan_json(p)),
        Expr::Exists { subquery, .. } => subs.push(plan_json(subquery)),
        Expr::InSubquery { expr, subquery, .. } => {
            refs(expr, out, subs);
            subs.push(plan_json(subquery));
        }
        Expr::WindowFunction(w) => {
            for a in &w.args {
                refs(a, out, subs)
            }
            for a in &w.partition_by {
                refs(a, out, subs)
            }
            for s in &w.order_by {
                refs(&s.expr, out, subs)
            }
        }
    }
}

fn schema_json(s: &PlanSchema) -> Value {
    Value::Array(
        s.fields().iter().map(|f| json!([f.relation, f.name, format!("{:?}", f.data_type)])).collect(),
    )
}

fn group(es: &[&Expr], subs: &mut Vec<Value>) -> Value {
    Value::Array(
        es.iter()
            .map(|e| {
                let mut r = Vec::new();
                refs(e, &mut r, subs);
                Value::Array(r)
            })
            .collect(),
    )
}

fn sort_exprs(v: &[SortExpr]) -> Vec<&Expr> {
    v.iter().map(|s| &s.expr).collect()
}

fn plan_json(p: &LogicalPlan) -> Value {
    let mut e = Map::new();
    let mut subs: Vec<Value> = Vec::new();
    let mut jt = Value::Null;
    let kind = match p {
        LogicalPlan::Scan(n) => {
            if let Some(f) = &n.filter {
                e.insert("scanfilter".into(), group(&[f], &mut subs));
            }
            "Scan"
        }
        LogicalPlan::Filter(n) => {
            e.insert("pred".into(), group(&[&n.predicate], &mut subs));
            "Filter"
        }
        LogicalPlan::Project(n) => {
            e.insert("proj".into(), group(&n.exprs.iter().collect::<Vec<_>>(), &mut subs));
            "Project"
        }
        LogicalPlan::Join(n) => {
            jt = json!(format!("{:?}", n.join_type));
            e.insert("onl".into(), group(&n.on.iter().map(|x| &x.0).collect::<Vec<_>>(), &mut subs));
            e.insert("onr".into(), group(&n.on.iter().map(|x| &x.1).collect::<Vec<_>>(), &mut subs));
            if let Some(f) = &n.filter {
                e.insert("jfilter".into(), group(&[f], &mut subs));
            }
            "Join"
        }
        LogicalPlan::Aggregate(n) => {
            e.insert("group".into(), group(&n.group_by.iter().collect::<Vec<_>>(), &mut subs));
            e.insert("agg".into(), group(&n.aggregates.iter().collect::<Vec<_>>(), &mut subs));
            "Aggregate"
        }
        LogicalPlan::Window(n) => {
            let mut all: Vec<Value> = Vec::new();
            for (_, w) in &n.window_exprs {
                let mut r = Vec::new();
                for a in &w.args {
                    refs(a, &mut r, &mut subs)
                }
                for a in &w.partition_by {
                    refs(a, &mut r, &mut subs)
                }
                for s in &w.order_by {
                    refs(&s.expr, &mut r, &mut subs)
                }
                all.push(Value::Array(r));
            }
            e.insert("win".into(), Value::Array(all));
            "Window"
        }
        LogicalPlan::Sort(n) => {
            e.insert("sort".into(), group(&sort_exprs(&n.order_by), &mut subs));
            "Sort"
        }
        LogicalPlan::Limit(_) => "Limit",
        LogicalPlan::Distinct(_) => "Distinct",
        LogicalPlan::Union(_) => "Union",
        LogicalPlan::SubqueryAlias(_) => "SubqueryAlias",
        LogicalPlan::EmptyRelation(_) => "EmptyRelation",
        LogicalPlan::Values(n) => {
            let flat: Vec<&Expr> = n.values.iter().flat_map(|r| r.iter()).collect();
            e.insert("vals".into(), group(&flat, &mut subs));
            "Values"
        }
        LogicalPlan::DelimJoin(n) => {
            jt = json!(format!("{:?}", n.join_type));
            e.insert("onl".into(), group(&n.on.iter().map(|x| &x.0).collect::<Vec<_>>(), &mut subs));
            e.insert("onr".into(), group(&n.on.iter().map(|x| &x.1).collect::<Vec<_>>(), &mut subs));
            e.insert("delim".into(), group(&n.delim_columns.iter().collect::<Vec<_>>(), &mut subs));
            "DelimJoin"
        }
        LogicalPlan::DelimGet(_) => "DelimGet",
        LogicalPlan::VectorSearch(_) => "VectorSearch",
    };
    json!({
        "k": kind,
        "jt": jt,
        "schema": schema_json(&p.schema()),
        "e": Value::Object(e),
        "sub": subs,
        "c": p.children().iter().map(|c| plan_json(c)).collect::<Vec<_>>(),
    })
}

fn opt_json(bound: &LogicalPlan, r: std::thread::Result<query_engine::Result<LogicalPlan>>, skip_same: bool) -> Value {
    match r {
        Ok(Ok(p)) => {
            if skip_same && format!("{:?}", p) == format!("{:?}", bound) {
                json!({"same": true})
            } else {
                plan_json(&p)
            }
        }
        Ok(Err(e)) => json!({"err": e.to_string()}),
        Err(p) => json!({"panic": qe_verif_harness::panic_message(p)}),
    }
}

fn case(rt: &tokio::runtime::Runtime, v: &Value) -> Value {
    let dir = tempfile::tempdir().unwrap();
    let mut ctx = ExecutionContext::new();
    for t in v["tables"].as_array().unwrap() {
        sqlutil::register(&mut ctx, t, dir.path());
    }
    let mut stats: HashMap<String, TableStatistics> = HashMap::new();
    for name in ctx.table_names() {
        if let Some(s) = ctx.table_provider(&name).and_then(|p| p.statistics()) {
            stats.insert(name.clone(), s);
        }
    }
    let none: HashMap<String, TableStatistics> = HashMap::new();
    let names: Vec<String> =
        v["rules"].as_array().map(|a| a.iter().map(|x| x.as_str().unwrap().to_string()).collect()).unwrap_or_default();
    let run = v.get("run").and_then(|b| b.as_bool()).unwrap_or(false);
    let stat_rules = ["JoinReorder", "GroupKeyReduction", "EagerAggregation", "PackedGroupKeys", "PackedJoinKeys"];
    let mut qs = Vec::new();
    for q in v["queries"].as_array().unwrap() {
        let sql = q.as_str().unwrap();
        let mut o = Map::new();
        let bound = match std::panic::catch_unwind(std::panic::AssertUnwindSafe(|| ctx.logical_plan(sql))) {
            Ok(Ok(p)) => p,
            Ok(Err(e)) => {
                o.insert("bound".into(), json!({"err": e.to_string(), "stage": "bind"}));
                qs.push(Value::Object(o));
                continue;
            }
            Err(p) => {
                o.insert("bound".into(), json!({"panic": qe_verif_harness::panic_message(p), "stage": "bind"}));
                qs.push(Value::Object(o));
                continue;
            }
        };
        o.insert("bound".into(), plan_json(&bound));
        let mut each = Map::new();
        let mut each_ns = Map::new();
        let mut seen: Vec<&String> = Vec::new();
        for n in &names {
            if seen.contains(&n) {
                continue;
            }
            seen.push(n);
            if let Some(r) = make_rule(n, &stats) {
                let b = bound.clone();
                let res = std::panic::catch_unwind(std::panic::AssertUnwindSafe(|| Optimizer::with_rules(vec![r]).optimize(b)));
                each.insert(n.clone(), opt_json(&bound, res, true));
            }
            if stat_rules.contains(&n.as_str()) {
                if let Some(r) = make_rule(n, &none) {
                    let b = bound.clone();
                    let res =
                        std::panic::catch_unwind(std::panic::AssertUnwindSafe(|| Optimizer::with_rules(vec![r]).optimize(b)));
                    each_ns.insert(n.clone(), opt_json(&bound, res, true));
                }
            }
        }
        o.insert("each".into(), Value::Object(each));
        o.insert("each_nostats".into(), Value::Object(each_ns));
        let res = std::panic::catch_unwind(std::panic::AssertUnwindSafe(|| ctx.optimized_plan(sql)));
        o.insert("prod".into(), opt_json(&bound, res, false));
        let b = bound.clone();
        let res = std::panic::catch_unwind(std::panic::AssertUnwindSafe(|| Optimizer::new().optimize(b)));
        o.insert("prod_nostats".into(), opt_json(&bound, res, false));
        if run {
            let r = sqlutil::run_sql(rt, &ctx, sql);
            if r.get("ok").is_none() {
                // is the failure the optimizer's? run the bound, unoptimised plan as well
                let n = sqlutil::run_logical(rt, &ctx, &bound);
                o.insert("exec_noopt".into(), if n.get("ok").is_some() { json!("ok") } else { n });
            }
            o.insert(
                "exec".into(),
                if r.get("ok").is_some() { json!("ok") } else { r },
            );
        }
        qs.push(Value::Object(o));
    }
    json!({ "q": qs })
}
