//! C40: the CLI's OutputFormatter (CSV and JSON writers) on an arbitrary table.
//! `cli` is a module of the binary crate only, so the CURRENT source file is compiled into this
//! harness binary (cargo tracks it: an edit to /repo/src/cli/output.rs rebuilds c40).
//! case: {"cols":[name], "types":[kind], "rows":[[cell]], "split":[batch sizes], "nobatch":bool}
//!   kind / cell:
//!   "s"    Utf8                       string|null
//!   "i"    Int64                      integer|null
//!   "f"    Float64                    string|null (parsed with f64::from_str so that NaN/inf can be sent)
//!   "b"    Boolean                    bool|null
//!   "d"    Date32                     integer days|null
//!   "ts"   Timestamp(Microsecond)     integer|null
//!   "bin"  Binary                     [byte]|null
//!   "li"   List<Int64>                [integer|null]|null
//!   "fv:N" FixedSizeList<Float32, N>  [N float strings]|null
//!   "st"   Struct{a: Int64, b: Utf8}  {"a": integer|null, "b": string|null}|null
//! output: {"csv":[bytes], "json":[bytes]} — exactly what `OutputFormatter::write` wrote;
//!   "ftext": per cell, the text std's `f64::to_string` gives for a Float64 cell (null elsewhere);
//!   "dtext": per cell, the DISPLAYED text as bytes: what the production `format_display_value` returns for that
//!   cell of that batch, obtained from the production Vertical writer (`name: <display text>` per row) on the same
//!   batches projected to the one column; null for a NULL cell.
use arrow::array::{
    Array, ArrayRef, BinaryArray, BooleanArray, Date32Array, FixedSizeListArray, Float64Array, Int64Array, ListArray,
    StringArray, StructArray, TimestampMicrosecondArray,
};
use arrow::buffer::NullBuffer;
use arrow::datatypes::{DataType, Field, Fields, Float32Type, Int64Type, Schema};
use arrow::record_batch::RecordBatch;
use serde_json::{json, Value};
use std::sync::Arc;

#[allow(dead_code)]
#[path = "/repo/src/cli/output.rs"]
mod output;
use output::{OutputFormat, OutputFormatter};

fn main() {
    qe_verif_harness::run_lines(case)
}

fn column(ty: &str, cells: &[&Value]) -> ArrayRef {
    if let Some(dim) = ty.strip_prefix("fv:") {
        let dim: i32 = dim.parse().unwrap();
        let it = cells.iter().map(|c| {
            c.as_array().map(|a| {
                a.iter().map(|x| Some(x.as_str().unwrap().parse::<f32>().expect("float text"))).collect::<Vec<Option<f32>>>()
            })
        });
        return Arc::new(FixedSizeListArray::from_iter_primitive::<Float32Type, _, _>(it, dim));
    }
    match ty {
        "s" => Arc::new(StringArray::from(
            cells.iter().map(|c| c.as_str().map(|s| s.to_string())).collect::<Vec<Option<String>>>(),
        )),
        "i" => Arc::new(Int64Array::from(cells.iter().map(|c| c.as_i64()).collect::<Vec<Option<i64>>>())),
        "f" => Arc::new(Float64Array::from(
            cells.iter().map(|c| c.as_str().map(|s| s.parse::<f64>().expect("float text"))).collect::<Vec<Option<f64>>>(),
        )),
        "b" => Arc::new(BooleanArray::from(cells.iter().map(|c| c.as_bool()).collect::<Vec<Option<bool>>>())),
        "d" => Arc::new(Date32Array::from(cells.iter().map(|c| c.as_i64().map(|x| x as i32)).collect::<Vec<Option<i32>>>())),
        "ts" => Arc::new(TimestampMicrosecondArray::from(cells.iter().map(|c| c.as_i64()).collect::<Vec<Option<i64>>>())),
        "bin" => {
            let owned: Vec<Option<Vec<u8>>> = cells
                .iter()
                .map(|c| c.as_array().map(|a| a.iter().map(|x| x.as_u64().unwrap() as u8).collect()))
                .collect();
            Arc::new(BinaryArray::from_opt_vec(owned.iter().map(|o| o.as_deref()).collect()))
        }
        "li" => {
            let it = cells.iter().map(|c| c.as_array().map(|a| a.iter().map(|x| x.as_i64()).collect::<Vec<Option<i64>>>()));
            Arc::new(ListArray::from_iter_primitive::<Int64Type, _, _>(it))
        }
        "st" => {
            let a: ArrayRef = Arc::new(Int64Array::from(cells.iter().map(|c| c["a"].as_i64()).collect::<Vec<Option<i64>>>()));
            let b: ArrayRef = Arc::new(StringArray::from(
                cells.iter().map(|c| c["b"].as_str().map(|s| s.to_string())).collect::<Vec<Option<String>>>(),
            ));
            let fields = Fields::from(vec![Field::new("a", DataType::Int64, true), Field::new("b", DataType::Utf8, true)]);
            let nulls = NullBuffer::from(cells.iter().map(|c| !c.is_null()).collect::<Vec<bool>>());
            Arc::new(StructArray::try_new(fields, vec![a, b], Some(nulls)).unwrap())
        }
        _ => panic!("unknown column type"),
    }
}

fn case(v: &Value) -> Value {
    let cols: Vec<String> = v["cols"].as_array().unwrap().iter().map(|c| c.as_str().unwrap().to_string()).collect();
    let types: Vec<String> = v["types"].as_array().unwrap().iter().map(|c| c.as_str().unwrap().to_string()).collect();
    let rows: Vec<&Vec<Value>> = v["rows"].as_array().unwrap().iter().map(|r| r.as_array().unwrap()).collect();
    let fields: Vec<Field> =
        cols.iter().zip(&types).map(|(n, t)| Field::new(n, column(t, &[]).data_type().clone(), true)).collect();
    let schema = Arc::new(Schema::new(fields));
    let mut batches = Vec::new();
    if !v["nobatch"].as_bool().unwrap_or(false) {
        let mut sizes: Vec<usize> = v["split"].as_array().map(|a| a.iter().map(|x| x.as_u64().unwrap() as usize).collect()).unwrap_or_default();
        let covered: usize = sizes.iter().sum();
        if covered < rows.len() || sizes.is_empty() {
            sizes.push(rows.len().saturating_sub(covered));
        }
        let mut start = 0usize;
        for sz in sizes {
            let end = (start + sz).min(rows.len());
            let arrays: Vec<ArrayRef> = (0..cols.len())
                .map(|j| {
                    let cells: Vec<&Value> = rows[start..end].iter().map(|r| &r[j]).collect();
                    column(&types[j], &cells)
                })
                .collect();
            batches.push(RecordBatch::try_new(schema.clone(), arrays).unwrap());
            start = end;
        }
    }
    let mut csv = Vec::new();
    OutputFormatter::new(OutputFormat::Csv).write(&mut csv, &batches).unwrap();
    let mut js = Vec::new();
    OutputFormatter::new(OutputFormat::Json).write(&mut js, &batches).unwrap();
    // what std's `f64::to_string` prints for every Float64 cell (the model takes std Display as given)
    let ftext: Vec<Vec<Value>> = rows
        .iter()
        .map(|r| {
            (0..cols.len())
                .map(|j| match (types[j].as_str(), r[j].as_str()) {
                    ("f", Some(s)) => Value::String(s.parse::<f64>().expect("float text").to_string()),
                    _ => Value::Null,
                })
                .collect()
        })
        .collect();
    // the displayed text of every cell, from the production Vertical writer: with the batches projected to column j
    // (renamed "c"), the output for the first r+1 rows extends the output for the first r rows by
    // "*************************** {r+1} ***************************\nc: {display text}\n"
    let mut dtext: Vec<Vec<Value>> = rows.iter().map(|_| vec![Value::Null; cols.len()]).collect();
    for j in 0..cols.len() {
        let one = Arc::new(Schema::new(vec![Field::new("c", schema.field(j).data_type().clone(), true)]));
        let proj: Vec<RecordBatch> =
            batches.iter().map(|b| RecordBatch::try_new(one.clone(), vec![b.column(j).clone()]).unwrap()).collect();
        let mut prev = 0usize;
        let mut row = 0usize;
        for b in &proj {
            for i in 0..b.num_rows() {
                let mut out = Vec::new();
                OutputFormatter::new(OutputFormat::Vertical).with_max_rows(row + 1).write(&mut out, &proj).unwrap();
                let head = format!("*************************** {} ***************************\nc: ", row + 1);
                let piece = &out[prev..];
                assert!(piece.starts_with(head.as_bytes()) && piece.ends_with(b"\n"), "vertical layout");
                if !b.column(0).is_null(i) {
                    dtext[row][j] = json!(piece[head.len()..piece.len() - 1].to_vec());
                }
                prev = out.len();
                row += 1;
            }
        }
    }
    json!({"csv": csv, "json": js, "batches": batches.len(), "ftext": ftext, "dtext": dtext})
}
