//! C40: the CLI's OutputFormatter (CSV and JSON writers) on an arbitrary table.
//! `cli` is a module of the binary crate only, so the CURRENT source file is compiled into this
//! harness binary (cargo tracks it: an edit to /repo/src/cli/output.rs rebuilds c40).
//! case: {"cols":[name], "types":["s"|"i"|"f"], "rows":[[cell]], "split":[batch sizes], "nobatch":bool}
//!   cell: string|null for "s" (Utf8), integer|null for "i" (Int64), string|null for "f" (Float64,
//!   the string is parsed with f64::from_str so that NaN/inf can be sent).
//! output: {"csv":[bytes], "json":[bytes]} — exactly what `OutputFormatter::write` wrote; "ftext": per cell, the
//! text std's `f64::to_string` gives for a Float64 cell (null elsewhere).
use arrow::array::{ArrayRef, Float64Array, Int64Array, StringArray};
use arrow::datatypes::{DataType, Field, Schema};
use arrow::record_batch::RecordBatch;
use serde_json::{json, Value};
use std::sync::Arc;

#[allow(dead_code)]
#[path = "/repo/src/cli/output.rs"]
mod output;
use output::{OutputFormat, OutputFormatter};

fn main() {
    qe_verif_harness::run_lines(case)
}

fn column(ty: &str, cells: &[&Value]) -> ArrayRef {
    match ty {
        "s" => Arc::new(StringArray::from(
            cells.iter().map(|c| c.as_str().map(|s| s.to_string())).collect::<Vec<Option<String>>>(),
        )),
        "i" => Arc::new(Int64Array::from(
            cells.iter().map(|c| c.as_i64()).collect::<Vec<Option<i64>>>(),
        )),
        "f" => Arc::new(Float64Array::from(
            cells
                .iter()
                .map(|c| c.as_str().map(|s| s.parse::<f64>().expect("float text")))
                .collect::<Vec<Option<f64>>>(),
        )),
        _ => panic!("unknown column type"),
    }
}

fn case(v: &Value) -> Value {
    let cols: Vec<String> = v["cols"].as_array().unwrap().iter().map(|c| c.as_str().unwrap().to_string()).collect();
    let types: Vec<String> = v["types"].as_array().unwrap().iter().map(|c| c.as_str().unwrap().to_string()).collect();
    let rows: Vec<&Vec<Value>> = v["rows"].as_array().unwrap().iter().map(|r| r.as_array().unwrap()).collect();
    let fields: Vec<Field> = cols
        .iter()
        .zip(&types)
        .map(|(n, t)| {
            let dt = match t.as_str() {
                "s" => DataType::Utf8,
                "i" => DataType::Int64,
                _ => DataType::Float64,
            };
            Field::new(n, dt, true)
        })
        .collect();
    let schema = Arc::new(Schema::new(fields));
    let mut batches = Vec::new();
    if !v["nobatch"].as_bool().unwrap_or(false) {
        let mut sizes: Vec<usize> = v["split"].as_array().map(|a| a.iter().map(|x| x.as_u64().unwrap() as usize).collect()).unwrap_or_default();
        let covered: usize = sizes.iter().sum();
        if covered < rows.len() || sizes.is_empty() {
            sizes.push(rows.len().saturating_sub(covered));
        }
        let mut start = 0usize;
        for sz in sizes {
            let end = (start + sz).min(rows.len());
            let arrays: Vec<ArrayRef> = (0..cols.len())
                .map(|j| {
                    let cells: Vec<&Value> = rows[start..end].iter().map(|r| &r[j]).collect();
                    column(&types[j], &cells)
                })
                .collect();
            batches.push(RecordBatch::try_new(schema.clone(), arrays).unwrap());
            start = end;
        }
    }
    let mut csv = Vec::new();
    OutputFormatter::new(OutputFormat::Csv).write(&mut csv, &batches).unwrap();
    let mut js = Vec::new();
    OutputFormatter::new(OutputFormat::Json).write(&mut js, &batches).unwrap();
    // what std's `f64::to_string` prints for every Float64 cell (the model takes std Display as given)
    let ftext: Vec<Vec<Value>> = rows
        .iter()
        .map(|r| {
            (0..cols.len())
                .map(|j| match (types[j].as_str(), r[j].as_str()) {
                    ("f", Some(s)) => Value::String(s.parse::<f64>().expect("float text").to_string()),
                    _ => Value::Null,
                })
                .collect()
        })
        .collect();
    json!({"csv": csv, "json": js, "batches": batches.len(), "ftext": ftext})
}
