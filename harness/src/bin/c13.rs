//! C13: shard scans reassemble the table. Runs the REAL `splits_of` / `assign_lpt` / `shard_context`
//! (and therefore `ShardedParquetTable::scan_with_filter` through the ordinary local planner) for every
//! node of a cluster and returns what every shard answers, next to the full-table answer.
//!
//! case: {"tables":[spec with "parquet"], "table":"t", "nodes":N, "enum_nodes":K?,
//!        "custom": null | {"pieces":[[n,...] per enumerated whole row group, canonical order], "owner":[node per split]},
//!        "queries":["SELECT ... FROM t WHERE ...", ...], "scans":[null | [col idx,...], ...]}
//! * custom = null: splits = splits_of(ctx, table, K or N) (the engine's own sub-row-group cutting),
//!   assignment = assign_lpt(set, N).
//! * custom given: the engine's whole-row-group enumeration (nodes = 1) is re-cut into the given
//!   row ranges and the splits are handed to nodes by `owner` — "any assignment of a table's splits".
//! out: {"splits":[[file,rg,off,rows,bytes]], "per_node":[[idx]], "full":[res per query],
//!       "shards":[{"pf_none":bool,"stats":[rows,splits,bytes],"provider_rows":..,"q":[res per query],
//!                  "scan":[{"rows":[[..]]}|{"err":..} per scans entry]}], "pushed":[bool per query]}
use query_engine::distributed::coordinator::shard_context;
use query_engine::distributed::splits::{assign_lpt, Assignment, Split, SplitSet};
use query_engine::distributed::splits_of;
use query_engine::planner::LogicalPlan;
use qe_verif_harness::sqlutil;
use serde_json::{json, Value};

fn main() {
    let rt = qe_verif_harness::runtime();
    qe_verif_harness::run_lines(|v| case(&rt, v))
}

fn has_pushed_filter(p: &LogicalPlan, table: &str) -> bool {
    if let LogicalPlan::Scan(s) = p {
        return s.table_name == table && s.filter.is_some();
    }
    p.children().iter().any(|c| has_pushed_filter(c, table))
}

fn case(rt: &tokio::runtime::Runtime, v: &Value) -> Value {
    let dir = tempfile::tempdir().unwrap();
    let base = sqlutil::make_ctx(&v["tables"], dir.path());
    let table = v["table"].as_str().unwrap();
    let nodes = v["nodes"].as_u64().unwrap() as usize;
    let enum_nodes = v.get("enum_nodes").and_then(|x| x.as_u64()).map(|x| x as usize).unwrap_or(nodes);
    let queries: Vec<&str> = v["queries"].as_array().unwrap().iter().map(|q| q.as_str().unwrap()).collect();

    let (set, assignment) = if v["custom"].is_object() {
        let whole = match splits_of(&base, table, 1) {
            Ok(s) => s,
            Err(e) => return json!({"err": format!("splits_of: {e}")}),
        };
        let pieces = v["custom"]["pieces"].as_array().unwrap();
        let mut splits: Vec<Split> = Vec::new();
        for (g, w) in whole.splits.iter().enumerate() {
            if !(w.row_offset == 0) {
                return json!({"err": "whole-row-group enumeration expected"});
            }
            let mut off = 0i64;
            for p in pieces[g].as_array().unwrap() {
                let n = p.as_i64().unwrap();
                splits.push(Split {
                    table: w.table.clone(),
                    path: w.path.clone(),
                    file: w.file.clone(),
                    row_group: w.row_group,
                    row_offset: off,
                    num_rows: n,
                    bytes: (w.bytes as i64 * n / w.num_rows.max(1)) as u64,
                });
                off += n;
            }
        }
        let owner: Vec<usize> = v["custom"]["owner"].as_array().unwrap().iter().map(|x| x.as_u64().unwrap() as usize).collect();
        let mut per_node: Vec<Vec<usize>> = vec![Vec::new(); nodes];
        for (i, &o) in owner.iter().enumerate().take(splits.len()) {
            per_node[o].push(i);
        }
        let node_bytes: Vec<u64> = per_node.iter().map(|l| l.iter().map(|&i| splits[i].bytes).sum()).collect();
        let node_rows: Vec<i64> = per_node.iter().map(|l| l.iter().map(|&i| splits[i].num_rows).sum()).collect();
        let node_splits: Vec<usize> = per_node.iter().map(|l| l.len()).collect();
        let total_bytes = node_bytes.iter().sum();
        let set = SplitSet {
            table: table.to_string(),
            total_bytes,
            total_rows: splits.iter().map(|s| s.num_rows).sum(),
            splits,
            target_split_bytes: 1,
        };
        (set, Assignment { nodes, per_node, node_bytes, node_rows, node_splits, total_bytes })
    } else {
        let set = match splits_of(&base, table, enum_nodes) {
            Ok(s) => s,
            Err(e) => return json!({"err": format!("splits_of: {e}")}),
        };
        let a = assign_lpt(&set, nodes);
        (set, a)
    };

    let full: Vec<Value> = queries.iter().map(|q| sqlutil::run_sql(rt, &base, q)).collect();
    let pushed: Vec<Value> = queries
        .iter()
        .map(|q| match base.optimized_plan(q) {
            Ok(p) => json!(has_pushed_filter(&p, table)),
            Err(_) => Value::Null,
        })
        .collect();

    let mut shards = Vec::new();
    for i in 0..assignment.nodes {
        let (ctx, stats) = match shard_context(&base, table, &set, &assignment, i) {
            Ok(x) => x,
            Err(e) => {
                shards.push(json!({"err": e.to_string()}));
                continue;
            }
        };
        let provider = ctx.table_provider(table).unwrap();
        let q: Vec<Value> = queries.iter().map(|q| sqlutil::run_sql(rt, &ctx, q)).collect();
        let mut scans = Vec::new();
        if let Some(Value::Array(sc)) = v.get("scans") {
            for s in sc {
                let proj: Option<Vec<usize>> = s.as_array().map(|a| a.iter().map(|x| x.as_u64().unwrap() as usize).collect());
                let r = std::panic::catch_unwind(std::panic::AssertUnwindSafe(|| provider.scan(proj.as_deref())));
                scans.push(match r {
                    Ok(Ok(batches)) => {
                        let schema = batches.first().map(|b| b.schema()).unwrap_or_else(|| provider.schema());
                        let j = sqlutil::batches_json(&schema, &batches);
                        json!({"rows": j["rows"], "cols": j["cols"], "batches": batches.len()})
                    }
                    Ok(Err(e)) => json!({"err": e.to_string()}),
                    Err(p) => json!({"panic": qe_verif_harness::panic_message(p)}),
                });
            }
        }
        shards.push(json!({
            "pf_none": provider.parquet_files().is_none(),
            "stats": [stats.rows, stats.splits, stats.bytes],
            "stat_rows": provider.statistics().map(|s| s.row_count),
            "other_tables_whole": ctx.table_names().iter().filter(|n| n.as_str() != table)
                .all(|n| ctx.table_provider(n).map(|p| p.parquet_files().is_some()).unwrap_or(false)
                     == base.table_provider(n).map(|p| p.parquet_files().is_some()).unwrap_or(false)),
            "q": q,
            "scan": scans,
        }));
    }
    // the unsharded provider's own answer to the same provider-level scans (the reference for them)
    let mut base_scans = Vec::new();
    if let Some(Value::Array(sc)) = v.get("scans") {
        let provider = base.table_provider(table).unwrap();
        for s in sc {
            let proj: Option<Vec<usize>> = s.as_array().map(|a| a.iter().map(|x| x.as_u64().unwrap() as usize).collect());
            base_scans.push(match provider.scan(proj.as_deref()) {
                Ok(batches) => {
                    let schema = batches.first().map(|b| b.schema()).unwrap_or_else(|| provider.schema());
                    let j = sqlutil::batches_json(&schema, &batches);
                    json!({"rows": j["rows"], "cols": j["cols"]})
                }
                Err(e) => json!({"err": e.to_string()}),
            });
        }
    }
    let oob = shard_context(&base, table, &set, &assignment, assignment.nodes).is_err();
    json!({
        "splits": set.splits.iter().map(|s| json!([s.file, s.row_group, s.row_offset, s.num_rows, s.bytes])).collect::<Vec<_>>(),
        "target": set.target_split_bytes,
        "per_node": assignment.per_node,
        "full": full,
        "pushed": pushed,
        "shards": shards,
        "base_scans": base_scans,
        "out_of_range_index_is_error": oob,
    })
}
