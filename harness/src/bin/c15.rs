//! C15: distributed::membership::Membership driven by an arbitrary operation history.
//! Input  {"self": addr, "self_id": n, "universe": [addr...], "ops": [...]}
//!   ops: {"op":"set","addrs":[..]} | {"op":"err","msg":s} | {"op":"up","addr":a,"id":n|null,"flight":s|null}
//!        | {"op":"down","addr":a,"msg":s} | {"op":"flight","flight":s|null}
//! Output {"is_self": [[addr,bool]...], "views": [view before any op, view after each op]}
//! Special input {"local_ips": true} -> {"local_ips": [..]} (what getifaddrs reports here).
//! Discovery is Static([]) and never resolved: nothing here touches DNS except what
//! is_self_address itself does for the spellings in the universe.
use query_engine::distributed::membership::{
    is_self_address, local_ip_addresses, Discovery, Member, Membership, PeerStatus,
};
use serde_json::{json, Value};

fn main() {
    qe_verif_harness::run_lines(case)
}

fn opt_str(v: &Value) -> Option<String> {
    v.as_str().map(|s| s.to_string())
}

fn member_json(m: &Member) -> Value {
    json!({
        "address": m.address, "node_id": m.node_id, "flight": m.flight, "is_self": m.is_self,
        "status": match m.status { PeerStatus::Unknown => "unknown", PeerStatus::Up => "up", PeerStatus::Down => "down" },
        "seen": m.last_seen_unix_ms.is_some(), "last_error": m.last_error,
        "fails": m.consecutive_failures,
    })
}

fn view(mem: &Membership) -> Value {
    json!({
        "members": mem.members().iter().map(member_json).collect::<Vec<_>>(),
        "peers": mem.peer_addresses(),
        "generation": mem.generation(),
        "resolved": mem.resolved(),
        "last_resolve_error": mem.last_resolve_error(),
    })
}

fn case(v: &Value) -> Value {
    if v.get("local_ips").is_some() {
        let mut ips: Vec<String> = local_ip_addresses().iter().map(|ip| ip.to_string()).collect();
        ips.sort();
        return json!({ "local_ips": ips });
    }
    let self_addr = v["self"].as_str().unwrap().to_string();
    let self_id = v["self_id"].as_u64().unwrap();
    let table: Vec<Value> = v["universe"]
        .as_array()
        .unwrap()
        .iter()
        .map(|a| {
            let a = a.as_str().unwrap();
            json!([a, is_self_address(a, &self_addr)])
        })
        .collect();

    let mem = Membership::new(self_id, self_addr.clone(), Discovery::Static(vec![]));
    let mut views = vec![view(&mem)];
    for o in v["ops"].as_array().unwrap() {
        match o["op"].as_str().unwrap() {
            "set" => {
                let addrs: Vec<String> =
                    o["addrs"].as_array().unwrap().iter().map(|a| a.as_str().unwrap().to_string()).collect();
                mem.set_members(addrs);
            }
            "err" => mem.record_resolve_error(o["msg"].as_str().unwrap()),
            "up" => mem.record_up(o["addr"].as_str().unwrap(), o["id"].as_u64(), opt_str(&o["flight"])),
            "down" => mem.record_down(o["addr"].as_str().unwrap(), o["msg"].as_str().unwrap()),
            "flight" => mem.set_self_flight(opt_str(&o["flight"])),
            other => panic!("unknown op {other}"),
        }
        views.push(view(&mem));
    }
    // the self predicate consults the OS; it must answer the same after the history
    let table_after: Vec<Value> = v["universe"]
        .as_array()
        .unwrap()
        .iter()
        .map(|a| {
            let a = a.as_str().unwrap();
            json!([a, is_self_address(a, &self_addr)])
        })
        .collect();
    json!({ "is_self": table, "is_self_stable": table == table_after, "views": views })
}
