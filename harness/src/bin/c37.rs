//! C37: arrow_ffi::{analyze_encoding, encode_optimal, EncodedArray::decode} and the codec helpers
//! (filter_simd, compare_simd, add_simd, multiply_simd, sum_simd, count_simd) next to the real
//! Arrow kernels, on arrays built from JSON (physical values under NULL slots are controlled by
//! the case; arrays are built longer and then `slice(off,len)`d).
use arrow::array::*;
use arrow::buffer::{BooleanBuffer, NullBuffer, ScalarBuffer};
use arrow::compute::kernels::{cmp, numeric};
use arrow::datatypes::DataType;
use query_engine::arrow_ffi::{
    add_simd, analyze_encoding, compare_simd, count_simd, encode_optimal, filter_simd, multiply_simd, sum_simd,
    CodecScalarValue, CompareOp,
};
use serde_json::{json, Value};
use std::panic::{catch_unwind, AssertUnwindSafe};
use std::sync::{Arc, OnceLock};

fn main() {
    qe_verif_harness::run_lines(case)
}

fn guard<T>(f: impl FnOnce() -> T) -> Result<T, String> {
    catch_unwind(AssertUnwindSafe(f)).map_err(qe_verif_harness::panic_message)
}

fn build(v: &Value) -> ArrayRef {
    let vals = v["vals"].as_array().unwrap();
    let valid: Vec<bool> = v["valid"].as_array().unwrap().iter().map(|b| b.as_bool().unwrap()).collect();
    assert_eq!(vals.len(), valid.len());
    let all_valid = valid.iter().all(|b| *b);
    let nulls = if all_valid && !v["force_nullbuf"].as_bool().unwrap_or(false) {
        None
    } else {
        Some(NullBuffer::from(valid.clone()))
    };
    let full: ArrayRef = match v["ty"].as_str().unwrap() {
        "i32" => {
            let x: Vec<i32> = vals.iter().map(|n| n.as_i64().unwrap() as i32).collect();
            Arc::new(Int32Array::new(ScalarBuffer::from(x), nulls))
        }
        "i64" => {
            let x: Vec<i64> = vals.iter().map(|n| n.as_i64().unwrap()).collect();
            Arc::new(Int64Array::new(ScalarBuffer::from(x), nulls))
        }
        "f64" => {
            let x: Vec<f64> = vals.iter().map(|n| f64::from_bits(n.as_u64().unwrap())).collect();
            Arc::new(Float64Array::new(ScalarBuffer::from(x), nulls))
        }
        "bool" => {
            let x: Vec<bool> = vals.iter().map(|n| n.as_bool().unwrap()).collect();
            Arc::new(BooleanArray::new(BooleanBuffer::from(x), nulls))
        }
        "utf8" => {
            let x: Vec<Option<&str>> =
                vals.iter().zip(valid.iter()).map(|(s, ok)| if *ok { Some(s.as_str().unwrap()) } else { None }).collect();
            Arc::new(StringArray::from(x))
        }
        t => panic!("bad ty {t}"),
    };
    let off = v["off"].as_u64().unwrap_or(0) as usize;
    let len = v["len"].as_u64().map(|x| x as usize).unwrap_or(full.len() - off);
    let mut a = full.slice(off, len);
    // optional second slice: a slice of a slice
    if let Some(s2) = v.get("slice2").and_then(|s| s.as_array()) {
        a = a.slice(s2[0].as_u64().unwrap() as usize, s2[1].as_u64().unwrap() as usize);
    }
    a
}

fn fbits(f: f64, canon: bool) -> u64 {
    if canon && f.is_nan() {
        0x7ff8_0000_0000_0000
    } else {
        f.to_bits()
    }
}

/// logical view: null | integer | f64 bit pattern | string | bool
fn view(a: &dyn Array, canon: bool) -> Value {
    let mut out = Vec::with_capacity(a.len());
    let a: ArrayRef = match a.data_type() {
        DataType::Dictionary(_, _) => arrow::compute::cast(a, &DataType::Utf8).unwrap(),
        _ => make_array(a.to_data()),
    };
    for i in 0..a.len() {
        if a.is_null(i) {
            out.push(Value::Null);
            continue;
        }
        out.push(match a.data_type() {
            DataType::Int32 => json!(a.as_any().downcast_ref::<Int32Array>().unwrap().value(i)),
            DataType::Int64 => json!(a.as_any().downcast_ref::<Int64Array>().unwrap().value(i)),
            DataType::Float64 => json!(fbits(a.as_any().downcast_ref::<Float64Array>().unwrap().value(i), canon)),
            DataType::Boolean => json!(a.as_any().downcast_ref::<BooleanArray>().unwrap().value(i)),
            DataType::Utf8 => json!(a.as_any().downcast_ref::<StringArray>().unwrap().value(i)),
            t => panic!("view: unsupported {t:?}"),
        });
    }
    Value::Array(out)
}

fn res_arr<E: std::fmt::Display>(r: Result<Result<ArrayRef, E>, String>, canon: bool) -> Value {
    match r {
        Err(p) => json!({"panic": p}),
        Ok(Err(e)) => json!({"err": e.to_string()}),
        Ok(Ok(a)) => json!({"ok": view(a.as_ref(), canon), "dtype": format!("{:?}", a.data_type())}),
    }
}

fn ovf_checks() -> bool {
    static P: OnceLock<bool> = OnceLock::new();
    *P.get_or_init(|| {
        let l = Int64Array::from(vec![i64::MAX]);
        let r = Int64Array::from(vec![1i64]);
        guard(|| add_simd(&l, &r).map(|_| ())).is_err()
    })
}

fn case(v: &Value) -> Value {
    match v["op"].as_str().unwrap() {
        "encode" => {
            let a = build(&v["arr"]);
            let analyzed = guard(|| format!("{:?}", analyze_encoding(a.as_ref())));
            let enc = guard(|| encode_optimal(a.clone()));
            let mut o = json!({"analyze": analyzed.unwrap_or_else(|p| format!("panic: {p}")), "input_view": view(a.as_ref(), false)});
            match enc {
                Err(p) => {
                    o["result"] = json!("panic");
                    o["msg"] = json!(p);
                }
                Ok(Err(e)) => {
                    o["result"] = json!("err");
                    o["msg"] = json!(e.to_string());
                }
                Ok(Ok(e)) => {
                    let d = e.decode();
                    o["result"] = json!("ok");
                    o["encoding"] = json!(format!("{:?}", e.encoding()));
                    o["enc_len"] = json!(e.len());
                    o["decoded"] = view(d.as_ref(), false);
                    o["decoded_dtype"] = json!(format!("{:?}", d.data_type()));
                    o["same_dtype"] = json!(d.data_type() == a.data_type());
                    // arrow's own (logical, offset-aware) array equality
                    o["arrow_equal"] = json!(d.data_type() == a.data_type() && d.to_data() == a.to_data());
                }
            }
            o
        }
        "filter" => {
            let a = build(&v["arr"]);
            let pred: Vec<bool> = v["pred"].as_array().unwrap().iter().map(|b| b.as_bool().unwrap()).collect();
            let h = guard(|| filter_simd(a.as_ref(), &pred));
            let pa = BooleanArray::from(pred.clone());
            let k = guard(|| arrow::compute::filter(a.as_ref(), &pa));
            json!({"helper": res_arr(h, false), "arrow": res_arr(k, false)})
        }
        "cmp" => {
            let l = build(&v["l"]);
            let r = build(&v["r"]);
            let op = v["cmp"].as_str().unwrap();
            let cop = match op {
                "eq" => CompareOp::Eq,
                "ne" => CompareOp::Ne,
                "lt" => CompareOp::Lt,
                "le" => CompareOp::Le,
                "gt" => CompareOp::Gt,
                "ge" => CompareOp::Ge,
                _ => panic!("bad cmp"),
            };
            let h = guard(|| compare_simd(l.as_ref(), r.as_ref(), cop).map(|b| Arc::new(b) as ArrayRef));
            let k = guard(|| {
                let r = match op {
                    "eq" => cmp::eq(&l, &r),
                    "ne" => cmp::neq(&l, &r),
                    "lt" => cmp::lt(&l, &r),
                    "le" => cmp::lt_eq(&l, &r),
                    "gt" => cmp::gt(&l, &r),
                    _ => cmp::gt_eq(&l, &r),
                };
                r.map(|b| Arc::new(b) as ArrayRef)
            });
            json!({"helper": res_arr(h, false), "arrow": res_arr(k, false)})
        }
        op @ ("add" | "mul") => {
            let l = build(&v["l"]);
            let r = build(&v["r"]);
            let add = op == "add";
            let h = guard(|| if add { add_simd(l.as_ref(), r.as_ref()) } else { multiply_simd(l.as_ref(), r.as_ref()) });
            let k = guard(|| if add { numeric::add(&l, &r) } else { numeric::mul(&l, &r) });
            let w = guard(|| if add { numeric::add_wrapping(&l, &r) } else { numeric::mul_wrapping(&l, &r) });
            json!({"helper": res_arr(h, true), "arrow": res_arr(k, true), "arrow_wrapping": res_arr(w, true),
                   "ovf_checks": ovf_checks()})
        }
        "sum" => {
            let a = build(&v["arr"]);
            let h = match guard(|| sum_simd(a.as_ref())) {
                Err(p) => json!({"panic": p}),
                Ok(Err(e)) => json!({"err": e.to_string()}),
                Ok(Ok(s)) => match s {
                    CodecScalarValue::Int64(x) => json!({"ok": [x]}),
                    CodecScalarValue::Float64(x) => json!({"ok": [x.map(|f| fbits(f, true))]}),
                    other => json!({"ok": [format!("{other:?}")]}),
                },
            };
            let k = match a.data_type() {
                DataType::Int32 => json!({"ok": [arrow::compute::sum(a.as_any().downcast_ref::<Int32Array>().unwrap())]}),
                DataType::Int64 => json!({"ok": [arrow::compute::sum(a.as_any().downcast_ref::<Int64Array>().unwrap())]}),
                DataType::Float64 => json!({"ok": [arrow::compute::sum(a.as_any().downcast_ref::<Float64Array>().unwrap())
                    .map(|f| fbits(f, true))]}),
                _ => json!({"err": "no arrow sum kernel for this type"}),
            };
            json!({"helper": h, "arrow": k, "ovf_checks": ovf_checks()})
        }
        "count" => {
            let a = build(&v["arr"]);
            let h = match guard(|| count_simd(a.as_ref())) {
                Err(p) => json!({"panic": p}),
                Ok(Err(e)) => json!({"err": e.to_string()}),
                Ok(Ok(c)) => json!({"ok": [c]}),
            };
            json!({"helper": h, "arrow": {"ok": [(a.len() - a.null_count()) as i64]}})
        }
        o => json!({"harness_error": format!("unknown op {o}")}),
    }
}
