//! C05: statistics-based row-group skipping on REAL Parquet files.
//!
//! case  = {"cols":[[name,type]...], "rows":[[cell...]...], "rg": rows per row group,
//!          "preds":[P...], "sql":[null | "SELECT .. WHERE .."]  (optional, one per predicate)}
//! P     = ["cmp",op,O,O] | ["and",P,P] | ["or",P,P] | ["not",P] | ["between",O,O,O,neg]
//!       | ["in",O,[O...],neg] | ["isnull",col] | ["like",col,pat]
//! O     = ["col",name] | ["lit",L] | ["plus0",name]           (plus0 = `name + 0`: not a bare column)
//! L     = ["i64",n] | ["i32",n] | ["date",n] | ["ts",n] | ["f64","<u64 bits>"] | ["f32","<u32 bits>"]
//!       | ["str",s] | ["null"] | ["bool",b]
//! out   = {"rgs":[{"rows":[[cell..]..] (decoded), "stats":[S per column],
//!                  "might":[b per pred], "definite":[b per pred],
//!                  "rf":[per pred: [true|false|null per row] | {"err":..}]   (PredicateEvaluator: the scan's RowFilter)
//!                  "interp":[same via evaluate_expr]}],
//!          "prune":[per pred: [row-group indices kept by prune_row_groups]],
//!          "e2e":[per pred: null | {"parquet":..,"memory":..}]}
//! S     = {"t":"Int32|Int64|Double|ByteArray|<other>|none","min":..,"max":..,"nulls":n|null,
//!          "min_exact":b,"max_exact":b}  (ints as numbers, doubles as "<bits>", byte arrays as [u8..])
use arrow::array::{Array, ArrayRef, BooleanArray};
use arrow::record_batch::RecordBatch;
use parquet::arrow::arrow_reader::ParquetRecordBatchReaderBuilder;
use parquet::file::statistics::Statistics;
use qe_verif_harness::sqlutil;
use query_engine::physical::compiled_expr::PredicateEvaluator;
use query_engine::physical::operators::evaluate_expr;
use query_engine::planner::{BinaryOp, Column, Expr, ScalarValue, UnaryOp};
use query_engine::storage::row_group_pruning::{
    prune_row_groups, row_group_definitely_matches, row_group_might_match,
};
use serde_json::{json, Value};

fn main() {
    let rt = qe_verif_harness::runtime();
    qe_verif_harness::run_lines(|v| case(&rt, v))
}

fn lit(l: &Value) -> ScalarValue {
    match l[0].as_str().unwrap() {
        "i64" => ScalarValue::Int64(l[1].as_i64().unwrap()),
        "i32" => ScalarValue::Int32(l[1].as_i64().unwrap() as i32),
        "date" => ScalarValue::Date32(l[1].as_i64().unwrap() as i32),
        "ts" => ScalarValue::Timestamp(l[1].as_i64().unwrap()),
        "f64" => ScalarValue::Float64(f64::from_bits(l[1].as_str().unwrap().parse::<u64>().unwrap()).into()),
        "f32" => ScalarValue::Float32(f32::from_bits(l[1].as_str().unwrap().parse::<u32>().unwrap()).into()),
        "str" => ScalarValue::Utf8(l[1].as_str().unwrap().to_string()),
        "null" => ScalarValue::Null,
        "bool" => ScalarValue::Boolean(l[1].as_bool().unwrap()),
        o => panic!("bad literal tag {o}"),
    }
}

fn operand(o: &Value) -> Expr {
    match o[0].as_str().unwrap() {
        "col" => Expr::Column(Column::new(o[1].as_str().unwrap())),
        "lit" => Expr::Literal(lit(&o[1])),
        "plus0" => Expr::BinaryExpr {
            left: Box::new(Expr::Column(Column::new(o[1].as_str().unwrap()))),
            op: BinaryOp::Add,
            right: Box::new(Expr::Literal(ScalarValue::Int64(0))),
        },
        t => panic!("bad operand tag {t}"),
    }
}

fn binop(s: &str) -> BinaryOp {
    match s {
        "eq" => BinaryOp::Eq,
        "ne" => BinaryOp::NotEq,
        "lt" => BinaryOp::Lt,
        "le" => BinaryOp::LtEq,
        "gt" => BinaryOp::Gt,
        "ge" => BinaryOp::GtEq,
        o => panic!("bad op {o}"),
    }
}

fn pred(p: &Value) -> Expr {
    let b = |l: Expr, op: BinaryOp, r: Expr| Expr::BinaryExpr { left: Box::new(l), op, right: Box::new(r) };
    match p[0].as_str().unwrap() {
        "cmp" => b(operand(&p[2]), binop(p[1].as_str().unwrap()), operand(&p[3])),
        "and" => b(pred(&p[1]), BinaryOp::And, pred(&p[2])),
        "or" => b(pred(&p[1]), BinaryOp::Or, pred(&p[2])),
        "not" => Expr::UnaryExpr { op: UnaryOp::Not, expr: Box::new(pred(&p[1])) },
        "between" => Expr::Between {
            expr: Box::new(operand(&p[1])),
            low: Box::new(operand(&p[2])),
            high: Box::new(operand(&p[3])),
            negated: p[4].as_bool().unwrap(),
        },
        "in" => Expr::InList {
            expr: Box::new(operand(&p[1])),
            list: p[2].as_array().unwrap().iter().map(operand).collect(),
            negated: p[3].as_bool().unwrap(),
        },
        "isnull" => Expr::UnaryExpr {
            op: UnaryOp::IsNull,
            expr: Box::new(Expr::Column(Column::new(p[1].as_str().unwrap()))),
        },
        "like" => b(
            Expr::Column(Column::new(p[1].as_str().unwrap())),
            BinaryOp::Like,
            Expr::Literal(ScalarValue::Utf8(p[2].as_str().unwrap().to_string())),
        ),
        t => panic!("bad predicate tag {t}"),
    }
}

fn stats_json(s: Option<&Statistics>) -> Value {
    let s = match s {
        None => return json!({"t": "none"}),
        Some(s) => s,
    };
    let (t, mn, mx) = match s {
        Statistics::Int32(v) => ("Int32".to_string(), v.min_opt().map(|x| json!(*x)), v.max_opt().map(|x| json!(*x))),
        Statistics::Int64(v) => ("Int64".to_string(), v.min_opt().map(|x| json!(*x)), v.max_opt().map(|x| json!(*x))),
        Statistics::Double(v) => (
            "Double".to_string(),
            v.min_opt().map(|x| json!(x.to_bits().to_string())),
            v.max_opt().map(|x| json!(x.to_bits().to_string())),
        ),
        Statistics::ByteArray(v) => (
            "ByteArray".to_string(),
            v.min_opt().map(|x| json!(x.data().to_vec())),
            v.max_opt().map(|x| json!(x.data().to_vec())),
        ),
        o => (format!("{}", o.physical_type()), None, None),
    };
    json!({"t": t, "min": mn, "max": mx, "nulls": s.null_count_opt(),
           "min_exact": s.min_is_exact(), "max_exact": s.max_is_exact()})
}

fn mask_json(r: Result<ArrayRef, String>) -> Value {
    match r {
        Err(e) => json!({ "err": e }),
        Ok(a) => match a.as_any().downcast_ref::<BooleanArray>() {
            None => json!({"err": format!("not boolean: {:?}", a.data_type())}),
            Some(b) => Value::Array(
                (0..b.len()).map(|i| if b.is_null(i) { Value::Null } else { json!(b.value(i)) }).collect(),
            ),
        },
    }
}

fn case(rt: &tokio::runtime::Runtime, v: &Value) -> Value {
    let dir = tempfile::tempdir().unwrap();
    let rg = v["rg"].as_u64().unwrap();
    let mut spec = json!({"name": "t", "cols": v["cols"], "rows": v["rows"], "parquet": {"row_group": rg}});
    if let Some(n) = v.get("files") {
        spec["parquet"]["files"] = n.clone();
    }
    let files = sqlutil::write_parquet(&spec, dir.path());
    let schema = sqlutil::schema_of(&spec);
    let preds: Vec<Expr> = v["preds"].as_array().unwrap().iter().map(pred).collect();

    let mut rgs = Vec::new();
    let mut prune: Vec<Vec<usize>> = vec![Vec::new(); preds.len()];
    let mut base = 0usize;
    for path in &files {
        let f = std::fs::File::open(path).unwrap();
        let builder = ParquetRecordBatchReaderBuilder::try_new(f).unwrap();
        let md = builder.metadata().clone();
        for (k, p) in preds.iter().enumerate() {
            for i in prune_row_groups(&md, &schema, Some(p)) {
                prune[k].push(base + i);
            }
        }
        for i in 0..md.num_row_groups() {
            let rgm = md.row_group(i);
            let stats: Vec<Value> = (0..rgm.num_columns()).map(|c| stats_json(rgm.column(c).statistics())).collect();
            let f = std::fs::File::open(path).unwrap();
            let reader = ParquetRecordBatchReaderBuilder::try_new(f)
                .unwrap()
                .with_row_groups(vec![i])
                .with_batch_size(1 << 20)
                .build()
                .unwrap();
            let batches: Vec<RecordBatch> = reader.map(|b| b.unwrap()).collect();
            let batch = arrow::compute::concat_batches(&batches[0].schema(), &batches).unwrap();
            let rows = sqlutil::batches_json(&batch.schema(), &[batch.clone()])["rows"].clone();
            let mut might = Vec::new();
            let mut definite = Vec::new();
            let mut rf = Vec::new();
            let mut interp = Vec::new();
            for p in &preds {
                might.push(row_group_might_match(p, rgm, &schema));
                definite.push(row_group_definitely_matches(p, rgm, &schema));
                let ev = PredicateEvaluator::new(p.clone());
                rf.push(mask_json(
                    ev.evaluate(&batch).map(|b| std::sync::Arc::new(b) as ArrayRef).map_err(|e| e.to_string()),
                ));
                interp.push(mask_json(evaluate_expr(&batch, p).map_err(|e| e.to_string())));
            }
            rgs.push(json!({"rows": rows, "stats": stats, "might": might, "definite": definite,
                            "rf": rf, "interp": interp}));
        }
        base += md.num_row_groups();
    }

    // end to end: same rows as a Parquet table `t` and as a memory table `m`
    let mut e2e = Vec::new();
    if let Some(Value::Array(sqls)) = v.get("sql") {
        let mut ctx = query_engine::ExecutionContext::new();
        ctx.register_parquet("t", dir.path().join("t")).unwrap();
        let mem = json!({"name": "m", "cols": v["cols"], "rows": v["rows"]});
        sqlutil::register(&mut ctx, &mem, dir.path());
        for s in sqls {
            match s.as_str() {
                None => e2e.push(Value::Null),
                Some(q) => {
                    let a = sqlutil::run_sql(rt, &ctx, &q.replace("$T", "t"));
                    let b = sqlutil::run_sql(rt, &ctx, &q.replace("$T", "m"));
                    e2e.push(json!({"parquet": a, "memory": b}));
                }
            }
        }
    }
    json!({"rgs": rgs, "prune": prune, "e2e": e2e})
}
