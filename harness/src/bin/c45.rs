//! C45: gathered tables carry every column the statement reads.
//! The harness is C09's (the REAL plan_gather / execute_any_distributed with an in-process FragmentTransport, plus the
//! optimized plan serialized as JSON when the case asks for `"oplan": true`): see c09.rs for the case and output format.
#[path = "c09.rs"]
mod c09;

fn main() {
    c09::main()
}
