//! C07 partition contract. Case: {"tables":[spec...], "queries":["SELECT ...", ...], "memory_limit": n?}
//! For every statement: `ctx.physical_plan(sql)`, walk the operator tree through `children()`, and for EVERY
//! operator (a FRESH plan per operator, so per-plan state such as a shared build side is never reused across
//! visits) execute EVERY declared partition `0..output_partitions()` and drain it, then two partitions
//! past the end. Also the root's partitions are summed and compared with `ctx.sql` (what ExecutionContext::sql
//! itself drives).
//! -> {"results":[{"ops":[{"path":[..],"name":..,"declared":n,
//!        "parts":[{"p":i,"open":"ok"|"err","msg":..,"rows":k,"drain_err":..}],
//!        "beyond":[{"p":n,"open":"ok"|"err","msg":..,"rows":k}]}],
//!      "root_rows":k, "sql_rows":k | "plan_err":..}]}
use arrow::record_batch::RecordBatch;
use futures::TryStreamExt;
use qe_verif_harness::sqlutil;
use query_engine::physical::PhysicalOperator;
use serde_json::{json, Value};
use std::sync::Arc;

fn paths(op: &Arc<dyn PhysicalOperator>, here: Vec<usize>, out: &mut Vec<(Vec<usize>, String, usize)>) {
    out.push((here.clone(), op.name().to_string(), op.output_partitions()));
    for (i, c) in op.children().iter().enumerate() {
        let mut p = here.clone();
        p.push(i);
        paths(c, p, out);
    }
}

fn navigate(root: &Arc<dyn PhysicalOperator>, path: &[usize]) -> Option<Arc<dyn PhysicalOperator>> {
    let mut cur = root.clone();
    for &i in path {
        let ch = cur.children();
        cur = ch.get(i)?.clone();
    }
    Some(cur)
}

fn run_part(rt: &tokio::runtime::Runtime, op: &Arc<dyn PhysicalOperator>, p: usize) -> Value {
    let op2 = op.clone();
    let r = std::panic::catch_unwind(std::panic::AssertUnwindSafe(|| {
        rt.block_on(async move {
            match op2.execute(p).await {
                Err(e) => json!({"p": p, "open": "err", "msg": e.to_string()}),
                Ok(s) => {
                    let got: Result<Vec<RecordBatch>, _> = s.try_collect().await;
                    match got {
                        Ok(bs) => json!({"p": p, "open": "ok", "rows": bs.iter().map(|b| b.num_rows()).sum::<usize>()}),
                        Err(e) => json!({"p": p, "open": "ok", "drain_err": e.to_string()}),
                    }
                }
            }
        })
    }));
    match r {
        Ok(v) => v,
        Err(pn) => json!({"p": p, "open": "panic", "msg": qe_verif_harness::panic_message(pn)}),
    }
}

fn main() {
    let rt = qe_verif_harness::runtime();
    qe_verif_harness::run_lines(|v: &Value| {
        let dir = tempfile::tempdir().unwrap();
        let mut ctx = match v.get("memory_limit").and_then(|m| m.as_u64()) {
            Some(m) => query_engine::ExecutionContext::with_memory_limit(m as usize),
            None => query_engine::ExecutionContext::new(),
        };
        for t in v["tables"].as_array().unwrap() {
            sqlutil::register(&mut ctx, t, dir.path());
        }
        let mut results = Vec::new();
        for q in v["queries"].as_array().unwrap() {
            let sql = q.as_str().unwrap();
            let plan = match std::panic::catch_unwind(std::panic::AssertUnwindSafe(|| ctx.physical_plan(sql))) {
                Ok(Ok(p)) => p,
                Ok(Err(e)) => {
                    results.push(json!({"plan_err": e.to_string()}));
                    continue;
                }
                Err(p) => {
                    results.push(json!({"plan_err": format!("panic: {}", qe_verif_harness::panic_message(p))}));
                    continue;
                }
            };
            let mut all = Vec::new();
            paths(&plan, vec![], &mut all);
            let mut ops = Vec::new();
            let mut root_rows: Option<usize> = Some(0);
            for (path, name, _) in &all {
                // a fresh plan for this operator
                let fresh = match ctx.physical_plan(sql) {
                    Ok(p) => p,
                    Err(e) => {
                        ops.push(json!({"path": path, "name": name, "replan_err": e.to_string()}));
                        continue;
                    }
                };
                let Some(op) = navigate(&fresh, path) else {
                    ops.push(json!({"path": path, "name": name, "replan_err": "operator tree changed between two plans"}));
                    continue;
                };
                let declared = op.output_partitions();
                let parts: Vec<Value> = (0..declared).map(|p| run_part(&rt, &op, p)).collect();
                if path.is_empty() {
                    for x in &parts {
                        match x.get("rows").and_then(|r| r.as_u64()) {
                            Some(k) => root_rows = root_rows.map(|a| a + k as usize),
                            None => root_rows = None,
                        }
                    }
                }
                // out of range: on yet another fresh plan, so that a completed operator is not re-entered
                let beyond: Vec<Value> = match ctx.physical_plan(sql).ok().and_then(|f| navigate(&f, path)) {
                    Some(op2) => {
                        let d = op2.output_partitions();
                        vec![run_part(&rt, &op2, d), run_part(&rt, &op2, d + 3)]
                    }
                    None => vec![],
                };
                ops.push(json!({"path": path, "name": op.name(), "declared": declared, "parts": parts, "beyond": beyond}));
            }
            let sql_rows = match sqlutil::run_sql(&rt, &ctx, sql) {
                Value::Object(m) => match m.get("ok") {
                    Some(ok) => json!(ok["rows"].as_array().map(|a| a.len())),
                    None => Value::Object(m),
                },
                o => o,
            };
            results.push(json!({"ops": ops, "root_rows": root_rows, "sql_rows": sql_rows}));
        }
        json!({ "results": results })
    });
}
