//! C10: a failing fragment fails the whole query.
//!
//! mode "inject": the REAL execute_any_distributed under a fault-injecting FragmentTransport.
//!   case: {"mode":"inject","tables":[..],"sql":"..","nodes":N,"self_at":k,
//!          "faults":{"<shard index>":{"kind":"transport"|"http"|"digest"|"garbage"|"empty"|"neg_len"|"zero_len"|"cut","k":n?}}}
//!   out: {"single":res,"baseline":res,"faulty":res,"reply_len":{"i":len},"frames":{"i":[message end offsets]},"sent":[shard indexes asked]}
//!   Faults "transport","http","digest" are what HttpTransport::send turns into Err; "garbage","empty","neg_len","zero_len"
//!   are payloads of the declared length that are not an IPC stream; "cut" hands the coordinator the first k bytes of the
//!   real IPC reply AS IF the transport had not noticed (what a transport without a length check would do).
//! mode "proxy": two REAL nodes (distributed::spawn) and a TCP proxy (std::net threads) in front of the worker; the
//!   initiator answers POST /sql?distributed=1 and reaches the worker's /fragment only through the proxy.
//!   case: {"mode":"proxy","tables":[..],"sql":"..","cuts":"all"|[k..],"flips":[j..],"extra":true}
//!   out: {"reply_len":L,"head_len":H,"baseline":{"status":..,"body":..},"cuts":[[k,status,is_error]],..}
use query_engine::distributed::coordinator::{encode_ipc, execute_any_distributed, execute_fragment};
use query_engine::distributed::{FragmentRequest, FragmentTransport, Participant, ServeOptions};
use query_engine::{ExecutionContext, QueryError};
use qe_verif_harness::sqlutil;
use serde_json::{json, Value};
use std::future::Future;
use std::io::{Read, Write};
use std::pin::Pin;
use std::sync::atomic::{AtomicI64, AtomicUsize, Ordering};
use std::sync::{Arc, Mutex};
use std::time::Duration;

type SendOut = query_engine::Result<(Vec<u8>, usize, f64)>;

struct Faulty {
    peers: Vec<(String, Arc<ExecutionContext>)>,
    faults: Value,
    log: Mutex<Vec<(usize, usize, Vec<(usize, usize)>)>>, // shard index, reply length, (meta, body) sizes
    batch_rows: Mutex<Vec<(usize, Vec<usize>)>>,           // shard index, rows of every batch of its reply
}

/// (metadata length, body length) of every framed message of an Arrow IPC stream
/// (continuation marker, i32 length, metadata, body); the end-of-stream marker is not listed
fn frame_ends(bytes: &[u8]) -> Vec<(usize, usize)> {
    let mut out = Vec::new();
    let mut p = 0usize;
    while p + 8 <= bytes.len() {
        if bytes[p..p + 4] != [0xff, 0xff, 0xff, 0xff] {
            break;
        }
        let mlen = i32::from_le_bytes([bytes[p + 4], bytes[p + 5], bytes[p + 6], bytes[p + 7]]);
        if mlen <= 0 {
            break; // end-of-stream marker
        }
        let meta = &bytes[p + 8..p + 8 + mlen as usize];
        let blen = match arrow::ipc::root_as_message(meta) {
            Ok(m) => m.bodyLength() as usize,
            Err(_) => break,
        };
        out.push((mlen as usize, blen));
        p = p + 8 + mlen as usize + blen;
    }
    out
}

impl FragmentTransport for Faulty {
    fn send<'life0, 'life1, 'life2, 'async_trait>(
        &'life0 self,
        address: &'life1 str,
        req: &'life2 FragmentRequest,
    ) -> Pin<Box<dyn Future<Output = SendOut> + Send + 'async_trait>>
    where
        'life0: 'async_trait,
        'life1: 'async_trait,
        'life2: 'async_trait,
        Self: 'async_trait,
    {
        Box::pin(async move {
            let peer = self
                .peers
                .iter()
                .find(|(a, _)| a == address)
                .map(|(_, c)| c.clone())
                .ok_or_else(|| QueryError::Execution(format!("connection refused: {address}")))?;
            let f = &self.faults[req.shard_index.to_string()];
            let kind = f["kind"].as_str().unwrap_or("ok");
            match kind {
                "transport" => return Err(QueryError::Execution(format!("connection reset by peer: {address}"))),
                "http" => return Err(QueryError::Execution("HTTP 500 — fragment task failed: injected".to_string())),
                _ => {}
            }
            let mut req2 = req.clone();
            if kind == "digest" {
                req2.splits_digest ^= 1; // the worker computes another digest than the initiator's
            }
            // server.rs `/fragment`: execute_fragment, encode_ipc; an Err becomes HTTP 400, which HttpTransport::send
            // turns into Err("HTTP 400 — <message>")
            let (r, _) = execute_fragment(&peer, &req2)
                .await
                .map_err(|e| QueryError::Execution(format!("HTTP 400 — {e}")))?;
            let bytes = encode_ipc(&r.schema, &r.batches)?;
            self.log.lock().unwrap().push((req.shard_index, bytes.len(), frame_ends(&bytes)));
            self.batch_rows.lock().unwrap().push((req.shard_index, r.batches.iter().map(|b| b.num_rows()).collect()));
            let out = match kind {
                "garbage" => b"this is not an arrow ipc stream".iter().cycle().take(bytes.len().max(8)).cloned().collect(),
                "empty" => Vec::new(),
                "zero_len" => vec![0u8; bytes.len()],
                "neg_len" => {
                    let mut b = bytes.clone();
                    b[0] ^= 1; // the continuation marker is no longer one: read as a negative metadata length
                    b
                }
                "cut" => bytes[..(f["k"].as_u64().unwrap() as usize).min(bytes.len())].to_vec(),
                _ => bytes,
            };
            Ok((out, r.row_count, 0.0))
        })
    }
}

fn main() {
    let rt = qe_verif_harness::runtime();
    qe_verif_harness::run_lines(|v| match v["mode"].as_str() {
        Some("inject") => inject(&rt, v),
        Some("proxy") => proxy(&rt, v),
        _ => json!({"harness_error": "unknown mode"}),
    })
}

fn res_json(r: query_engine::Result<query_engine::distributed::DistributedResult>) -> Value {
    match r {
        Ok(d) => json!({"ok": sqlutil::batches_json(&d.result.schema, &d.result.batches), "shape": d.distribution.shape,
                        "nodes": d.distribution.nodes.iter().map(|c| json!([c.shard_index, c.assigned_splits, c.local])).collect::<Vec<_>>()}),
        Err(e) => json!({"err": e.to_string()}),
    }
}

fn inject(rt: &tokio::runtime::Runtime, v: &Value) -> Value {
    let dir = tempfile::tempdir().unwrap();
    let mut base = ExecutionContext::new();
    for t in v["tables"].as_array().unwrap() {
        sqlutil::register(&mut base, t, dir.path());
    }
    let n = v["nodes"].as_u64().unwrap() as usize;
    let mut peers = Vec::new();
    for i in 0..n {
        let mut c = ExecutionContext::new();
        for t in v["tables"].as_array().unwrap() {
            let name = t["name"].as_str().unwrap();
            c.register_parquet(name, dir.path().join(name)).unwrap();
        }
        peers.push((format!("node-{i}"), Arc::new(c)));
    }
    let self_at = v["self_at"].as_u64().unwrap_or(0) as usize % n.max(1);
    let participants: Vec<Participant> = (0..n)
        .map(|i| Participant { node_id: i as u64, address: format!("node-{i}"), is_self: i == self_at })
        .collect();
    let sql = v["sql"].as_str().unwrap();
    let single = sqlutil::run_sql(rt, &base, sql);
    let clean = Faulty { peers: peers.clone(), faults: json!({}), log: Mutex::new(Vec::new()), batch_rows: Mutex::new(Vec::new()) };
    let baseline = res_json(rt.block_on(execute_any_distributed(&base, sql, &participants, &clean)));
    let log = clean.log.lock().unwrap().clone();
    let batch_rows = clean.batch_rows.lock().unwrap().clone();
    let faulty_t = Faulty { peers: peers.clone(), faults: v["faults"].clone(), log: Mutex::new(Vec::new()), batch_rows: Mutex::new(Vec::new()) };
    let r = std::panic::catch_unwind(std::panic::AssertUnwindSafe(|| {
        rt.block_on(execute_any_distributed(&base, sql, &participants, &faulty_t))
    }));
    let faulty = match r {
        Ok(x) => res_json(x),
        Err(p) => json!({"panic": qe_verif_harness::panic_message(p)}),
    };
    // "fault_list": several fault maps over the same cluster (contexts are built once)
    let mut faulty_list = Vec::new();
    if let Some(Value::Array(fl)) = v.get("fault_list") {
        for f in fl {
            let t = Faulty { peers: peers.clone(), faults: f.clone(), log: Mutex::new(Vec::new()), batch_rows: Mutex::new(Vec::new()) };
            let r = std::panic::catch_unwind(std::panic::AssertUnwindSafe(|| {
                rt.block_on(execute_any_distributed(&base, sql, &participants, &t))
            }));
            faulty_list.push(match r {
                Ok(x) => res_json(x),
                Err(p) => json!({"panic": qe_verif_harness::panic_message(p)}),
            });
        }
    }
    // "sweep": {"shard": i}: the reply of shard i cut at EVERY byte offset and handed on without a length check
    let mut sweep = Vec::new();
    if let Some(i) = v["sweep"]["shard"].as_u64() {
        let len = log.iter().find(|(s, _, _)| *s as u64 == i).map(|(_, l, _)| *l).unwrap_or(0);
        for k in 0..=len {
            let mut f = serde_json::Map::new();
            f.insert(i.to_string(), json!({"kind": "cut", "k": k}));
            let t = Faulty { peers: peers.clone(), faults: Value::Object(f), log: Mutex::new(Vec::new()), batch_rows: Mutex::new(Vec::new()) };
            let r = std::panic::catch_unwind(std::panic::AssertUnwindSafe(|| {
                rt.block_on(execute_any_distributed(&base, sql, &participants, &t))
            }));
            sweep.push(match r {
                Ok(Ok(d)) => json!([k, false, d.result.row_count]),
                Ok(Err(_)) => json!([k, true, 0]),
                Err(_) => json!([k, true, -1]),
            });
        }
    }
    json!({
        "sweep": sweep,
        "faulty_list": faulty_list,
        "single": single, "baseline": baseline, "faulty": faulty, "self_at": self_at,
        "replies": log.iter().map(|(i, l, f)| json!({"shard": i, "len": l, "frames": f})).collect::<Vec<_>>(),
        "batch_rows": batch_rows.iter().map(|(i, r)| json!({"shard": i, "rows": r})).collect::<Vec<_>>(),
    })
}

// ---------------------------------------------------------------------------------------------
// proxy mode

struct ProxyCtl {
    cut: AtomicI64,      // >= 0: write only that many bytes of the next /fragment reply, then close
    flip: AtomicI64,     // >= 0: XOR 1 into that byte of the reply BODY (length unchanged)
    status500: AtomicI64, // 1: answer the next /fragment with a 500 of our own
    zero_body: AtomicI64, // 1: replace the body by zeros of the same length
    last_len: AtomicUsize,
    last_head: AtomicUsize,
    fragments: AtomicUsize,
    last_reply: Mutex<Vec<u8>>,
}

fn read_http_message(s: &mut std::net::TcpStream) -> Vec<u8> {
    // request from the engine's own client: headers, Content-Length, body
    let mut buf = Vec::new();
    let mut tmp = [0u8; 4096];
    loop {
        if let Some(p) = buf.windows(4).position(|w| w == b"\r\n\r\n") {
            let head = String::from_utf8_lossy(&buf[..p]).to_ascii_lowercase();
            let cl = head
                .lines()
                .find_map(|l| l.strip_prefix("content-length:").map(|v| v.trim().parse::<usize>().unwrap_or(0)))
                .unwrap_or(0);
            if buf.len() >= p + 4 + cl {
                return buf;
            }
        }
        match s.read(&mut tmp) {
            Ok(0) | Err(_) => return buf,
            Ok(n) => buf.extend_from_slice(&tmp[..n]),
        }
    }
}

fn proxy_conn(mut client: std::net::TcpStream, upstream: String, ctl: Arc<ProxyCtl>) {
    client.set_nodelay(true).ok();
    let req = read_http_message(&mut client);
    let is_fragment = req.starts_with(b"POST /fragment");
    let mut reply = Vec::new();
    if let Ok(mut up) = std::net::TcpStream::connect(&upstream) {
        up.set_nodelay(true).ok();
        if up.write_all(&req).is_ok() {
            let _ = up.read_to_end(&mut reply);
        }
    }
    if is_fragment {
        ctl.fragments.fetch_add(1, Ordering::SeqCst);
        let head = reply.windows(4).position(|w| w == b"\r\n\r\n").map(|p| p + 4).unwrap_or(0);
        ctl.last_len.store(reply.len(), Ordering::SeqCst);
        ctl.last_head.store(head, Ordering::SeqCst);
        *ctl.last_reply.lock().unwrap() = reply.clone();
        if ctl.status500.swap(0, Ordering::SeqCst) == 1 {
            let body = b"{\"error\":\"injected by proxy\",\"status\":500}";
            reply = format!("HTTP/1.1 500 Internal Server Error\r\ncontent-type: application/json\r\ncontent-length: {}\r\n\r\n", body.len()).into_bytes();
            reply.extend_from_slice(body);
        }
        if ctl.zero_body.swap(0, Ordering::SeqCst) == 1 {
            for b in reply[head..].iter_mut() {
                *b = 0;
            }
        }
        let flip = ctl.flip.swap(-1, Ordering::SeqCst);
        if flip >= 0 && head + (flip as usize) < reply.len() {
            reply[head + flip as usize] ^= 1;
        }
        let cut = ctl.cut.swap(-1, Ordering::SeqCst);
        if cut >= 0 {
            reply.truncate((cut as usize).min(reply.len()));
        }
    }
    let _ = client.write_all(&reply);
    let _ = client.flush();
    let _ = client.shutdown(std::net::Shutdown::Both);
}

fn proxy(rt: &tokio::runtime::Runtime, v: &Value) -> Value {
    let dir = tempfile::tempdir().unwrap();
    // write the Parquet files once; both nodes load the same directories
    {
        let mut tmp = ExecutionContext::new();
        for t in v["tables"].as_array().unwrap() {
            sqlutil::register(&mut tmp, t, dir.path());
        }
    }
    let names: Vec<String> = v["tables"].as_array().unwrap().iter().map(|t| t["name"].as_str().unwrap().to_string()).collect();
    let loader = |dir: std::path::PathBuf, names: Vec<String>| -> query_engine::distributed::TableLoader {
        Box::new(move || {
            let mut c = ExecutionContext::new();
            for n in &names {
                c.register_parquet(n, dir.join(n))?;
            }
            Ok(c)
        })
    };
    let opts = |peers: Vec<String>| ServeOptions {
        bind: "127.0.0.1:0".into(),
        advertise: None,
        node_id: None,
        peers,
        peers_dns: None,
        peers_dns_port: None,
        discovery_interval: Duration::from_millis(200),
        probe_timeout: Duration::from_millis(1000),
        drain: Duration::ZERO,
        shutdown_grace: Duration::from_secs(1),
        flight_bind: Some("none".into()),
    };
    let worker = match rt.block_on(query_engine::distributed::spawn(opts(vec![]), loader(dir.path().to_path_buf(), names.clone()))) {
        Ok(h) => h,
        Err(e) => return json!({"err": format!("spawn worker: {e}")}),
    };
    let upstream = format!("127.0.0.1:{}", worker.local_addr().port());

    let ctl = Arc::new(ProxyCtl {
        cut: AtomicI64::new(-1), flip: AtomicI64::new(-1), status500: AtomicI64::new(0), zero_body: AtomicI64::new(0),
        last_len: AtomicUsize::new(0), last_head: AtomicUsize::new(0), fragments: AtomicUsize::new(0), last_reply: Mutex::new(Vec::new()),
    });
    let listener = std::net::TcpListener::bind("127.0.0.1:0").unwrap();
    let proxy_addr = format!("127.0.0.1:{}", listener.local_addr().unwrap().port());
    {
        let ctl = ctl.clone();
        let upstream = upstream.clone();
        std::thread::spawn(move || {
            for c in listener.incoming() {
                match c {
                    Ok(c) => {
                        let ctl = ctl.clone();
                        let upstream = upstream.clone();
                        std::thread::spawn(move || proxy_conn(c, upstream, ctl));
                    }
                    Err(_) => break,
                }
            }
        });
    }
    let initiator = match rt.block_on(query_engine::distributed::spawn(opts(vec![proxy_addr.clone()]), loader(dir.path().to_path_buf(), names))) {
        Ok(h) => h,
        Err(e) => return json!({"err": format!("spawn initiator: {e}")}),
    };
    let init_addr = format!("127.0.0.1:{}", initiator.local_addr().port());
    // wait until both nodes are ready and the initiator has seen the worker (through the proxy) Up
    let mut up = false;
    for _ in 0..200 {
        let ready = initiator.state().ready() && worker.state().ready();
        let seen = initiator.state().membership.members().iter().any(|m| !m.is_self && m.status == query_engine::distributed::PeerStatus::Up);
        if ready && seen {
            up = true;
            break;
        }
        std::thread::sleep(Duration::from_millis(50));
    }
    if !up {
        return json!({"err": "cluster did not come up", "members": format!("{:?}", initiator.state().membership.members())});
    }
    let sql = v["sql"].as_str().unwrap().to_string();
    let post = |rt: &tokio::runtime::Runtime| -> (u16, String) {
        match rt.block_on(query_engine::distributed::http_post(&init_addr, "/sql?distributed=1&format=json", &sql, Duration::from_secs(60))) {
            Ok(r) => (r.status, r.text()),
            Err(e) => (0, format!("client error: {e}")),
        }
    };
    let f0 = ctl.fragments.load(Ordering::SeqCst);
    let (bstatus, bbody) = post(rt);
    let fragments_per_query = ctl.fragments.load(Ordering::SeqCst) - f0;
    let reply_len = ctl.last_len.load(Ordering::SeqCst);
    let head_len = ctl.last_head.load(Ordering::SeqCst);
    let reply = ctl.last_reply.lock().unwrap().clone();
    let frames: Vec<(usize, usize)> = frame_ends(&reply[head_len.min(reply.len())..]);
    let local = rt.block_on(query_engine::distributed::http_post(&init_addr, "/sql?distributed=0&format=json", &sql, Duration::from_secs(60)))
        .map(|r| (r.status, r.text())).unwrap_or((0, String::new()));

    let mut cuts = Vec::new();
    if fragments_per_query == 1 && bstatus == 200 {
        let ks: Vec<usize> = match &v["cuts"] {
            Value::Array(a) => a.iter().map(|x| x.as_u64().unwrap() as usize).collect(),
            _ => (0..reply_len + 4).collect(),
        };
        for k in ks {
            ctl.cut.store(k as i64, Ordering::SeqCst);
            let (st, body) = post(rt);
            // the reply's own length (a header carries the elapsed time, so it varies by a byte or two between runs)
            let actual = ctl.last_len.load(Ordering::SeqCst);
            cuts.push(json!([k, st, st != 200, if st == 200 { body } else { String::new() }, actual]));
        }
        ctl.cut.store(-1, Ordering::SeqCst);
    }
    let mut flips = Vec::new();
    if let Value::Array(a) = &v["flips"] {
        for j in a {
            ctl.flip.store(j.as_i64().unwrap(), Ordering::SeqCst);
            let (st, _) = post(rt);
            flips.push(json!([j, st, st != 200]));
        }
    }
    let mut extra = json!({});
    if v["extra"].as_bool().unwrap_or(false) {
        ctl.status500.store(1, Ordering::SeqCst);
        let (st, body) = post(rt);
        extra["http500"] = json!([st, body.chars().take(200).collect::<String>()]);
        ctl.zero_body.store(1, Ordering::SeqCst);
        let (st, body) = post(rt);
        extra["zero_body"] = json!([st, body.chars().take(200).collect::<String>()]);
        // the worker dies: connection refused behind the proxy
        let (st, body) = {
            rt.block_on(worker.shutdown());
            std::thread::sleep(Duration::from_millis(100));
            post(rt)
        };
        extra["worker_down"] = json!([st, body.chars().take(200).collect::<String>()]);
        rt.block_on(initiator.shutdown());
    } else {
        rt.block_on(worker.shutdown());
        rt.block_on(initiator.shutdown());
    }
    let (again_status, _) = (0, 0);
    let _ = again_status;
    json!({
        "reply_len": reply_len, "head_len": head_len, "frames": frames, "fragments_per_query": fragments_per_query,
        "baseline": {"status": bstatus, "body": bbody}, "local": {"status": local.0, "body": local.1},
        "reply_head": String::from_utf8_lossy(&reply[..head_len.min(reply.len())]),
        "reply_bytes": reply.iter().map(|b| *b as u64).collect::<Vec<u64>>(),
        "cuts": cuts, "flips": flips, "extra": extra,
    })
}
