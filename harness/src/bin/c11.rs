//! C11: distributed::splits::enumerate_parquet + SplitSet::digest on real and synthetic footers.
//!
//! case: {"table": "t", "nodes": 3,
//!        "files": [{"name": "a.parquet", "dir": 0, "kind": "real", "rows": [5, 3], "width": 4}
//!                  | {"name": "b.parquet", "dir": 1, "kind": "syn", "rgs": [[rows, bytes], ...]}],
//!        "orders": [[0,1],[1,0]]}
//! For every order the files are handed to enumerate_parquet in that order under root A; the first
//! order is also run under a second root B (other mount point, copied files / re-injected footers).
//! Output: the inventory actually present in the footers and one SplitSet + digest per run.
use arrow::array::{ArrayRef, Int64Array, StringArray};
use arrow::datatypes::{DataType, Field, Schema};
use arrow::record_batch::RecordBatch;
use parquet::arrow::arrow_reader::{ArrowReaderMetadata, ArrowReaderOptions};
use parquet::arrow::ArrowWriter;
use parquet::file::metadata::{ColumnChunkMetaData, FileMetaData, ParquetMetaData, RowGroupMetaData};
use parquet::file::properties::WriterProperties;
use parquet::schema::types::{SchemaDescriptor, Type};
use query_engine::distributed::splits::{enumerate_parquet, SplitSet};
use serde_json::{json, Value};
use std::path::{Path, PathBuf};
use std::sync::Arc;

fn main() {
    qe_verif_harness::run_lines(case)
}

fn write_real(path: &Path, rows: &[i64], width: usize) {
    let schema = Arc::new(Schema::new(vec![
        Field::new("a", DataType::Int64, false),
        Field::new("s", DataType::Utf8, false),
    ]));
    let props = WriterProperties::builder().set_max_row_group_size(1 << 30).build();
    let f = std::fs::File::create(path).unwrap();
    let mut w = ArrowWriter::try_new(f, schema.clone(), Some(props)).unwrap();
    let mut next = 0i64;
    for &r in rows {
        let a: ArrayRef = Arc::new(Int64Array::from_iter_values(next..next + r));
        let s: ArrayRef = Arc::new(StringArray::from_iter_values(
            (next..next + r).map(|i| format!("{:0>w$}", i % 7, w = width)),
        ));
        next += r;
        w.write(&RecordBatch::try_new(schema.clone(), vec![a, s]).unwrap()).unwrap();
        w.flush().unwrap();
    }
    w.close().unwrap();
}

fn synthetic(rgs: &[(i64, i64)]) -> ArrowReaderMetadata {
    let col = Arc::new(
        Type::primitive_type_builder("a", parquet::basic::Type::INT64)
            .with_repetition(parquet::basic::Repetition::REQUIRED)
            .build()
            .unwrap(),
    );
    let root = Arc::new(Type::group_type_builder("schema").with_fields(vec![col]).build().unwrap());
    let descr = Arc::new(SchemaDescriptor::new(root));
    let mut groups = Vec::new();
    let mut total = 0i64;
    for &(rows, bytes) in rgs {
        let cc = ColumnChunkMetaData::builder(descr.column(0)).build().unwrap();
        groups.push(
            RowGroupMetaData::builder(descr.clone())
                .set_num_rows(rows)
                .set_total_byte_size(bytes)
                .set_column_metadata(vec![cc])
                .build()
                .unwrap(),
        );
        total = total.wrapping_add(rows);
    }
    let fm = FileMetaData::new(2, total, Some("qe-verif".into()), None, descr, None);
    ArrowReaderMetadata::try_new(Arc::new(ParquetMetaData::new(fm, groups)), ArrowReaderOptions::new()).unwrap()
}

fn set_json(s: &SplitSet) -> Value {
    json!({
        "table": s.table,
        "splits": s.splits.iter().map(|x| json!([x.table, x.file, x.row_group, x.row_offset, x.num_rows, x.bytes])).collect::<Vec<_>>(),
        "paths_ok": s.splits.iter().all(|x| x.path.file_name().map(|n| n.to_string_lossy() == x.file.as_str()).unwrap_or(false)),
        "total_bytes": s.total_bytes, "total_rows": s.total_rows, "target": s.target_split_bytes,
        "digest": s.digest().to_string(),
    })
}

fn case(v: &Value) -> Value {
    let table = v["table"].as_str().unwrap();
    let nodes = v["nodes"].as_u64().unwrap() as usize;
    let tmp = tempfile::Builder::new().prefix("qv-c11-").tempdir().unwrap();
    let root_a = tmp.path().join("A");
    let root_b = tmp.path().join("other").join("mount").join("point");
    let files = v["files"].as_array().unwrap();
    let mut paths_a: Vec<PathBuf> = Vec::new();
    let mut paths_b: Vec<PathBuf> = Vec::new();
    let mut inventory = Vec::new();
    for f in files {
        let name = f["name"].as_str().unwrap();
        let sub = format!("d{}", f["dir"].as_u64().unwrap_or(0));
        let pa = root_a.join(&sub).join(name);
        let pb = root_b.join(&sub).join(name);
        std::fs::create_dir_all(pa.parent().unwrap()).unwrap();
        std::fs::create_dir_all(pb.parent().unwrap()).unwrap();
        if f["kind"] == "real" {
            let rows: Vec<i64> = f["rows"].as_array().unwrap().iter().map(|x| x.as_i64().unwrap()).collect();
            write_real(&pa, &rows, f["width"].as_u64().unwrap_or(1) as usize);
            std::fs::copy(&pa, &pb).unwrap();
        } else {
            let rgs: Vec<(i64, i64)> = f["rgs"]
                .as_array()
                .unwrap()
                .iter()
                .map(|p| (p[0].as_i64().unwrap(), p[1].as_i64().unwrap()))
                .collect();
            std::fs::File::create(&pa).unwrap();
            std::fs::File::create(&pb).unwrap();
            let md = synthetic(&rgs);
            query_engine::storage::metadata_cache::verif_inject(&pa, md.clone()).unwrap();
            query_engine::storage::metadata_cache::verif_inject(&pb, md).unwrap();
        }
        // what the footer really says, read through the same cache the enumeration uses
        let md = query_engine::storage::metadata_cache::cached_metadata(&pa).unwrap();
        let rgs: Vec<Value> = md
            .metadata()
            .row_groups()
            .iter()
            .map(|rg| json!([rg.num_rows(), rg.total_byte_size()]))
            .collect();
        if f["kind"] == "real" {
            // independent read of the footer, not through the cache
            let fh = std::fs::File::open(&pa).unwrap();
            let direct = ArrowReaderMetadata::load(&fh, ArrowReaderOptions::new()).unwrap();
            let d: Vec<Value> = direct
                .metadata()
                .row_groups()
                .iter()
                .map(|rg| json!([rg.num_rows(), rg.total_byte_size()]))
                .collect();
            assert_eq!(d, rgs, "cache and direct footer read disagree");
        }
        inventory.push(json!({"name": name, "rgs": rgs}));
        paths_a.push(pa);
        paths_b.push(pb);
    }
    let mut runs = Vec::new();
    for (k, order) in v["orders"].as_array().unwrap().iter().enumerate() {
        let idx: Vec<usize> = order.as_array().unwrap().iter().map(|x| x.as_u64().unwrap() as usize).collect();
        let pa: Vec<PathBuf> = idx.iter().map(|&i| paths_a[i].clone()).collect();
        match enumerate_parquet(table, &pa, nodes) {
            Ok(s) => runs.push(json!({"order": order, "root": "A", "set": set_json(&s)})),
            Err(e) => runs.push(json!({"order": order, "root": "A", "error": e.to_string()})),
        }
        if k == 0 {
            let pb: Vec<PathBuf> = idx.iter().map(|&i| paths_b[i].clone()).collect();
            match enumerate_parquet(table, &pb, nodes) {
                Ok(s) => runs.push(json!({"order": order, "root": "B", "set": set_json(&s)})),
                Err(e) => runs.push(json!({"order": order, "root": "B", "error": e.to_string()})),
            }
        }
    }
    json!({"inventory": inventory, "runs": runs})
}
