//! C08: SQL runner that also reports how much each statement spilled.
//! Case: {"tables":[spec...], "queries":["SELECT ...", ...], "memory_limit": n?}
//! -> {"results":[{"ok":{cols,types,rows}, "spilled": bytes, "ops":[operator names of the physical plan]} | {"err":..} | {"panic":..}, ...]}
//! `spilled` = growth of `MemoryPool::spilled()` over the statement (what QueryMetrics.spill_metrics reports).
use qe_verif_harness::sqlutil;
use query_engine::physical::PhysicalOperator;
use serde_json::{json, Value};
use std::sync::Arc;

fn names(op: &Arc<dyn PhysicalOperator>, out: &mut Vec<String>) {
    out.push(op.name().to_string());
    for c in op.children() {
        names(&c, out);
    }
}

fn main() {
    let rt = qe_verif_harness::runtime();
    qe_verif_harness::run_lines(|v: &Value| {
        let dir = tempfile::tempdir().unwrap();
        let mut ctx = match v.get("memory_limit").and_then(|m| m.as_u64()) {
            Some(m) => query_engine::ExecutionContext::with_memory_limit(m as usize),
            None => query_engine::ExecutionContext::new(),
        };
        for t in v["tables"].as_array().unwrap() {
            sqlutil::register(&mut ctx, t, dir.path());
        }
        let want_ops = v.get("ops").and_then(|b| b.as_bool()).unwrap_or(false);
        let results: Vec<Value> = v["queries"]
            .as_array()
            .unwrap()
            .iter()
            .map(|q| {
                let sql = q.as_str().unwrap();
                let before = ctx.memory_pool().spilled();
                let mut r = sqlutil::run_sql(&rt, &ctx, sql);
                let after = ctx.memory_pool().spilled();
                r["spilled"] = json!(after.saturating_sub(before));
                if want_ops {
                    if let Ok(Ok(p)) = std::panic::catch_unwind(std::panic::AssertUnwindSafe(|| ctx.physical_plan(sql))) {
                        let mut o = Vec::new();
                        names(&p, &mut o);
                        r["ops"] = json!(o);
                    }
                }
                r
            })
            .collect();
        json!({ "results": results })
    });
}
