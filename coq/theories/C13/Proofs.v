(* C13 proofs: a split reads exactly its row range; the shard answers of any partition of the split
   indices reassemble pi(sigma_phi(table)) as a bag; a shard never takes a whole-file path. *)
From Coq Require Import Sorting.Sorted.
From QV Require Import Base.Util C12.Model C12.Proofs C13.Model.

(* ---------- generic list facts ---------- *)
Lemma map_nth_seq {A} (l : list A) d : map (fun i => nth i l d) (seq 0 (length l)) = l.
Proof.
  induction l as [|a l IH]; [reflexivity|].
  cbn [length seq map nth]. f_equal. rewrite <- seq_shift, map_map. exact IH.
Qed.

Lemma skipn_add {A} (l : list A) : forall n m, skipn n (skipn m l) = skipn (m + n) l.
Proof.
  induction l as [|a l IH]; intros n m; [now rewrite !skipn_nil|].
  destruct m as [|m]; [reflexivity|]. cbn [skipn Nat.add]. apply IH.
Qed.

Lemma filter_concat {A} (p : A -> bool) (ls : list (list A)) :
  filter p (concat ls) = concat (map (filter p) ls).
Proof. induction ls as [|h t IH]; [reflexivity|]. cbn [concat map]. now rewrite filter_app, IH. Qed.

Lemma filter_idem {A} (p : A -> bool) (l : list A) : filter p (filter p l) = filter p l.
Proof.
  induction l as [|h t IH]; [reflexivity|]. cbn [filter]. destruct (p h) eqn:E; [|exact IH].
  cbn [filter]. now rewrite E, IH.
Qed.

Lemma filter_none_in {A} (p : A -> bool) (l : list A) : (forall x, In x l -> p x = false) -> filter p l = [].
Proof.
  induction l as [|h t IH]; intros H; [reflexivity|]. cbn [filter].
  rewrite (H h (or_introl eq_refl)). apply IH. intros x Hx. apply H. now right.
Qed.

Lemma flat_map_flat_map {A B C} (f : A -> list B) (g : B -> list C) (l : list A) :
  flat_map g (flat_map f l) = flat_map (fun a => flat_map g (f a)) l.
Proof. induction l as [|h t IH]; [reflexivity|]. cbn [flat_map]. now rewrite flat_map_app, IH. Qed.

Lemma flat_map_map_concat {A B C} (f : B -> list C) (g : A -> B) (ls : list (list A)) :
  concat (map (fun l => flat_map f (map g l)) ls) = flat_map f (map g (concat ls)).
Proof.
  induction ls as [|h t IH]; [reflexivity|]. cbn [map concat]. now rewrite map_app, flat_map_app, IH.
Qed.

Lemma flat_map_ext_in {A B} (f g : A -> list B) (l : list A) :
  (forall a, In a l -> f a = g a) -> flat_map f l = flat_map g l.
Proof.
  induction l as [|h t IH]; intros H; [reflexivity|]. cbn [flat_map].
  rewrite (H h (or_introl eq_refl)), IH; [reflexivity|]. intros a Ha. apply H. now right.
Qed.

Lemma in_combine_seq {A} (l : list A) : forall a i r,
  In (i, r) (combine (seq a (length l)) l) -> (a <= i)%nat /\ nth_error l (i - a) = Some r.
Proof.
  induction l as [|h t IH]; intros a i r H; [destruct H|].
  cbn [length seq combine] in H. destruct H as [H|H].
  - inversion H; subst. split; [lia|]. now rewrite Nat.sub_diag.
  - apply IH in H as [H1 H2]. split; [lia|].
    replace (i - a)%nat with (S (i - S a)) by lia. exact H2.
Qed.

Section Proofs.
  Context {row : Type}.
  Implicit Types (rg : list row) (s : split) (tbl : @ptable row).

  (* ---------- one split ---------- *)
  Theorem read_rows_firstn_skipn s rg :
    0 <= s_off s -> 0 <= s_rows s -> s_off s + s_rows s <= Z.of_nat (length rg) ->
    read_rows s rg = firstn (Z.to_nat (s_rows s)) (skipn (Z.to_nat (s_off s)) rg).
  Proof.
    intros Ho Hn Hb. unfold read_rows, is_whole, selectors.
    destruct (s_off s =? 0) eqn:E0; cbn [andb].
    - apply Z.eqb_eq in E0. rewrite E0 in *. change (Z.to_nat 0) with 0%nat. cbn [skipn].
      destruct (s_rows s =? Z.of_nat (length rg)) eqn:E1.
      + apply Z.eqb_eq in E1. rewrite E1, Nat2Z.id. now rewrite firstn_all.
      + change (0 <? 0) with false. cbn [app apply_sel skipn]. now rewrite app_nil_r.
    - apply Z.eqb_neq in E0. assert (L : 0 <? s_off s = true) by (apply Z.ltb_lt; lia).
      rewrite L. cbn [app apply_sel]. now rewrite app_nil_r.
  Qed.

  Lemma contig_sum_nonneg ps : forall o, contig o ps -> 0 <= zsum (map s_rows ps).
  Proof.
    induction ps as [|s t IH]; intros o H; cbn [map]; [cbn; lia|].
    destruct H as (_ & Hp & Ht). rewrite zsum_cons. specialize (IH _ Ht). lia.
  Qed.

  (* the pieces of one row group, read back, are the row group from the first piece's offset on *)
  Lemma contig_reads rg : forall ps o, contig o ps -> 0 <= o ->
    o + zsum (map s_rows ps) = Z.of_nat (length rg) ->
    concat (map (fun s => read_rows s rg) ps) = skipn (Z.to_nat o) rg.
  Proof.
    induction ps as [|s t IH]; intros o H Ho Hs.
    - cbn in Hs. cbn [map concat]. rewrite skipn_all2; [reflexivity|]. lia.
    - destruct H as (Hoff & Hp & Ht). cbn [map] in Hs. rewrite zsum_cons in Hs.
      pose proof (contig_sum_nonneg _ _ Ht) as Hnn.
      cbn [map concat]. rewrite read_rows_firstn_skipn by lia.
      rewrite (IH (o + s_rows s) Ht) by lia.
      rewrite Hoff, Z2Nat.inj_add by lia.
      rewrite <- skipn_add. apply firstn_skipn.
  Qed.

  Lemma contig_bounds rg : forall ps o, contig o ps -> 0 <= o ->
    o + zsum (map s_rows ps) = Z.of_nat (length rg) ->
    forall s, In s ps -> 0 <= s_off s /\ 0 < s_rows s /\ s_off s + s_rows s <= Z.of_nat (length rg).
  Proof.
    induction ps as [|x t IH]; intros o H Ho Hs s Hin; [destruct Hin|].
    destruct H as (Hoff & Hp & Ht). cbn [map] in Hs. rewrite zsum_cons in Hs.
    pose proof (contig_sum_nonneg _ _ Ht) as Hnn.
    destruct Hin as [->|Hin]; [lia|]. apply (IH (o + s_rows x)); auto; lia.
  Qed.

  (* ---------- addressing a row group ---------- *)
  Lemma bytes_eqb_eq a b : bytes_eqb a b = true <-> a = b.
  Proof. apply list_eqb_spec. intros; apply Z.eqb_eq. Qed.

  Lemma find_file_nodup tbl f : NoDup (map fst tbl) -> In f tbl -> find_file tbl (fst f) = Some (snd f).
  Proof.
    unfold find_file. induction tbl as [|h t IH]; intros ND Hin; [destruct Hin|].
    cbn [find]. inversion ND as [|? ? Hn ND']; subst.
    destruct (bytes_eqb (fst h) (fst f)) eqn:E.
    - apply bytes_eqb_eq in E. destruct Hin as [->|Hin]; [reflexivity|].
      exfalso. apply Hn. rewrite E. now apply in_map.
    - destruct Hin as [->|Hin].
      + assert (bytes_eqb (fst f) (fst f) = true) by now apply bytes_eqb_eq. congruence.
      + now apply IH.
  Qed.

  Lemma lookup_entry tbl e : NoDup (map fst tbl) -> In e (rg_entries tbl) ->
    lookup_rg tbl (e_file e) (e_idx e) = Some (e_rows e).
  Proof.
    intros ND H. unfold rg_entries in H. apply in_flat_map in H as (f & Hf & H).
    apply in_map_iff in H as ([i r] & <- & H). cbn [fst snd] in *.
    apply in_combine_seq in H as [_ H]. rewrite Nat.sub_0_r in H.
    unfold lookup_rg, e_file, e_idx, e_rows. cbn [fst snd].
    rewrite (find_file_nodup tbl f ND Hf).
    assert (L : Z.of_nat i <? 0 = false) by (apply Z.ltb_ge; lia). rewrite L, Nat2Z.id. exact H.
  Qed.

  (* ---------- collecting a shard ---------- *)
  Definition split_rows tbl (flt : option pushed) s : list row :=
    match read_split tbl flt s with ROk r => r | RErr => [] end.

  Lemma collect_reads_ok tbl flt (owned : list split) :
    (forall s, In s owned -> read_split tbl flt s <> RErr) ->
    collect_reads (map (read_split tbl flt) owned) = ROk (concat (map (split_rows tbl flt) owned)).
  Proof.
    induction owned as [|s t IH]; intros H; [reflexivity|].
    cbn [map collect_reads concat]. unfold split_rows at 1.
    pose proof (H s (or_introl eq_refl)) as Hs.
    destruct (read_split tbl flt s) as [|a]; [congruence|].
    rewrite IH; [reflexivity|]. intros x Hx. apply H. now right.
  Qed.

  Lemma scan_impl_ok tbl flt (owned : list split) :
    (forall s, In s owned -> read_split tbl flt s <> RErr) ->
    scan_impl tbl flt owned = ROk (concat (map (split_rows tbl flt) owned)).
  Proof.
    intros H. destruct owned as [|s t]; [reflexivity|].
    unfold scan_impl. now apply collect_reads_ok.
  Qed.

  (* a split that does not fit the node's copy of the data is an error, never silence *)
  Theorem mismatched_split_is_error tbl flt s owned :
    In s owned ->
    (lookup_rg tbl (s_file s) (s_rg s) = None \/
     exists rg, lookup_rg tbl (s_file s) (s_rg s) = Some rg /\ Z.of_nat (length rg) < s_off s + s_rows s) ->
    scan_impl tbl flt owned = RErr.
  Proof.
    intros Hin Hbad.
    assert (E : read_split tbl flt s = RErr).
    { unfold read_split. destruct Hbad as [->|(rg & -> & Hlt)]; [reflexivity|].
      apply Z.ltb_lt in Hlt. now rewrite Hlt. }
    destruct owned as [|x t]; [destruct Hin|]. unfold scan_impl.
    remember (x :: t) as l eqn:El. clear El. induction l as [|y l IH]; [destruct Hin|].
    cbn [map collect_reads]. destruct Hin as [->|Hin].
    - now rewrite E.
    - destruct (read_split tbl flt y); [reflexivity|]. now rewrite IH.
  Qed.

  (* ---------- the whole table ---------- *)
  Section Reassemble.
    Context {out : Type}.
    Variables (tbl : @ptable row) (flt : option (@pushed row)) (pi : row -> out).
    Variables (splits : list split) (pieces : list Z * Z * list row -> list split).
    Hypothesis names_distinct : NoDup (map fst tbl).
    (* split coverage, in the form C11 proves it (cover_exact): the split set is, up to order, the
       pieces of every row group, and per row group they are contiguous from 0 and sum to its rows *)
    Hypothesis cover_perm : Permutation splits (flat_map pieces (rg_entries tbl)).
    Hypothesis cover_rg : forall e, In e (rg_entries tbl) ->
      contig 0 (pieces e) /\ zsum (map s_rows (pieces e)) = Z.of_nat (length (e_rows e))
      /\ forall s, In s (pieces e) -> s_file s = e_file e /\ s_rg s = e_idx e.
    (* row-group pruning is sound (C05): a pruned row group holds no row satisfying the predicate *)
    Hypothesis prune_sound : forall f, flt = Some f ->
      forall rg, p_prune f rg = true -> forall r, In r rg -> p_pred f r = false.

    Definition contrib (s : split) : list out := map pi (sigma flt (split_rows tbl flt s)).

    Lemma piece_read e s : In e (rg_entries tbl) -> In s (pieces e) ->
      read_split tbl flt s <> RErr /\
      contrib s = match flt with
                  | Some f => if p_prune f (e_rows e) then [] else map pi (filter (p_pred f) (read_rows s (e_rows e)))
                  | None => map pi (read_rows s (e_rows e))
                  end.
    Proof.
      intros He Hs. destruct (cover_rg e He) as (Hc & Hsum & Hid).
      destruct (Hid s Hs) as [Hf Hi].
      pose proof (contig_bounds (e_rows e) (pieces e) 0 Hc (Z.le_refl 0) Hsum s Hs) as (B1 & B2 & B3).
      unfold contrib, split_rows, read_split. rewrite Hf, Hi, (lookup_entry tbl e names_distinct He).
      assert (L : Z.of_nat (length (e_rows e)) <? s_off s + s_rows s = false) by (apply Z.ltb_ge; lia).
      rewrite L. destruct flt as [f|]; cbn [sigma].
      - destruct (p_prune f (e_rows e)); [split; [discriminate|reflexivity]|].
        split; [discriminate|]. destruct (p_rowfilter f); [now rewrite filter_idem | reflexivity].
      - split; [discriminate | reflexivity].
    Qed.

    Lemma entry_contrib e : In e (rg_entries tbl) ->
      flat_map contrib (pieces e) = map pi (sigma flt (e_rows e)).
    Proof.
      intros He. destruct (cover_rg e He) as (Hc & Hsum & _).
      pose proof (contig_reads (e_rows e) (pieces e) 0 Hc (Z.le_refl 0) Hsum) as R.
      change (Z.to_nat 0) with 0%nat in R. cbn [skipn] in R.
      rewrite (flat_map_ext_in contrib
                 (fun s => match flt with
                           | Some f => if p_prune f (e_rows e) then []
                                       else map pi (filter (p_pred f) (read_rows s (e_rows e)))
                           | None => map pi (read_rows s (e_rows e)) end))
        by (intros s Hs; apply (piece_read e s He Hs)).
      destruct flt as [f|] eqn:Ef; cbn [sigma].
      - destruct (p_prune f (e_rows e)) eqn:Ep.
        + rewrite (filter_none_in (p_pred f) (e_rows e)) by (intros r Hr; now apply (prune_sound f eq_refl (e_rows e) Ep)).
          cbn [map]. clear. generalize (pieces e) as l. induction l as [|x t IH]; [reflexivity | exact IH].
        + assert (G : map pi (filter (p_pred f) (e_rows e))
                      = map pi (filter (p_pred f) (concat (map (fun s => read_rows s (e_rows e)) (pieces e)))))
            by (now rewrite R).
          rewrite G, filter_concat, concat_map, !map_map. now rewrite flat_map_concat_map.
      - assert (G : map pi (e_rows e) = map pi (concat (map (fun s => read_rows s (e_rows e)) (pieces e))))
          by (now rewrite R).
        rewrite G, concat_map, map_map. now rewrite flat_map_concat_map.
    Qed.

    Lemma all_contrib : flat_map contrib (flat_map pieces (rg_entries tbl)) = map pi (sigma flt (table_rows tbl)).
    Proof.
      rewrite flat_map_flat_map.
      rewrite (flat_map_ext_in _ (fun e => map pi (sigma flt (e_rows e)))) by (intros e He; now apply entry_contrib).
      unfold table_rows. rewrite flat_map_concat_map.
      destruct flt as [f|]; cbn [sigma].
      - now rewrite filter_concat, concat_map, !map_map.
      - now rewrite concat_map, map_map.
    Qed.

    Lemma split_reads_ok s : In s splits -> read_split tbl flt s <> RErr.
    Proof.
      intros Hs. apply (Permutation_in _ cover_perm) in Hs. apply in_flat_map in Hs as (e & He & Hs).
      apply (piece_read e s He Hs).
    Qed.

    Variable per_node : list (list nat).
    Hypothesis partition : Permutation (concat per_node) (seq 0 (length splits)).

    Lemma idx_in_range idxs i : In idxs per_node -> In i idxs -> (i < length splits)%nat.
    Proof.
      intros H1 H2. assert (In i (concat per_node)) by (apply in_concat; eauto).
      apply (Permutation_in _ partition) in H. apply in_seq in H. lia.
    Qed.

    Lemma node_answer idxs : In idxs per_node ->
      shard_answer tbl flt pi splits idxs = Some (flat_map contrib (owned_splits splits idxs)).
    Proof.
      intros Hin. unfold shard_answer. rewrite scan_impl_ok.
      - f_equal. unfold contrib. rewrite flat_map_concat_map.
        destruct flt as [f|]; cbn [sigma].
        + now rewrite filter_concat, concat_map, !map_map.
        + now rewrite concat_map, map_map.
      - intros s Hs. apply split_reads_ok. unfold owned_splits in Hs.
        apply in_map_iff in Hs as (i & <- & Hi). apply nth_In. now apply (idx_in_range idxs).
    Qed.

    Theorem shards_reassemble :
      exists outs, map (shard_answer tbl flt pi splits) per_node = map Some outs
                   /\ Permutation (concat outs) (map pi (sigma flt (table_rows tbl))).
    Proof.
      exists (map (fun idxs => flat_map contrib (owned_splits splits idxs)) per_node). split.
      - rewrite map_map. apply map_ext_in. intros idxs Hin. now apply node_answer.
      - rewrite <- all_contrib.
        transitivity (flat_map contrib (owned_splits splits (concat per_node))).
        + apply Permutation_refl'. unfold owned_splits. apply flat_map_map_concat.
        + transitivity (flat_map contrib splits).
          * rewrite <- (map_nth_seq splits dsplit) at 2. unfold owned_splits.
            apply Permutation_flat_map, Permutation_map. exact partition.
          * now apply Permutation_flat_map.
    Qed.

    (* no row lost, none duplicated: the answers hold exactly as many rows as pi(sigma(table)) *)
    Corollary shards_count : forall outs, map (shard_answer tbl flt pi splits) per_node = map Some outs ->
      length (concat outs) = length (sigma flt (table_rows tbl)).
    Proof.
      intros outs H. destruct shards_reassemble as (outs' & H' & P).
      rewrite H in H'. assert (outs = outs').
      { clear -H'. revert outs' H'. induction outs as [|a l IH]; intros [|b m] E; cbn in E; try discriminate; auto.
        inversion E; subst. f_equal. now apply IH. }
      subst. rewrite (Permutation_length P). apply map_length.
    Qed.
  End Reassemble.
End Proofs.

(* the LPT assignment of C12 is such a partition: the coordinator's own assignment reassembles *)
Theorem lpt_shards_reassemble {row out} (tbl : @ptable row) flt (pi : row -> out) splits pieces nodes0 :
  NoDup (map fst tbl) ->
  Permutation splits (flat_map pieces (rg_entries tbl)) ->
  (forall e, In e (rg_entries tbl) ->
     contig 0 (pieces e) /\ zsum (map s_rows (pieces e)) = Z.of_nat (length (e_rows e))
     /\ forall s, In s (pieces e) -> s_file s = e_file e /\ s_rg s = e_idx e) ->
  (forall f, flt = Some f -> forall rg, p_prune f rg = true -> forall r, In r rg -> p_pred f r = false) ->
  (forall s, In s splits -> 0 <= s_bytes s) ->
  exists outs, map (shard_answer tbl flt pi splits) (a_per_node (assign splits nodes0)) = map Some outs
               /\ Permutation (concat outs) (map pi (sigma flt (table_rows tbl))).
Proof.
  intros ND CP CR PS NB. eapply shards_reassemble; eauto. now apply assign_partition.
Qed.

(* ---------- a shard never exposes whole files ---------- *)
Theorem shard_never_whole_file : forall k, whole_file (choose_path shard_parquet_files k) = false.
Proof. reflexivity. Qed.

Theorem whole_file_needs_parquet_files {F} : forall (pf : option F) k, whole_file (choose_path pf k) = true -> pf <> None.
Proof. intros [x|] k H; [discriminate | discriminate H]. Qed.

(* ---------- the executable spec is met by the model ---------- *)
Lemma zbag_eqb_perm a b : Permutation a b -> zbag_eqb a b = true.
Proof.
  intros P. unfold zbag_eqb. apply list_eqb_spec; [intros; apply Z.eqb_eq|].
  assert (S : forall l, StronglySorted Z.le (isort Z.leb l)).
  { induction l as [|h t IH]; cbn [isort fold_right]; [constructor|]. fold (isort Z.leb t).
    revert IH. generalize (isort Z.leb t) as s. induction s as [|x s IHs]; intros Hs; cbn [insert].
    - constructor; constructor.
    - destruct (Z.leb h x) eqn:E.
      + apply Z.leb_le in E. constructor; [exact Hs|]. constructor; [exact E|].
        inversion Hs; subst. eapply Forall_impl; [|eassumption]. intros; cbn in *; lia.
      + apply Z.leb_gt in E. inversion Hs; subst. constructor; [now apply IHs|].
        assert (Pm : Permutation (insert Z.leb h s) (h :: s)) by apply insert_perm.
        apply Forall_forall. intros y Hy. apply (Permutation_in _ Pm) in Hy. destruct Hy as [<-|Hy]; [lia|].
        rewrite Forall_forall in H2. now apply H2. }
  assert (U : forall l1 l2, StronglySorted Z.le l1 -> StronglySorted Z.le l2 -> Permutation l1 l2 -> l1 = l2).
  { induction l1 as [|x l1 IH]; intros l2 S1 S2 Pm.
    - now apply Permutation_nil in Pm.
    - destruct l2 as [|y l2]; [apply Permutation_sym, Permutation_nil in Pm; discriminate|].
      inversion S1 as [|? ? S1' F1]; inversion S2 as [|? ? S2' F2]; subst.
      assert (x = y).
      { assert (Ix : In x (y :: l2)) by (apply (Permutation_in _ Pm); now left).
        assert (Iy : In y (x :: l1)) by (apply (Permutation_in _ (Permutation_sym Pm)); now left).
        rewrite Forall_forall in F1, F2.
        destruct Ix as [->|Ix]; [reflexivity|]. destruct Iy as [->|Iy]; [reflexivity|].
        specialize (F1 _ Iy). specialize (F2 _ Ix). lia. }
      subst. f_equal. apply IH; auto. now apply Permutation_cons_inv in Pm. }
  apply U; auto. rewrite !isort_perm. exact P.
Qed.

Theorem model_meets_spec (tbl : @ptable Z) sat splits pieces per_node outs :
  NoDup (map fst tbl) ->
  Permutation splits (flat_map pieces (rg_entries tbl)) ->
  (forall e, In e (rg_entries tbl) ->
     contig 0 (pieces e) /\ zsum (map s_rows (pieces e)) = Z.of_nat (length (e_rows e))
     /\ forall s, In s (pieces e) -> s_file s = e_file e /\ s_rg s = e_idx e) ->
  Permutation (concat per_node) (seq 0 (length splits)) ->
  model_answers tbl sat splits per_node = map Some outs ->
  spec_ok tbl sat outs = true.
Proof.
  intros ND CP CR PT HM. unfold spec_ok.
  destruct (shards_reassemble tbl (flt_of sat) (fun r => r) splits pieces ND CP CR) with (per_node := per_node)
    as (outs' & H' & P); auto.
  - intros f Hf rg Hp r Hr. destruct sat as [l|]; cbn [flt_of] in Hf; [|discriminate].
    inversion Hf; subst; cbn [p_prune p_pred] in *.
    rewrite forallb_forall in Hp. specialize (Hp r Hr). now apply negb_true_iff in Hp.
  - unfold model_answers in HM. rewrite HM in H'.
    assert (outs = outs').
    { clear -H'. revert outs' H'. induction outs as [|a l IH]; intros [|b m] E; cbn in E; try discriminate; auto.
      inversion E; subst. f_equal. now apply IH. }
    subst. apply zbag_eqb_perm. rewrite P, map_id.
    destruct sat; cbn [flt_of sigma p_pred]; reflexivity.
Qed.

(* hypotheses are satisfiable: two files, three row groups, a sub-row-group cut, three nodes, a filter *)
Example shards_example :
  let tbl := [([97], [[1; 2; 3]; [4]]); ([98], [[5; 6]])] in
  let splits := [mkSplit [116] [97] 0 0 1 10; mkSplit [116] [97] 0 1 2 20; mkSplit [116] [97] 1 0 1 5;
                 mkSplit [116] [98] 0 0 2 9] in
  model_answers tbl (Some [2; 3; 6]) splits [[3; 0]; []; [1; 2]]%nat = [Some [6]; Some []; Some [2; 3]]
  /\ spec_ok tbl (Some [2; 3; 6]) [[6]; []; [2; 3]] = true.
Proof. vm_compute. split; reflexivity. Qed.
