(* C13 model: one node's shard of a Parquet table, transcribed.
   anchors: src/distributed/shard.rs: ShardedParquetTable::{read_split, scan_impl, parquet_files},
            src/distributed/coordinator.rs: shard_context (owned = per_node[shard_index].map(|i| set.splits[i])),
            src/distributed/splits.rs: Split::is_whole_row_group,
            src/physical/planner.rs: the whole-file fast paths, all keyed off TableProvider::parquet_files().
   A row is abstract (type [row]); a Parquet table is a list of files, a file a list of row groups,
   a row group a list of rows.  The split record is C12's. *)
From QV Require Export Base.Util C12.Model.

Definition bytes_eqb : list Z -> list Z -> bool := list_eqb Z.eqb.

Section Shard.
  Context {row : Type}.

  Definition ptable := list (list Z * list (list row)).

  (* the node's own copy of the data, addressed the way read_split addresses it: file, row group *)
  Definition find_file (tbl : ptable) (name : list Z) : option (list (list row)) :=
    match find (fun f => bytes_eqb (fst f) name) tbl with Some f => Some (snd f) | None => None end.
  Definition lookup_rg (tbl : ptable) (name : list Z) (idx : Z) : option (list row) :=
    match find_file tbl name with
    | Some rgs => if idx <? 0 then None else nth_error rgs (Z.to_nat idx)
    | None => None
    end.

  (* parquet RowSelection: a run-length list of skip / select; rows after the last selector are not read *)
  Inductive selector := Skip (n : nat) | Select (n : nat).
  Fixpoint apply_sel (sel : list selector) (l : list row) : list row :=
    match sel with
    | [] => []
    | Skip n :: r => apply_sel r (skipn n l)
    | Select n :: r => firstn n l ++ apply_sel r (skipn n l)
    end.

  (* if split.row_offset > 0 { skip(row_offset) } ; select(num_rows) *)
  Definition selectors (s : split) : list selector :=
    (if 0 <? s_off s then [Skip (Z.to_nat (s_off s))] else []) ++ [Select (Z.to_nat (s_rows s))].
  (* Split::is_whole_row_group *)
  Definition is_whole (s : split) (rg_rows : Z) : bool := (s_off s =? 0) && (s_rows s =? rg_rows).
  (* "Only build a selection when the split is a genuine sub-range" *)
  Definition read_rows (s : split) (rg : list row) : list row :=
    if is_whole s (Z.of_nat (length rg)) then rg else apply_sel (selectors s) rg.

  (* the filter handed to scan_with_filter: the predicate, the row-group pruner's verdict on a row group
     (true = skip it unread), and whether the decoder-level RowFilter could be attached
     (no subquery, every column resolves) *)
  Record pushed := mkPushed { p_pred : row -> bool; p_prune : list row -> bool; p_rowfilter : bool }.

  Inductive read_result := RErr | ROk (rows : list row).

  (* sigma_phi: what the FilterExec above a filtered scan keeps *)
  Definition sigma (flt : option pushed) (rows : list row) : list row :=
    match flt with Some f => filter (p_pred f) rows | None => rows end.

  Definition read_split (tbl : ptable) (flt : option pushed) (s : split) : read_result :=
    match lookup_rg tbl (s_file s) (s_rg s) with
    | None => RErr                                   (* row group index out of range / file not there *)
    | Some rg =>
        if Z.of_nat (length rg) <? s_off s + s_rows s then RErr     (* "exceeds the row group's rows" *)
        else match flt with
             | None => ROk (read_rows s rg)
             | Some f =>
                 if p_prune f rg then ROk []
                 else ROk (if p_rowfilter f then filter (p_pred f) (read_rows s rg) else read_rows s rg)
             end
    end.

  Fixpoint collect_reads (rs : list read_result) : read_result :=
    match rs with
    | [] => ROk []
    | RErr :: _ => RErr
    | ROk a :: t => match collect_reads t with RErr => RErr | ROk b => ROk (a ++ b) end
    end.

  (* scan_impl: an empty shard is one empty batch = no rows; otherwise every split, any error fails the scan *)
  Definition scan_impl (tbl : ptable) (flt : option pushed) (owned : list split) : read_result :=
    match owned with
    | [] => ROk []
    | _ => collect_reads (map (read_split tbl flt) owned)
    end.

  (* shard_context: node i owns set.splits[j] for j in per_node[i] *)
  Definition owned_splits (splits : list split) (idxs : list nat) : list split :=
    map (fun i => nth i splits dsplit) idxs.

  (* `SELECT pi FROM t WHERE phi` over the shard context: the scan (with the pushed filter), the
     FilterExec the planner always puts above a filtered scan, then the projection *)
  Definition shard_answer {out} (tbl : ptable) (flt : option pushed) (pi : row -> out)
             (splits : list split) (idxs : list nat) : option (list out) :=
    match scan_impl tbl flt (owned_splits splits idxs) with
    | RErr => None
    | ROk rows => Some (map pi (sigma flt rows))
    end.

  Definition rg_entries (tbl : ptable) : list (list Z * Z * list row) :=
    flat_map (fun f => map (fun ir => (fst f, Z.of_nat (fst ir), snd ir))
                           (combine (seq 0 (length (snd f))) (snd f))) tbl.
  Definition e_file (e : list Z * Z * list row) := fst (fst e).
  Definition e_idx (e : list Z * Z * list row) := snd (fst e).
  Definition e_rows (e : list Z * Z * list row) := snd e.
  Definition table_rows (tbl : ptable) : list row := concat (map e_rows (rg_entries tbl)).
End Shard.

(* pieces of one row group: contiguous from [o], each at least one row (C11's contiguous_s) *)
Fixpoint contig (o : Z) (ps : list split) : Prop :=
  match ps with
  | [] => True
  | s :: t => s_off s = o /\ 0 < s_rows s /\ contig (o + s_rows s) t
  end.

(* ---------- the whole-file fast paths (decision table) ----------
   planner.rs takes a whole-file path only through `provider.parquet_files()`:
     morsel aggregate : try_extract_parquet_source -> `let files = provider.parquet_files()?`
     streaming scan   : `if let Some(files) = provider.parquet_files()`
     shared prescan / gpu column cache : sized and read from `parquet_files()`
   shard.rs: `fn parquet_files(&self) -> Option<Vec<PathBuf>> { None }` *)
Inductive scan_path := PWholeFileMorsel | PWholeFileStreaming | PWholeFileGpu | PProviderScan.
Record plan_facts := mkFacts { f_morsel_enabled : bool; f_agg_over_scan : bool; f_filter_streams : bool;
                               f_cached : bool; f_gpu : bool }.
Definition choose_path {F} (parquet_files : option F) (k : plan_facts) : scan_path :=
  match parquet_files with
  | None => PProviderScan
  | Some _ =>
      if f_gpu k then PWholeFileGpu
      else if f_morsel_enabled k && f_agg_over_scan k then PWholeFileMorsel
      else if f_filter_streams k && negb (f_cached k) then PWholeFileStreaming
      else PProviderScan
  end.
Definition shard_parquet_files : option (list (list Z)) := None.
Definition whole_file (p : scan_path) : bool := match p with PProviderScan => false | _ => true end.

(* ---------- executable spec and comparison (rows are row ids) ---------- *)
Definition zbag_eqb (a b : list Z) : bool := list_eqb Z.eqb (isort Z.leb a) (isort Z.leb b).
Definition memz (x : Z) (l : list Z) : bool := existsb (Z.eqb x) l.

(* what C13 demands of ANY per-node answers: their bag union is pi(sigma_phi(table)); here rows are ids,
   phi is "id in sat", pi is the identity *)
Definition spec_ok (tbl : @ptable Z) (sat : option (list Z)) (answers : list (list Z)) : bool :=
  zbag_eqb (concat answers)
           (match sat with Some l => filter (fun r => memz r l) (table_rows tbl) | None => table_rows tbl end).

Definition flt_of (sat : option (list Z)) : option (@pushed Z) :=
  match sat with
  | Some l => Some (mkPushed (fun r => memz r l) (fun rg => forallb (fun r => negb (memz r l)) rg) true)
  | None => None
  end.
Definition model_answers (tbl : @ptable Z) (sat : option (list Z)) (splits : list split) (per_node : list (list nat))
  : list (option (list Z)) :=
  map (shard_answer tbl (flt_of sat) (fun r => r) splits) per_node.
Definition answers_eqb (impl : list (list Z)) (model : list (option (list Z))) : bool :=
  Nat.eqb (length impl) (length model)
  && forallb (fun p => match snd p with Some m => zbag_eqb (fst p) m | None => false end) (combine impl model).
