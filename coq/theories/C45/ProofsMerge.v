(* C45 proofs, part 2: the merge of the per-scan column requirements. Over an ARBITRARY sequence of scans, in any
   visiting order (all-columns first, last, in the middle), the final map holds every column any scan reads. *)
From QV Require Import Base.Util C45.Model C45.Proofs.
Local Open Scope nat_scope.

Notation req := (list (nat * option (list nat))).

Lemma rlookup_rset m t v t' : rlookup (rset m t v) t' = if Nat.eqb t' t then Some v else rlookup m t'.
Proof.
  induction m as [|[t0 v0] r IH]; cbn [rset rlookup].
  - reflexivity.
  - destruct (Nat.eqb t t0) eqn:E; cbn [rlookup].
    + apply Nat.eqb_eq in E. subst t0. destruct (Nat.eqb t' t); reflexivity.
    + destruct (Nat.eqb t' t0) eqn:F; [|exact IH].
      apply Nat.eqb_eq in F. subst t0. rewrite Nat.eqb_sym in E. now rewrite E.
Qed.

(* what one scan asks of (t, n) *)
Definition needs (r : nat * option (list nat)) (t n : nat) : bool :=
  Nat.eqb (fst r) t && match snd r with None => true | Some l => memn n l end.

Lemma memn_app n a b : memn n (a ++ b) = memn n a || memn n b.
Proof. unfold memn. apply existsb_app. Qed.

Lemma merged_col_one m r t n : merged_col (merge_one m r) t n = merged_col m t n || needs r t n.
Proof.
  destruct r as [t0 c]. unfold merge_one, needs, merged_col. cbn [fst snd].
  destruct (Nat.eqb t0 t) eqn:E.
  - apply Nat.eqb_eq in E. subst t0. cbn [andb].
    destruct (rlookup m t) as [[set|]|] eqn:L; destruct c as [more|]; rewrite ?rlookup_rset, ?Nat.eqb_refl, ?L;
      try rewrite memn_app; try reflexivity; now rewrite ?orb_true_r.
  - cbn [andb]. rewrite orb_false_r. rewrite Nat.eqb_sym in E.
    destruct (rlookup m t0) as [[set|]|]; destruct c as [more|]; rewrite ?rlookup_rset, ?E; reflexivity.
Qed.

Lemma merged_table_one m r t : merged_table (merge_one m r) t = merged_table m t || Nat.eqb (fst r) t.
Proof.
  destruct r as [t0 c]. unfold merge_one, merged_table. cbn [fst snd].
  destruct (Nat.eqb t0 t) eqn:E.
  - apply Nat.eqb_eq in E. subst t0.
    destruct (rlookup m t) as [[set|]|] eqn:L; destruct c as [more|]; rewrite ?rlookup_rset, ?Nat.eqb_refl, ?L; reflexivity.
  - rewrite orb_false_r. rewrite Nat.eqb_sym in E.
    destruct (rlookup m t0) as [[set|]|]; destruct c as [more|]; rewrite ?rlookup_rset, ?E; reflexivity.
Qed.

Lemma fold_merged_col (reqs : req) : forall m t n,
  merged_col (fold_left merge_one reqs m) t n = merged_col m t n || existsb (fun r => needs r t n) reqs.
Proof.
  induction reqs as [|r l IH]; intros m t n; cbn [fold_left existsb]; [now rewrite orb_false_r|].
  now rewrite IH, merged_col_one, orb_assoc.
Qed.
Lemma fold_merged_table (reqs : req) : forall m t,
  merged_table (fold_left merge_one reqs m) t = merged_table m t || existsb (fun r => Nat.eqb (fst r) t) reqs.
Proof.
  induction reqs as [|r l IH]; intros m t; cbn [fold_left existsb]; [now rewrite orb_false_r|].
  now rewrite IH, merged_table_one, orb_assoc.
Qed.

Lemma gathered_col_needs (reqs : req) t n : gathered_col reqs t n = existsb (fun r => needs r t n) reqs.
Proof.
  unfold gathered_col, gathered_all. induction reqs as [|[t0 c] l IH]; [reflexivity|].
  cbn [existsb fst snd]. rewrite <- IH. unfold needs. cbn [fst snd].
  destruct (Nat.eqb t0 t), c as [s|]; cbn [andb orb]; rewrite ?orb_true_r, ?orb_false_r; try reflexivity.
  repeat match goal with |- context [existsb ?f ?x] => destruct (existsb f x) end; destruct (memn n s); reflexivity.
Qed.

(* the merge as coded computes exactly "some scan of t asks for all columns, or some scan of t lists n" *)
Theorem merge_keeps_every_column (reqs : req) t n :
  merged_col (merge_scans reqs) t n = gathered_col reqs t n
  /\ merged_table (merge_scans reqs) t = gathered_table reqs t.
Proof.
  unfold merge_scans. rewrite fold_merged_col, fold_merged_table, gathered_col_needs. split; reflexivity.
Qed.

(* THE statement: for an arbitrary sequence of scans, wherever the all-columns scan of a table stands in it, the
   gathered column set of the table contains every column any scan of it reads *)
Theorem merged_contains_every_scan (reqs : req) t cols :
  In (t, cols) reqs ->
  merged_table (merge_scans reqs) t = true
  /\ match cols with
     | None => forall n, merged_col (merge_scans reqs) t n = true
     | Some l => forall n, In n l -> merged_col (merge_scans reqs) t n = true
     end.
Proof.
  intros H. split.
  - rewrite (proj2 (merge_keeps_every_column reqs t 0)). unfold gathered_table. apply existsb_exists.
    exists (t, cols). split; [exact H | apply Nat.eqb_refl].
  - destruct cols as [l|].
    + intros n Hn. rewrite (proj1 (merge_keeps_every_column reqs t n)), gathered_col_needs.
      apply existsb_exists. exists (t, Some l). split; [exact H|]. unfold needs. cbn [fst snd].
      rewrite Nat.eqb_refl. cbn [andb]. now apply memn_In.
    + intros n. rewrite (proj1 (merge_keeps_every_column reqs t n)), gathered_col_needs.
      apply existsb_exists. exists (t, None). split; [exact H|]. unfold needs. cbn [fst snd].
      now rewrite Nat.eqb_refl.
Qed.

(* ... and the visiting order does not matter at all *)
Theorem merge_order_irrelevant (a b : req) t n : Permutation a b ->
  merged_col (merge_scans a) t n = merged_col (merge_scans b) t n
  /\ merged_table (merge_scans a) t = merged_table (merge_scans b) t.
Proof.
  intros P. rewrite !(proj1 (merge_keeps_every_column _ t n)), !(proj2 (merge_keeps_every_column _ t n)), !gathered_col_needs.
  unfold gathered_table.
  assert (E : forall f : nat * option (list nat) -> bool, existsb f a = existsb f b).
  { intros f. induction P as [|x l l' P IH|x y l|l l' l'' P1 IH1 P2 IH2]; cbn [existsb].
    - reflexivity.
    - now rewrite IH.
    - destruct (f x), (f y); reflexivity.
    - congruence. }
  split; apply E.
Qed.

(* refuted for a merge whose last arm replaces whatever is there: an all-columns scan met BEFORE a narrower scan of the
   same table is forgotten (met after it, or alone, it survives — the defect is order-sensitive) *)
Theorem wrong_merge_refuted :
  let all_first := [(1, None); (1, Some [3])] in
  let all_last := [(1, Some [3]); (1, None)] in
  let all_middle := [(1, Some [3]); (1, None); (1, Some [3])] in
  In (1, None) all_first
  /\ merged_col (merge_scans_wrong all_first) 1 4 = false
  /\ merged_col (merge_scans_wrong all_last) 1 4 = true
  /\ merged_col (merge_scans_wrong all_middle) 1 4 = false
  /\ merged_col (merge_scans all_first) 1 4 = true
  /\ merged_col (merge_scans all_last) 1 4 = true
  /\ merged_col (merge_scans all_middle) 1 4 = true.
Proof. vm_compute. repeat split; auto. Qed.

Lemma forallb_eq_ext {A} (f g : A -> bool) l : (forall x, f x = g x) -> forallb f l = forallb g l.
Proof. intros H. induction l as [|a l IH]; [reflexivity|]. cbn [forallb]. now rewrite H, IH. Qed.

(* end to end: the statement re-run over the tables registered from the FINAL MAP binds *)
Definition rebinds_map (schema : nat -> list nat) (m : rmap) (p : plan) : bool :=
  forallb (merged_table m) (tables_read p)
  && forallb (fun tc => merged_col m (fst tc) (snd tc)) (columns_read schema p).

Theorem gather_plan_rebinds schema p : rebinds_map schema (merge_scans (collect_fix schema p)) p = true.
Proof.
  pose proof (fix_covers schema p) as H. unfold rebinds in H. unfold rebinds_map.
  rewrite (forallb_eq_ext (merged_table (merge_scans (collect_fix schema p))) (gathered_table (collect_fix schema p)))
    by (intros t; apply (proj2 (merge_keeps_every_column (collect_fix schema p) t 0))).
  rewrite (forallb_eq_ext (fun tc => merged_col (merge_scans (collect_fix schema p)) (fst tc) (snd tc))
                          (fun tc => gathered_col (collect_fix schema p) (fst tc) (snd tc)))
    by (intros tc; apply (proj1 (merge_keeps_every_column (collect_fix schema p) (fst tc) (snd tc)))).
  exact H.
Qed.

(* a statement of the shape the seeded change breaks: the subquery expression (all columns of table 1) sits in the FIRST
   union branch, a pruned scan of table 1 in the second; the walk meets "all" before "narrower" *)
Example all_first_statement :
  let p := PBin (PUn (PScan 0 (Some [0; 1]) ELit) (EOp (ECol 1) (ESub (PUn (PScan 1 None ELit) ELit))))
                (PScan 1 (Some [3]) ELit) ELit in
  collect_fix ex_schema p = [(0, Some [0; 1]); (1, None); (1, Some [3])]
  /\ all_then_narrower (collect_fix ex_schema p) = true
  /\ rlookup (merge_scans (collect_fix ex_schema p)) 1 = Some None
  /\ rlookup (merge_scans_wrong (collect_fix ex_schema p)) 1 = Some (Some [3])
  /\ rebinds_map ex_schema (merge_scans (collect_fix ex_schema p)) p = true
  /\ rebinds_map ex_schema (merge_scans_wrong (collect_fix ex_schema p)) p = false.
Proof. vm_compute. repeat split; reflexivity. Qed.
