(* C45 proofs: collect_scans covers every column the statement reads as long as no expression of the optimized plan
   still carries a subquery plan; with one it does not (children() never enters expressions); the repaired walk always does. *)
From QV Require Import Base.Util C45.Model.

Lemma memn_In x l : memn x l = true <-> In x l.
Proof.
  unfold memn. rewrite existsb_exists. split.
  - intros (y & Hy & E). apply Nat.eqb_eq in E. now subst.
  - intros H. exists x. split; [exact H | apply Nat.eqb_refl].
Qed.

Section Proofs.
  Variable schema : nat -> list nat.
  Notation req := (list (nat * option (list nat))).

  Lemma gall_app (a b : req) t : gathered_all (a ++ b) t = gathered_all a t || gathered_all b t.
  Proof. unfold gathered_all. apply existsb_app. Qed.
  Lemma gtab_app (a b : req) t : gathered_table (a ++ b) t = gathered_table a t || gathered_table b t.
  Proof. unfold gathered_table. apply existsb_app. Qed.
  Lemma gcol_app (a b : req) t n : gathered_col (a ++ b) t n = gathered_col a t n || gathered_col b t n.
  Proof.
    unfold gathered_col. rewrite gall_app, existsb_app.
    repeat match goal with |- context [existsb ?f ?l] => destruct (existsb f l) end;
      destruct (gathered_all a t), (gathered_all b t); reflexivity.
  Qed.

  Lemma gtab_mid (pre post : req) x t : gathered_table [x] t = true -> gathered_table (pre ++ x :: post) t = true.
  Proof.
    intros H. change (x :: post) with ([x] ++ post). rewrite !gtab_app, H. now rewrite orb_true_r.
  Qed.
  Lemma gcol_mid (pre post : req) x t n : gathered_col [x] t n = true -> gathered_col (pre ++ x :: post) t n = true.
  Proof.
    intros H. change (x :: post) with ([x] ++ post). rewrite !gcol_app, H. now rewrite orb_true_r.
  Qed.

  (* one scan's requirement holds everything that scan reads *)
  Lemma scan_req_covers t proj flt tc : In tc (scan_reads schema t proj flt) ->
    gathered_col [(t, scan_req schema t proj flt)] (fst tc) (snd tc) = true.
  Proof.
    unfold scan_reads. intros H. apply in_map_iff in H as (n & <- & Hn). cbn [fst snd].
    unfold gathered_col, gathered_all, scan_req. cbn [existsb fst snd]. rewrite Nat.eqb_refl. cbn [andb].
    destruct proj as [idx|]; [|reflexivity].
    destruct (idx ++ filter (fun f => memn f (expr_columns flt)) (schema t)) as [|y l] eqn:E; [destruct Hn|].
    cbn [orb]. apply memn_In in Hn. now rewrite Hn.
  Qed.

  Definition covers_plan (r : req) (p : plan) : Prop :=
    forallb (gathered_table r) (tables_read p) = true
    /\ forallb (fun tc => gathered_col r (fst tc) (snd tc)) (columns_read schema p) = true.
  Definition covers_expr (r : req) (e : expr) : Prop :=
    forallb (gathered_table r) (sub_tables e) = true
    /\ forallb (fun tc => gathered_col r (fst tc) (snd tc)) (sub_reads schema e) = true.

  (* unfolding equations (the mutual fixpoints do not refold under cbn) *)
  Lemma sf_op a b : sub_fix schema (EOp a b) = sub_fix schema a ++ sub_fix schema b. Proof. reflexivity. Qed.
  Lemma sf_sub p : sub_fix schema (ESub p) = collect_fix schema p. Proof. reflexivity. Qed.
  Lemma sf_in a p : sub_fix schema (EInSub a p) = sub_fix schema a ++ collect_fix schema p. Proof. reflexivity. Qed.
  Lemma cf_scan t proj flt : collect_fix schema (PScan t proj flt) = (t, scan_req schema t proj flt) :: sub_fix schema flt.
  Proof. reflexivity. Qed.
  Lemma cf_un q e : collect_fix schema (PUn q e) = collect_fix schema q ++ sub_fix schema e. Proof. reflexivity. Qed.
  Lemma cf_bin l r e : collect_fix schema (PBin l r e) = collect_fix schema l ++ collect_fix schema r ++ sub_fix schema e.
  Proof. reflexivity. Qed.
  Lemma st_op a b : sub_tables (EOp a b) = sub_tables a ++ sub_tables b. Proof. reflexivity. Qed.
  Lemma st_sub p : sub_tables (ESub p) = tables_read p. Proof. reflexivity. Qed.
  Lemma st_in a p : sub_tables (EInSub a p) = sub_tables a ++ tables_read p. Proof. reflexivity. Qed.
  Lemma tr_scan t proj flt : tables_read (PScan t proj flt) = t :: sub_tables flt. Proof. reflexivity. Qed.
  Lemma tr_un q e : tables_read (PUn q e) = tables_read q ++ sub_tables e. Proof. reflexivity. Qed.
  Lemma tr_bin l r e : tables_read (PBin l r e) = tables_read l ++ tables_read r ++ sub_tables e. Proof. reflexivity. Qed.
  Lemma sr_op a b : sub_reads schema (EOp a b) = sub_reads schema a ++ sub_reads schema b. Proof. reflexivity. Qed.
  Lemma sr_sub p : sub_reads schema (ESub p) = columns_read schema p. Proof. reflexivity. Qed.
  Lemma sr_in a p : sub_reads schema (EInSub a p) = sub_reads schema a ++ columns_read schema p. Proof. reflexivity. Qed.
  Lemma cr_scan t proj flt : columns_read schema (PScan t proj flt) = scan_reads schema t proj flt ++ sub_reads schema flt.
  Proof. reflexivity. Qed.
  Lemma cr_un q e : columns_read schema (PUn q e) = columns_read schema q ++ sub_reads schema e. Proof. reflexivity. Qed.
  Lemma cr_bin l r e : columns_read schema (PBin l r e)
    = columns_read schema l ++ columns_read schema r ++ sub_reads schema e. Proof. reflexivity. Qed.

  Lemma fix_covers_mut :
    (forall e, forall pre post, covers_expr (pre ++ sub_fix schema e ++ post) e)
    /\ (forall p, forall pre post, covers_plan (pre ++ collect_fix schema p ++ post) p).
  Proof.
    apply expr_plan_ind; unfold covers_expr, covers_plan.
    - intros; split; reflexivity.
    - intros; split; reflexivity.
    - intros a IHa b IHb pre post. rewrite sf_op, st_op, sr_op, !forallb_app.
      destruct (IHa pre (sub_fix schema b ++ post)) as [A1 A2].
      destruct (IHb (pre ++ sub_fix schema a) post) as [B1 B2].
      rewrite <- !app_assoc in *. rewrite A1, A2, B1, B2. split; reflexivity.
    - intros p IHp pre post. rewrite sf_sub, st_sub, sr_sub. apply IHp.
    - intros a IHa p IHp pre post. rewrite sf_in, st_in, sr_in, !forallb_app.
      destruct (IHa pre (collect_fix schema p ++ post)) as [A1 A2].
      destruct (IHp (pre ++ sub_fix schema a) post) as [B1 B2].
      rewrite <- !app_assoc in *. rewrite A1, A2, B1, B2. split; reflexivity.
    - intros t proj flt IH pre post. rewrite cf_scan, tr_scan, cr_scan. cbn [forallb]. rewrite forallb_app.
      destruct (IH (pre ++ [(t, scan_req schema t proj flt)]) post) as [B1 B2].
      rewrite <- !app_assoc in B1, B2. cbn [app] in B1, B2 |- *. rewrite B1, B2. split.
      + rewrite gtab_mid; [reflexivity|]. unfold gathered_table. cbn [existsb fst]. now rewrite Nat.eqb_refl.
      + rewrite andb_true_r. apply forallb_forall. intros tc Htc. apply gcol_mid. now apply scan_req_covers.
    - intros; split; reflexivity.
    - intros q IHq e IHe pre post. rewrite cf_un, tr_un, cr_un, !forallb_app.
      destruct (IHq pre (sub_fix schema e ++ post)) as [A1 A2].
      destruct (IHe (pre ++ collect_fix schema q) post) as [B1 B2].
      rewrite <- !app_assoc in *. rewrite A1, A2, B1, B2. split; reflexivity.
    - intros l IHl r IHr e IHe pre post. rewrite cf_bin, tr_bin, cr_bin, !forallb_app.
      destruct (IHl pre (collect_fix schema r ++ sub_fix schema e ++ post)) as [A1 A2].
      destruct (IHr (pre ++ collect_fix schema l) (sub_fix schema e ++ post)) as [B1 B2].
      destruct (IHe (pre ++ collect_fix schema l ++ collect_fix schema r) post) as [C1 C2].
      rewrite <- !app_assoc in *. rewrite A1, A2, B1, B2, C1, C2. split; reflexivity.
  Qed.

  (* the repaired walk: re-running the statement over the gathered tables always binds *)
  Theorem fix_covers p : rebinds schema (collect_fix schema p) p = true.
  Proof.
    destruct fix_covers_mut as [_ H]. destruct (H p [] []) as [A B]. cbn [app] in A, B. rewrite app_nil_r in A, B.
    unfold rebinds. now rewrite A, B.
  Qed.

  Lemma no_sub_nothing e : has_sub e = false -> sub_fix schema e = [] /\ sub_reads schema e = [] /\ sub_tables e = [].
  Proof.
    induction e as [n| |a IHa b IHb|p|a IHa p]; cbn [has_sub sub_fix sub_reads sub_tables]; intros H; try discriminate; auto.
    apply orb_false_iff in H as [Ha Hb]. destruct (IHa Ha) as (-> & -> & ->). destruct (IHb Hb) as (-> & -> & ->). auto.
  Qed.

  Lemma collect_same p : known_subquery_expr p = false -> collect_fix schema p = collect_scans schema p.
  Proof.
    induction p as [t proj flt| |q IHq e|l IHl r IHr e]; cbn [known_subquery_expr collect_scans]; intros H.
    - rewrite cf_scan. destruct (no_sub_nothing flt H) as (-> & _). reflexivity.
    - reflexivity.
    - apply orb_false_iff in H as [Hq He]. rewrite cf_un. destruct (no_sub_nothing e He) as (-> & _).
      now rewrite IHq, app_nil_r.
    - apply orb_false_iff in H as [H He]. apply orb_false_iff in H as [Hl Hr]. rewrite cf_bin.
      destruct (no_sub_nothing e He) as (-> & _). now rewrite IHl, IHr, app_nil_r.
  Qed.

  (* collect_scans_covers_when_no_subquery_exprs: as coded, the gather plan holds every table and column the statement
     reads whenever no expression of the optimized plan still carries a subquery plan *)
  Theorem collect_scans_covers_when_no_subquery_exprs p :
    known_subquery_expr p = false -> rebinds schema (collect_scans schema p) p = true.
  Proof. intros H. rewrite <- collect_same by exact H. apply fix_covers. Qed.
End Proofs.

(* subquery_expr_not_walked_refuted: a scalar subquery left in a filter expression. Its table is not gathered at all
   (first witness), or a column of an already gathered table that only the subquery reads is missing (second). *)
Local Open Scope nat_scope.
Definition ex_schema (t : nat) : list nat := match t with O => [0; 1; 2] | _ => [3; 4] end.
Definition ex_other_table : plan :=
  PUn (PScan 0 (Some [0; 1]) ELit) (EOp (ECol 1) (ESub (PUn (PScan 1 None ELit) ELit))).
Definition ex_other_column : plan :=
  PUn (PScan 0 (Some [0]) ELit) (EOp (ECol 0) (ESub (PUn (PScan 0 (Some [2]) ELit) ELit))).

Theorem subquery_expr_not_walked_refuted :
  known_subquery_expr ex_other_table = true
  /\ rebinds ex_schema (collect_scans ex_schema ex_other_table) ex_other_table = false
  /\ gathered_table (collect_scans ex_schema ex_other_table) 1 = false
  /\ known_subquery_expr ex_other_column = true
  /\ rebinds ex_schema (collect_scans ex_schema ex_other_column) ex_other_column = false
  /\ gathered_col (collect_scans ex_schema ex_other_column) 0 2 = false
  /\ rebinds ex_schema (collect_fix ex_schema ex_other_table) ex_other_table = true
  /\ rebinds ex_schema (collect_fix ex_schema ex_other_column) ex_other_column = true.
Proof. vm_compute. repeat split; reflexivity. Qed.

(* hypotheses satisfiable, non-trivially: a join, a pushed scan filter, a COUNT( * )-shaped scan, a self-join *)
Example covers_example :
  let p := PBin (PUn (PScan 0 (Some [0]) (EOp (ECol 2) ELit)) (ECol 0)) (PBin (PScan 1 (Some []) ELit) (PScan 0 (Some [1]) ELit) ELit) (EOp (ECol 0) (ECol 3)) in
  known_subquery_expr p = false
  /\ collect_scans ex_schema p = [(0, Some [0; 2]); (1, Some [3]); (0, Some [1])]
  /\ rebinds ex_schema (collect_scans ex_schema p) p = true.
Proof. vm_compute. repeat split; reflexivity. Qed.
