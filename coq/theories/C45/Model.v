(* C45 model: which tables and columns the gather path moves, transcribed.
   anchors: src/distributed/gather.rs: plan_gather, collect_scans (walks `plan.children()`), collect_expr_columns
            (value-expression variants only; `_ => {}` on subqueries);
            src/planner/logical_plan.rs: LogicalPlan::children (plan inputs only; expressions are not entered);
            src/distributed/coordinator.rs: execute_gathered (registers, per gathered table, exactly the gathered
            columns, then re-runs the ORIGINAL statement).
   A plan node carries its expressions; an expression may CONTAIN a subquery plan (scalar subquery, EXISTS, IN).
   Tables are numbers, columns are NAME ids (the code matches scan-filter columns to table fields by name);
   `schema t` lists the fields of table t in schema order. *)
From QV Require Export Base.Util.

Inductive expr :=
| ECol (name : nat)
| ELit
| EOp (a b : expr)                   (* every value-expression variant: its operands *)
| ESub (p : plan)                    (* ScalarSubquery(p) / Exists { subquery: p } *)
| EInSub (a : expr) (p : plan)       (* InSubquery { expr: a, subquery: p } *)
with plan :=
| PScan (t : nat) (proj : option (list nat)) (flt : expr)    (* ELit = no pushed filter *)
| PLeaf                                                       (* Values / EmptyRelation / DelimGet *)
| PUn (p : plan) (e : expr)           (* Filter, Project, Aggregate, Sort, Limit, Distinct, Window, SubqueryAlias *)
| PBin (l r : plan) (e : expr).       (* Join (on + filter), Union, DelimJoin *)

Scheme expr_mut := Induction for expr Sort Prop
  with plan_mut := Induction for plan Sort Prop.
Combined Scheme expr_plan_ind from expr_mut, plan_mut.

Definition memn (x : nat) (l : list nat) : bool := existsb (Nat.eqb x) l.

(* collect_expr_columns: the names an expression mentions; subquery variants contribute nothing (`_ => {}`),
   not even the left operand of IN (subquery) *)
Fixpoint expr_columns (e : expr) : list nat :=
  match e with
  | ECol n => [n]
  | ELit => []
  | EOp a b => expr_columns a ++ expr_columns b
  | ESub _ => []
  | EInSub _ _ => []
  end.

Section Gather.
  Variable schema : nat -> list nat.

  (* one scan's requirement: None = every column *)
  Definition scan_req (t : nat) (proj : option (list nat)) (flt : expr) : option (list nat) :=
    match proj with
    | None => None
    | Some idx =>
        let set := idx ++ filter (fun f => memn f (expr_columns flt)) (schema t) in
        match set with
        | [] => match schema t with f :: _ => Some [f] | [] => Some [] end   (* COUNT( * )-shaped scan: one column *)
        | _ => Some set
        end
    end.

  (* collect_scans as coded: plan inputs only *)
  Fixpoint collect_scans (p : plan) : list (nat * option (list nat)) :=
    match p with
    | PScan t proj flt => [(t, scan_req t proj flt)]
    | PLeaf => []
    | PUn q _ => collect_scans q
    | PBin l r _ => collect_scans l ++ collect_scans r
    end.

  (* the repaired walk (.work/fixes/c45-gather-subquery-exprs.diff): also the subquery plans inside the expressions *)
  Fixpoint collect_fix (p : plan) : list (nat * option (list nat)) :=
    match p with
    | PScan t proj flt => (t, scan_req t proj flt) :: sub_fix flt
    | PLeaf => []
    | PUn q e => collect_fix q ++ sub_fix e
    | PBin l r e => collect_fix l ++ collect_fix r ++ sub_fix e
    end
  with sub_fix (e : expr) : list (nat * option (list nat)) :=
    match e with
    | ECol _ | ELit => []
    | EOp a b => sub_fix a ++ sub_fix b
    | ESub p => collect_fix p
    | EInSub a p => sub_fix a ++ collect_fix p
    end.

  (* the GatherPlan: per table, "widest wins: None absorbs everything" *)
  Definition gathered_all (req : list (nat * option (list nat))) (t : nat) : bool :=
    existsb (fun r => Nat.eqb (fst r) t && match snd r with None => true | Some _ => false end) req.
  Definition gathered_table (req : list (nat * option (list nat))) (t : nat) : bool :=
    existsb (fun r => Nat.eqb (fst r) t) req.
  (* is column `name` of table t among what the initiator registers for t *)
  Definition gathered_col (req : list (nat * option (list nat))) (t name : nat) : bool :=
    gathered_all req t
    || existsb (fun r => Nat.eqb (fst r) t && match snd r with Some l => memn name l | None => false end) req.

  (* every (table, column) the statement reads: the scans of the plan AND of every subquery plan inside its expressions *)
  Definition scan_reads (t : nat) (proj : option (list nat)) (flt : expr) : list (nat * nat) :=
    map (fun n => (t, n))
        (match proj with
         | None => schema t
         | Some idx => idx ++ filter (fun f => memn f (expr_columns flt)) (schema t)
         end).
  Fixpoint columns_read (p : plan) : list (nat * nat) :=
    match p with
    | PScan t proj flt => scan_reads t proj flt ++ sub_reads flt
    | PLeaf => []
    | PUn q e => columns_read q ++ sub_reads e
    | PBin l r e => columns_read l ++ columns_read r ++ sub_reads e
    end
  with sub_reads (e : expr) : list (nat * nat) :=
    match e with
    | ECol _ | ELit => []
    | EOp a b => sub_reads a ++ sub_reads b
    | ESub p => columns_read p
    | EInSub a p => sub_reads a ++ columns_read p
    end.
  (* every table the statement scans, anywhere *)
  Fixpoint tables_read (p : plan) : list nat :=
    match p with
    | PScan t _ flt => t :: sub_tables flt
    | PLeaf => []
    | PUn q e => tables_read q ++ sub_tables e
    | PBin l r e => tables_read l ++ tables_read r ++ sub_tables e
    end
  with sub_tables (e : expr) : list nat :=
    match e with
    | ECol _ | ELit => []
    | EOp a b => sub_tables a ++ sub_tables b
    | ESub p => tables_read p
    | EInSub a p => sub_tables a ++ tables_read p
    end.

  (* re-running the statement over the gathered tables binds: every table it scans is registered and every column
     it reads is there *)
  Definition rebinds (req : list (nat * option (list nat))) (p : plan) : bool :=
    forallb (gathered_table req) (tables_read p)
    && forallb (fun tc => gathered_col req (fst tc) (snd tc)) (columns_read p).

  (* the recorded deviation: some expression of the optimized plan still holds a subquery plan *)
  Fixpoint has_sub (e : expr) : bool :=
    match e with
    | ECol _ | ELit => false
    | EOp a b => has_sub a || has_sub b
    | ESub _ | EInSub _ _ => true
    end.
  Fixpoint known_subquery_expr (p : plan) : bool :=
    match p with
    | PScan _ _ flt => has_sub flt
    | PLeaf => false
    | PUn q e => known_subquery_expr q || has_sub e
    | PBin l r e => known_subquery_expr l || known_subquery_expr r || has_sub e
    end.
End Gather.

(* ---------- the merge of the per-scan requirements, as coded ----------
   gather.rs collect_scans, on every Scan it visits (`required: BTreeMap<String, Option<BTreeSet<String>>>`):
     match (required.get_mut(&scan.table_name), cols) {
         (None, cols)                           => insert
         (Some(existing @ Some(_)), Some(more)) => set.extend(more)
         (Some(existing), None)                 => *existing = None        // widest wins: None absorbs everything
         (Some(None), Some(_))                  => {}                      // ... and stays
     }
   The scans arrive in visiting order (a node's inputs, then the subquery plans of its expressions), so the same table
   may be met all-columns first, last or in the middle of narrower scans. *)
Definition rmap := list (nat * option (list nat)).        (* at most one entry per table *)
Fixpoint rlookup (m : rmap) (t : nat) : option (option (list nat)) :=
  match m with [] => None | (t', v) :: r => if Nat.eqb t t' then Some v else rlookup r t end.
Fixpoint rset (m : rmap) (t : nat) (v : option (list nat)) : rmap :=
  match m with
  | [] => [(t, v)]
  | (t', v') :: r => if Nat.eqb t t' then (t, v) :: r else (t', v') :: rset r t v
  end.
Definition merge_one (m : rmap) (r : nat * option (list nat)) : rmap :=
  match rlookup m (fst r), snd r with
  | None, cols => rset m (fst r) cols
  | Some (Some set), Some more => rset m (fst r) (Some (set ++ more))
  | Some _, None => rset m (fst r) None
  | Some None, Some _ => m
  end.
Definition merge_scans (reqs : list (nat * option (list nat))) : rmap := fold_left merge_one reqs [].

(* a WRONG merge (the last arm written as a catch-all `(existing, cols) => *existing = cols`): a later, narrower scan
   replaces "all columns" *)
Definition merge_one_wrong (m : rmap) (r : nat * option (list nat)) : rmap :=
  match rlookup m (fst r), snd r with
  | None, cols => rset m (fst r) cols
  | Some (Some set), Some more => rset m (fst r) (Some (set ++ more))
  | Some _, cols => rset m (fst r) cols
  end.
Definition merge_scans_wrong (reqs : list (nat * option (list nat))) : rmap := fold_left merge_one_wrong reqs [].

(* what the initiator registers for table t, read off the final map *)
Definition merged_table (m : rmap) (t : nat) : bool := match rlookup m t with Some _ => true | None => false end.
Definition merged_col (m : rmap) (t name : nat) : bool :=
  match rlookup m t with Some None => true | Some (Some l) => memn name l | None => false end.

(* in which order did the walk meet the scans of one table: all-columns before a narrower one, after one, between two *)
Definition narrower_later (reqs : list (nat * option (list nat))) (t : nat) : bool :=
  existsb (fun r => Nat.eqb (fst r) t && match snd r with Some _ => true | None => false end) reqs.
Fixpoint all_then_narrower (reqs : list (nat * option (list nat))) : bool :=
  match reqs with
  | [] => false
  | (t, None) :: r => narrower_later r t || all_then_narrower r
  | _ :: r => all_then_narrower r
  end.
Fixpoint narrower_then_all (reqs : list (nat * option (list nat))) : bool :=
  match reqs with
  | [] => false
  | (t, Some _) :: r => existsb (fun x => Nat.eqb (fst x) t && match snd x with None => true | Some _ => false end) r
                        || narrower_then_all r
  | _ :: r => narrower_then_all r
  end.
Fixpoint all_in_middle (reqs : list (nat * option (list nat))) : bool :=
  match reqs with
  | [] => false
  | (t, Some _) :: r =>
      (fix go (l : list (nat * option (list nat))) : bool :=
         match l with
         | [] => false
         | (t', None) :: l' => (Nat.eqb t' t && narrower_later l' t) || go l'
         | _ :: l' => go l'
         end) r || all_in_middle r
  | _ :: r => all_in_middle r
  end.
Fixpoint scans_of_table (reqs : list (nat * option (list nat))) (t : nat) : nat :=
  match reqs with [] => 0%nat | r :: l => ((if Nat.eqb (fst r) t then 1 else 0) + scans_of_table l t)%nat end.

(* ---------- comparison with the engine's GatherPlan (tables by index, columns by name id; None = all) ---------- *)
Definition req_of_table (req : list (nat * option (list nat))) (schema : nat -> list nat) (t : nat) : option (option (list nat)) :=
  let m := merge_scans req in
  match rlookup m t with
  | None => None
  | Some None => Some None
  | Some (Some _) => Some (Some (filter (fun f => merged_col m t f) (schema t)))     (* schema order, as plan_gather lists them *)
  end.
Definition opt_list_eqb (a b : option (list nat)) : bool :=
  match a, b with None, None => true | Some x, Some y => list_eqb Nat.eqb x y | _, _ => false end.
Definition req_eqb (schema : nat -> list nat) (ntables : nat) (impl model : list (nat * option (list nat))) : bool :=
  forallb (fun t => match req_of_table model schema t, find (fun r => Nat.eqb (fst r) t) impl with
                    | None, None => true
                    | Some a, Some (_, b) => opt_list_eqb a b
                    | _, _ => false
                    end) (seq 0 ntables).
(* the engine's GatherPlan against the walk as coded ... *)
Definition plan_eqb (schema : nat -> list nat) (ntables : nat) (impl : list (nat * option (list nat))) (p : plan) : bool :=
  req_eqb schema ntables impl (collect_scans schema p).
(* ... and against the repaired walk (the faithful model once .work/fixes/c45-gather-subquery-exprs.diff is in the tree) *)
Definition plan_eqb_fix (schema : nat -> list nat) (ntables : nat) (impl : list (nat * option (list nat))) (p : plan) : bool :=
  req_eqb schema ntables impl (collect_fix schema p).
(* C45's demand on any gather plan for the statement whose optimized plan is p *)
Definition spec_ok (schema : nat -> list nat) (impl : list (nat * option (list nat))) (p : plan) : bool := rebinds schema impl p.
