(* C22: joins. The hash join (build side indexed by key, NULL keys skipped, residual predicate on
   candidate pairs) computes the nested-loop SQL join; the result does not depend on the build side. *)
From QV Require Import Sql.Query Sql.QueryProofs C24.Proofs.

(* ---------- a hash join, abstractly: build = rows with non-NULL keys; probe = key match + residual ---------- *)
Definition key_of (ks : list nat) (r : row) : list value := map (fun i => nth i r VErr) ks.

Definition build (rk : list nat) (R : rel) : rel := filter (fun r => negb (has_null (key_of rk r))) R.

Definition probe (lk rk : list nat) (residual : row -> row -> bool) (B : rel) (l : row) : rel :=
  if has_null (key_of lk l) then []
  else filter (fun r => row_eq_strict (key_of lk l) (key_of rk r) && residual l r) B.

(* the pair predicate of `L JOIN R ON l.k1 = r.k1 AND ... AND residual` *)
Definition on_pred (lk rk : list nat) (residual : row -> row -> bool) (l r : row) : bool :=
  row_eq_strict (key_of lk l) (key_of rk r) && residual l r.

Lemma strict_null_left a : forall b, has_null a = true -> row_eq_strict a b = false.
Proof.
  induction a as [|x a IH]; intros [|y b] H; cbn in *; try discriminate; auto.
  unfold has_null in H. cbn in H. apply orb_true_iff in H as [H|H].
  - destruct x; try discriminate. destruct y; reflexivity.
  - rewrite (IH b H). apply andb_false_r.
Qed.

Lemma strict_null_right a : forall b, has_null b = true -> row_eq_strict a b = false.
Proof.
  induction a as [|x a IH]; intros [|y b] H; cbn in *; try discriminate; auto.
  unfold has_null in H. cbn in H. apply orb_true_iff in H as [H|H].
  - destruct y; try discriminate. destruct x; reflexivity.
  - rewrite (IH b H). apply andb_false_r.
Qed.

Lemma filter_filter_implied {A} (f g : A -> bool) l :
  (forall x, f x = true -> g x = true) -> filter f (filter g l) = filter f l.
Proof.
  intros H. induction l as [|x l IH]; cbn; [reflexivity|].
  destruct (g x) eqn:G; cbn; [now rewrite IH|].
  destruct (f x) eqn:F; [apply H in F; congruence | exact IH].
Qed.

(* the candidates a probe finds are exactly the rows the ON predicate accepts *)
Theorem probe_correct lk rk residual R l :
  probe lk rk residual (build rk R) l = filter (on_pred lk rk residual l) R.
Proof.
  unfold probe, build, on_pred. destruct (has_null (key_of lk l)) eqn:N.
  - symmetry. apply filter_none. intros r _. now rewrite strict_null_left.
  - apply filter_filter_implied. intros r H. apply andb_true_iff in H as [H _].
    destruct (has_null (key_of rk r)) eqn:NR; [|reflexivity].
    rewrite strict_null_right in H by assumption. discriminate.
Qed.

Definition hash_join_inner lk rk residual (L R : rel) : rel :=
  flat_map (fun l => map (fun r => l ++ r) (probe lk rk residual (build rk R) l)) L.

Definition hash_join_left wr lk rk residual (L R : rel) : rel :=
  flat_map (fun l => match probe lk rk residual (build rk R) l with
                     | [] => [l ++ nulls wr]
                     | ms => map (fun r => l ++ r) ms end) L.

Definition hash_join_semi lk rk residual (L R : rel) : rel :=
  filter (fun l => match probe lk rk residual (build rk R) l with [] => false | _ => true end) L.
Definition hash_join_anti lk rk residual (L R : rel) : rel :=
  filter (fun l => match probe lk rk residual (build rk R) l with [] => true | _ => false end) L.

Theorem hash_join_inner_equiv wl wr lk rk residual L R :
  hash_join_inner lk rk residual L R = join_gen JInner wl wr (on_pred lk rk residual) L R.
Proof. unfold hash_join_inner. cbn [join_gen]. apply flat_map_ext_in. intros l _. now rewrite probe_correct. Qed.

Theorem hash_join_left_equiv wl wr lk rk residual L R :
  hash_join_left wr lk rk residual L R = join_gen JLeft wl wr (on_pred lk rk residual) L R.
Proof. unfold hash_join_left. cbn [join_gen]. apply flat_map_ext_in. intros l _. now rewrite probe_correct. Qed.

Lemma existsb_filter_nonempty {A} (f : A -> bool) l : existsb f l = match filter f l with [] => false | _ => true end.
Proof. induction l as [|x l IH]; cbn; [reflexivity|]. destruct (f x); cbn; auto. Qed.

Theorem hash_join_semi_equiv wl wr lk rk residual L R :
  hash_join_semi lk rk residual L R = join_gen JSemi wl wr (on_pred lk rk residual) L R.
Proof.
  unfold hash_join_semi. cbn [join_gen]. apply filter_ext_in. intros l _.
  now rewrite probe_correct, existsb_filter_nonempty.
Qed.
Theorem hash_join_anti_equiv wl wr lk rk residual L R :
  hash_join_anti lk rk residual L R = join_gen JAnti wl wr (on_pred lk rk residual) L R.
Proof.
  unfold hash_join_anti. cbn [join_gen]. apply filter_ext_in. intros l _.
  rewrite probe_correct, existsb_filter_nonempty. now destruct (filter _ R).
Qed.

(* NULL keys never match: a left row with a NULL key joins nothing, and is NULL-extended by LEFT JOIN *)
Theorem null_key_never_matches wl wr lk rk residual l R :
  has_null (key_of lk l) = true ->
  join_gen JInner wl wr (on_pred lk rk residual) [l] R = [] /\
  join_gen JLeft wl wr (on_pred lk rk residual) [l] R = [l ++ nulls wr].
Proof.
  intros H. cbn [join_gen flat_map].
  assert (filter (on_pred lk rk residual l) R = []) as E.
  { apply filter_none. intros r _. unfold on_pred. now rewrite strict_null_left. }
  rewrite E. auto.
Qed.

(* semi and anti join split the left input *)
Theorem semi_anti_partition wl wr ok (L R : rel) :
  Permutation (join_gen JSemi wl wr ok L R ++ join_gen JAnti wl wr ok L R) L.
Proof.
  cbn [join_gen]. induction L as [|l L IH]; cbn [filter]; [reflexivity|].
  destruct (existsb (ok l) R); cbn [negb app].
  - now constructor.
  - rewrite <- Permutation_middle. now constructor.
Qed.

(* ---------- the result is independent of which side is the outer loop / build side ---------- *)
Definition pairs_lr (L R : rel) : list (row * row) := flat_map (fun l => map (fun r => (l, r)) R) L.
Definition pairs_rl (L R : rel) : list (row * row) := flat_map (fun r => map (fun l => (l, r)) L) R.

Lemma pairs_rl_cons_l l L R : Permutation (pairs_rl (l :: L) R) (map (fun r => (l, r)) R ++ pairs_rl L R).
Proof.
  induction R as [|r R IH]; cbn [pairs_rl flat_map map app]; [reflexivity|].
  fold (pairs_rl (l :: L) R) (pairs_rl L R). rewrite IH.
  cbn [app]. constructor. rewrite !app_assoc. apply Permutation_app_tail.
  apply Permutation_app_comm.
Qed.

Lemma pairs_swap L R : Permutation (pairs_lr L R) (pairs_rl L R).
Proof.
  induction L as [|l L IH]; cbn [pairs_lr flat_map].
  - unfold pairs_rl. induction R; cbn; auto.
  - fold (pairs_lr L R). rewrite pairs_rl_cons_l. now apply Permutation_app_head.
Qed.

Lemma row_pairs_l (ok : row -> row -> bool) l (R : rel) :
  map (fun r => l ++ r) (filter (ok l) R)
  = map (fun p : row * row => fst p ++ snd p) (filter (fun p => ok (fst p) (snd p)) (map (fun r => (l, r)) R)).
Proof. induction R as [|r R IHR]; cbn; [reflexivity|]. destruct (ok l r); cbn; now rewrite IHR. Qed.

Lemma row_pairs_r (ok : row -> row -> bool) r (L : rel) :
  map (fun l => l ++ r) (filter (fun l => ok l r) L)
  = map (fun p : row * row => fst p ++ snd p) (filter (fun p => ok (fst p) (snd p)) (map (fun l => (l, r)) L)).
Proof. induction L as [|l L IHL]; cbn; [reflexivity|]. destruct (ok l r); cbn; now rewrite IHL. Qed.

Lemma inner_as_pairs wl wr ok L R :
  join_gen JInner wl wr ok L R = map (fun p => fst p ++ snd p) (filter (fun p => ok (fst p) (snd p)) (pairs_lr L R)).
Proof.
  cbn [join_gen]. unfold pairs_lr. induction L as [|l L IH]; cbn [flat_map]; [reflexivity|].
  rewrite IH, filter_app, map_app. f_equal. apply row_pairs_l.
Qed.

Definition inner_right_major (ok : row -> row -> bool) (L R : rel) : rel :=
  flat_map (fun r => map (fun l => l ++ r) (filter (fun l => ok l r) L)) R.

Lemma right_major_as_pairs ok L R :
  inner_right_major ok L R = map (fun p => fst p ++ snd p) (filter (fun p => ok (fst p) (snd p)) (pairs_rl L R)).
Proof.
  unfold inner_right_major, pairs_rl. induction R as [|r R IH]; cbn [flat_map]; [reflexivity|].
  rewrite IH, filter_app, map_app. f_equal. apply row_pairs_r.
Qed.

Lemma filter_perm {A} (f : A -> bool) l l' : Permutation l l' -> Permutation (filter f l) (filter f l').
Proof.
  induction 1; cbn; auto.
  - destruct (f x); auto.
  - destruct (f x), (f y); auto. apply perm_swap.
  - etransitivity; eauto.
Qed.

(* iterating the right side in the outer loop (building on the left) yields the same multiset of rows *)
Theorem build_side_irrelevant wl wr ok L R :
  Permutation (inner_right_major ok L R) (join_gen JInner wl wr ok L R).
Proof.
  rewrite inner_as_pairs, right_major_as_pairs. apply Permutation_map, filter_perm. symmetry. apply pairs_swap.
Qed.

(* non-vacuity *)
Example hash_join_nontrivial :
  let L := [[VInt 1; VStr [97]]; [VNull; VStr [98]]; [VInt 1; VStr [99]]] in
  let R := [[VInt 1; VInt 10]; [VNull; VInt 20]; [VInt 2; VInt 30]] in
  hash_join_left 2 [0%nat] [0%nat] (fun _ _ => true) L R
  = [[VInt 1; VStr [97]; VInt 1; VInt 10]; [VNull; VStr [98]; VNull; VNull]; [VInt 1; VStr [99]; VInt 1; VInt 10]].
Proof. vm_compute. reflexivity. Qed.
