(* C27 — GROUPING SETS / ROLLUP / CUBE.
   MODEL: src/planner/binder.rs bind_grouping_sets: expansion of ROLLUP / CUBE into the list of grouping sets
   (prefix slices; bit masks from 2^m-1 down to 0, most significant bit = first column), then a UNION ALL of one
   `Project(Aggregate(input, set, aggregates))` branch per set, whose projection pads the grouping columns
   that are absent from the set with typed NULLs and replaces GROUPING(..) by a per-branch integer literal
   (v = (v << 1) | absent).  The desugared plan is expressed as a `query` of Sql/Query.v, so its value under
   the engine semantics is `qeval eng_qsem`.  A DISTINCT in the SELECT list is not looked at on this path.
   SPEC: the standard's expansions (recursive), the concatenation over the sets of `group_rows` with NULL for
   the columns not in the set, GROUPING = sum of 2^(n-1-i) over the absent arguments, DISTINCT applied. *)
From QV Require Export Sql.Query.
Open Scope Z_scope.

Inductive gspec := GRollup (cols : list nat) | GCube (cols : list nat) | GSets (sets : list (list nat)).
Inductive gitem := IGroup (c : nat) | IAgg (f : aggfn) (e : expr) | IGrouping (args : list nat).
Record gsq := mkGS { g_input : query; g_spec : gspec; g_items : list gitem; g_distinct : bool }.

(* ---------- expansions ---------- *)
(* the standard: ROLLUP(a,b,c) = ((a,b,c),(a,b),(a),()); CUBE(a,b) = ((a,b),(a),(b),()) *)
Fixpoint rollup_spec {A} (l : list A) : list (list A) :=
  match l with [] => [[]] | x :: t => map (cons x) (rollup_spec t) ++ [[]] end.
Fixpoint cube_spec {A} (l : list A) : list (list A) :=
  match l with [] => [[]] | x :: t => map (cons x) (cube_spec t) ++ cube_spec t end.

(* the binder: for k in (0..=len).rev() { groups[..k] } *)
Definition eng_rollup {A} (l : list A) : list (list A) :=
  map (fun k => firstn k l) (rev (seq 0 (S (length l)))).
(* for mask in (0..1<<m).rev() { for (bit, g) in groups.enumerate() { if mask & (1 << (m-1-bit)) != 0 {..} } } *)
Fixpoint mask_sel {A} (l : list A) (mask : nat) : list A :=
  match l with
  | [] => []
  | x :: t => if Nat.testbit mask (length t) then x :: mask_sel t mask else mask_sel t mask
  end.
Definition eng_cube {A} (l : list A) : list (list A) :=
  map (mask_sel l) (rev (seq 0 (2 ^ length l))).

Definition spec_sets (g : gspec) : list (list nat) :=
  match g with GRollup l => rollup_spec l | GCube l => cube_spec l | GSets s => s end.
Definition eng_sets (g : gspec) : list (list nat) :=
  match g with GRollup l => eng_rollup l | GCube l => eng_cube l | GSets s => s end.

(* ---------- helpers ---------- *)
Definition memn (c : nat) (s : list nat) : bool := existsb (Nat.eqb c) s.
Fixpoint index_of (c : nat) (s : list nat) : nat :=
  match s with [] => 0%nat | x :: t => if (c =? x)%nat then 0%nat else S (index_of c t) end.
Fixpoint dedup_nat (l : list nat) : list nat :=
  match l with [] => [] | x :: t => x :: filter (fun y => negb (x =? y)%nat) (dedup_nat t) end.
Definition union_cols (sets : list (list nat)) : list nat := dedup_nat (concat sets).

Definition aggs_of (items : list gitem) : list (aggfn * expr) :=
  flat_map (fun it => match it with IAgg f e => [(f, e)] | _ => [] end) items.

(* GROUPING(args) of a set: the binder's shift loop, and the standard's positional weights *)
Definition grouping_eng (s : list nat) (args : list nat) : Z :=
  fold_left (fun v a => 2 * v + (if memn a s then 0 else 1)) args 0.
Fixpoint grouping_spec (s : list nat) (args : list nat) : Z :=
  match args with
  | [] => 0
  | a :: t => (if memn a s then 0 else 2 ^ Z.of_nat (length t)) + grouping_spec s t
  end.

(* items are checked at bind time: a plain column must be a grouping column of some set, GROUPING arguments too *)
Definition items_ok (sets : list (list nat)) (items : list gitem) : bool :=
  let u := union_cols sets in
  forallb (fun it => match it with
                     | IGroup c => memn c u
                     | IAgg _ _ => true
                     | IGrouping args => forallb (fun a => memn a u) args
                     end) items.

(* ---------- the engine's desugaring, as a query ---------- *)
(* projection of one branch over the Aggregate's output (set columns, then the aggregates in SELECT order) *)
Fixpoint branch_proj (s : list nat) (items : list gitem) (nagg : nat) : list expr :=
  match items with
  | [] => []
  | IGroup c :: t => (if memn c s then ECol (index_of c s) else ELit VNull) :: branch_proj s t nagg
  | IAgg _ _ :: t => ECol (length s + nagg) :: branch_proj s t (S nagg)
  | IGrouping args :: t => ELit (VInt (grouping_eng s args)) :: branch_proj s t nagg
  end.
Definition branch (input : query) (items : list gitem) (s : list nat) : query :=
  QProject (QAgg input (map ECol s) (aggs_of items)) (branch_proj s items 0).
Definition union_all (qs : list query) : option query :=
  match qs with [] => None | q :: t => Some (fold_left (fun acc b => QSetOp SUnion true acc b) t q) end.
(* the UNION ALL plan; this was the whole desugaring before the `fix:` commit recorded in known_findings.txt — a DISTINCT
   in the SELECT list was not looked at on this path *)
Definition desugar_before_distinct_fix (g : gsq) : option query :=
  let sets := eng_sets (g_spec g) in
  if items_ok sets (g_items g) then union_all (map (branch (g_input g) (g_items g)) sets) else None.
(* now: SELECT DISTINCT wraps the union in a Distinct node *)
Definition desugar (g : gsq) : option query :=
  match desugar_before_distinct_fix g with
  | Some q => Some (if g_distinct g then QDistinct q else q)
  | None => None
  end.
Definition gs_model (db : list rel) (g : gsq) : option rel :=
  match desugar g with Some q => Some (qeval eng_qsem db q) | None => None end.
Definition gs_model_before_distinct_fix (db : list rel) (g : gsq) : option rel :=
  match desugar_before_distinct_fix g with Some q => Some (qeval eng_qsem db q) | None => None end.

(* ---------- the SQL definition ---------- *)
Fixpoint item_values (s : list nat) (items : list gitem) (nagg : nat) (grp : row) : row :=
  match items with
  | [] => []
  | IGroup c :: t => (if memn c s then nth (index_of c s) grp VErr else VNull) :: item_values s t nagg grp
  | IAgg _ _ :: t => nth (length s + nagg) grp VErr :: item_values s t (S nagg) grp
  | IGrouping args :: t => VInt (grouping_spec s args) :: item_values s t nagg grp
  end.
Definition set_rows (Q : qsem) (items : list gitem) (rows : rel) (s : list nat) : rel :=
  map (item_values s items 0) (group_rows Q (map ECol s) (aggs_of items) rows).
Definition union_rows (Q : qsem) (db : list rel) (g : gsq) (sets : list (list nat)) : rel :=
  concat (map (set_rows Q (g_items g) (qeval Q db (g_input g))) sets).
Definition gs_spec_with (Q : qsem) (db : list rel) (g : gsq) : option rel :=
  let sets := spec_sets (g_spec g) in
  match sets with
  | [] => None
  | _ => if items_ok sets (g_items g)
         then Some (if g_distinct g then distinct (union_rows Q db g sets) else union_rows Q db g sets)
         else None
  end.
Definition gs_spec := gs_spec_with sql_qsem.

(* ---------- formerly recorded deviation class (closed by the repair; kept for the regression theorem) ---------- *)
(* SELECT DISTINCT over grouping sets whose union holds duplicate rows: the DISTINCT was dropped *)
Definition known_distinct_dropped (db : list rel) (g : gsq) : bool :=
  g_distinct g && has_dups (union_rows sql_qsem db g (spec_sets (g_spec g))).

(* ---------- what the check evaluates ---------- *)
Definition enc (v : value) : list Z :=
  match v with
  | VNull => [0] | VInt z => [1; z] | VDbl q => [2; Qnum (Qred q); Zpos (Qden (Qred q))]
  | VStr s => 3 :: s | VBool b => [4; if b then 1 else 0] | VDate d => [5; d] | VErr => [9]
  end.
Definition encrel (r : option rel) : list (list (list Z)) :=
  match r with Some x => map (map enc) x | None => [[[99]]] end.
Definition gscheck (db : list rel) (g : gsq) :=
  (encrel (gs_model db g), encrel (gs_spec db g),
   [if match desugar g with Some q => known_q db q | None => false end then 1 else 0]).
