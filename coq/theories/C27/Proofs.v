(* C27 — proofs.
   1. the binder's ROLLUP / CUBE expansions are the standard's, for every column list (sizes, contents);
   2. GROUPING: the shift loop is the positional bitmask; bit (n-1-i) is set iff argument i is absent from the set;
   3. the desugared plan (UNION ALL of Project(Aggregate)) evaluates to the concatenation over the sets of
      group_rows with NULL padding, under any semantics whose UNION ALL is concatenation; with
      `eng_query_agrees` the engine's answer is the SQL definition outside the recorded classes;
   4. padding is indistinguishable from NULL data except through GROUPING (witness); SELECT DISTINCT (repaired:
      regression witness of the dropped DISTINCT, conservativity of the repair). *)
From QV Require Import C27.Model Sql.QueryProofs.
Open Scope nat_scope.

(* ---------- 1. expansions ---------- *)
Lemma seq_S_map n : seq 0 (S n) = 0 :: map S (seq 0 n).
Proof. cbn [seq]. now rewrite seq_shift. Qed.

Theorem rollup_correct {A} (l : list A) : eng_rollup l = rollup_spec l.
Proof.
  induction l as [|x t IH]; [reflexivity|].
  unfold eng_rollup in *. cbn [length rollup_spec]. rewrite <- IH.
  rewrite (seq_S_map (S (length t))). cbn [rev]. rewrite map_app. cbn [map firstn].
  f_equal. rewrite <- map_rev, !map_map. apply map_ext. intros k. reflexivity.
Qed.

Theorem rollup_length {A} (l : list A) : length (rollup_spec l) = S (length l).
Proof. induction l as [|x t IH]; [reflexivity|]. cbn [rollup_spec length]. rewrite app_length, map_length, IH. cbn. lia. Qed.

(* the k-th set of ROLLUP (counting from the end) is the prefix of length k *)
Theorem rollup_prefixes {A} (l : list A) : rollup_spec l = map (fun k => firstn k l) (rev (seq 0 (S (length l)))).
Proof. symmetry. apply rollup_correct. Qed.

Theorem cube_length {A} (l : list A) : length (cube_spec l) = 2 ^ length l.
Proof.
  induction l as [|x t IH]; [reflexivity|].
  cbn [cube_spec length]. rewrite app_length, map_length, IH. cbn [Nat.pow]. lia.
Qed.

Inductive sublist {A} : list A -> list A -> Prop :=
| sub_nil : sublist [] []
| sub_take x s l : sublist s l -> sublist (x :: s) (x :: l)
| sub_skip x s l : sublist s l -> sublist s (x :: l).

(* CUBE lists exactly the sublists (subsets in column order) *)
Theorem cube_sublists {A} (l s : list A) : In s (cube_spec l) <-> sublist s l.
Proof.
  revert s. induction l as [|x t IH]; intros s.
  - cbn. split; [intros [<-|[]]; constructor | intros H; inversion H; now left].
  - cbn [cube_spec]. rewrite in_app_iff, in_map_iff. split.
    + intros [[s' [<- H]]|H]; [apply sub_take|apply sub_skip]; now apply IH.
    + intros H. inversion H; subst.
      * left. eexists; split; [reflexivity|]. now apply IH.
      * right. now apply IH.
Qed.

Lemma seq_add_map a b : seq a b = map (fun j => a + j) (seq 0 b).
Proof.
  revert a. induction b as [|b IH]; intros a; [reflexivity|].
  cbn [seq map]. rewrite Nat.add_0_r. f_equal. rewrite (IH (S a)), <- seq_shift, map_map.
  apply map_ext. intros j. lia.
Qed.

Lemma testbit_high m j : j < 2 ^ m -> Nat.testbit (2 ^ m + j) m = true /\ Nat.testbit j m = false.
Proof.
  intros H. split.
  - apply Nat.testbit_true. replace (2 ^ m + j) with (1 * 2 ^ m + j) by lia.
    rewrite Nat.div_add_l by (apply Nat.pow_nonzero; lia). now rewrite Nat.div_small by exact H.
  - apply Nat.testbit_false. now rewrite Nat.div_small by exact H.
Qed.

Lemma testbit_low m j p : p < m -> Nat.testbit (2 ^ m + j) p = Nat.testbit j p.
Proof.
  intros H. apply Bool.eq_true_iff_eq. rewrite !Nat.testbit_true.
  replace (2 ^ m) with (2 ^ (m - p) * 2 ^ p) by (rewrite <- Nat.pow_add_r; f_equal; lia).
  rewrite Nat.div_add_l by (apply Nat.pow_nonzero; lia).
  replace (2 ^ (m - p)) with (2 ^ (m - p - 1) * 2) by (rewrite <- (Nat.pow_1_r 2) at 2; rewrite <- Nat.pow_add_r; f_equal; lia).
  rewrite Nat.add_comm, Nat.mod_add by lia. reflexivity.
Qed.

Lemma mask_sel_low {A} (t : list A) m j : length t <= m -> mask_sel t (2 ^ m + j) = mask_sel t j.
Proof.
  induction t as [|x t IH]; intros H; [reflexivity|].
  cbn [mask_sel length] in *. rewrite testbit_low by lia. rewrite IH by lia. reflexivity.
Qed.

Theorem cube_correct {A} (l : list A) : eng_cube l = cube_spec l.
Proof.
  induction l as [|x t IH]; [reflexivity|].
  unfold eng_cube in *. cbn [length cube_spec]. rewrite <- IH. set (m := length t).
  replace (2 ^ S m) with (2 ^ m + 2 ^ m) by (cbn [Nat.pow]; lia).
  rewrite seq_app, rev_app_distr, map_app. cbn [Nat.add]. f_equal.
  - rewrite (seq_add_map (2 ^ m) (2 ^ m)), <- !map_rev, !map_map.
    apply map_ext_in. intros j Hj. apply in_rev, in_seq in Hj.
    cbn [mask_sel]. fold m. rewrite (proj1 (testbit_high m j ltac:(lia))).
    now rewrite mask_sel_low by (unfold m; lia).
  - apply map_ext_in. intros j Hj. apply in_rev, in_seq in Hj.
    cbn [mask_sel]. fold m. now rewrite (proj2 (testbit_high m j ltac:(lia))).
Qed.

Theorem sets_correct g : eng_sets g = spec_sets g.
Proof. destruct g; cbn; [apply rollup_correct|apply cube_correct|reflexivity]. Qed.

(* ---------- 2. GROUPING ---------- *)
Open Scope Z_scope.

Lemma grouping_spec_bound s args : 0 <= grouping_spec s args < 2 ^ Z.of_nat (length args).
Proof.
  induction args as [|a t IH]; [cbn; lia|].
  cbn [grouping_spec length]. rewrite Nat2Z.inj_succ, Z.pow_succ_r by lia.
  destruct (memn a s); lia.
Qed.

Lemma grouping_fold s args v :
  fold_left (fun v a => 2 * v + (if memn a s then 0 else 1)) args v = v * 2 ^ Z.of_nat (length args) + grouping_spec s args.
Proof.
  revert v. induction args as [|a t IH]; intros v; [cbn; lia|].
  cbn [fold_left grouping_spec length]. rewrite IH, Nat2Z.inj_succ, Z.pow_succ_r by lia.
  destruct (memn a s); lia.
Qed.

(* the binder's literal is the standard's bitmask *)
Theorem grouping_correct s args : grouping_eng s args = grouping_spec s args.
Proof. unfold grouping_eng. rewrite grouping_fold. lia. Qed.

(* bit (n-1-i), counting from the least significant, is set iff the i-th argument is not in the set *)
Theorem grouping_bit s args i : (i < length args)%nat ->
  Z.testbit (grouping_spec s args) (Z.of_nat (length args - 1 - i)) = negb (memn (nth i args 0%nat) s).
Proof.
  revert i. induction args as [|a t IH]; intros i Hi; [cbn in Hi; lia|].
  pose proof (grouping_spec_bound s t) as B.
  cbn [grouping_spec length] in *. set (m := Z.of_nat (length t)) in *.
  destruct i as [|i].
  - replace (S (length t) - 1 - 0)%nat with (length t) by lia. fold m. cbn [nth].
    rewrite Z.testbit_odd, Z.shiftr_div_pow2 by lia.
    destruct (memn a s); cbn [negb].
    + rewrite Z.add_0_l, Z.div_small by lia. reflexivity.
    + replace (2 ^ m + grouping_spec s t) with (1 * 2 ^ m + grouping_spec s t) by lia.
      rewrite Z.div_add_l by lia. rewrite Z.div_small by lia. reflexivity.
  - cbn [nth]. replace (S (length t) - 1 - S i)%nat with (length t - 1 - i)%nat by lia.
    rewrite <- IH by lia. set (p := Z.of_nat (length t - 1 - i)).
    assert (0 <= p < m) as Hp by (unfold p, m; lia).
    destruct (memn a s); [now rewrite Z.add_0_l|].
    rewrite !Z.testbit_odd, !Z.shiftr_div_pow2 by lia.
    replace (2 ^ m) with (2 ^ (m - p) * 2 ^ p) by (rewrite <- Z.pow_add_r by lia; f_equal; lia).
    rewrite Z.div_add_l by lia.
    replace (2 ^ (m - p)) with (2 * 2 ^ (m - p - 1)) by (rewrite <- Z.pow_succ_r by lia; f_equal; lia).
    rewrite Z.add_comm, Z.odd_add_mul_2. reflexivity.
Qed.

(* ---------- 3. the desugaring ---------- *)
Section Desugar.
  Variable Q : qsem.
  Variable db : list rel.
  Hypothesis union_all_is_app : forall L R, q_setop Q SUnion true L R = L ++ R.

  Lemma branch_proj_values s items k (grp : row) :
    map (eval (q_esem Q) grp) (branch_proj s items k) = item_values s items k grp.
  Proof.
    revert k. induction items as [|it t IH]; intros k; [reflexivity|].
    destruct it as [c|f e|args]; cbn [branch_proj item_values map].
    - rewrite IH. destruct (memn c s); reflexivity.
    - rewrite IH. reflexivity.
    - rewrite IH, grouping_correct. reflexivity.
  Qed.

  Lemma branch_eval input items s :
    qeval Q db (branch input items s) = set_rows Q items (qeval Q db input) s.
  Proof.
    unfold branch, set_rows. cbn [qeval]. apply map_ext. intros grp. apply branch_proj_values.
  Qed.

  Lemma union_fold qs q0 :
    qeval Q db (fold_left (fun acc b => QSetOp SUnion true acc b) qs q0) = qeval Q db q0 ++ concat (map (qeval Q db) qs).
  Proof.
    revert q0. induction qs as [|q t IH]; intros q0; [cbn; now rewrite app_nil_r|].
    cbn [fold_left map concat]. rewrite IH. cbn [qeval]. rewrite union_all_is_app, app_assoc. reflexivity.
  Qed.

  (* the desugared plan = the concatenation over the standard's sets of the per-set aggregate with NULL padding *)
  Theorem desugar_is_union g q : desugar_before_distinct_fix g = Some q ->
    qeval Q db q = union_rows Q db g (spec_sets (g_spec g)).
  Proof.
    unfold desugar_before_distinct_fix. rewrite sets_correct. destruct (items_ok _ _); [|discriminate].
    unfold union_all, union_rows. destruct (spec_sets (g_spec g)) as [|s0 ss]; [discriminate|].
    cbn [map]. intros [= <-]. rewrite union_fold. cbn [concat]. rewrite branch_eval. f_equal.
    rewrite map_map. f_equal. apply map_ext. intros s. apply branch_eval.
  Qed.
End Desugar.

Lemma filter_keeps_all (x : row) (t : rel) :
  existsb (row_same x) t = false -> filter (fun y => negb (row_same x y)) t = t.
Proof.
  induction t as [|y t' IHt]; intros H; [reflexivity|].
  cbn [existsb] in H. apply orb_false_iff in H as [E1 E2]. cbn [filter]. rewrite E1. cbn [negb]. f_equal. now apply IHt.
Qed.
Lemma distinct_nodup (l : rel) : has_dups l = false -> distinct l = l.
Proof.
  unfold distinct. induction l as [|x t IH]; intros H; [reflexivity|].
  cbn [has_dups] in H. apply orb_false_iff in H as [H1 H2]. cbn [distinct_by]. rewrite (IH H2). f_equal.
  now apply filter_keeps_all.
Qed.

(* the engine's answer is the SQL definition: for every grouping-set list, select list (DISTINCT or not) and database
   outside the recorded class of C02 (dominated-NULL expressions inside the input / aggregate arguments) *)
Theorem gs_engine_agrees db g q : desugar g = Some q -> known_q db q = false -> gs_model db g = gs_spec db g.
Proof.
  intros D K. unfold gs_model, gs_spec, gs_spec_with. rewrite D.
  rewrite (eng_query_agrees db q K).
  unfold desugar in D. destruct (desugar_before_distinct_fix g) as [u|] eqn:DU; [|discriminate]. injection D as <-.
  pose proof (desugar_is_union sql_qsem db (fun L R => eq_refl) g u DU) as U.
  unfold desugar_before_distinct_fix in DU. rewrite sets_correct in DU.
  destruct (spec_sets (g_spec g)) as [|s0 ss] eqn:E; [destruct (items_ok _ _); discriminate|].
  destruct (items_ok (s0 :: ss) (g_items g)); [|discriminate].
  f_equal. destruct (g_distinct g); cbn [qeval]; now rewrite U.
Qed.

(* both sides refuse the same statements *)
Theorem gs_errors_agree db g : desugar g = None -> gs_model db g = None /\ gs_spec db g = None.
Proof.
  intros D. unfold gs_model, gs_spec, gs_spec_with. rewrite D. split; [reflexivity|].
  unfold desugar in D. destruct (desugar_before_distinct_fix g) as [u|] eqn:DU; [discriminate|].
  unfold desugar_before_distinct_fix in DU. rewrite sets_correct in DU.
  destruct (spec_sets (g_spec g)) as [|s0 ss]; [reflexivity|].
  destruct (items_ok (s0 :: ss) (g_items g)); [|reflexivity]. cbn in DU. discriminate.
Qed.

(* the repair changes nothing without DISTINCT, and nothing when the union has no duplicate row *)
Theorem distinct_fix_conservative db g : known_distinct_dropped db g = false ->
  (match desugar g with Some q => known_q db q | None => false end) = false ->
  gs_model_before_distinct_fix db g = gs_model db g.
Proof.
  intros KD K. unfold gs_model_before_distinct_fix, gs_model, desugar in *.
  destruct (desugar_before_distinct_fix g) as [u|] eqn:DU; [|reflexivity]. f_equal.
  destruct (g_distinct g) eqn:GD; [|reflexivity]. cbn [qeval known_q known_with] in *.
  change (known_with (fun _ => true) db u = false) in K.
  pose proof (eng_query_agrees db u K) as EU. rewrite EU.
  rewrite (desugar_is_union sql_qsem db (fun L R => eq_refl) g u DU).
  unfold known_distinct_dropped in KD. rewrite GD in KD. cbn [andb] in KD. now rewrite distinct_nodup.
Qed.

(* ---------- 4. padding, GROUPING, DISTINCT ---------- *)
(* a grouping column that is not in the set comes out NULL in every row of that set *)
Theorem absent_column_is_null s items k grp j c :
  nth_error items j = Some (IGroup c) -> memn c s = false -> nth j (item_values s items k grp) VErr = VNull.
Proof.
  revert k j. induction items as [|it t IH]; intros k j Hj Hc; [destruct j; discriminate|].
  destruct j as [|j].
  - cbn in Hj. injection Hj as ->. cbn [item_values nth]. now rewrite Hc.
  - cbn [nth_error] in Hj. destruct it; cbn [item_values nth]; eapply IH; eauto.
Qed.

(* t(c0) = {NULL}: ROLLUP(c0) with SELECT c0, GROUPING(c0), COUNT star gives (NULL,0,1) for the NULL group and (NULL,1,1) for
   the grand total: the grouping column cannot tell them apart, GROUPING does *)
Definition g_null_witness : gsq := mkGS (QTable 0 1) (GRollup [0%nat]) [IGroup 0; IGrouping [0%nat]; IAgg ACountStar (ECol 0)] false.
Theorem null_data_vs_padding :
  gs_spec [[[VNull]]] g_null_witness = Some [[VNull; VInt 0; VInt 1]; [VNull; VInt 1; VInt 1]]
  /\ gs_model [[[VNull]]] g_null_witness = gs_spec [[[VNull]]] g_null_witness.
Proof. split; reflexivity. Qed.

(* SELECT DISTINCT c0 FROM t GROUP BY GROUPING SETS ((c0),(c0)) over t = {1}: one row by definition; the engine used to
   return two (regression witness) and now returns the one *)
Definition g_distinct_witness : gsq := mkGS (QTable 0 1) (GSets [[0%nat]; [0%nat]]) [IGroup 0] true.
Theorem distinct_dropped_before_fix :
  known_distinct_dropped [[[VInt 1]]] g_distinct_witness = true
  /\ gs_spec [[[VInt 1]]] g_distinct_witness = Some [[VInt 1]]
  /\ gs_model_before_distinct_fix [[[VInt 1]]] g_distinct_witness = Some [[VInt 1]; [VInt 1]]
  /\ gs_model [[[VInt 1]]] g_distinct_witness = Some [[VInt 1]].
Proof. repeat split; reflexivity. Qed.

(* the hypotheses of gs_engine_agrees are satisfiable on a non-trivial instance *)
Definition g_example : gsq :=
  mkGS (QTable 0 3) (GCube [0%nat; 1%nat]) [IGroup 1; IGroup 0; IAgg ASum (ECol 2); IGrouping [0%nat; 1%nat]] false.
Definition db_example : list rel := [[[VInt 1; VNull; VInt 10]; [VInt 1; VStr [97]; VInt 5]; [VNull; VNull; VInt 7]; [VInt (-1); VStr [97]; VNull]]].
Example gs_example :
  exists q, desugar g_example = Some q /\ known_q db_example q = false
  /\ option_map (@length row) (gs_spec db_example g_example) = Some 10%nat.
Proof. eexists. repeat split; vm_compute; reflexivity. Qed.
