(* C15 model: distributed::membership::Membership, transcribed.
   anchors: src/distributed/membership.rs: Membership::{new, set_members, record_resolve_error,
   set_self_flight, record_up, record_down, members, peer_addresses, generation, resolved,
   last_resolve_error}, PeerRecord::new.
   Addresses / error texts / flight addresses are byte strings (list Z) ordered like Rust `String`
   (bytes_cmp). Timestamps are dropped except for `last_seen_unix_ms.is_some()`.
   `is_self` (= is_self_address(_, self_address): getaddrinfo + getifaddrs) is a Section variable. *)
From QV Require Export Base.Util.

Definition bytes := list Z.
Definition bytes_eqb (a b : bytes) : bool := match bytes_cmp a b with Eq => true | _ => false end.
Definition bytes_ltb (a b : bytes) : bool := match bytes_cmp a b with Lt => true | _ => false end.
Definition bytes_leb (a b : bytes) : bool := match bytes_cmp a b with Gt => false | _ => true end.

Definition opt_eqb {A} (e : A -> A -> bool) (x y : option A) : bool :=
  match x, y with
  | None, None => true
  | Some a, Some b => e a b
  | _, _ => false
  end.

Definition is_nil {A} (l : list A) : bool := match l with [] => true | _ => false end.

(* enum PeerStatus *)
Inductive status := Unknown | Up | Down.
Definition status_eqb (a b : status) : bool :=
  match a, b with
  | Unknown, Unknown | Up, Up | Down, Down => true
  | _, _ => false
  end.

(* struct PeerRecord (last_seen_unix_ms reduced to is_some()) *)
Record prec := mkRec {
  r_node_id : option Z;          (* Option<u64> *)
  r_flight : option bytes;       (* Option<String> *)
  r_status : status;
  r_seen : bool;                 (* last_seen_unix_ms.is_some() *)
  r_last_error : option bytes;   (* Option<String> *)
  r_fails : Z                    (* consecutive_failures: u32 *)
}.
(* PeerRecord::new() *)
Definition new_rec : prec := mkRec None None Unknown false None 0.

(* BTreeMap<String, PeerRecord> as an association list kept in ascending key order *)
Definition pmap := list (bytes * prec).
Definition keys (m : pmap) : list bytes := map fst m.

(* BTreeMap::insert (replaces the value of an existing key) *)
Fixpoint bt_insert (k : bytes) (v : prec) (m : pmap) : pmap :=
  match m with
  | [] => [(k, v)]
  | (k', v') :: t =>
      match bytes_cmp k k' with
      | Lt => (k, v) :: (k', v') :: t
      | Eq => (k, v) :: t
      | Gt => (k', v') :: bt_insert k v t
      end
  end.
(* BTreeMap::remove *)
Fixpoint bt_remove (k : bytes) (m : pmap) : pmap :=
  match m with
  | [] => []
  | (k', v') :: t => if bytes_eqb k k' then t else (k', v') :: bt_remove k t
  end.
(* BTreeMap::get *)
Fixpoint bt_get (k : bytes) (m : pmap) : option prec :=
  match m with
  | [] => None
  | (k', v') :: t => if bytes_eqb k k' then Some v' else bt_get k t
  end.
(* if let Some(p) = peers.get_mut(k) then p is replaced by f p *)
Fixpoint bt_update (k : bytes) (f : prec -> prec) (m : pmap) : pmap :=
  match m with
  | [] => []
  | (k', v') :: t => if bytes_eqb k k' then (k', f v') :: t else (k', v') :: bt_update k f t
  end.

(* HashSet<String>: a duplicate-free list; iteration order is irrelevant for what follows
   (every use is a membership test or a sequence of inserts/removes of distinct keys) *)
Definition mem (a : bytes) (l : list bytes) : bool := existsb (bytes_eqb a) l.
Fixpoint dedup (l : list bytes) : list bytes :=
  match l with
  | [] => []
  | a :: t => if mem a t then dedup t else a :: dedup t
  end.

(* struct State + Membership.self_flight (last_resolved_unix_ms dropped) *)
Record state := mkState {
  peers : pmap;
  resolved : bool;
  generation : Z;                       (* u64 *)
  last_resolve_error : option bytes;
  self_flight : option bytes
}.
(* Membership::new *)
Definition init : state := mkState [] false 0 None None.

(* `state.generation += 1` on u64: wraps in release builds (panics with overflow checks) *)
Definition bump (g : Z) : Z := (g + 1) mod 2 ^ 64.
(* u32::saturating_add(1) *)
Definition sat_inc32 (c : Z) : Z := Z.min (c + 1) (2 ^ 32 - 1).

Inductive op :=
| SetMembers (addresses : list bytes)                              (* set_members(discovery result) *)
| ResolveError (err : bytes)                                       (* record_resolve_error *)
| RecordUp (address : bytes) (node_id : option Z) (flight : option bytes)   (* record_up *)
| RecordDown (address : bytes) (err : bytes)                       (* record_down *)
| SetSelfFlight (flight : option bytes).                           (* set_self_flight *)

(* One member of the cluster as rendered by members() *)
Record member := mkMember {
  m_addr : bytes;
  m_node_id : option Z;
  m_flight : option bytes;
  m_is_self : bool;
  m_status : status;
  m_seen : bool;
  m_last_error : option bytes;
  m_fails : Z
}.

(* what the public getters return: members(), peer_addresses(), generation(), resolved(),
   last_resolve_error() *)
Record observable := mkView {
  v_members : list member;
  v_peer_addrs : list bytes;
  v_generation : Z;
  v_resolved : bool;
  v_last_resolve_error : option bytes
}.

Definition addr_leb (a b : member) : bool := bytes_leb (m_addr a) (m_addr b).

Definition up_rec (node_id : option Z) (flight : option bytes) (p : prec) : prec :=
  mkRec (match node_id with Some _ => node_id | None => r_node_id p end)
        (match flight with Some _ => flight | None => r_flight p end)
        Up true None 0.
Definition down_rec (err : bytes) (p : prec) : prec :=
  mkRec (r_node_id p) (r_flight p) Down (r_seen p) (Some err) (sat_inc32 (r_fails p)).

Definition peer_member (kv : bytes * prec) : member :=
  let p := snd kv in
  mkMember (fst kv) (r_node_id p) (r_flight p) false (r_status p) (r_seen p) (r_last_error p) (r_fails p).

Section Membership.
  Variable self_addr : bytes.          (* Membership.self_address *)
  Variable self_id : Z.                (* Membership.self_id *)
  Variable is_self : bytes -> bool.    (* |a| is_self_address(a, &self.self_address) *)

  Definition set_members (s : state) (addresses : list bytes) : state :=
    let incoming := dedup (filter (fun a => negb (is_self a)) addresses) in
    let existing := keys (peers s) in
    let gone := filter (fun k => negb (mem k incoming)) existing in      (* existing.difference(&incoming) *)
    let added := filter (fun a => negb (mem a existing)) incoming in     (* incoming.difference(&existing) *)
    let p1 := fold_left (fun m k => bt_remove k m) gone (peers s) in
    let p2 := fold_left (fun m a => bt_insert a new_rec m) added p1 in
    let changed := negb (is_nil gone && is_nil added) in                 (* !changes.is_empty() *)
    mkState p2 true (if changed then bump (generation s) else generation s) None (self_flight s).

  Definition record_resolve_error (s : state) (err : bytes) : state :=
    mkState (peers s) (resolved s) (generation s) (Some err) (self_flight s).

  Definition set_self_flight (s : state) (fl : option bytes) : state :=
    mkState (peers s) (resolved s) (generation s) (last_resolve_error s) fl.

  Definition record_up (s : state) (a : bytes) (node_id : option Z) (fl : option bytes) : state :=
    match bt_get a (peers s) with
    | None => s
    | Some p =>
        let was_down := negb (status_eqb (r_status p) Up) in
        mkState (bt_update a (up_rec node_id fl) (peers s)) (resolved s)
                (if was_down then bump (generation s) else generation s)
                (last_resolve_error s) (self_flight s)
    end.

  Definition record_down (s : state) (a : bytes) (err : bytes) : state :=
    match bt_get a (peers s) with
    | None => s
    | Some p =>
        let was_up := status_eqb (r_status p) Up in
        mkState (bt_update a (down_rec err) (peers s)) (resolved s)
                (if was_up then bump (generation s) else generation s)
                (last_resolve_error s) (self_flight s)
    end.

  Definition step (s : state) (o : op) : state :=
    match o with
    | SetMembers l => set_members s l
    | ResolveError e => record_resolve_error s e
    | RecordUp a id fl => record_up s a id fl
    | RecordDown a e => record_down s a e
    | SetSelfFlight fl => set_self_flight s fl
    end.

  Definition run (s : state) (ops : list op) : state := fold_left step ops s.

  Definition self_member (s : state) : member :=
    mkMember self_addr (Some self_id) (self_flight s) true Up true None 0.

  (* members(): peers in map order, push self, stable sort_by address *)
  Definition members (s : state) : list member :=
    isort addr_leb (map peer_member (peers s) ++ [self_member s]).

  Definition view (s : state) : observable :=
    mkView (members s) (keys (peers s)) (generation s) (resolved s) (last_resolve_error s).

  (* observable views: before any operation, then after every operation *)
  Fixpoint scan (s : state) (ops : list op) : list observable :=
    match ops with
    | [] => []
    | o :: r => let s' := step s o in view s' :: scan s' r
    end.
  Definition trace (ops : list op) : list observable := view init :: scan init ops.

  (* ---------------------------------------------------------------- *)
  (* Executable specification: what C15 demands of ANY implementation's sequence of views. *)

  (* strictly ascending = sorted and unique *)
  Fixpoint sorted_b (l : list bytes) : bool :=
    match l with
    | [] => true
    | a :: t => match t with
                | [] => true
                | b :: _ => bytes_ltb a b && sorted_b t
                end
    end.

  Definition member_eqb (a b : member) : bool :=
    bytes_eqb (m_addr a) (m_addr b) && opt_eqb Z.eqb (m_node_id a) (m_node_id b)
    && opt_eqb bytes_eqb (m_flight a) (m_flight b) && Bool.eqb (m_is_self a) (m_is_self b)
    && status_eqb (m_status a) (m_status b) && Bool.eqb (m_seen a) (m_seen b)
    && opt_eqb bytes_eqb (m_last_error a) (m_last_error b) && (m_fails a =? m_fails b).

  Definition view_eqb (a b : observable) : bool :=
    list_eqb member_eqb (v_members a) (v_members b)
    && list_eqb bytes_eqb (v_peer_addrs a) (v_peer_addrs b)
    && (v_generation a =? v_generation b)
    && Bool.eqb (v_resolved a) (v_resolved b)
    && opt_eqb bytes_eqb (v_last_resolve_error a) (v_last_resolve_error b).

  Definition trace_eqb (a b : list observable) : bool := list_eqb view_eqb a b.

  Definition member_addrs (v : observable) : list bytes := map m_addr (v_members v).

  (* a single view: this node exactly once (flagged, under its own address, and under no other
     spelling), never as a peer; addresses sorted and unique; the two getters agree *)
  Definition view_ok (v : observable) : bool :=
    sorted_b (member_addrs v)
    && Nat.eqb (length (filter m_is_self (v_members v))) 1
    && forallb (fun m => if m_is_self m then bytes_eqb (m_addr m) self_addr
                         else negb (is_self (m_addr m))) (v_members v)
    && Nat.eqb (length (filter (fun m => is_self (m_addr m)) (v_members v))) 1
    && sorted_b (v_peer_addrs v)
    && forallb (fun a => negb (is_self a)) (v_peer_addrs v)
    && forallb (fun a => existsb (fun m => negb (m_is_self m) && bytes_eqb (m_addr m) a) (v_members v))
               (v_peer_addrs v)
    && forallb (fun m => m_is_self m || mem (m_addr m) (v_peer_addrs v)) (v_members v).

  (* the discovery result `l` denotes exactly the current peer set *)
  Definition same_set (l : list bytes) (peer_addrs : list bytes) : bool :=
    forallb (fun a => is_self a || mem a peer_addrs) l && forallb (fun a => mem a l) peer_addrs.

  (* one transition: generation never decreases, advances when the member set changes; a resolve
     error changes no member; re-resolving the same set keeps every member record and the generation *)
  Definition step_ok (prev : observable) (o : op) (next : observable) : bool :=
    (v_generation prev <=? v_generation next)
    && (list_eqb bytes_eqb (member_addrs prev) (member_addrs next) || (v_generation prev <? v_generation next))
    && match o with
       | ResolveError _ =>
           list_eqb member_eqb (v_members prev) (v_members next)
           && list_eqb bytes_eqb (v_peer_addrs prev) (v_peer_addrs next)
           && (v_generation prev =? v_generation next)
       | SetMembers l =>
           if same_set l (v_peer_addrs prev)
           then list_eqb member_eqb (v_members prev) (v_members next)
                && (v_generation prev =? v_generation next)
           else true
       | _ => true
       end.

  Fixpoint spec_go (prev : observable) (ops : list op) (vs : list observable) : bool :=
    match ops, vs with
    | [], [] => true
    | o :: ops', v :: vs' => view_ok v && step_ok prev o v && spec_go v ops' vs'
    | _, _ => false
    end.

  (* tr = view before any operation :: view after each operation *)
  Definition spec_ok (ops : list op) (tr : list observable) : bool :=
    match tr with
    | [] => false
    | v0 :: rest => view_ok v0 && spec_go v0 ops rest
    end.
End Membership.
