From QV Require Import Base.Util C15.Model.
From Coq Require Import Sorting.Sorted.

(* ================= byte-string order ================= *)
Definition blt (a b : bytes) : Prop := bytes_cmp a b = Lt.
Definition sorted (l : list bytes) : Prop := StronglySorted blt l.

Lemma bytes_cmp_refl a : bytes_cmp a a = Eq.
Proof. now apply bytes_cmp_eq. Qed.

Lemma bytes_eqb_eq a b : bytes_eqb a b = true <-> a = b.
Proof.
  unfold bytes_eqb. rewrite <- bytes_cmp_eq. destruct (bytes_cmp a b); split; congruence.
Qed.
Lemma bytes_eqb_refl a : bytes_eqb a a = true.
Proof. now apply bytes_eqb_eq. Qed.
Lemma bytes_eqb_neq a b : bytes_eqb a b = false <-> a <> b.
Proof.
  rewrite <- bytes_eqb_eq. destruct (bytes_eqb a b); split; congruence.
Qed.

Lemma bytes_cmp_antisym a b : bytes_cmp b a = CompOpp (bytes_cmp a b).
Proof.
  revert b; induction a as [|x a IH]; intros [|y b]; cbn; auto.
  rewrite (Z.compare_antisym x y). destruct (x ?= y); cbn; auto.
Qed.

Lemma blt_trans a b c : blt a b -> blt b c -> blt a c.
Proof.
  unfold blt. revert b c; induction a as [|x a IH]; intros [|y b] [|z c]; cbn; try congruence; auto.
  destruct (Z.compare_spec x y) as [E1|L1|G1]; try discriminate;
  destruct (Z.compare_spec y z) as [E2|L2|G2]; try discriminate; intros H1 H2;
  destruct (Z.compare_spec x z) as [E3|L3|G3]; try lia; auto; subst; eauto.
Qed.
Lemma blt_irrefl a : ~ blt a a.
Proof. unfold blt. rewrite bytes_cmp_refl. discriminate. Qed.
Lemma blt_neq a b : blt a b -> a <> b.
Proof. intros H ->. now apply blt_irrefl in H. Qed.
Lemma bytes_gt_lt a b : bytes_cmp a b = Gt -> blt b a.
Proof. unfold blt. intros H. rewrite bytes_cmp_antisym, H. reflexivity. Qed.

Lemma bytes_eq_dec (a b : bytes) : {a = b} + {a <> b}.
Proof. apply list_eq_dec, Z.eq_dec. Qed.

Lemma mem_In a l : mem a l = true <-> In a l.
Proof.
  unfold mem. rewrite existsb_exists. split.
  - intros (x & Hx & E). apply bytes_eqb_eq in E. now subst.
  - intros H. exists a. split; auto. apply bytes_eqb_refl.
Qed.
Lemma mem_nIn a l : mem a l = false <-> ~ In a l.
Proof. rewrite <- mem_In. destruct (mem a l); split; congruence. Qed.

Lemma dedup_In a l : In a (dedup l) <-> In a l.
Proof.
  induction l as [|h t IH]; cbn [dedup]; [tauto|].
  destruct (mem h t) eqn:E.
  - rewrite IH. cbn. split; auto. intros [->|H]; auto. now apply mem_In.
  - cbn. now rewrite IH.
Qed.

Lemma sorted_inv a l : sorted (a :: l) -> sorted l /\ Forall (blt a) l.
Proof. apply StronglySorted_inv. Qed.

Lemma sorted_NoDup l : sorted l -> NoDup l.
Proof.
  induction l as [|a l IH]; intros H; constructor.
  - apply sorted_inv in H as [_ H]. rewrite Forall_forall in H. intros Hin.
    apply H in Hin. now apply blt_irrefl in Hin.
  - apply IH. now apply sorted_inv in H.
Qed.

(* two strictly ascending lists with the same elements are equal *)
Lemma sorted_ext l1 : forall l2, sorted l1 -> sorted l2 -> (forall a, In a l1 <-> In a l2) -> l1 = l2.
Proof.
  induction l1 as [|a l1 IH]; intros [|b l2] S1 S2 H.
  - reflexivity.
  - exfalso. apply (proj2 (H b)). now left.
  - exfalso. apply (proj1 (H a)). now left.
  - apply sorted_inv in S1 as [S1 F1]. apply sorted_inv in S2 as [S2 F2].
    rewrite Forall_forall in F1, F2.
    assert (a = b) as ->.
    { destruct (proj1 (H a) (or_introl eq_refl)) as [E|Ha]; [congruence|].
      destruct (proj2 (H b) (or_introl eq_refl)) as [E|Hb]; [congruence|].
      exfalso. apply (blt_irrefl a). eapply blt_trans; [apply F1, Hb | apply F2, Ha]. }
    f_equal. apply IH; auto. intros x. split; intros Hx.
    + destruct (proj1 (H x) (or_intror Hx)) as [E|Hx']; auto. subst x.
      apply F1 in Hx. now apply blt_irrefl in Hx.
    + destruct (proj2 (H x) (or_intror Hx)) as [E|Hx']; auto. subst x.
      apply F2 in Hx. now apply blt_irrefl in Hx.
Qed.

(* ================= insertion sort on distinct keys ================= *)
Lemma insert_In {A} (le : A -> A -> bool) x y l : In y (insert le x l) <-> y = x \/ In y l.
Proof.
  split; intros H.
  - apply (Permutation_in _ (insert_perm le x l)) in H. cbn in H. intuition.
  - apply (Permutation_in _ (Permutation_sym (insert_perm le x l))). cbn. intuition.
Qed.

Lemma insert_sorted x l : sorted l -> ~ In x l -> sorted (insert bytes_leb x l).
Proof.
  induction l as [|h t IH]; intros S Hn; cbn [insert].
  - repeat constructor.
  - unfold bytes_leb at 1. destruct (bytes_cmp x h) eqn:E.
    + apply bytes_cmp_eq in E. subst. exfalso. apply Hn. now left.
    + pose proof (sorted_inv _ _ S) as [S' F]. constructor; auto. constructor; auto.
      rewrite Forall_forall in *. intros y Hy. eapply blt_trans; [exact E | now apply F].
    + pose proof (sorted_inv _ _ S) as [S' F]. constructor.
      * apply IH; auto. intros Hx. apply Hn. now right.
      * rewrite Forall_forall in *. intros y Hy. apply insert_In in Hy as [->|Hy].
        -- now apply bytes_gt_lt.
        -- now apply F.
Qed.

Lemma isort_sorted l : NoDup l -> sorted (isort bytes_leb l).
Proof.
  induction 1 as [|x l Hx Hnd IH]; cbn [isort fold_right]; [constructor|].
  fold (isort bytes_leb l). apply insert_sorted; auto.
  intros Hin. apply Hx. eapply Permutation_in; [apply isort_perm | exact Hin].
Qed.

Lemma map_insert {A B} (f : A -> B) (leA : A -> A -> bool) (leB : B -> B -> bool) x l :
  (forall a b, leA a b = leB (f a) (f b)) -> map f (insert leA x l) = insert leB (f x) (map f l).
Proof.
  intros H. induction l as [|h t IH]; cbn [insert map]; auto.
  rewrite H. destruct (leB (f x) (f h)); cbn [map]; now rewrite ?IH.
Qed.
Lemma map_isort {A B} (f : A -> B) (leA : A -> A -> bool) (leB : B -> B -> bool) l :
  (forall a b, leA a b = leB (f a) (f b)) -> map f (isort leA l) = isort leB (map f l).
Proof.
  intros H. induction l as [|h t IH]; cbn [isort fold_right map]; auto.
  fold (isort leA t). fold (isort leB (map f t)). rewrite (map_insert f leA leB) by auto. now rewrite IH.
Qed.

Lemma filter_length_perm {A} (f : A -> bool) l l' :
  Permutation l l' -> length (filter f l) = length (filter f l').
Proof.
  induction 1 as [|x l l' _ IH|x y l|l l' l'' _ IH1 _ IH2]; cbn [filter]; auto.
  - destruct (f x); cbn [length]; congruence.
  - destruct (f x), (f y); reflexivity.
  - congruence.
Qed.

(* ================= BTreeMap operations ================= *)
Lemma keys_bt_update k f m : keys (bt_update k f m) = keys m.
Proof.
  induction m as [|[k' v'] t IH]; cbn; auto. destruct (bytes_eqb k k'); cbn; auto.
  f_equal. exact IH.
Qed.

Lemma bt_insert_keys_In a k v m : In a (keys (bt_insert k v m)) <-> a = k \/ In a (keys m).
Proof.
  induction m as [|[k' v'] t IH]; cbn [bt_insert keys map fst In].
  - intuition.
  - destruct (bytes_cmp k k') eqn:E; cbn [keys map fst In].
    + apply bytes_cmp_eq in E. subst k'. intuition.
    + intuition.
    + fold (keys (bt_insert k v t)). rewrite IH. fold (keys t). intuition.
Qed.

Lemma bt_insert_sorted k v m : sorted (keys m) -> sorted (keys (bt_insert k v m)).
Proof.
  induction m as [|[k' v'] t IH]; intros S; cbn [bt_insert].
  - repeat constructor.
  - cbn [keys map fst] in S. fold (keys t) in S. pose proof (sorted_inv _ _ S) as [S' F].
    destruct (bytes_cmp k k') eqn:E; cbn [keys map fst].
    + apply bytes_cmp_eq in E. subst k'. exact S.
    + fold (keys t). constructor; auto. constructor; auto.
      rewrite Forall_forall in *. intros y Hy. eapply blt_trans; [exact E | now apply F].
    + fold (keys (bt_insert k v t)). constructor; [apply IH; exact S'|].
      rewrite Forall_forall in *. intros y Hy. apply bt_insert_keys_In in Hy as [->|Hy].
      * now apply bytes_gt_lt.
      * now apply F.
Qed.

Lemma bt_remove_keys_In a k m :
  sorted (keys m) -> (In a (keys (bt_remove k m)) <-> In a (keys m) /\ a <> k).
Proof.
  induction m as [|[k' v'] t IH]; intros S; cbn [bt_remove keys map fst In].
  - tauto.
  - fold (keys t) in *. pose proof (sorted_inv _ _ S) as [S' F]. rewrite Forall_forall in F.
    destruct (bytes_eqb k k') eqn:E.
    + apply bytes_eqb_eq in E. subst k'. split.
      * intros H. split; auto. apply F in H. intros ->. now apply blt_irrefl in H.
      * intros [[E|H] N]; [congruence|assumption].
    + apply bytes_eqb_neq in E. cbn [keys map fst In]. fold (keys (bt_remove k t)).
      rewrite (IH S'). split.
      * intros [<-|[H N]]; auto.
      * intros [[<-|H] N]; auto.
Qed.

Lemma bt_remove_sorted k m : sorted (keys m) -> sorted (keys (bt_remove k m)).
Proof.
  induction m as [|[k' v'] t IH]; intros S; cbn [bt_remove]; auto.
  cbn [keys map fst] in S. fold (keys t) in S. pose proof (sorted_inv _ _ S) as [S' F].
  destruct (bytes_eqb k k'); auto.
  cbn [keys map fst]. fold (keys (bt_remove k t)). constructor; [apply IH; exact S'|].
  rewrite Forall_forall in *. intros y Hy. apply bt_remove_keys_In in Hy; auto. now apply F.
Qed.

Lemma fold_remove_sorted gone : forall m,
  sorted (keys m) -> sorted (keys (fold_left (fun m k => bt_remove k m) gone m)).
Proof. induction gone as [|g r IH]; intros m S; cbn [fold_left]; auto. apply IH, bt_remove_sorted, S. Qed.

Lemma fold_remove_In a gone : forall m,
  sorted (keys m) ->
  (In a (keys (fold_left (fun m k => bt_remove k m) gone m)) <-> In a (keys m) /\ ~ In a gone).
Proof.
  induction gone as [|g r IH]; intros m S; cbn [fold_left In].
  - tauto.
  - rewrite IH by now apply bt_remove_sorted. rewrite bt_remove_keys_In by auto.
    split.
    + intros [[H N] N2]. split; auto. intros [C|C]; [congruence|contradiction].
    + intros [H N]. split; [split; auto; intros ->; apply N; now left | intros C; apply N; now right].
Qed.

Lemma fold_insert_sorted added : forall m,
  sorted (keys m) -> sorted (keys (fold_left (fun m a => bt_insert a new_rec m) added m)).
Proof. induction added as [|g r IH]; intros m S; cbn [fold_left]; auto. apply IH, bt_insert_sorted, S. Qed.

Lemma fold_insert_In a added : forall m,
  In a (keys (fold_left (fun m a => bt_insert a new_rec m) added m)) <-> In a added \/ In a (keys m).
Proof.
  induction added as [|g r IH]; intros m; cbn [fold_left In].
  - tauto.
  - rewrite IH, bt_insert_keys_In. intuition.
Qed.

(* lookups survive inserts/removes of other keys *)
Lemma bt_get_insert_other a k v m : a <> k -> bt_get a (bt_insert k v m) = bt_get a m.
Proof.
  intros N. induction m as [|[k' v'] t IH]; cbn [bt_insert bt_get].
  - apply bytes_eqb_neq in N. now rewrite N.
  - destruct (bytes_cmp k k') eqn:E; cbn [bt_get].
    + apply bytes_cmp_eq in E. subst k'. apply bytes_eqb_neq in N. now rewrite N.
    + apply bytes_eqb_neq in N. now rewrite N.
    + now rewrite IH.
Qed.
Lemma bt_get_remove_other a k m : a <> k -> bt_get a (bt_remove k m) = bt_get a m.
Proof.
  intros N. induction m as [|[k' v'] t IH]; cbn [bt_remove bt_get]; auto.
  destruct (bytes_eqb k k') eqn:E.
  - apply bytes_eqb_eq in E. subst k'. apply bytes_eqb_neq in N. now rewrite N.
  - cbn [bt_get]. now rewrite IH.
Qed.
Lemma fold_remove_get a gone : forall m,
  ~ In a gone -> bt_get a (fold_left (fun m k => bt_remove k m) gone m) = bt_get a m.
Proof.
  induction gone as [|g r IH]; intros m N; cbn [fold_left]; auto.
  rewrite IH by (intros C; apply N; now right). apply bt_get_remove_other. intros ->. apply N. now left.
Qed.
Lemma fold_insert_get a added : forall m,
  ~ In a added -> bt_get a (fold_left (fun m a => bt_insert a new_rec m) added m) = bt_get a m.
Proof.
  induction added as [|g r IH]; intros m N; cbn [fold_left]; auto.
  rewrite IH by (intros C; apply N; now right). apply bt_get_insert_other. intros ->. apply N. now left.
Qed.

Lemma filter_nil {A} (f : A -> bool) l : (forall x, In x l -> f x = false) -> filter f l = [].
Proof.
  induction l as [|h t IH]; intros H; cbn [filter]; auto.
  rewrite (H h) by now left. apply IH. intros x Hx. apply H. now right.
Qed.
Lemma filter_all {A} (f : A -> bool) l : (forall x, In x l -> f x = true) -> filter f l = l.
Proof.
  induction l as [|h t IH]; intros H; cbn [filter]; auto.
  rewrite (H h) by now left. f_equal. apply IH. intros x Hx. apply H. now right.
Qed.

(* ================= equality tests are reflexive ================= *)
Lemma opt_eqb_refl {A} (e : A -> A -> bool) x : (forall a, e a a = true) -> opt_eqb e x x = true.
Proof. intros H. destruct x; cbn; auto. Qed.
Lemma status_eqb_refl s : status_eqb s s = true.
Proof. now destruct s. Qed.
Lemma member_eqb_refl m : member_eqb m m = true.
Proof.
  unfold member_eqb.
  rewrite !bytes_eqb_refl, !(opt_eqb_refl Z.eqb) by apply Z.eqb_refl.
  rewrite !(opt_eqb_refl bytes_eqb) by apply bytes_eqb_refl.
  rewrite !Bool.eqb_reflx, status_eqb_refl, Z.eqb_refl. reflexivity.
Qed.
Lemma list_eqb_refl {A} (e : A -> A -> bool) l : (forall a, e a a = true) -> list_eqb e l l = true.
Proof. intros H. induction l as [|h t IH]; cbn; auto. now rewrite H, IH. Qed.
Lemma view_eqb_refl v : view_eqb v v = true.
Proof.
  unfold view_eqb. rewrite (list_eqb_refl member_eqb) by apply member_eqb_refl.
  rewrite (list_eqb_refl bytes_eqb) by apply bytes_eqb_refl.
  rewrite Z.eqb_refl, Bool.eqb_reflx, (opt_eqb_refl bytes_eqb) by apply bytes_eqb_refl. reflexivity.
Qed.

Lemma sorted_b_of_sorted l : sorted l -> sorted_b l = true.
Proof.
  induction l as [|a t IH]; intros S; cbn [sorted_b]; auto.
  destruct t as [|b t']; auto. pose proof (sorted_inv _ _ S) as [S' F].
  rewrite IH by auto. inversion F as [|? ? Hab _]; subst.
  unfold bytes_ltb. unfold blt in Hab. now rewrite Hab.
Qed.
Lemma sorted_of_sorted_b l : sorted_b l = true -> sorted l.
Proof.
  induction l as [|a t IH]; intros H; [constructor|].
  destruct t as [|b t']; [repeat constructor|].
  cbn [sorted_b] in H. apply andb_true_iff in H as [Hab H]. specialize (IH H).
  constructor; auto. unfold bytes_ltb in Hab.
  assert (blt a b) by (unfold blt; destruct (bytes_cmp a b); congruence).
  constructor; auto. pose proof (sorted_inv _ _ IH) as [_ F]. rewrite Forall_forall in *.
  intros y Hy. eapply blt_trans; eauto.
Qed.

(* ================================================================== *)
Section Proofs.
  Variable self_addr : bytes.
  Variable self_id : Z.
  Variable is_self : bytes -> bool.
  (* rule 1 of is_self_address: byte-identical strings *)
  Hypothesis self_is_self : is_self self_addr = true.

  Local Notation step := (step is_self).
  Local Notation run := (run is_self).
  Local Notation set_members := (set_members is_self).
  Local Notation members := (members self_addr self_id).
  Local Notation self_member := (self_member self_addr self_id).
  Local Notation view := (view self_addr self_id).
  Local Notation scan := (scan self_addr self_id is_self).
  Local Notation trace := (trace self_addr self_id is_self).
  Local Notation view_ok := (view_ok self_addr is_self).
  Local Notation step_ok := (step_ok is_self).
  Local Notation spec_go := (spec_go self_addr is_self).
  Local Notation spec_ok := (spec_ok self_addr is_self).

  (* peers: strictly ascending keys, none of which denotes this node *)
  Definition Inv (s : state) : Prop :=
    sorted (keys (peers s)) /\ (forall a, In a (keys (peers s)) -> is_self a = false).

  Lemma inv_init : Inv init.
  Proof. split; [constructor | intros a []]. Qed.

  Lemma incoming_In a l :
    In a (dedup (filter (fun a => negb (is_self a)) l)) <-> In a l /\ is_self a = false.
  Proof. rewrite dedup_In, filter_In, negb_true_iff. tauto. Qed.

  Lemma set_members_keys s l a : Inv s ->
    (In a (keys (peers (set_members s l))) <-> In a l /\ is_self a = false).
  Proof.
    intros [S NS]. unfold Model.set_members; cbn [peers].
    rewrite fold_insert_In, fold_remove_In by auto. rewrite <- incoming_In.
    set (inc := dedup (filter (fun a => negb (is_self a)) l)).
    rewrite !filter_In, !negb_true_iff, !mem_nIn. split.
    - intros [[H _]|[H N]]; auto. destruct (mem a inc) eqn:E; [now apply mem_In|].
      exfalso. apply N. split; auto. now apply mem_nIn.
    - intros H. destruct (mem a (keys (peers s))) eqn:E.
      + right. apply mem_In in E. split; auto. intros [_ C]. contradiction.
      + left. split; auto. now apply mem_nIn.
  Qed.

  Lemma set_members_sorted s l : Inv s -> sorted (keys (peers (set_members s l))).
  Proof. intros [S _]. unfold Model.set_members; cbn [peers]. apply fold_insert_sorted, fold_remove_sorted, S. Qed.

  Lemma record_up_keys s a id fl : keys (peers (record_up s a id fl)) = keys (peers s).
  Proof. unfold record_up. destruct (bt_get a (peers s)); cbn [peers]; auto. apply keys_bt_update. Qed.
  Lemma record_down_keys s a e : keys (peers (record_down s a e)) = keys (peers s).
  Proof. unfold record_down. destruct (bt_get a (peers s)); cbn [peers]; auto. apply keys_bt_update. Qed.

  Lemma step_inv s o : Inv s -> Inv (step s o).
  Proof.
    intros I. destruct o as [l|e|a id fl|a e|fl]; cbn [Model.step].
    - split; [now apply set_members_sorted|]. intros a Ha. now apply set_members_keys in Ha.
    - exact I.
    - unfold Inv. now rewrite record_up_keys.
    - unfold Inv. now rewrite record_down_keys.
    - exact I.
  Qed.

  Lemma run_inv ops : forall s, Inv s -> Inv (run s ops).
  Proof. induction ops as [|o r IH]; intros s I; cbn; auto. apply IH, step_inv, I. Qed.

  (* ---------- members() ---------- *)
  Lemma members_perm s : Permutation (members s) (map peer_member (peers s) ++ [self_member s]).
  Proof. apply isort_perm. Qed.

  Lemma members_In s m : In m (members s) <-> In m (map peer_member (peers s)) \/ m = self_member s.
  Proof.
    split; intros H.
    - apply (Permutation_in _ (members_perm s)), in_app_or in H. cbn in H. intuition.
    - apply (Permutation_in _ (Permutation_sym (members_perm s))), in_or_app. cbn. intuition.
  Qed.

  Lemma map_addr_peer_member m : map m_addr (map peer_member m) = keys m.
  Proof. unfold keys. rewrite map_map. apply map_ext. now intros [k v]. Qed.

  Lemma member_addrs_keys s :
    map m_addr (members s) = isort bytes_leb (keys (peers s) ++ [self_addr]).
  Proof.
    unfold Model.members. rewrite (map_isort m_addr addr_leb bytes_leb) by reflexivity.
    rewrite map_app, map_addr_peer_member. reflexivity.
  Qed.

  Lemma self_not_peer s : Inv s -> ~ In self_addr (keys (peers s)).
  Proof. intros [_ NS] H. apply NS in H. congruence. Qed.

  Lemma member_addrs_sorted s : Inv s -> sorted (map m_addr (members s)).
  Proof.
    intros I. rewrite member_addrs_keys. apply isort_sorted.
    apply (Permutation_NoDup (Permutation_cons_append _ _)).
    constructor; [now apply self_not_peer | apply sorted_NoDup, I].
  Qed.

  Lemma peer_member_flag m : filter m_is_self (map peer_member m) = [].
  Proof. apply filter_nil. intros x Hx. apply in_map_iff in Hx as ([k v] & <- & _). reflexivity. Qed.

  Lemma members_self_flag_once s : length (filter m_is_self (members s)) = 1%nat.
  Proof.
    rewrite (filter_length_perm _ _ _ (members_perm s)), filter_app, peer_member_flag. reflexivity.
  Qed.

  Lemma members_self_pred_once s : Inv s ->
    length (filter (fun m => is_self (m_addr m)) (members s)) = 1%nat.
  Proof.
    intros [_ NS]. rewrite (filter_length_perm _ _ _ (members_perm s)), filter_app.
    rewrite (filter_nil _ (map peer_member (peers s))).
    - cbn. now rewrite self_is_self.
    - intros x Hx. apply in_map_iff in Hx as ([k v] & <- & Hin). cbn. apply NS.
      apply in_map_iff. exists (k, v). auto.
  Qed.

  (* ---------- generation ---------- *)
  Lemma bump_small g : 0 <= g -> g + 1 < 2 ^ 64 -> bump g = g + 1.
  Proof. intros. unfold bump. apply Z.mod_small. lia. Qed.

  Lemma step_gen s o : 0 <= generation s -> generation s + 1 < 2 ^ 64 ->
    generation s <= generation (step s o) <= generation s + 1.
  Proof.
    intros H0 H1. pose proof (bump_small _ H0 H1) as B.
    destruct o as [l|e|a id fl|a e|fl]; cbn [Model.step].
    - unfold Model.set_members; cbn [generation].
      match goal with |- context [if ?c then _ else _] => destruct c end; lia.
    - cbn. lia.
    - unfold record_up. destruct (bt_get a (peers s)); cbn [generation]; [|lia].
      match goal with |- context [if ?c then _ else _] => destruct c end; lia.
    - unfold record_down. destruct (bt_get a (peers s)); cbn [generation]; [|lia].
      match goal with |- context [if ?c then _ else _] => destruct c end; lia.
    - cbn. lia.
  Qed.

  (* a step that changes the peer key set bumps the generation *)
  Lemma step_keys_change s o : keys (peers (step s o)) <> keys (peers s) ->
    generation (step s o) = bump (generation s).
  Proof.
    destruct o as [l|e|a id fl|a e|fl]; cbn [Model.step]; intros H.
    - revert H. unfold Model.set_members; cbn [peers generation].
      set (gone := filter _ (keys (peers s))). set (added := filter _ (dedup _)).
      destruct gone as [|g gr]; [destruct added as [|ad ar]|]; cbn [is_nil andb negb fold_left]; auto.
      intros H. now elim H.
    - now elim H.
    - rewrite record_up_keys in H. now elim H.
    - rewrite record_down_keys in H. now elim H.
    - now elim H.
  Qed.

  Lemma run_gen_bound ops : forall s n,
    0 <= generation s <= n -> n + Z.of_nat (length ops) < 2 ^ 64 ->
    generation s <= generation (run s ops) <= n + Z.of_nat (length ops).
  Proof.
    induction ops as [|o r IH]; intros s n Hs Hn; cbn [Model.run fold_left length] in *; [lia|].
    fold (run (step s o) r).
    rewrite Nat2Z.inj_succ in *.
    pose proof (step_gen s o) as G. specialize (G ltac:(lia) ltac:(lia)).
    specialize (IH (step s o) (n + 1)). specialize (IH ltac:(lia) ltac:(lia)). lia.
  Qed.

  Lemma run_gen_strict ops : forall s n,
    0 <= generation s <= n -> n + Z.of_nat (length ops) < 2 ^ 64 ->
    keys (peers (run s ops)) <> keys (peers s) -> generation s < generation (run s ops).
  Proof.
    induction ops as [|o r IH]; intros s n Hs Hn Hk; cbn [Model.run fold_left length] in *; [now elim Hk|].
    fold (run (step s o) r) in *. rewrite Nat2Z.inj_succ in Hn.
    pose proof (step_gen s o) as G. specialize (G ltac:(lia) ltac:(lia)).
    destruct (list_eq_dec bytes_eq_dec (keys (peers (step s o))) (keys (peers s))) as [E|N].
    - rewrite <- E in Hk. specialize (IH (step s o) (n + 1) ltac:(lia) ltac:(lia) Hk). lia.
    - apply step_keys_change in N. rewrite bump_small in N by lia.
      pose proof (run_gen_bound r (step s o) (n + 1) ltac:(lia) ltac:(lia)). lia.
  Qed.

  Lemma run_app s a b : run s (a ++ b) = run (run s a) b.
  Proof. apply fold_left_app. Qed.

  (* ---------- same discovery result ---------- *)
  Lemma set_members_same s l : Inv s ->
    (forall a, In a l -> is_self a = true \/ In a (keys (peers s))) ->
    (forall a, In a (keys (peers s)) -> In a l) ->
    peers (set_members s l) = peers s /\ generation (set_members s l) = generation s.
  Proof.
    intros [S NS] H1 H2. unfold Model.set_members; cbn [peers generation].
    rewrite (filter_nil _ (keys (peers s))).
    - rewrite (filter_nil _ (dedup _)); [cbn; auto|].
      intros a Ha. apply incoming_In in Ha as [Ha Hs]. apply negb_false_iff, mem_In.
      destruct (H1 a Ha); [congruence|auto].
    - intros a Ha. apply negb_false_iff, mem_In, incoming_In. auto.
  Qed.

  (* any discovery result: a surviving peer keeps its record *)
  Lemma set_members_survivor s l a : Inv s ->
    In a (keys (peers s)) -> In a l -> bt_get a (peers (set_members s l)) = bt_get a (peers s).
  Proof.
    intros [S NS] Hk Hl. unfold Model.set_members; cbn [peers].
    rewrite fold_insert_get, fold_remove_get; auto.
    - rewrite filter_In, negb_true_iff, mem_nIn, incoming_In. intros [_ C]. apply C. auto.
    - rewrite filter_In, negb_true_iff, mem_nIn. intros [_ C]. contradiction.
  Qed.

  Definition is_probe (o : op) : bool := match o with SetMembers _ => false | _ => true end.

  Lemma probes_keep_keys ops : forall s, forallb is_probe ops = true -> keys (peers (run s ops)) = keys (peers s).
  Proof.
    induction ops as [|o r IH]; intros s H; cbn [Model.run fold_left]; auto.
    cbn [forallb] in H. apply andb_true_iff in H as [Ho Hr]. fold (run (step s o) r).
    rewrite IH by auto. destruct o; try discriminate; cbn [Model.step]; auto using record_up_keys, record_down_keys.
  Qed.

  (* ================= the theorems ================= *)

  Theorem view_invariant : forall ops, let s := run init ops in
    (* peers sorted & unique, no peer is this node *)
    sorted (keys (peers s))
    /\ (forall a, In a (keys (peers s)) -> is_self a = false)
    (* members(): addresses strictly ascending; this node listed exactly once, under its own
       address, and no other entry denotes it *)
    /\ sorted (map m_addr (members s))
    /\ In (self_member s) (members s)
    /\ length (filter m_is_self (members s)) = 1%nat
    /\ length (filter (fun m => is_self (m_addr m)) (members s)) = 1%nat
    /\ count_occ bytes_eq_dec (map m_addr (members s)) self_addr = 1%nat
    (* the non-self members are exactly the peers *)
    /\ map m_addr (filter (fun m => negb (m_is_self m)) (members s)) = keys (peers s).
  Proof.
    intros ops s. assert (I : Inv s) by (apply run_inv, inv_init).
    destruct I as [S NS]. assert (I : Inv s) by (split; auto).
    pose proof (member_addrs_sorted s I) as MS.
    assert (Hself : In (self_member s) (members s)) by (apply members_In; auto).
    repeat split; auto using members_self_flag_once, members_self_pred_once.
    - apply NoDup_count_occ'; [now apply sorted_NoDup|].
      change self_addr with (m_addr (self_member s)). now apply in_map.
    - apply sorted_ext; auto.
      + (* a filtered strictly ascending list is strictly ascending *)
        clear Hself. revert MS. generalize (members s) as ms.
        induction ms as [|m ms IH]; intros MS; cbn [filter map]; [constructor|].
        cbn [map] in MS. pose proof (sorted_inv _ _ MS) as [MS' F].
        destruct (negb (m_is_self m)); cbn [map]; [|apply IH; exact MS'].
        constructor; [apply IH; exact MS'|]. rewrite Forall_forall in *. intros y Hy. apply F.
        apply in_map_iff in Hy as (x & <- & Hx). apply filter_In in Hx as [Hx _]. now apply in_map.
      + intros a. rewrite in_map_iff. split.
        * intros (m & <- & Hm). apply filter_In in Hm as [Hm Hf]. apply members_In in Hm as [Hm| ->].
          -- rewrite <- map_addr_peer_member. now apply in_map.
          -- discriminate.
        * intros Ha. rewrite <- map_addr_peer_member in Ha. apply in_map_iff in Ha as (m & <- & Hm).
          exists m. split; auto. apply filter_In. split; [apply members_In; auto|].
          apply in_map_iff in Hm as ([k v] & <- & _). reflexivity.
  Qed.

  Theorem generation_monotone : forall ops1 ops2,
    Z.of_nat (length (ops1 ++ ops2)) < 2 ^ 64 ->
    generation (run init ops1) <= generation (run init (ops1 ++ ops2)).
  Proof.
    intros ops1 ops2 H. rewrite app_length, Nat2Z.inj_add in H. rewrite run_app.
    pose proof (run_gen_bound ops1 init 0 ltac:(cbn; lia) ltac:(lia)) as B1. cbn [generation init] in B1.
    pose proof (run_gen_bound ops2 (run init ops1) (Z.of_nat (length ops1)) ltac:(lia) ltac:(lia)). lia.
  Qed.

  Theorem generation_advances_on_change : forall ops1 ops2,
    Z.of_nat (length (ops1 ++ ops2)) < 2 ^ 64 ->
    map m_addr (members (run init (ops1 ++ ops2))) <> map m_addr (members (run init ops1)) ->
    generation (run init ops1) < generation (run init (ops1 ++ ops2)).
  Proof.
    intros ops1 ops2 H Hm. rewrite app_length, Nat2Z.inj_add in H. rewrite run_app in *.
    pose proof (run_gen_bound ops1 init 0 ltac:(cbn; lia) ltac:(lia)) as B1. cbn [generation init] in B1.
    apply (run_gen_strict ops2 (run init ops1) (Z.of_nat (length ops1))); try lia.
    intros E. apply Hm. now rewrite !member_addrs_keys, E.
  Qed.

  Theorem resolve_error_keeps_members : forall ops e, let s := run init ops in
    members (step s (ResolveError e)) = members s
    /\ peers (step s (ResolveError e)) = peers s
    /\ generation (step s (ResolveError e)) = generation s
    /\ resolved (step s (ResolveError e)) = resolved s.
  Proof. intros; repeat split. Qed.

  Theorem same_set_keeps_records : forall ops l, let s := run init ops in
    (forall a, In a l -> is_self a = true \/ In a (keys (peers s))) ->
    (forall a, In a (keys (peers s)) -> In a l) ->
    peers (step s (SetMembers l)) = peers s
    /\ members (step s (SetMembers l)) = members s
    /\ generation (step s (SetMembers l)) = generation s.
  Proof.
    intros ops l s H1 H2. assert (I : Inv s) by (apply run_inv, inv_init).
    destruct (set_members_same s l I H1 H2) as [P G]. cbn [Model.step]. repeat split; auto.
    unfold Model.members. rewrite P. reflexivity.
  Qed.

  Theorem survivors_keep_records : forall ops l a, let s := run init ops in
    In a (keys (peers s)) -> In a l ->
    bt_get a (peers (step s (SetMembers l))) = bt_get a (peers s).
  Proof.
    intros ops l a s Hk Hl. apply set_members_survivor; auto. apply run_inv, inv_init.
  Qed.

  (* resolve l, any number of probe results / resolve errors, resolve l again: nothing moves *)
  Theorem re_resolve_keeps_probe_state : forall ops l probes,
    forallb is_probe probes = true ->
    let s := run init (ops ++ SetMembers l :: probes) in
    peers (step s (SetMembers l)) = peers s
    /\ members (step s (SetMembers l)) = members s
    /\ generation (step s (SetMembers l)) = generation s.
  Proof.
    intros ops l probes Hp s.
    assert (I0 : Inv (run init ops)) by (apply run_inv, inv_init).
    assert (K : keys (peers s) = keys (peers (set_members (run init ops) l))).
    { unfold s. rewrite run_app. cbn [Model.run fold_left Model.step].
      fold (run (set_members (run init ops) l) probes). now apply probes_keep_keys. }
    apply same_set_keeps_records.
    - intros a Ha. fold s. rewrite K. destruct (is_self a) eqn:E; auto. right. apply set_members_keys; auto.
    - intros a Ha. fold s in Ha. rewrite K in Ha. now apply set_members_keys in Ha.
  Qed.

  (* ================= the model meets the executable spec ================= *)
  Lemma view_ok_inv s : Inv s -> view_ok (view s) = true.
  Proof.
    intros I. pose proof I as [S NS]. unfold Model.view_ok, Model.view, member_addrs; cbn [v_members v_peer_addrs].
    rewrite (sorted_b_of_sorted _ (member_addrs_sorted s I)), members_self_flag_once,
      (members_self_pred_once s I), (sorted_b_of_sorted _ S). cbn [Nat.eqb andb].
    repeat (apply andb_true_iff; split); auto.
    - apply forallb_forall. intros m Hm. apply members_In in Hm as [Hm| ->].
      + apply in_map_iff in Hm as ([k v] & <- & Hin). cbn. apply negb_true_iff, NS.
        apply in_map_iff. exists (k, v). auto.
      + cbn. apply bytes_eqb_refl.
    - apply forallb_forall. intros a Ha. now apply negb_true_iff, NS.
    - apply forallb_forall. intros a Ha. apply existsb_exists.
      apply in_map_iff in Ha as ([k v] & <- & Hin). exists (peer_member (k, v)). split.
      + apply members_In. left. now apply in_map.
      + cbn. apply bytes_eqb_refl.
    - apply forallb_forall. intros m Hm. apply members_In in Hm as [Hm| ->]; [|reflexivity].
      apply in_map_iff in Hm as ([k v] & <- & Hin). cbn. apply mem_In, in_map_iff. exists (k, v). auto.
  Qed.

  Lemma same_set_sound l pa : same_set is_self l pa = true ->
    (forall a, In a l -> is_self a = true \/ In a pa) /\ (forall a, In a pa -> In a l).
  Proof.
    unfold same_set. rewrite andb_true_iff, !forallb_forall. intros [H1 H2]. split.
    - intros a Ha. apply H1, orb_true_iff in Ha as [Ha|Ha]; auto. right. now apply mem_In.
    - intros a Ha. now apply mem_In, H2.
  Qed.

  Lemma step_ok_inv s o : Inv s -> 0 <= generation s -> generation s + 1 < 2 ^ 64 ->
    step_ok (view s) o (view (step s o)) = true.
  Proof.
    intros I H0 H1. pose proof (step_gen s o H0 H1) as G.
    unfold Model.step_ok, Model.view, member_addrs; cbn [v_members v_peer_addrs v_generation].
    repeat (apply andb_true_iff; split).
    - apply Z.leb_le. lia.
    - destruct (list_eq_dec bytes_eq_dec (keys (peers (step s o))) (keys (peers s))) as [E|N].
      + apply orb_true_iff. left. rewrite !member_addrs_keys, E. apply list_eqb_refl, bytes_eqb_refl.
      + apply orb_true_iff. right. apply step_keys_change in N. rewrite bump_small in N by lia.
        apply Z.ltb_lt. lia.
    - destruct o as [l|e|a id fl|a e|fl]; auto.
      + destruct (same_set is_self l (keys (peers s))) eqn:E; auto.
        apply same_set_sound in E as [E1 E2]. destruct (set_members_same s l I E1 E2) as [P Gn].
        cbn [Model.step]. unfold Model.members. rewrite P, Gn, Z.eqb_refl.
        cbn [Model.set_members self_flight]. unfold Model.self_member. cbn [self_flight].
        rewrite (list_eqb_refl member_eqb) by apply member_eqb_refl. reflexivity.
      + cbn [Model.step record_resolve_error]. unfold Model.members, Model.self_member. cbn [peers self_flight generation].
        rewrite (list_eqb_refl member_eqb) by apply member_eqb_refl.
        rewrite (list_eqb_refl bytes_eqb) by apply bytes_eqb_refl. now rewrite Z.eqb_refl.
  Qed.

  Lemma spec_go_scan ops : forall s n, Inv s -> 0 <= generation s <= n ->
    n + Z.of_nat (length ops) < 2 ^ 64 -> spec_go (view s) ops (scan s ops) = true.
  Proof.
    induction ops as [|o r IH]; intros s n I Hs Hn; cbn [Model.scan Model.spec_go length] in *; auto.
    rewrite Nat2Z.inj_succ in Hn.
    pose proof (step_gen s o ltac:(lia) ltac:(lia)) as G.
    rewrite view_ok_inv by now apply step_inv. rewrite step_ok_inv by (auto; lia).
    rewrite (IH (step s o) (n + 1)); auto using step_inv; lia.
  Qed.

  Theorem model_meets_spec : forall ops,
    Z.of_nat (length ops) < 2 ^ 64 -> spec_ok ops (trace ops) = true.
  Proof.
    intros ops H. unfold Model.spec_ok, Model.trace.
    rewrite view_ok_inv by apply inv_init.
    rewrite (spec_go_scan ops init 0); auto using inv_init; cbn; lia.
  Qed.

  (* what a passing view_ok means, in Prop (adequacy of the executable spec) *)
  Theorem view_ok_sound : forall v, view_ok v = true ->
    sorted (map m_addr (v_members v))
    /\ length (filter m_is_self (v_members v)) = 1%nat
    /\ length (filter (fun m => is_self (m_addr m)) (v_members v)) = 1%nat
    /\ (forall m, In m (v_members v) -> m_is_self m = true -> m_addr m = self_addr)
    /\ sorted (v_peer_addrs v)
    /\ (forall a, In a (v_peer_addrs v) -> is_self a = false).
  Proof.
    intros v H. unfold Model.view_ok in H.
    apply andb_true_iff in H as [H H8]. apply andb_true_iff in H as [H H7].
    apply andb_true_iff in H as [H H6]. apply andb_true_iff in H as [H H5].
    apply andb_true_iff in H as [H H4]. apply andb_true_iff in H as [H H3].
    apply andb_true_iff in H as [H1 H2].
    rewrite forallb_forall in H3, H6.
    repeat split.
    - now apply sorted_of_sorted_b.
    - now apply Nat.eqb_eq.
    - now apply Nat.eqb_eq.
    - intros m Hm Hf. specialize (H3 m Hm). rewrite Hf in H3. now apply bytes_eqb_eq in H3.
    - now apply sorted_of_sorted_b.
    - intros a Ha. now apply negb_true_iff, H6.
  Qed.
End Proofs.

(* ================= the hypotheses are satisfiable / non-trivial instance ================= *)
Example c15_instance :
  let self := [49; 58; 55] in          (* "1:7" *)
  let alias := [108; 58; 55] in        (* "l:7" *)
  let p := [50; 58; 55] in             (* "2:7" *)
  let isf := fun a => mem a [self; alias] in
  let ops := [SetMembers [p; alias; self; p]; RecordUp p (Some 5) None; ResolveError [120];
              SetMembers [self; p]; RecordDown p [101]; SetMembers []] in
  isf self = true
  /\ map (fun v => (map m_addr (v_members v), v_generation v)) (trace self 1 isf ops)
     = [([self], 0); ([self; p], 1); ([self; p], 2); ([self; p], 2); ([self; p], 2); ([self; p], 3); ([self], 4)]
  /\ spec_ok self isf ops (trace self 1 isf ops) = true.
Proof. vm_compute. repeat split. Qed.

(* ================= the length bound on the generation theorems is necessary ================= *)
(* `generation` is a u64 bumped with `+= 1`: after 2^64 bumps it wraps (release) / panics (debug).
   The unbounded statement "the generation never decreases" is therefore false of the faithful
   model; the witness is one peer toggled up/down 2^63-1 times. *)
Definition wp : bytes := [49].
Definition wisf : bytes -> bool := fun a => bytes_eqb a [].
Fixpoint toggles (n : nat) : list op :=
  match n with
  | O => []
  | S k => RecordUp wp None None :: RecordDown wp [] :: toggles k
  end.

Lemma wrap_up r res g lre sf : r_status r <> Up ->
  step wisf (mkState [(wp, r)] res g lre sf) (RecordUp wp None None)
  = mkState [(wp, up_rec None None r)] res (bump g) lre sf.
Proof.
  intros H. cbn [step]. unfold record_up. cbn [bt_get bt_update peers]. rewrite bytes_eqb_refl.
  cbn [generation resolved last_resolve_error self_flight].
  destruct (r_status r) eqn:E; try congruence; reflexivity.
Qed.
Lemma wrap_down r res g lre sf : r_status r = Up ->
  step wisf (mkState [(wp, r)] res g lre sf) (RecordDown wp [])
  = mkState [(wp, down_rec [] r)] res (bump g) lre sf.
Proof.
  intros H. cbn [step]. unfold record_down. cbn [bt_get bt_update peers]. rewrite bytes_eqb_refl.
  cbn [generation resolved last_resolve_error self_flight]. rewrite H. reflexivity.
Qed.

Lemma toggles_run k : forall r res g lre sf,
  r_status r <> Up -> 0 <= g -> g + 2 * Z.of_nat k < 2 ^ 64 ->
  exists r', r_status r' <> Up /\
    fold_left (step wisf) (toggles k) (mkState [(wp, r)] res g lre sf)
    = mkState [(wp, r')] res (g + 2 * Z.of_nat k) lre sf.
Proof.
  induction k as [|k IH]; intros r res g lre sf Hr H0 H1.
  - exists r. split; auto. cbn [toggles fold_left]. replace (g + 2 * Z.of_nat 0) with g by lia. reflexivity.
  - rewrite Nat2Z.inj_succ in *. cbn [toggles fold_left].
    rewrite wrap_up by auto. rewrite wrap_down by reflexivity.
    rewrite (bump_small g) by lia. rewrite (bump_small (g + 1)) by lia.
    destruct (IH (down_rec [] (up_rec None None r)) res (g + 1 + 1) lre sf) as (r' & Hr' & E);
      [cbn; discriminate | lia | lia |].
    exists r'. split; auto. rewrite E. f_equal. lia.
Qed.

Lemma wrap_first : step wisf init (SetMembers [wp]) = mkState [(wp, new_rec)] true 1 None None.
Proof. vm_compute. reflexivity. Qed.
Lemma bump_wrap : bump (1 + 2 * (2 ^ 63 - 1)) < 1 + 2 * (2 ^ 63 - 1).
Proof. vm_compute. reflexivity. Qed.

Theorem generation_monotone_unbounded_refuted :
  exists (is_self : bytes -> bool) (ops : list op) (o : op),
    generation (fold_left (step is_self) (ops ++ [o]) init)
    < generation (fold_left (step is_self) ops init).
Proof.
  assert (HK : Z.of_nat (Z.to_nat (2 ^ 63 - 1)) = 2 ^ 63 - 1) by (rewrite Z2Nat.id; lia).
  revert HK. generalize (Z.to_nat (2 ^ 63 - 1)) as K. intros K HK.
  exists wisf, (SetMembers [wp] :: toggles K), (RecordUp wp None None).
  rewrite fold_left_app. cbn [fold_left]. rewrite wrap_first.
  destruct (toggles_run K new_rec true 1 None None) as (r' & Hr & E);
    [cbn; discriminate | lia | rewrite HK; lia |].
  rewrite E. rewrite wrap_up by auto. cbn [generation]. rewrite HK. exact bump_wrap.
Qed.
