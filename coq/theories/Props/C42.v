(* C42 — CPU lists parse to the set they denote; fan-out bounds.
   This file holds only statement pins, `exact` proofs and Print Assumptions. *)
From QV Require Import Bytes.ByteStr C42.Model C42.Proofs.
From Coq Require Import Sorted.

(* every cpulist rendered from singletons and ranges with arbitrary grouping, leading zeros, Unicode
   whitespace pads and interleaved junk parts parses to the sorted, duplicate-free list of the CPUs denoted *)
Theorem C42_parse_render : forall segs, forallb seg_ok segs = true ->
  parse_cpulist (render segs) = sort_dedup (denote segs).
Proof. exact parse_render. Qed.

(* ... which is THE strictly increasing list of any set S with the same members *)
Theorem C42_parse_render_set : forall segs S, forallb seg_ok segs = true ->
  (forall x, In x S <-> In x (denote segs)) ->
  parse_cpulist (render segs) = sort_dedup S /\ StronglySorted Z.lt (parse_cpulist (render segs)) /\
  (forall x, In x (parse_cpulist (render segs)) <-> In x S).
Proof. exact parse_render_set. Qed.

(* junk parts are ignored *)
Theorem C42_junk_ignored : forall segs, forallb seg_ok segs = true ->
  parse_cpulist (render segs) = parse_cpulist (render (filter is_item segs)).
Proof. exact junk_ignored. Qed.

(* any text at all: the result is strictly increasing *)
Theorem C42_parse_sorted : forall s, StronglySorted Z.lt (parse_cpulist s).
Proof. exact parse_sorted. Qed.

Theorem C42_model_meets_spec : forall segs, forallb seg_ok segs = true ->
  spec_ok segs (parse_cpulist (render segs)) = true.
Proof. exact model_meets_spec. Qed.

(* fan-out: 1 <= w <= max 1 work, w <= max 1 pool, for all sizes; exact value *)
Theorem C42_workers_for_bounds : forall work pool, 0 <= work -> 0 <= pool ->
  1 <= workers_for work pool /\ workers_for work pool <= Z.max 1 work /\ workers_for work pool <= Z.max 1 pool /\
  workers_for work pool = Z.max 1 (Z.min work (Z.max 1 pool)).
Proof. exact workers_for_bounds. Qed.

(* the literal reading (never more than the work nor the pool) holds whenever both are >= 1 ... *)
Theorem C42_workers_for_literal : forall work pool, 1 <= work -> 1 <= pool ->
  workers_for work pool = Z.min work pool.
Proof. exact workers_for_literal. Qed.

(* ... and is false at the floor: zero work still gets one worker (the code and its unit test agree) *)
Theorem C42_workers_for_zero_work : forall pool, 0 <= pool -> workers_for 0 pool = 1.
Proof. exact workers_for_zero_work. Qed.

Print Assumptions C42_parse_render.
Print Assumptions C42_parse_render_set.
Print Assumptions C42_junk_ignored.
Print Assumptions C42_parse_sorted.
Print Assumptions C42_model_meets_spec.
Print Assumptions C42_workers_for_bounds.
Print Assumptions C42_workers_for_literal.
Print Assumptions C42_workers_for_zero_work.
