(* C10 — A failing fragment fails the whole query.
   This file holds only statement pins, `exact` proofs and Print Assumptions. *)
From QV Require Import C16.Model C10.Model C10.Proofs.

(* any_failure_fails: if any shard fails — transport error, HTTP error status, a reply cut short at ANY byte, a
   payload that is not an IPC stream, a digest mismatch — the distributed query has no answer, wherever that shard
   stands among the others and whatever the initiator's own shard did; for any reading of the IPC metadata *)
Theorem C10_any_failure_fails : forall (body_len : list Z -> option Z) (local : option shard_result)
    (outs : list outcome) (o : outcome),
  In o outs -> is_fault body_len o = true -> collect_outcomes body_len local outs = None.
Proof. exact any_failure_fails. Qed.

Theorem C10_local_failure_fails : forall (body_len : list Z -> option Z) (outs : list outcome),
  collect_outcomes body_len (Some Failed) outs = None.
Proof. exact local_failure_fails. Qed.

(* never a partial answer: an answer exists only if every shard delivered, and it is made of all their batches *)
Theorem C10_all_or_nothing : forall (rs : list shard_result) (bs : list msg),
  collect rs = Some bs -> ~ In Failed rs /\ bs = batches_of rs.
Proof. exact all_or_nothing. Qed.

(* every_truncation_fails: for the client as it is now (Content-Length enforced), every strict prefix of a well-formed
   /fragment reply — cut in the status line, the headers, the blank line, the IPC framing, a batch, the end marker —
   is a failed shard *)
Theorem C10_every_truncation_fails : forall (body_len : list Z -> option Z) (w : wresp) (k : nat),
  wf w = true -> (k < length (render w))%nat -> recv body_len (firstn k (render w)) = Failed.
Proof. exact every_truncation_fails. Qed.

(* ... while the complete reply is received whole *)
Theorem C10_recv_full : forall (body_len : list Z -> option Z) (w : wresp) (schema : msg) (bs : list msg),
  wf w = true -> success (w_status w) = true ->
  w_body w = stream (schema :: bs) -> Forall (wfm body_len) (schema :: bs) ->
  recv body_len (render w) = Batches bs.
Proof. exact recv_full. Qed.

(* the IPC decoder on its own: the writer's stream round-trips ... *)
Theorem C10_decode_roundtrip : forall (body_len : list Z -> option Z) (ms : list msg),
  Forall (wfm body_len) ms -> decode_stream body_len (stream ms) = Some ms.
Proof. exact decode_roundtrip. Qed.

(* ... but EOF without the end-of-stream marker is accepted (arrow-ipc read_meta_len: UnexpectedEof on the first
   read is Ok(None)): a stream that stops at a message boundary, or up to three bytes into the next message, is a valid
   shorter stream; so the cut must be caught BEFORE the decoder, which the Content-Length check does *)
Theorem C10_eof_without_eos_accepted : forall (body_len : list Z -> option Z) (ms : list msg) (junk : list Z),
  Forall (wfm body_len) ms -> (length junk < 4)%nat -> decode_stream body_len (frames ms ++ junk) = Some ms.
Proof. exact eof_without_eos_accepted. Qed.

Theorem C10_ipc_cut_at_boundary_accepted : forall (body_len : list Z -> option Z) (schema : msg) (a b : list msg),
  Forall (wfm body_len) (schema :: a ++ b) -> b <> [] ->
  let whole := stream (schema :: a ++ b) in
  let k := length (frames (schema :: a)) in
  (k < length whole)%nat /\ decode_ipc body_len whole = Some (a ++ b) /\ decode_ipc body_len (firstn k whole) = Some a.
Proof. exact ipc_cut_at_boundary_accepted. Qed.

(* the client before the Content-Length fix (3b03f26): a reply cut at a message boundary was a shorter valid answer *)
Theorem C10_truncation_at_message_boundary_refuted_before_fix :
  wf ex_reply = true /\ (ex_cut < length (render ex_reply))%nat
  /\ recv syn_body_len (render ex_reply) = Batches (skipn 1 ex_msgs)
  /\ recv_before_fix syn_body_len (firstn ex_cut (render ex_reply)) = Batches [syn_msg 8 16]
  /\ recv syn_body_len (firstn ex_cut (render ex_reply)) = Failed.
Proof. exact truncation_at_message_boundary_refuted_before_fix. Qed.

Print Assumptions C10_any_failure_fails.
Print Assumptions C10_local_failure_fails.
Print Assumptions C10_all_or_nothing.
Print Assumptions C10_every_truncation_fails.
Print Assumptions C10_recv_full.
Print Assumptions C10_decode_roundtrip.
Print Assumptions C10_eof_without_eos_accepted.
Print Assumptions C10_ipc_cut_at_boundary_accepted.
Print Assumptions C10_truncation_at_message_boundary_refuted_before_fix.
