(* C40 — CLI output formats round-trip the result (writer after fixes efda2f4 and 8d4c59c).
   This file holds only statement pins, `exact` proofs and Print Assumptions.
   Bytes: 44 comma, 34 DQUOTE, 10 LF, 13 CR, 92 backslash, 9 TAB. *)
From QV Require Import Base.Util C40.Model C40.Proofs.

(* CSV: for EVERY table with at least one column and rectangular rows, the bytes the writer emits
   parse, under RFC 4180, to exactly the column names and the shown cell texts *)
Theorem C40_csv_roundtrip : forall t : table,
  negb (nilb (t_cols t)) && forallb (fun r => Nat.eqb (length r) (length (t_cols t))) (t_rows t) = true ->
  csv_parse (csv_doc t) = Some (t_cols t :: map (map csv_shown) (t_rows t)).
Proof. exact csv_roundtrip. Qed.

Theorem C40_csv_model_meets_spec : forall t : table,
  table_wf t = true -> csv_spec_ok t (csv_doc t) = true.
Proof. exact csv_model_meets_spec. Qed.

(* a cell of any other type (list, vector, struct, map, date, timestamp, binary, ...) is given by its
   display text: for EVERY text, commas / quotes / CR / LF included, the CSV reads back exactly it *)
Theorem C40_csv_other_roundtrip : forall h txt : list Z,
  csv_parse (csv_doc (mkTable [h] [[COther txt]])) = Some [[h]; [txt]].
Proof. exact csv_other_roundtrip. Qed.

(* the quoting scan is needed for non-string columns: [1, 2] written bare reads back as two fields *)
Theorem C40_other_unquoted_refuted :
  cell_text (COther [91; 49; 44; 32; 50; 93]) = [91; 49; 44; 32; 50; 93] /\
  csv_parse ([104; 10] ++ [91; 49; 44; 32; 50; 93] ++ [10]) = Some [[[104]]; [[91; 49]; [32; 50; 93]]] /\
  csv_doc (mkTable [[104]] [[COther [91; 49; 44; 32; 50; 93]]]) = [104; 10; 34; 91; 49; 44; 32; 50; 93; 34; 10].
Proof. exact other_unquoted_refuted. Qed.

(* integers are printed bare *)
Theorem C40_int_never_quoted : forall n : Z, csv_field (CInt n) = int_dec n.
Proof. exact int_never_quoted. Qed.

(* JSON strings: EVERY byte string round-trips *)
Theorem C40_json_roundtrip : forall s : list Z,
  forallb (fun b => 0 <=? b) s = true -> json_unescape (json_string s) = Some s.
Proof. exact json_roundtrip. Qed.

(* i64::to_string always prints an RFC 8259 number *)
Theorem C40_int_dec_number_ok : forall n : Z,
  (-9223372036854775808 <=? n) && (n <=? 9223372036854775807) = true -> json_number_ok (int_dec n) = true.
Proof. exact int_dec_number_ok. Qed.

(* JSON documents: for every well-formed table whose strings are bytes, whose integers are i64 and
   whose float texts are what std prints (NaN / inf / -inf or a decimal number), the emitted bytes
   parse to one object per row whose members are the column names with null / the string / the
   displayed number (null for a non-finite float) *)
Theorem C40_json_doc_roundtrip : forall t : table,
  table_wf t && table_typed t = true ->
  json_parse_doc (json_doc t) = Some (map (fun r => combine (t_cols t) (map jval_of r)) (t_rows t)).
Proof. exact json_doc_roundtrip. Qed.

Theorem C40_json_model_meets_spec : forall t : table,
  table_wf t && table_typed t = true -> json_spec_ok t (json_doc t) = true.
Proof. exact json_model_meets_spec. Qed.

(* ---- regression theorems: the writer before the fixes fails on these minimal inputs, the
        repaired writer round-trips them ---- *)
Theorem C40_cr_unquoted_regression :
  let t := mkTable [[104]] [[CStr [13]]] in
  csv_doc_before_fix t = [104; 10; 13; 10] /\
  csv_parse (csv_doc_before_fix t) = Some [[[104]]; [[]]] /\
  csv_parse (csv_doc_before_fix t) <> Some (csv_displayed t) /\
  csv_doc t = [104; 10; 34; 13; 34; 10] /\
  csv_parse (csv_doc t) = Some (csv_displayed t).
Proof. exact cr_unquoted_regression. Qed.

Theorem C40_cr_mid_regression :
  let t := mkTable [[104]] [[CStr [97; 13; 98]]] in
  csv_parse (csv_doc_before_fix t) = None /\ csv_parse (csv_doc t) = Some (csv_displayed t).
Proof. exact cr_mid_regression. Qed.

Theorem C40_header_unquoted_regression :
  let t := mkTable [[97; 44; 98]] [] in
  csv_parse (csv_doc_before_fix t) = Some [[[97]; [98]]] /\
  csv_parse (csv_doc_before_fix t) <> Some (csv_displayed t) /\
  csv_parse (csv_doc t) = Some (csv_displayed t).
Proof. exact header_unquoted_regression. Qed.

Theorem C40_header_quote_regression :
  let t := mkTable [[97; 34]] [] in
  csv_parse (csv_doc_before_fix t) = None /\ csv_parse (csv_doc t) = Some (csv_displayed t).
Proof. exact header_quote_regression. Qed.

(* the old escaper produced invalid JSON for EVERY string with a control character *)
Theorem C40_json_control_regression : forall s : list Z,
  existsb (fun b => b <? 32) s = true -> json_unescape (json_string_before_fix s) = None.
Proof. exact json_control_regression. Qed.

Theorem C40_control_char_regression :
  json_string_before_fix [10] = [34; 10; 34] /\ json_unescape (json_string_before_fix [10]) = None /\
  json_string [10] = [34; 92; 110; 34] /\ json_unescape (json_string [10]) = Some [10] /\
  json_string [1] = [34; 92; 117; 48; 48; 48; 49; 34] /\ json_string [31] = [34; 92; 117; 48; 48; 49; 102; 34].
Proof. exact control_char_regression. Qed.

Theorem C40_json_doc_control_regression :
  let t := mkTable [[104]] [[CStr [9]]] in
  json_parse_doc (json_doc_before_fix t) = None /\ json_parse_doc (json_doc t) = Some (json_expected t).
Proof. exact json_doc_control_regression. Qed.

Theorem C40_json_header_regression :
  let t := mkTable [[97; 34]] [[CInt 1]] in
  json_parse_doc (json_doc_before_fix t) = None /\ json_parse_doc (json_doc t) = Some (json_expected t).
Proof. exact json_header_regression. Qed.

Theorem C40_json_header_backslash_regression :
  let t := mkTable [[97; 92; 110]] [[CInt 1]] in
  json_parse_doc (json_doc_before_fix t) = Some [[([97; 10], JNum [49])]] /\
  json_parse_doc (json_doc t) = Some [[([97; 92; 110], JNum [49])]].
Proof. exact json_header_backslash_regression. Qed.

Theorem C40_json_nonfinite_regression :
  let t := mkTable [[104]] [[CFloat [78; 97; 78]]] in
  json_doc_before_fix t = [91; 10; 32; 32; 123; 34; 104; 34; 58; 32; 78; 97; 78; 125; 10; 93; 10] /\
  json_parse_doc (json_doc_before_fix t) = None /\
  json_parse_doc (json_doc t) = Some [[([104], JNull)]].
Proof. exact json_nonfinite_regression. Qed.

Print Assumptions C40_csv_roundtrip.
Print Assumptions C40_csv_model_meets_spec.
Print Assumptions C40_csv_other_roundtrip.
Print Assumptions C40_other_unquoted_refuted.
Print Assumptions C40_int_never_quoted.
Print Assumptions C40_json_roundtrip.
Print Assumptions C40_int_dec_number_ok.
Print Assumptions C40_json_doc_roundtrip.
Print Assumptions C40_json_model_meets_spec.
Print Assumptions C40_cr_unquoted_regression.
Print Assumptions C40_cr_mid_regression.
Print Assumptions C40_header_unquoted_regression.
Print Assumptions C40_header_quote_regression.
Print Assumptions C40_json_control_regression.
Print Assumptions C40_control_char_regression.
Print Assumptions C40_json_doc_control_regression.
Print Assumptions C40_json_header_regression.
Print Assumptions C40_json_header_backslash_regression.
Print Assumptions C40_json_nonfinite_regression.
