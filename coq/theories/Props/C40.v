(* C40 — CLI output formats round-trip the result.
   This file holds only statement pins, `exact` proofs and Print Assumptions.
   Bytes: 44 comma, 34 DQUOTE, 10 LF, 13 CR, 92 backslash, 9 TAB. *)
From QV Require Import Base.Util C40.Model C40.Proofs.

(* CSV: for every table outside the classes known_cr / known_header (and with >= 1 column), the
   bytes the writer emits parse, under RFC 4180, to exactly the header and the shown cell texts *)
Theorem C40_csv_roundtrip : forall t : table,
  table_wf t && negb (known_cr t) && negb (known_header t) = true ->
  csv_parse (csv_doc t) = Some (t_cols t :: map (map csv_shown) (t_rows t)).
Proof. exact csv_roundtrip. Qed.

Theorem C40_csv_model_meets_spec : forall t : table,
  csv_guard t = true -> csv_spec_ok t (csv_doc t) = true.
Proof. exact csv_model_meets_spec. Qed.

(* integer cells are never in the class *)
Theorem C40_int_never_known_cr : forall n : Z, known_cr_cell (CInt n) = false.
Proof. exact int_never_known_cr. Qed.

(* the full property is false of the writer: a cell that is one CR is written unquoted and lost *)
Theorem C40_cr_unquoted_refuted :
  let t := mkTable [[104]] [[CStr [13]]] in
  known_cr t = true /\ table_wf t = true /\ known_header t = false /\
  csv_doc t = [104; 10; 13; 10] /\
  csv_parse (csv_doc t) = Some [[[104]]; [[]]] /\
  csv_parse (csv_doc t) <> Some (csv_displayed t).
Proof. exact cr_unquoted_refuted. Qed.

(* a CR inside a cell makes the document unparsable *)
Theorem C40_cr_mid_refuted :
  let t := mkTable [[104]] [[CStr [97; 13; 98]]] in
  known_cr t = true /\ csv_parse (csv_doc t) = None.
Proof. exact cr_mid_refuted. Qed.

(* the class is exact for one cell: EVERY text with a CR that the writer leaves unquoted is lost *)
Theorem C40_cr_cell_never_roundtrips : forall h v : list Z,
  csv_plain h = true -> has 13 v && negb (csv_needs_quote v) = true ->
  csv_parse (csv_doc (mkTable [h] [[CStr v]])) <> Some (csv_displayed (mkTable [h] [[CStr v]])).
Proof. exact cr_cell_never_roundtrips. Qed.

(* column names are never quoted *)
Theorem C40_header_unquoted_refuted :
  let t := mkTable [[97; 44; 98]] [] in
  known_header t = true /\ table_wf t = true /\ known_cr t = false /\
  csv_parse (csv_doc t) = Some [[[97]; [98]]] /\
  csv_parse (csv_doc t) <> Some (csv_displayed t).
Proof. exact header_unquoted_refuted. Qed.

Theorem C40_header_quote_refuted :
  let t := mkTable [[97; 34]] [] in
  known_header t = true /\ csv_parse (csv_doc t) = None.
Proof. exact header_quote_refuted. Qed.

(* JSON strings: round trip exactly when the string has no control character *)
Theorem C40_json_roundtrip : forall s : list Z,
  forallb (fun b => 32 <=? b) s = true -> json_unescape (json_string s) = Some s.
Proof. exact json_roundtrip. Qed.

Theorem C40_json_control_never_roundtrips : forall s : list Z,
  existsb (fun b => b <? 32) s = true -> json_unescape (json_string s) = None.
Proof. exact json_control_never_roundtrips. Qed.

Theorem C40_json_roundtrip_iff : forall s : list Z,
  json_unescape (json_string s) = Some s <-> known_json_control_str s = false.
Proof. exact json_roundtrip_iff. Qed.

Theorem C40_control_char_refuted :
  known_json_control_str [10] = true /\ json_string [10] = [34; 10; 34] /\
  json_unescape (json_string [10]) = None.
Proof. exact control_char_refuted. Qed.

Theorem C40_json_doc_control_refuted :
  let t := mkTable [[104]] [[CStr [9]]] in
  known_json_control t = true /\ json_parse_doc (json_doc t) = None.
Proof. exact json_doc_control_refuted. Qed.

(* column names are never escaped *)
Theorem C40_json_header_refuted :
  let t := mkTable [[97; 34]] [[CInt 1]] in
  known_json_header t = true /\ table_wf t = true /\ json_parse_doc (json_doc t) = None.
Proof. exact json_header_refuted. Qed.

Theorem C40_json_header_backslash_refuted :
  let t := mkTable [[97; 92; 110]] [[CInt 1]] in
  known_json_header t = true /\ json_parse_doc (json_doc t) = Some [[([97; 10], JNum [49])]].
Proof. exact json_header_backslash_refuted. Qed.

(* NaN / inf / -inf are printed bare *)
Theorem C40_json_nonfinite_refuted :
  let t := mkTable [[104]] [[CFloat [78; 97; 78]]] in
  known_json_nonfinite t = true /\
  json_doc t = [91; 10; 32; 32; 123; 34; 104; 34; 58; 32; 78; 97; 78; 125; 10; 93; 10] /\
  json_parse_doc (json_doc t) = None.
Proof. exact json_nonfinite_refuted. Qed.

(* i64::to_string always prints an RFC 8259 number *)
Theorem C40_int_dec_number_ok : forall n : Z,
  (-9223372036854775808 <=? n) && (n <=? 9223372036854775807) = true -> json_number_ok (int_dec n) = true.
Proof. exact int_dec_number_ok. Qed.

(* JSON documents: for every table outside known_json_control / known_json_header /
   known_json_nonfinite, the emitted bytes parse to one object per row whose members are the
   column names with null / the string / the displayed number *)
Theorem C40_json_doc_roundtrip : forall t : table,
  table_wf t && table_typed t && negb (known_json_control t) && negb (known_json_header t)
    && negb (known_json_nonfinite t) = true ->
  json_parse_doc (json_doc t) = Some (map (fun r => combine (t_cols t) (map jval_of r)) (t_rows t)).
Proof. exact json_doc_roundtrip. Qed.

Theorem C40_json_model_meets_spec : forall t : table,
  json_guard t = true -> json_spec_ok t (json_doc t) = true.
Proof. exact json_model_meets_spec. Qed.

Print Assumptions C40_csv_roundtrip.
Print Assumptions C40_csv_model_meets_spec.
Print Assumptions C40_int_never_known_cr.
Print Assumptions C40_cr_unquoted_refuted.
Print Assumptions C40_cr_mid_refuted.
Print Assumptions C40_cr_cell_never_roundtrips.
Print Assumptions C40_header_unquoted_refuted.
Print Assumptions C40_header_quote_refuted.
Print Assumptions C40_json_roundtrip.
Print Assumptions C40_json_control_never_roundtrips.
Print Assumptions C40_json_roundtrip_iff.
Print Assumptions C40_control_char_refuted.
Print Assumptions C40_json_doc_control_refuted.
Print Assumptions C40_json_header_refuted.
Print Assumptions C40_json_header_backslash_refuted.
Print Assumptions C40_json_nonfinite_refuted.
Print Assumptions C40_int_dec_number_ok.
Print Assumptions C40_json_doc_roundtrip.
Print Assumptions C40_json_model_meets_spec.
