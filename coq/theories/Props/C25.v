(* C25 — ORDER BY, LIMIT and OFFSET mean what they say. Pins, `exact`, Print Assumptions only. *)
From QV Require Import Sql.Query Sql.QueryProofs C25.Model C25.Proofs.
From Coq Require Import Sorting.Sorted.

(* The engine model of ORDER BY .. LIMIT .. OFFSET returns the same ordered relation as the SQL
   reference outside the recorded classes (only NULL-strict kernels inside key expressions differ). *)
Theorem C25_model_agrees : forall db q keys skip fetch,
  known_q db (QLimit (QSort q keys) skip fetch) = false ->
  qeval eng_qsem db (QLimit (QSort q keys) skip fetch) = qeval sql_qsem db (QLimit (QSort q keys) skip fetch).
Proof. intros db q keys skip fetch. exact (eng_query_agrees db (QLimit (QSort q keys) skip fetch)). Qed.

(* LimitExec (counters threaded through the batch stream, partitions walked in order, early exit):
   one batch ... *)
Theorem C25_take_from_spec : forall (A : Type) skip fetch (st : lstate) (b : list A),
  (skipped st <= skip)%nat ->
  let r := take_from skip fetch st b in
  out_rows (snd r) = firstn_opt (remaining fetch st) (skipn (skip - skipped st) b) /\
  skipped (fst r) = (skipped st + Nat.min (skip - skipped st) (length b))%nat /\
  fetched (fst r) = (fetched st + length (out_rows (snd r)))%nat.
Proof. intros A. exact (@take_from_spec A). Qed.

(* ... any number of batches from any intermediate state ... *)
Theorem C25_run_batches_correct : forall (A : Type) skip fetch (bs : list (list A)) (st : lstate),
  (skipped st <= skip)%nat ->
  concat (run_batches skip fetch st bs)
  = firstn_opt (remaining fetch st) (skipn (skip - skipped st) (concat bs)).
Proof. intros A. exact (@run_batches_correct A). Qed.

(* ... LIMIT n OFFSET m returns exactly rows m+1..m+n of the input sequence, for EVERY split of the
   input into partitions and batches (empty batches and partitions included) *)
Theorem C25_limit_exec_correct : forall (A : Type) skip fetch (partitions : list (list (list A))),
  concat (limit_exec skip fetch partitions) = limit_spec skip fetch (concat (concat partitions)).
Proof. intros A. exact (@limit_exec_correct A). Qed.

Theorem C25_limit_split_irrelevant : forall (A : Type) skip fetch (p1 p2 : list (list (list A))),
  concat (concat p1) = concat (concat p2) ->
  concat (limit_exec skip fetch p1) = concat (limit_exec skip fetch p2).
Proof. intros A. exact (@limit_split_irrelevant A). Qed.

Theorem C25_satisfied_stops : forall (A : Type) skip fetch (st : lstate) (bs : list (list A)),
  satisfied fetch st = true -> run_batches skip fetch st bs = [].
Proof. intros A. exact (@satisfied_stops A). Qed.

(* a full sort followed by LIMIT k (what the planner fuses into SortExec::with_fetch when skip = 0)
   is the k-prefix of the full sort; with OFFSET it is the slice *)
Theorem C25_topk_is_prefix : forall Q db q keys k,
  qeval Q db (QLimit (QSort q keys) 0 (Some k)) = firstn k (sort_rows Q keys (qeval Q db q)).
Proof. exact topk_is_prefix. Qed.

Theorem C25_limit_over_sort_is_slice : forall Q db q keys skip fetch,
  qeval Q db (QLimit (QSort q keys) skip fetch) = limit_spec skip fetch (sort_rows Q keys (qeval Q db q)).
Proof. exact limit_over_sort_is_slice. Qed.

(* the order itself *)
Theorem C25_isort_locally_sorted : forall (A : Type) (le : A -> A -> bool),
  (forall a b, le a b = true \/ le b a = true) ->
  forall l, LocallySorted (fun a b => le a b = true) (isort le l).
Proof. intros A. exact (@isort_locally_sorted A). Qed.

Theorem C25_cmp_values_antisym : forall a b c, cmp_values a b = Some c -> cmp_values b a = Some (CompOpp c).
Proof. exact cmp_values_antisym. Qed.

Theorem C25_sort_cmp_antisym : forall d nf a b, sort_cmp d nf b a = CompOpp (sort_cmp d nf a b).
Proof. exact sort_cmp_antisym. Qed.

Theorem C25_keys_cmp_antisym : forall ks a b, keys_cmp ks b a = CompOpp (keys_cmp ks a b).
Proof. exact keys_cmp_antisym. Qed.

Theorem C25_sort_le_total : forall ks (kv : row -> list value) a b,
  (match keys_cmp ks (kv a) (kv b) with Gt => false | _ => true end) = true \/
  (match keys_cmp ks (kv b) (kv a) with Gt => false | _ => true end) = true.
Proof. exact sort_le_total. Qed.

(* ORDER BY output is a permutation of its input whose adjacent rows are in key order under the
   stated directions and NULL placement *)
Theorem C25_sort_rows_sorted_perm : forall Q keys rows,
  let flags := map (fun k => (k_desc k, k_nulls_first k)) keys in
  let kv r := map (fun k => eval (q_esem Q) r (k_expr k)) keys in
  Permutation (sort_rows Q keys rows) rows /\
  LocallySorted (fun a b => keys_cmp flags (kv a) (kv b) <> Gt) (sort_rows Q keys rows).
Proof. exact sort_rows_sorted_perm. Qed.

(* rows with identical key values keep their input order (the reference sort is stable) *)
Theorem C25_sort_rows_stable : forall Q keys rows (p : row -> bool),
  let kv r := map (fun k => eval (q_esem Q) r (k_expr k)) keys in
  (forall a b, In a rows -> In b rows -> p a = true -> p b = true -> kv a = kv b) ->
  filter p (sort_rows Q keys rows) = filter p rows.
Proof. exact sort_rows_stable. Qed.

(* NULL placement: NULLS LAST (the default) puts NULL after every value, NULLS FIRST before, in
   either direction *)
Theorem C25_nulls_last_order : forall d v,
  v <> VNull -> sort_cmp d false VNull v = Gt /\ sort_cmp d false v VNull = Lt.
Proof. exact nulls_last_order. Qed.

Theorem C25_nulls_first_order : forall d v,
  v <> VNull -> sort_cmp d true VNull v = Lt /\ sort_cmp d true v VNull = Gt.
Proof. exact nulls_first_order. Qed.

Print Assumptions C25_model_agrees.
Print Assumptions C25_take_from_spec.
Print Assumptions C25_run_batches_correct.
Print Assumptions C25_limit_exec_correct.
Print Assumptions C25_limit_split_irrelevant.
Print Assumptions C25_satisfied_stops.
Print Assumptions C25_topk_is_prefix.
Print Assumptions C25_limit_over_sort_is_slice.
Print Assumptions C25_isort_locally_sorted.
Print Assumptions C25_cmp_values_antisym.
Print Assumptions C25_sort_cmp_antisym.
Print Assumptions C25_keys_cmp_antisym.
Print Assumptions C25_sort_le_total.
Print Assumptions C25_sort_rows_sorted_perm.
Print Assumptions C25_sort_rows_stable.
Print Assumptions C25_nulls_last_order.
Print Assumptions C25_nulls_first_order.
