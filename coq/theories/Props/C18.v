(* C18 — Parquet table statistics are sound bounds.
   This file holds only statement pins, `exact` proofs and Print Assumptions.
   `statistics` is the footer fold as repaired by 2a8aa09 / f8ca7af; `statistics_before_fix` the fold before. *)
From QV Require Import Base.Util C18.Model C18.Proofs.

(* a report is always produced (no arithmetic panic) *)
Theorem C18_statistics_total : forall d t, exists r cols, statistics d t = Stats r cols.
Proof. exact statistics_total. Qed.

(* the reported row count is the sum of the row groups' row counts, whatever the statistics say *)
Theorem C18_row_count_exact : forall d t r cols,
  statistics d t = Stats r cols -> r = true_rows t.
Proof. exact row_count_exact. Qed.

(* ... which is the number of values of every column stored once per row group *)
Theorem C18_row_count_is_data_rows : forall t k,
  table_wf t = true -> forallb (forallb (col_once k)) t = true ->
  Z.of_nat (length (col_vals t k)) = true_rows t.
Proof. exact row_count_is_data_rows. Qed.

(* a reported null count is the number of NULLs of that column over all files and row groups *)
Theorem C18_null_count_exact_when_some : forall d t r cols k c n,
  table_wf t = true -> statistics d t = Stats r cols -> In (k, c) cols ->
  c_nulls c = Some n -> n = count_nulls (col_vals t k).
Proof. exact null_count_exact_when_some. Qed.

(* reported integer min/max bound every integer value of the column, for every well-formed table *)
Theorem C18_minmax_bounds : forall d t r cols k c,
  table_wf t = true -> statistics d t = Stats r cols -> In (k, c) cols ->
  (forall lo, c_min c = Some lo -> forall v, In v (col_ints t k) -> lo <= v) /\
  (forall hi, c_max c = Some hi -> forall v, In v (col_ints t k) -> v <= hi).
Proof. exact minmax_bounds. Qed.

(* the range term of ndv_est is exact up to saturation at the full i64 range, and never zero *)
Theorem C18_ndv_range_exact : forall lo hi,
  - two63 <= lo -> lo <= hi -> hi < two63 ->
  ndv_range lo hi = Z.min (hi - lo + 1) (two64 - 1) /\ 1 <= ndv_range lo hi <= two64 - 1.
Proof. exact ndv_range_exact. Qed.

(* the repaired fold meets the executable specification on every well-formed table *)
Theorem C18_model_meets_spec : forall d t,
  table_wf t = true -> stats_ok t (statistics d t) = true.
Proof. exact model_meets_spec. Qed.

(* regression: before 2a8aa09 statistics-less chunks were skipped for min/max only; now no bounds are reported *)
Theorem C18_chunk_without_stats_refuted_before_fix :
  table_wf t_statsless = true /\ known_statsless_mix t_statsless = true /\
  (forall m, exists r c, statistics_before_fix m nodict t_statsless = Stats r [(0, c)] /\ c_nulls c = None /\
     exists hi v, c_max c = Some hi /\ In v (col_ints t_statsless 0) /\ hi < v) /\
  statistics nodict t_statsless = Stats 2 [(0, mkCol None None None None)].
Proof. exact chunk_without_stats_refuted_before_fix. Qed.

(* regression: before f8ca7af `(max - min) as u64 + 1` panicked (checked) / gave 0 (wrapping); now 2 *)
Theorem C18_ndv_overflow_refuted_before_fix :
  table_wf t_wide = true /\ table_wf t_full = true /\
  statistics_before_fix Checked nodict t_wide = Panic /\
  statistics_before_fix Wrapping nodict t_full
    = Stats 2 [(0, mkCol (Some (- two63)) (Some (two63 - 1)) (Some 0) (Some 0))] /\
  statistics nodict t_wide = Stats 2 [(0, mkCol (Some (-1)) (Some (two63 - 1)) (Some 0) (Some 2))] /\
  statistics nodict t_full = Stats 2 [(0, mkCol (Some (- two63)) (Some (two63 - 1)) (Some 0) (Some 2))].
Proof. exact ndv_overflow_refuted_before_fix. Qed.

(* still false of the engine: `null_count = 0 && ndv_est >= row_count` holds of a column with duplicates *)
Theorem C18_unique_key_inference_refuted :
  exists t r c, table_wf t = true /\ statistics nodict t = Stats r [(0, c)] /\
    is_unique_key r c = true /\ ~ NoDup (col_ints t 0).
Proof. exact unique_key_inference_refuted. Qed.

Print Assumptions C18_statistics_total.
Print Assumptions C18_row_count_exact.
Print Assumptions C18_row_count_is_data_rows.
Print Assumptions C18_null_count_exact_when_some.
Print Assumptions C18_minmax_bounds.
Print Assumptions C18_ndv_range_exact.
Print Assumptions C18_model_meets_spec.
Print Assumptions C18_chunk_without_stats_refuted_before_fix.
Print Assumptions C18_ndv_overflow_refuted_before_fix.
Print Assumptions C18_unique_key_inference_refuted.
