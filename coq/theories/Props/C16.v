(* C16 — Peer HTTP responses are framed or rejected.
   This file holds only statement pins, `exact` proofs and Print Assumptions. *)
From QV Require Import Bytes.ByteStr C16.Model C16.Proofs.

(* a complete well-formed response parses to exactly its status, (lower-cased) headers and body *)
Theorem C16_parse_full : forall w, wf_syntax w = true -> parse_response (render w) = Ok (expected w).
Proof. exact parse_full. Qed.

(* REFUTED for the current code: a body shorter than the declared Content-Length is returned as success.
   Witness: "HTTP/1.1 200 OK\r\nContent-Length: 1\r\n\r\nx" with the last byte cut off. *)
Theorem C16_short_body_refuted :
  exists w k r n, wf w = true /\ (k < length (render w))%nat /\
    parse_response (firstn k (render w)) = Ok r /\
    content_length (r_headers r) = Some n /\ zlen (r_body r) < n /\
    spec_ok_trunc w (to_outcome (parse_response (firstn k (render w)))) = false /\
    known_short_body (firstn k (render w)) = true.
Proof. exact short_body_refuted. Qed.

(* the known class on truncations is exactly "cut at or after the end of the header block" *)
Theorem C16_truncation_known_iff : forall w k, wf w = true -> (k < length (render w))%nat ->
  known_short_body (firstn k (render w)) = (length (render_head w) + 4 <=? k)%nat.
Proof. exact truncation_known_iff. Qed.

(* current code: every strict prefix outside the known class is an error *)
Theorem C16_truncation_rejected_unless_known : forall w k, wf w = true -> (k < length (render w))%nat ->
  known_short_body (firstn k (render w)) = false -> parse_response (firstn k (render w)) = Err.
Proof. exact truncation_rejected_unless_known. Qed.

(* with the Content-Length check: EVERY strict prefix of a well-formed response is an error ... *)
Theorem C16_truncation_rejected_checked : forall w k, wf w = true -> (k < length (render w))%nat ->
  parse_response_checked (firstn k (render w)) = Err.
Proof. exact truncation_rejected_checked. Qed.

(* ... the complete response is still returned whole ... *)
Theorem C16_full_response_checked : forall w, wf w = true ->
  known_short_body (render w) = false /\ parse_response_checked (render w) = Ok (expected w).
Proof. exact full_response_checked. Qed.

(* ... and for ANY byte stream a returned body is never shorter than the Content-Length returned with it *)
Theorem C16_checked_body_ge_cl : forall raw r n, parse_response_checked raw = Ok r ->
  content_length (r_headers r) = Some n -> n <= zlen (r_body r).
Proof. exact checked_body_ge_cl. Qed.

(* the two parsers differ exactly on the known class *)
Theorem C16_checked_differs_iff : forall raw,
  parse_response_checked raw <> parse_response raw <-> known_short_body raw = true.
Proof. exact checked_differs_iff. Qed.

(* totality: the model is a total function; the only slice indices are in range for every input *)
Theorem C16_split_in_range : forall raw split, find_sub TERM raw = Some split -> (split + 4 <= length raw)%nat.
Proof. exact split_in_range. Qed.

(* any byte stream outside the known class: the current parser's outcome satisfies the executable spec *)
Theorem C16_model_meets_spec_raw_unless_known : forall raw, known_short_body raw = false ->
  spec_ok_raw raw (to_outcome (parse_response raw)) = true.
Proof. exact model_meets_spec_raw_unless_known. Qed.

Theorem C16_checked_meets_spec_raw : forall raw, spec_ok_raw raw (to_outcome (parse_response_checked raw)) = true.
Proof. exact checked_meets_spec_raw. Qed.

Print Assumptions C16_parse_full.
Print Assumptions C16_short_body_refuted.
Print Assumptions C16_truncation_known_iff.
Print Assumptions C16_truncation_rejected_unless_known.
Print Assumptions C16_truncation_rejected_checked.
Print Assumptions C16_full_response_checked.
Print Assumptions C16_checked_body_ge_cl.
Print Assumptions C16_checked_differs_iff.
Print Assumptions C16_split_in_range.
Print Assumptions C16_model_meets_spec_raw_unless_known.
Print Assumptions C16_checked_meets_spec_raw.
