(* C09 — A distributed answer equals the single-node answer.
   This file holds only statement pins, `exact` proofs and Print Assumptions. *)
From Coq Require Import String.
From QV Require Import Sql.Query C09.Model C09.Proofs C09.ProofsGroup C09.ProofsTopN C09.ProofsScan.
Open Scope string_scope.
Open Scope list_scope.
Open Scope Z_scope.

(* ---- the partial/final rewriting ---- *)

(* Rewriter::rewrite: for every expression over group keys, literals and COUNT( * ), COUNT, SUM/MIN/MAX/AVG, the merge
   expression evaluated over the partial rows of ANY non-empty family of parts (shards that hold the group; for a
   statement without GROUP BY every active shard, empty ones included) equals the original expression over the
   union of the parts.  COUNT -> SUM of counts, SUM/MIN/MAX idempotent, AVG -> CAST(SUM s)/CAST(SUM c); the
   all-NULL group comes out as NULL / 0.0 = NULL.  The merge expression reads only partial items it created. *)
Theorem C09_rewrite_sound : forall (R K : Type) (kv : K -> nat -> value) (argv : R -> nat -> option Z)
    (e : aexpr) (items : list pitem) (e' : fexpr) (items' : list pitem),
  rewrite e items = Some (e', items') ->
  exists more, items' = items ++ more /\
    forall ext k (parts : list (list R)), parts <> [] ->
      feval kv k (map (pitems_eval argv (items' ++ ext)) parts) e' = aeval kv argv k (concat parts) e.
Proof. exact @rewrite_sound. Qed.

(* a shape with no exact partial/final split (a bare column, a DISTINCT aggregate) is refused, exactly *)
Theorem C09_rewrite_refuses_iff : forall (e : aexpr) (items : list pitem),
  rewrite e items = None <-> unsplittable e = true.
Proof. exact rewrite_none_iff. Qed.

(* two_phase_exact: for EVERY split of the rows into shards — nodes without splits (skipped), nodes whose shard
   is empty or misses a group, all-NULL groups, no active node at all (the initiator answers over an empty
   shard) — the merge query over the collected partial rows is the single-node aggregate, group for group and in
   the same group order; with or without GROUP BY *)
Theorem C09_two_phase_exact : forall (R K : Type) (keqb : K -> K -> bool),
  (forall a b, keqb a b = true <-> a = b) ->
  forall (keyf : R -> K) (kv : K -> nat -> value) (argv : R -> nat -> option Z) (kglobal : K)
         (grouped : bool) (es : list aexpr) (shards : list (nat * list R)),
  (forall s, In s shards -> fst s = 0%nat -> snd s = []) ->
  forall out, two_phase keqb keyf kv argv kglobal grouped es shards = Some out ->
  out = aggregate keqb keyf kv argv kglobal grouped es (concat (map snd shards)).
Proof. exact @two_phase_exact. Qed.

Theorem C09_two_phase_refuses : forall (R K : Type) (keqb : K -> K -> bool) (keyf : R -> K) (kv : K -> nat -> value)
    (argv : R -> nat -> option Z) (kglobal : K) (grouped : bool) (es : list aexpr) (shards : list (nat * list R)),
  two_phase keqb keyf kv argv kglobal grouped es shards = None <-> existsb unsplittable es = true.
Proof. exact @two_phase_refuses. Qed.

(* ---- top-N ---- *)

(* every worker sorted and truncated to n+m rows, the initiator sorts the union and takes LIMIT n OFFSET m: the key
   sequence is the single-node key sequence (ties: which of several rows with equal keys is returned is free) ... *)
Theorem C09_topn_pretruncate : forall (R Key : Type) (key : R -> Key) (kle : Key -> Key -> bool),
  (forall a b, kle a b = true \/ kle b a = true) ->
  (forall a b c, kle a b = true -> kle b c = true -> kle a c = true) ->
  (forall a b, kle a b = true -> kle b a = true -> a = b) ->
  forall (n m : nat) (shards : list (list R)),
  map key (topn_distributed key kle (n + m) n m shards) = map key (topn key kle n m (concat shards)).
Proof. exact @topn_pretruncate. Qed.

(* ... and the returned rows are rows of the table, with multiplicity *)
Theorem C09_topn_rows_are_table_rows : forall (R Key : Type) (key : R -> Key) (kle : Key -> Key -> bool)
    (keep n m : nat) (shards : list (list R)),
  exists rest, Permutation (topn_distributed key kle keep n m shards ++ rest) (concat shards).
Proof. exact @topn_rows_are_table_rows. Qed.

(* keeping MORE rows per shard than LIMIT+OFFSET is exact too (what a saturating addition would do) *)
Theorem C09_topn_pretruncate_ge : forall (R Key : Type) (key : R -> Key) (kle : Key -> Key -> bool),
  (forall a b, kle a b = true \/ kle b a = true) ->
  (forall a b c, kle a b = true -> kle b c = true -> kle a c = true) ->
  (forall a b, kle a b = true -> kle b a = true -> a = b) ->
  forall (keep n m : nat) (shards : list (list R)), (n + m <= keep)%nat ->
  map key (topn_distributed key kle keep n m shards) = map key (topn key kle n m (concat shards)).
Proof. exact @topn_pretruncate_ge. Qed.

(* `limit + offset` on u64: exact while it does not overflow ... *)
Theorem C09_topn_pretruncate_u64 : forall (R : Type) (key : R -> Z) (limit offset : Z) (shards : list (list R)),
  0 <= limit -> 0 <= offset -> known_keep_overflow limit offset = false ->
  keep_checked limit offset = Some (keep_release limit offset) /\
  map key (topn_distributed key Z.leb (Z.to_nat (keep_release limit offset)) (Z.to_nat limit) (Z.to_nat offset) shards)
  = map key (topn key Z.leb (Z.to_nat limit) (Z.to_nat offset) (concat shards)).
Proof. exact @topn_pretruncate_u64. Qed.

(* ... and when it does (class topn-keep-overflow) the checked build panics and the wrapping build keeps 0 rows *)
Theorem C09_topn_keep_overflow_refuted :
  exists limit offset (shards : list (list Z)),
    0 <= limit < W64 /\ 0 <= offset < W64 /\ known_keep_overflow limit offset = true /\
    keep_checked limit offset = None /\
    topn_distributed (fun x => x) Z.leb (Z.to_nat (keep_release limit offset)) (Z.to_nat limit) (Z.to_nat offset) shards = [] /\
    topn (fun x => x) Z.leb (Z.to_nat limit) (Z.to_nat offset) (concat shards) = [2].
Proof. exact topn_keep_overflow_refuted. Qed.

(* ---- collecting the shards: zero / one participant, every shard empty ---- *)

Theorem C09_zero_participants_refused : forall (R : Type) (esr : list (list R)),
  concat_merge esr [] = inl ENoMembers.
Proof. exact @zero_participants_refused. Qed.

(* "no shard returned a schema" is returned exactly in the class single-local-empty ... *)
Theorem C09_no_schema_iff_known : forall (R : Type) (esr : list (list R)) (nodes : list (node R)),
  nodes <> [] -> (concat_merge esr nodes = inl ENoSchema <-> known_local_empty esr nodes = true).
Proof. exact @no_schema_iff_known. Qed.

(* ... outside it the Concat answer is the bag of the nodes' rows (idle nodes, empty shards, placeholders) ... *)
Theorem C09_concat_exact : forall (R : Type) (esr : list (list R)) (nodes : list (node R)),
  nodes <> [] ->
  (forall n, In n nodes -> n_splits n = 0%nat -> rows_of n = []) -> concat esr = [] ->
  known_local_empty esr nodes = false ->
  exists rows, concat_merge esr nodes = inr rows /\ Permutation rows (concat (map rows_of nodes)).
Proof. exact @concat_exact. Qed.

(* ... and inside it the single node returns the empty relation where the distributed run fails *)
Theorem C09_single_local_empty_refuted : forall (R : Type),
  exists nodes : list (node R),
    nodes <> [] /\ concat (map rows_of nodes) = [] /\ known_local_empty [] nodes = true
    /\ concat_merge [] nodes = inl ENoSchema.
Proof. exact @single_local_empty_refuted. Qed.

(* ---- verify_alias_closure ---- *)

(* a leftover bare word that is not a generated alias / the partial table / a listed keyword / digit-led is rejected
   wherever it stands (outside quotes, not followed by an opening parenthesis) *)
Theorem C09_alias_closure_complete : forall (pre w : list Z) (c : Z) (post : list Z) (ok0 : bool),
  fold_left scan_step pre scan_init = mkScan [] false ok0 ->
  w <> [] -> forallb is_word w = true ->
  is_word c = false -> c <> 34 -> c <> 40 ->
  reserved w = false ->
  verify_alias_closure (pre ++ w ++ c :: post) = false.
Proof. exact alias_closure_complete. Qed.

(* the exclusion is by name: a base column named like a listed keyword passes this net *)
Theorem C09_alias_closure_reserved_name_refuted :
  exists w, w <> [] /\ forallb is_word w = true /\ reserved w = true
            /\ verify_alias_closure (zs "SELECT qe_g0 AS ""b"", SUM(" ++ w ++ zs ") AS ""s"" FROM qe_dist_partial") = true
            /\ verify_alias_closure (zs "SELECT " ++ w ++ zs " FROM qe_dist_partial") = true.
Proof. exact alias_closure_reserved_name_refuted. Qed.

(* ---- class shard-ndv-unique on the model: in a 3-row shard of a 24-row table a NULL-free key with values 0..2
   looks unique (ndv_est = 3 >= 3 rows); GROUP BY k instead of GROUP BY k, d merges two of the shard's groups ---- *)
Theorem C09_shard_ndv_refuted :
  let shard : list (Z * Z) := [(0, 0); (0, 3); (1, 2)] in
  known_shard_ndv [mkKeyStat true 0 24 0 2; mkKeyStat true 0 24 0 3] [3] = true
  /\ length (aggregate pair_eqb (fun r => r) (fun k _ => VInt (fst k)) (fun _ _ => None) (0, 0) true [AAgg ACountStar 0] shard) = 3%nat
  /\ length (aggregate Z.eqb fst (fun k _ => VInt k) (fun _ _ => None) 0 true [AAgg ACountStar 0] shard) = 2%nat.
Proof. exact shard_ndv_refuted. Qed.

Print Assumptions C09_rewrite_sound.
Print Assumptions C09_rewrite_refuses_iff.
Print Assumptions C09_two_phase_exact.
Print Assumptions C09_two_phase_refuses.
Print Assumptions C09_topn_pretruncate.
Print Assumptions C09_topn_rows_are_table_rows.
Print Assumptions C09_topn_pretruncate_ge.
Print Assumptions C09_topn_pretruncate_u64.
Print Assumptions C09_topn_keep_overflow_refuted.
Print Assumptions C09_zero_participants_refused.
Print Assumptions C09_no_schema_iff_known.
Print Assumptions C09_concat_exact.
Print Assumptions C09_single_local_empty_refuted.
Print Assumptions C09_alias_closure_complete.
Print Assumptions C09_alias_closure_reserved_name_refuted.
Print Assumptions C09_shard_ndv_refuted.
