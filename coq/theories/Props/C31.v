(* C31 — Every optimizer rule returns a well-formed plan. Pins, `exact`, Print Assumptions only.
   `wf_plan`, `schema_eq` (C31/Model.v) are the SAME functions the check evaluates on the engine's serialised plans. *)
From QV Require Import C31.Model C31.Proofs.
Open Scope Z_scope.

(* how a column reference is resolved when the plan runs (filter.rs find_column_index): it resolves iff SOME field of the
   schema carries its bare name; qualifiers only select among several such fields *)
Theorem C31_resolves_iff : forall s c, resolves s c = existsb (fun f => f_name f =? r_name c) s.
Proof. exact resolves_iff. Qed.

(* rule_preserves_wf: each modelled rewrite maps a well-formed plan (all references resolve against the child schemas or the
   enclosing scopes, expression lists match the declared schemas) to a well-formed plan with the same output schema
   (qualifiers, names, types) *)
Theorem C31_conj_split_preserves_wf : forall n outer p,
  wf_plan outer p = true ->
  wf_plan outer (conj_split n p) = true /\ schema_eq (schema_of (conj_split n p)) (schema_of p) = true.
Proof. exact conj_split_preserves_wf. Qed.

Theorem C31_push_filter_left_preserves_wf : forall outer p,
  wf_plan outer p = true ->
  wf_plan outer (push_filter_left p) = true /\ schema_eq (schema_of (push_filter_left p)) (schema_of p) = true.
Proof. exact push_filter_left_preserves_wf. Qed.

Theorem C31_prune_scan_preserves_wf : forall outer p,
  wf_plan outer p = true ->
  wf_plan outer (prune_scan p) = true /\ schema_eq (schema_of (prune_scan p)) (schema_of p) = true.
Proof. exact prune_scan_preserves_wf. Qed.

Theorem C31_pack_join_keys_preserves_wf : forall outer p,
  wf_plan outer p = true ->
  wf_plan outer (pack_join_keys p) = true /\ schema_eq (schema_of (pack_join_keys p)) (schema_of p) = true.
Proof. exact pack_join_keys_preserves_wf. Qed.

Theorem C31_pack_group_keys_preserves_wf : forall pk ty64 outer p,
  wf_plan outer p = true ->
  wf_plan outer (pack_group_keys pk ty64 p) = true
  /\ schema_eq (schema_of (pack_group_keys pk ty64 p)) (schema_of p) = true.
Proof. exact pack_group_keys_preserves_wf. Qed.

Theorem C31_group_key_reduce_preserves_wf : forall fd k outer p,
  wf_plan outer p = true ->
  wf_plan outer (group_key_reduce fd k p) = true
  /\ schema_eq (schema_of (group_key_reduce fd k p)) (schema_of p) = true.
Proof. exact group_key_reduce_preserves_wf. Qed.

(* alone or in sequence *)
Theorem C31_rule_sequence_preserves_wf : forall (rules : list (plan -> plan)),
  (forall R, In R rules -> forall outer p, wf_plan outer p = true ->
     wf_plan outer (R p) = true /\ schema_eq (schema_of (R p)) (schema_of p) = true) ->
  forall outer p, wf_plan outer p = true ->
    wf_plan outer (fold_left (fun acc R => R acc) rules p) = true
    /\ schema_eq (schema_of (fold_left (fun acc R => R acc) rules p)) (schema_of p) = true.
Proof. exact rule_sequence_preserves_wf. Qed.

(* the rewrites are not vacuous: they fire on a concrete well-formed plan *)
Theorem C31_rewrites_example :
  let t := [mkField (Some 1) 10 100; mkField (Some 1) 11 100; mkField (Some 1) 12 100] in
  let agg := PAgg (PScan t []) [[mkRef (Some 1) 10]; [mkRef (Some 1) 11]] [[mkRef None 12]]
                  [mkField None 10 100; mkField None 11 100; mkField None 20 100] in
  wf_plan [] agg = true /\
  wf_plan [] (group_key_reduce (fun i => 900 + Z.of_nat i) 0 agg) = true /\
  group_key_reduce (fun i => 900 + Z.of_nat i) 0 agg <> agg /\
  wf_plan [] (pack_group_keys 800 100 agg) = true /\ pack_group_keys 800 100 agg <> agg.
Proof. exact rewrites_example. Qed.

Print Assumptions C31_resolves_iff.
Print Assumptions C31_conj_split_preserves_wf.
Print Assumptions C31_push_filter_left_preserves_wf.
Print Assumptions C31_prune_scan_preserves_wf.
Print Assumptions C31_pack_join_keys_preserves_wf.
Print Assumptions C31_pack_group_keys_preserves_wf.
Print Assumptions C31_group_key_reduce_preserves_wf.
Print Assumptions C31_rule_sequence_preserves_wf.
Print Assumptions C31_rewrites_example.
