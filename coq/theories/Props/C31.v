(* C31 — Every optimizer rule returns a well-formed plan. Pins, `exact`, Print Assumptions only.
   `wf_plan`, `wf_plan_q`, `schema_eq` (C31/Model.v) are the SAME functions the check evaluates on the engine's serialised plans.
   wf_plan  = wf_plan_gen resolves   : every reference resolves the way the executor resolves it (find_column_index);
   wf_plan_q = wf_plan_gen resolves_q : ... and a qualified reference q.n denotes a field (q, n) or an unqualified field n,
                                        never the same-named column of another relation. *)
From QV Require Import C31.Model C31.Proofs.
Open Scope Z_scope.

(* how a column reference is resolved when the plan runs (filter.rs find_column_index): it resolves iff SOME field of the
   schema carries its bare name; qualifiers only select among several such fields *)
Theorem C31_resolves_iff : forall s c, resolves s c = existsb (fun f => f_name f =? r_name c) s.
Proof. exact resolves_iff. Qed.
Theorem C31_resolves_q_resolves : forall s c, resolves_q s c = true -> resolves s c = true.
Proof. exact resolves_q_resolves. Qed.

(* a semi join pushed onto the wrong join input: executable, but its key denotes another relation's column *)
Theorem C31_wrong_side_semi_refuted :
  wf_plan [] wrong_side_semi = true /\ wf_plan_q [] wrong_side_semi = false /\
  resolve (schema_of (PScan [mkField (Some 1) 10 100; mkField (Some 1) 11 100; mkField (Some 1) 12 100] [])) (mkRef (Some 2) 10) = Some 0%nat /\
  resolves_strict [mkField (Some 1) 10 100; mkField (Some 1) 11 100; mkField (Some 1) 12 100] (mkRef (Some 2) 10) = false.
Proof. exact wrong_side_semi_refuted. Qed.

(* rule_preserves_wf: each modelled rewrite maps a well-formed plan (all references resolve against the child schemas or the
   enclosing scopes, expression lists match the declared schemas) to a well-formed plan with the same output schema
   (qualifiers, names, types) — for run-time resolution and for qualifier-respecting resolution *)
Theorem C31_conj_split_preserves_wf : forall n outer p,
  wf_plan outer p = true ->
  wf_plan outer (conj_split n p) = true /\ schema_eq (schema_of (conj_split n p)) (schema_of p) = true.
Proof. intros until p. exact (conj_split_preserves_wf resolves n outer p). Qed.
Theorem C31_conj_split_preserves_wf_q : forall n outer p,
  wf_plan_q outer p = true ->
  wf_plan_q outer (conj_split n p) = true /\ schema_eq (schema_of (conj_split n p)) (schema_of p) = true.
Proof. intros until p. exact (conj_split_preserves_wf resolves_q n outer p). Qed.

Theorem C31_push_filter_left_preserves_wf : forall outer p,
  wf_plan outer p = true ->
  wf_plan outer (push_filter_left p) = true /\ schema_eq (schema_of (push_filter_left p)) (schema_of p) = true.
Proof. intros until p. exact (push_filter_left_preserves_wf resolves resolves_ok outer p). Qed.
Theorem C31_push_filter_left_preserves_wf_q : forall outer p,
  wf_plan_q outer p = true ->
  wf_plan_q outer (push_filter_left p) = true /\ schema_eq (schema_of (push_filter_left p)) (schema_of p) = true.
Proof. intros until p. exact (push_filter_left_preserves_wf resolves_q resolves_q_ok outer p). Qed.

Theorem C31_prune_scan_preserves_wf : forall outer p,
  wf_plan outer p = true ->
  wf_plan outer (prune_scan p) = true /\ schema_eq (schema_of (prune_scan p)) (schema_of p) = true.
Proof. intros until p. exact (prune_scan_preserves_wf resolves resolves_ok outer p). Qed.
Theorem C31_prune_scan_preserves_wf_q : forall outer p,
  wf_plan_q outer p = true ->
  wf_plan_q outer (prune_scan p) = true /\ schema_eq (schema_of (prune_scan p)) (schema_of p) = true.
Proof. intros until p. exact (prune_scan_preserves_wf resolves_q resolves_q_ok outer p). Qed.

Theorem C31_pack_join_keys_preserves_wf : forall outer p,
  wf_plan outer p = true ->
  wf_plan outer (pack_join_keys p) = true /\ schema_eq (schema_of (pack_join_keys p)) (schema_of p) = true.
Proof. intros until p. exact (pack_join_keys_preserves_wf resolves outer p). Qed.
Theorem C31_pack_join_keys_preserves_wf_q : forall outer p,
  wf_plan_q outer p = true ->
  wf_plan_q outer (pack_join_keys p) = true /\ schema_eq (schema_of (pack_join_keys p)) (schema_of p) = true.
Proof. intros until p. exact (pack_join_keys_preserves_wf resolves_q outer p). Qed.

Theorem C31_pack_group_keys_preserves_wf : forall pk ty64 outer p,
  wf_plan outer p = true ->
  wf_plan outer (pack_group_keys pk ty64 p) = true /\ schema_eq (schema_of (pack_group_keys pk ty64 p)) (schema_of p) = true.
Proof. intros until p. exact (pack_group_keys_preserves_wf resolves resolves_ok pk ty64 outer p). Qed.
Theorem C31_pack_group_keys_preserves_wf_q : forall pk ty64 outer p,
  wf_plan_q outer p = true ->
  wf_plan_q outer (pack_group_keys pk ty64 p) = true /\ schema_eq (schema_of (pack_group_keys pk ty64 p)) (schema_of p) = true.
Proof. intros until p. exact (pack_group_keys_preserves_wf resolves_q resolves_q_ok pk ty64 outer p). Qed.

Theorem C31_group_key_reduce_preserves_wf : forall fd k outer p,
  wf_plan outer p = true ->
  wf_plan outer (group_key_reduce fd k p) = true /\ schema_eq (schema_of (group_key_reduce fd k p)) (schema_of p) = true.
Proof. intros until p. exact (group_key_reduce_preserves_wf resolves resolves_ok fd k outer p). Qed.
Theorem C31_group_key_reduce_preserves_wf_q : forall fd k outer p,
  wf_plan_q outer p = true ->
  wf_plan_q outer (group_key_reduce fd k p) = true /\ schema_eq (schema_of (group_key_reduce fd k p)) (schema_of p) = true.
Proof. intros until p. exact (group_key_reduce_preserves_wf resolves_q resolves_q_ok fd k outer p). Qed.

(* alone or in sequence *)
Theorem C31_rule_sequence_preserves_wf : forall (rules : list (plan -> plan)),
  (forall Rw, In Rw rules -> forall outer p, wf_plan outer p = true ->
     wf_plan outer (Rw p) = true /\ schema_eq (schema_of (Rw p)) (schema_of p) = true) ->
  forall outer p, wf_plan outer p = true ->
    wf_plan outer (fold_left (fun acc Rw => Rw acc) rules p) = true
    /\ schema_eq (schema_of (fold_left (fun acc Rw => Rw acc) rules p)) (schema_of p) = true.
Proof. exact (rule_sequence_preserves_wf resolves). Qed.
(* alone or in sequence *)
Theorem C31_rule_sequence_preserves_wf_q : forall (rules : list (plan -> plan)),
  (forall Rw, In Rw rules -> forall outer p, wf_plan_q outer p = true ->
     wf_plan_q outer (Rw p) = true /\ schema_eq (schema_of (Rw p)) (schema_of p) = true) ->
  forall outer p, wf_plan_q outer p = true ->
    wf_plan_q outer (fold_left (fun acc Rw => Rw acc) rules p) = true
    /\ schema_eq (schema_of (fold_left (fun acc Rw => Rw acc) rules p)) (schema_of p) = true.
Proof. exact (rule_sequence_preserves_wf resolves_q). Qed.

(* the rewrites are not vacuous: they fire on a concrete well-formed plan *)
Theorem C31_rewrites_example :
  let t := [mkField (Some 1) 10 100; mkField (Some 1) 11 100; mkField (Some 1) 12 100] in
  let agg := PAgg (PScan t []) [[mkRef (Some 1) 10]; [mkRef (Some 1) 11]] [[mkRef None 12]]
                  [mkField None 10 100; mkField None 11 100; mkField None 20 100] in
  wf_plan [] agg = true /\
  wf_plan [] (group_key_reduce (fun i => 900 + Z.of_nat i) 0 agg) = true /\
  group_key_reduce (fun i => 900 + Z.of_nat i) 0 agg <> agg /\
  wf_plan [] (pack_group_keys 800 100 agg) = true /\ pack_group_keys 800 100 agg <> agg.
Proof. exact rewrites_example. Qed.

Print Assumptions C31_resolves_iff.
Print Assumptions C31_resolves_q_resolves.
Print Assumptions C31_wrong_side_semi_refuted.
Print Assumptions C31_conj_split_preserves_wf.
Print Assumptions C31_conj_split_preserves_wf_q.
Print Assumptions C31_push_filter_left_preserves_wf.
Print Assumptions C31_push_filter_left_preserves_wf_q.
Print Assumptions C31_prune_scan_preserves_wf.
Print Assumptions C31_prune_scan_preserves_wf_q.
Print Assumptions C31_pack_join_keys_preserves_wf.
Print Assumptions C31_pack_join_keys_preserves_wf_q.
Print Assumptions C31_pack_group_keys_preserves_wf.
Print Assumptions C31_pack_group_keys_preserves_wf_q.
Print Assumptions C31_group_key_reduce_preserves_wf.
Print Assumptions C31_group_key_reduce_preserves_wf_q.
Print Assumptions C31_rule_sequence_preserves_wf.
Print Assumptions C31_rule_sequence_preserves_wf_q.
Print Assumptions C31_rewrites_example.
