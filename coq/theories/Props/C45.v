(* C45 — Gathered tables carry every column the statement reads.
   This file holds only statement pins, `exact` proofs and Print Assumptions. *)
From QV Require Import Base.Util C45.Model C45.Proofs.

(* collect_scans as coded (plan inputs only): whenever no expression of the optimized plan still carries a subquery
   plan, every table the statement scans is gathered and every column it reads — projected columns, scan-filter
   columns, the one column of a COUNT( * )-shaped scan, the union over self-joins — is among the gathered columns, so
   re-running the statement over the gathered tables binds *)
Theorem C45_collect_scans_covers_when_no_subquery_exprs : forall (schema : nat -> list nat) (p : plan),
  known_subquery_expr p = false -> rebinds schema (collect_scans schema p) p = true.
Proof. exact collect_scans_covers_when_no_subquery_exprs. Qed.

(* subquery_expr_not_walked_refuted: LogicalPlan::children() does not enter expressions, so a subquery the optimizer
   left as an expression is not walked: its table is not gathered at all (first witness), or a column of a gathered
   table that only the subquery reads is missing (second witness); the repaired walk covers both *)
Theorem C45_subquery_expr_not_walked_refuted :
  known_subquery_expr ex_other_table = true
  /\ rebinds ex_schema (collect_scans ex_schema ex_other_table) ex_other_table = false
  /\ gathered_table (collect_scans ex_schema ex_other_table) 1 = false
  /\ known_subquery_expr ex_other_column = true
  /\ rebinds ex_schema (collect_scans ex_schema ex_other_column) ex_other_column = false
  /\ gathered_col (collect_scans ex_schema ex_other_column) 0 2 = false
  /\ rebinds ex_schema (collect_fix ex_schema ex_other_table) ex_other_table = true
  /\ rebinds ex_schema (collect_fix ex_schema ex_other_column) ex_other_column = true.
Proof. exact subquery_expr_not_walked_refuted. Qed.

(* the repaired walk (plan inputs AND the subquery plans inside every node's expressions) always covers *)
Theorem C45_fix_covers : forall (schema : nat -> list nat) (p : plan),
  rebinds schema (collect_fix schema p) p = true.
Proof. exact fix_covers. Qed.

(* outside the recorded class the two walks are the same function *)
Theorem C45_collect_same : forall (schema : nat -> list nat) (p : plan),
  known_subquery_expr p = false -> collect_fix schema p = collect_scans schema p.
Proof. exact collect_same. Qed.

Print Assumptions C45_collect_scans_covers_when_no_subquery_exprs.
Print Assumptions C45_subquery_expr_not_walked_refuted.
Print Assumptions C45_fix_covers.
Print Assumptions C45_collect_same.
