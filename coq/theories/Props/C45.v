(* C45 — Gathered tables carry every column the statement reads.
   This file holds only statement pins, `exact` proofs and Print Assumptions. *)
From QV Require Import Base.Util C45.Model C45.Proofs C45.ProofsMerge.

(* collect_scans as coded (plan inputs only): whenever no expression of the optimized plan still carries a subquery
   plan, every table the statement scans is gathered and every column it reads — projected columns, scan-filter
   columns, the one column of a COUNT( * )-shaped scan, the union over self-joins — is among the gathered columns, so
   re-running the statement over the gathered tables binds *)
Theorem C45_collect_scans_covers_when_no_subquery_exprs : forall (schema : nat -> list nat) (p : plan),
  known_subquery_expr p = false -> rebinds schema (collect_scans schema p) p = true.
Proof. exact collect_scans_covers_when_no_subquery_exprs. Qed.

(* subquery_expr_not_walked_refuted: LogicalPlan::children() does not enter expressions, so a subquery the optimizer
   left as an expression is not walked: its table is not gathered at all (first witness), or a column of a gathered
   table that only the subquery reads is missing (second witness); the repaired walk covers both *)
Theorem C45_subquery_expr_not_walked_refuted :
  known_subquery_expr ex_other_table = true
  /\ rebinds ex_schema (collect_scans ex_schema ex_other_table) ex_other_table = false
  /\ gathered_table (collect_scans ex_schema ex_other_table) 1 = false
  /\ known_subquery_expr ex_other_column = true
  /\ rebinds ex_schema (collect_scans ex_schema ex_other_column) ex_other_column = false
  /\ gathered_col (collect_scans ex_schema ex_other_column) 0 2 = false
  /\ rebinds ex_schema (collect_fix ex_schema ex_other_table) ex_other_table = true
  /\ rebinds ex_schema (collect_fix ex_schema ex_other_column) ex_other_column = true.
Proof. exact subquery_expr_not_walked_refuted. Qed.

(* the repaired walk (plan inputs AND the subquery plans inside every node's expressions) always covers *)
Theorem C45_fix_covers : forall (schema : nat -> list nat) (p : plan),
  rebinds schema (collect_fix schema p) p = true.
Proof. exact fix_covers. Qed.

(* outside the recorded class the two walks are the same function *)
Theorem C45_collect_same : forall (schema : nat -> list nat) (p : plan),
  known_subquery_expr p = false -> collect_fix schema p = collect_scans schema p.
Proof. exact collect_same. Qed.

(* ---- the merge of the per-scan requirements (gather.rs: "Widest wins: None absorbs everything") ---- *)

(* for an ARBITRARY sequence of scans in any visiting order — the all-columns scan of a table first, last or between
   narrower ones — the table is gathered and its gathered column set contains every column any scan of it reads *)
Theorem C45_merged_contains_every_scan : forall (reqs : list (nat * option (list nat))) (t : nat) (cols : option (list nat)),
  In (t, cols) reqs ->
  merged_table (merge_scans reqs) t = true
  /\ match cols with
     | None => forall n, merged_col (merge_scans reqs) t n = true
     | Some l => forall n, In n l -> merged_col (merge_scans reqs) t n = true
     end.
Proof. exact merged_contains_every_scan. Qed.

(* the map built scan by scan is exactly "some scan of t wants everything, or some scan of t lists n" ... *)
Theorem C45_merge_keeps_every_column : forall (reqs : list (nat * option (list nat))) (t n : nat),
  merged_col (merge_scans reqs) t n = gathered_col reqs t n
  /\ merged_table (merge_scans reqs) t = gathered_table reqs t.
Proof. exact merge_keeps_every_column. Qed.

(* ... so the visiting order is irrelevant *)
Theorem C45_merge_order_irrelevant : forall (a b : list (nat * option (list nat))) (t n : nat), Permutation a b ->
  merged_col (merge_scans a) t n = merged_col (merge_scans b) t n
  /\ merged_table (merge_scans a) t = merged_table (merge_scans b) t.
Proof. exact merge_order_irrelevant. Qed.

(* refuted for a merge whose last arm replaces whatever is there: "all columns" met BEFORE a narrower scan is lost *)
Theorem C45_wrong_merge_refuted :
  let all_first := [(1, None); (1, Some [3])]%nat in
  let all_last := [(1, Some [3]); (1, None)]%nat in
  let all_middle := [(1, Some [3]); (1, None); (1, Some [3])]%nat in
  In (1%nat, None) all_first
  /\ merged_col (merge_scans_wrong all_first) 1 4 = false
  /\ merged_col (merge_scans_wrong all_last) 1 4 = true
  /\ merged_col (merge_scans_wrong all_middle) 1 4 = false
  /\ merged_col (merge_scans all_first) 1 4 = true
  /\ merged_col (merge_scans all_last) 1 4 = true
  /\ merged_col (merge_scans all_middle) 1 4 = true.
Proof. exact wrong_merge_refuted. Qed.

(* end to end: the statement re-run over the tables registered from the final map of the (repaired) walk binds *)
Theorem C45_gather_plan_rebinds : forall (schema : nat -> list nat) (p : plan),
  rebinds_map schema (merge_scans (collect_fix schema p)) p = true.
Proof. exact gather_plan_rebinds. Qed.

Print Assumptions C45_collect_scans_covers_when_no_subquery_exprs.
Print Assumptions C45_subquery_expr_not_walked_refuted.
Print Assumptions C45_fix_covers.
Print Assumptions C45_collect_same.
Print Assumptions C45_merged_contains_every_scan.
Print Assumptions C45_merge_keeps_every_column.
Print Assumptions C45_merge_order_irrelevant.
Print Assumptions C45_wrong_merge_refuted.
Print Assumptions C45_gather_plan_rebinds.
