(* C02 — Three-valued logic decides which rows a predicate keeps.
   Only statement pins, `exact` proofs and Print Assumptions. *)
From QV Require Import Sql.Expr Sql.LikeProofs C02.Proofs.

(* The engine's interpreter model (NULL-strict AND/OR/IN/BETWEEN kernels, greedy LIKE matcher with
   fast paths) computes the SQL three-valued value of EVERY expression on EVERY row, unless some
   AND/OR/IN/BETWEEN node has a NULL operand beside a dominating one (the recorded class). *)
Theorem C02_eng_agrees_outside_dominated : forall (r : row) (e : expr),
  dominated r e = false -> eval eng_sem r e = eval sql_sem r e.
Proof. exact (fun r => eng_agrees_outside_dominated r classify_like_correct like_match_correct). Qed.

Theorem C02_keep_agrees_outside_dominated : forall (r : row) (e : expr),
  dominated r e = false -> keeps (eval eng_sem r e) = keeps (eval sql_sem r e).
Proof. exact (fun r => keep_agrees_outside_dominated r classify_like_correct like_match_correct). Qed.

(* LIKE: the engine's matcher (greedy single-star backtracking, and the classify_like fast paths)
   equals the textbook definition for all strings and patterns. *)
Theorem C02_like_match_correct : forall s p, like_match s p = like_spec p s.
Proof. exact like_match_correct. Qed.
Theorem C02_classify_like_correct : forall s p, like_eng s p = like_spec p s.
Proof. exact classify_like_correct. Qed.

(* Inside the class the deviation is real (the known finding), with the property's own examples. *)
Theorem C02_strict_or_refuted :
  let e := EOr (ECmp CEq (ECol 0) (ELit (VInt 1))) (ECmp CEq (ECol 1) (ELit (VInt 1))) in
  dominated row1 e = true /\ keeps (eval sql_sem row1 e) = true /\ keeps (eval eng_sem row1 e) = false.
Proof. exact strict_or_refuted. Qed.
Theorem C02_strict_not_and_refuted :
  let e := ENot (EAnd (ECmp CEq (ECol 0) (ELit (VInt 5))) (ECmp CEq (ECol 1) (ELit (VInt 7)))) in
  dominated row1 e = true /\ keeps (eval sql_sem row1 e) = true /\ keeps (eval eng_sem row1 e) = false.
Proof. exact strict_not_and_refuted. Qed.
Theorem C02_in_list_null_refuted :
  let e := EIn (ECol 1) [ELit (VInt 1); ELit VNull] false in
  dominated row1 e = true /\ keeps (eval sql_sem row1 e) = true /\ keeps (eval eng_sem row1 e) = false.
Proof. exact in_list_null_refuted. Qed.

(* reference semantics sanity: Kleene laws, and the two examples of the property text *)
Theorem C02_kleene_laws :
  (forall a b, and3 a b = and3 b a) /\ (forall a b, or3 a b = or3 b a) /\
  (forall a b, not3 (and3 a b) = or3 (not3 a) (not3 b)) /\ or3 U T = T /\ not3 (and3 U F) = T.
Proof. exact (conj and3_comm (conj or3_comm (conj de_morgan_and (conj null_or_true not_null_and_false)))). Qed.

(* a strict AND and a Kleene AND keep the same rows: why conjunctive WHERE clauses are unaffected *)
Theorem C02_and_keep_same : forall x y, keeps (lift2 and_strict x y) = keeps (lift2 and3 x y).
Proof. exact and_keep_same. Qed.

Print Assumptions C02_eng_agrees_outside_dominated.
Print Assumptions C02_keep_agrees_outside_dominated.
Print Assumptions C02_like_match_correct.
Print Assumptions C02_classify_like_correct.
Print Assumptions C02_strict_or_refuted.
Print Assumptions C02_strict_not_and_refuted.
Print Assumptions C02_in_list_null_refuted.
Print Assumptions C02_kleene_laws.
Print Assumptions C02_and_keep_same.
