(* C22 — Joins follow SQL join semantics. Pins, `exact`, Print Assumptions only. *)
From QV Require Import Sql.Query Sql.QueryProofs C22.Proofs.

(* The engine model of every join type is the nested-loop SQL join: whole-query agreement with the
   reference semantics outside the recorded classes (only the NULL-strict AND/OR kernels inside ON
   predicates can differ, class dominated-null). *)
Theorem C22_join_model_agrees : forall db jt l r on,
  known_q db (QJoin jt l r on) = false ->
  qeval eng_qsem db (QJoin jt l r on) = qeval sql_qsem db (QJoin jt l r on).
Proof. intros db jt l r on. exact (eng_query_agrees db (QJoin jt l r on)). Qed.

(* A hash join — build side holds the rows with non-NULL keys, probe finds key-equal rows and applies
   the residual predicate to each candidate pair before any match tracking — finds exactly the rows the
   ON predicate accepts, for every key list, residual and input. *)
Theorem C22_probe_correct : forall lk rk residual (R : rel) (l : row),
  probe lk rk residual (build rk R) l = filter (on_pred lk rk residual l) R.
Proof. exact probe_correct. Qed.

Theorem C22_hash_join_inner_equiv : forall wl wr lk rk residual (L R : rel),
  hash_join_inner lk rk residual L R = join_gen JInner wl wr (on_pred lk rk residual) L R.
Proof. exact hash_join_inner_equiv. Qed.
Theorem C22_hash_join_left_equiv : forall wl wr lk rk residual (L R : rel),
  hash_join_left wr lk rk residual L R = join_gen JLeft wl wr (on_pred lk rk residual) L R.
Proof. exact hash_join_left_equiv. Qed.
Theorem C22_hash_join_semi_equiv : forall wl wr lk rk residual (L R : rel),
  hash_join_semi lk rk residual L R = join_gen JSemi wl wr (on_pred lk rk residual) L R.
Proof. exact hash_join_semi_equiv. Qed.
Theorem C22_hash_join_anti_equiv : forall wl wr lk rk residual (L R : rel),
  hash_join_anti lk rk residual L R = join_gen JAnti wl wr (on_pred lk rk residual) L R.
Proof. exact hash_join_anti_equiv. Qed.

(* NULL keys never match; LEFT JOIN NULL-extends the unmatched row *)
Theorem C22_null_key_never_matches : forall wl wr lk rk residual (l : row) (R : rel),
  has_null (key_of lk l) = true ->
  join_gen JInner wl wr (on_pred lk rk residual) [l] R = [] /\
  join_gen JLeft wl wr (on_pred lk rk residual) [l] R = [l ++ nulls wr].
Proof. exact null_key_never_matches. Qed.

(* semi and anti join split the left input *)
Theorem C22_semi_anti_partition : forall wl wr ok (L R : rel),
  Permutation (join_gen JSemi wl wr ok L R ++ join_gen JAnti wl wr ok L R) L.
Proof. exact semi_anti_partition. Qed.

(* the result is independent of which side is iterated in the outer loop (= which side is built on) *)
Theorem C22_build_side_irrelevant : forall wl wr ok (L R : rel),
  Permutation (inner_right_major ok L R) (join_gen JInner wl wr ok L R).
Proof. exact build_side_irrelevant. Qed.

Print Assumptions C22_join_model_agrees.
Print Assumptions C22_probe_correct.
Print Assumptions C22_hash_join_inner_equiv.
Print Assumptions C22_hash_join_left_equiv.
Print Assumptions C22_hash_join_semi_equiv.
Print Assumptions C22_hash_join_anti_equiv.
Print Assumptions C22_null_key_never_matches.
Print Assumptions C22_semi_anti_partition.
Print Assumptions C22_build_side_irrelevant.
