(* C06 — Compiled predicates are indistinguishable from the interpreter.
   This file holds only statement pins, `exact` proofs and Print Assumptions.
   `fop` is the (uninterpreted) f64 +,-,*,/ shared by the compiled code and the arrow kernels. *)
From QV Require Import Base.Util C06.Model C06.Proofs C06.FlocqGrid.

(* the property outside the known classes: for every expression the compiler accepts and every
   well-formed batch of ANY length, compiled mask+validity = interpreted mask+validity *)
Theorem C06_compile_correct : forall (fop : arith -> Z -> Z -> Z) e b p,
  wf_batch b -> compile e (schema_of b) = Some p ->
  known_special_f64 fop e b = false ->
  run fop p b = interp fop e b.
Proof. exact compile_correct. Qed.

(* row-level form: neither evaluator fails/panics/declines, and they agree on every row that is not a
   valid row with a NaN or a (+0.0,-0.0) pair in a Float64 comparison *)
Theorem C06_compile_correct_rows : forall (fop : arith -> Z -> Z -> Z) e b p,
  wf_batch b -> compile e (schema_of b) = Some p ->
  exists rc ri, run fop p b = Some rc /\ interp fop e b = Some ri /\
    length rc = b_rows b /\ length ri = b_rows b /\
    forall i, (i < b_rows b)%nat -> special_row fop e b i = false -> nth i rc None = nth i ri None.
Proof. exact compile_correct_rows. Qed.

(* SSA-shaped register use (justifies split_at_mut), register budget, output register exists *)
Theorem C06_ssa_regs : forall (fop : arith -> Z -> Z -> Z) e s p,
  compile e s = Some p ->
  ssa_run 0 0 (p_prog p) = Some (p_fregs p, p_mregs p) /\
  (p_fregs p <= MAX_REGS)%nat /\ (p_mregs p <= MAX_REGS)%nat /\ (p_out p < p_mregs p)%nat.
Proof. exact ssa_regs. Qed.

(* bit packing: what append_packed_range(0..len) reads back from the packed bytes is the chunk's 0/1
   mask, for every chunk length (multiples of 8 or not) *)
Theorem C06_pack_bits_id : forall len out,
  Forall bit01 out -> (len <= length out)%nat ->
  unpack len (pack len out) = map (fun v => negb (v =? 0)) (firstn len out).
Proof. exact pack_bits_id. Qed.

(* the IEEE and total-order comparisons coincide exactly outside NaN operands and (+0,-0) pairs *)
Theorem C06_ieee_total_agree : forall u v,
  nan_pair u v = false -> zero_pair u v = false -> f64_ieee_cmp u v = f64_total_cmp u v.
Proof. exact ieee_total_agree. Qed.

(* the model's IEEE comparison = Flocq's binary64 Bcompare on a 21x21 grid of boundary bit patterns
   (Flocq is built on the Reals: the standard Reals axioms appear in Print Assumptions for this one only) *)
Theorem C06_ieee_cmp_matches_flocq_on_grid :
  forallb (fun a => forallb (fun b => ord_eqb (f64_ieee_cmp a b) (flocq_cmp a b)) f64_grid) f64_grid = true.
Proof. exact ieee_cmp_matches_flocq_on_grid. Qed.

(* refutations inside the known classes (the unrestricted property is FALSE of the faithful model) *)
Theorem C06_nan_gt_refuted : forall fop,
  refutes fop (ECmp CGt (ECol 0) (ELit (LF64 HALF_BITS))) [NAN_BITS] [Some false] [Some true].
Proof. exact nan_gt_refuted. Qed.
Theorem C06_nan_not_gt_refuted : forall fop,
  refutes fop (ENot (ECmp CGt (ECol 0) (ELit (LF64 HALF_BITS)))) [NAN_BITS] [Some true] [Some false].
Proof. exact nan_not_gt_refuted. Qed.
Theorem C06_neg_nan_lt_refuted : forall fop,
  refutes fop (ECmp CLt (ECol 0) (ELit (LF64 HALF_BITS))) [NEG_NAN_BITS] [Some false] [Some true].
Proof. exact neg_nan_lt_refuted. Qed.
Theorem C06_nan_eq_self_refuted : forall fop,
  refutes fop (ECmp CEq (ECol 0) (ECol 0)) [NAN_BITS] [Some false] [Some true].
Proof. exact nan_eq_self_refuted. Qed.
Theorem C06_nan_between_refuted : forall fop,
  refutes fop (EBetween (ECol 0) (ELit (LF64 0)) (ELit (LF64 NAN_BITS)) false) [HALF_BITS] [Some false] [Some true].
Proof. exact nan_between_refuted. Qed.
Theorem C06_neg_zero_eq_refuted : forall fop,
  refutes fop (ECmp CEq (ECol 0) (ELit (LF64 0))) [NEG_ZERO_BITS] [Some true] [Some false].
Proof. exact neg_zero_eq_refuted. Qed.
Theorem C06_neg_zero_lt_refuted : forall fop,
  refutes fop (ECmp CLt (ECol 0) (ELit (LF64 0))) [NEG_ZERO_BITS] [Some false] [Some true].
Proof. exact neg_zero_lt_refuted. Qed.
Theorem C06_witnesses_are_known : forall fop,
  known_nan_f64 fop (ECmp CGt (ECol 0) (ELit (LF64 HALF_BITS))) (f_col [NAN_BITS]) = true /\
  known_negzero_f64 fop (ECmp CEq (ECol 0) (ELit (LF64 0))) (f_col [NEG_ZERO_BITS]) = true /\
  known_nan_f64 fop (ECmp CEq (ECol 0) (ELit (LF64 0))) (f_col [NEG_ZERO_BITS]) = false.
Proof. exact witnesses_are_known. Qed.

Print Assumptions C06_compile_correct.
Print Assumptions C06_compile_correct_rows.
Print Assumptions C06_ssa_regs.
Print Assumptions C06_pack_bits_id.
Print Assumptions C06_ieee_total_agree.
Print Assumptions C06_ieee_cmp_matches_flocq_on_grid.
Print Assumptions C06_nan_gt_refuted.
Print Assumptions C06_nan_not_gt_refuted.
Print Assumptions C06_neg_nan_lt_refuted.
Print Assumptions C06_nan_eq_self_refuted.
Print Assumptions C06_nan_between_refuted.
Print Assumptions C06_neg_zero_eq_refuted.
Print Assumptions C06_neg_zero_lt_refuted.
Print Assumptions C06_witnesses_are_known.
