(* C37 — Vector encodings round-trip and SIMD kernels match Arrow.
   Statement pins, `exact` proofs and Print Assumptions only. *)
From QV Require Import Base.Util C37.Model C37.Proofs.

(* ---- encodings ---- *)
(* the run vectors encode_rle builds expand back to the input, for every cap (i32::MAX in the code) *)
Theorem C37_rle_expand_compress : forall cap (l : list scalar),
  forallb (fun s => match s with SFloat64 _ => false | _ => true end) l = true ->
  rle_expand (rle_compress scalar_eqb cap l) = l.
Proof. exact rle_expand_compress. Qed.

Theorem C37_rle_expand_compress_gen : forall (A : Type) (eqb : A -> A -> bool) (cap : Z) (l : list A),
  (forall x y, In x l -> In y l -> eqb x y = true -> x = y) ->
  rle_expand (rle_compress eqb cap l) = l.
Proof. exact @rle_expand_compress_gen. Qed.

Theorem C37_rle_signed_zero_refuted :
  rle_expand (rle_compress scalar_eqb i32_max [SFloat64 0; SFloat64 two63]) <> [SFloat64 0; SFloat64 two63].
Proof. exact rle_signed_zero_refuted. Qed.

(* dictionary with keys 0..n-1 over the array itself: keys are valid indices and decode is the identity *)
Theorem C37_dict_decode_identity : forall l : list (option value),
  dict_decode (seq 0 (length l)) l = l /\ Forall (fun k => (k < length l)%nat) (seq 0 (length l)).
Proof. intros l. split; [exact (dict_decode_seq l) | exact (dict_keys_valid (length l))]. Qed.

(* each encoding taken alone *)
Theorem C37_encode_flat : forall a, encode_as Flat a = EOk Flat (lview a) false.
Proof. exact encode_flat_ok. Qed.
Theorem C37_encode_dictionary : forall a, a_ty a = TUtf8 -> encode_as Dictionary a = EOk Dictionary (lview a) true.
Proof. exact encode_dictionary_ok. Qed.
Theorem C37_encode_rle : forall a, well_typed a = true ->
  (a_ty a <> TInt32 \/ existsb fst (a_slots a) = false) ->
  encode_as RLE a = EOk RLE (lview a) false.
Proof. exact encode_rle_ok. Qed.
Theorem C37_encode_constant : forall a, well_typed a = true -> is_constant a = true -> has_null a = false ->
  ty_in (a_ty a) [TInt64; TFloat64; TUtf8] = true ->
  encode_as Constant a = EOk Constant (lview a) false.
Proof. exact encode_constant_ok. Qed.

(* the chosen encoding: every array (any length, any thresholds) outside the two classes *)
Theorem C37_encode_roundtrip : forall trle tdict a,
  well_typed a = true -> known_const_null a = false -> known_enc_unsupported trle a = false ->
  exists e dt, encode_optimal trle tdict a = EOk e (lview a) dt.
Proof. exact encode_roundtrip. Qed.

Theorem C37_encode_roundtrip_sliced : forall trle tdict off len a,
  well_typed (aslice off len a) = true -> known_const_null (aslice off len a) = false ->
  known_enc_unsupported trle (aslice off len a) = false ->
  exists e dt, encode_optimal trle tdict (aslice off len a) = EOk e (firstn len (skipn off (lview a))) dt.
Proof. exact encode_roundtrip_sliced. Qed.

Theorem C37_slice_index : forall off len a i d, (i < len)%nat ->
  nth i (a_slots (aslice off len a)) d = nth (off + i) (a_slots a) d.
Proof. exact aslice_nth. Qed.

(* inside the classes the round trip fails: the classes are exact *)
Theorem C37_known_const_null_exact : forall trle tdict a,
  known_const_null a = true -> enc_spec_ok a (encode_optimal trle tdict a) = false.
Proof. exact known_const_null_exact. Qed.
Theorem C37_known_enc_unsupported_exact : forall trle tdict a,
  known_enc_unsupported trle a = true -> enc_spec_ok a (encode_optimal trle tdict a) = false.
Proof. exact known_enc_unsupported_exact. Qed.

Theorem C37_const_null_refuted :
  exists a, well_typed a = true /\
    encode_optimal default_rle_thr default_dict_thr a = EOk Constant [Some (VI 7); Some (VI 7)] false /\
    lview a = [Some (VI 7); None].
Proof. exact const_null_refuted. Qed.
Theorem C37_const_all_null_refuted :
  exists a, well_typed a = true /\
    encode_optimal default_rle_thr default_dict_thr a = EOk Constant [Some (VS []); Some (VS [])] false /\
    lview a = [None; None].
Proof. exact const_all_null_refuted. Qed.
Theorem C37_enc_unsupported_refuted :
  encode_optimal default_rle_thr default_dict_thr (mkArr TInt32 [(true, VI 5)]) = EErr /\
  encode_optimal default_rle_thr default_dict_thr (mkArr TBool [(true, VI 1)]) = EPanic /\
  encode_optimal default_rle_thr default_dict_thr (mkArr TInt32 (repeat (true, VI 1) 10)) = EErr.
Proof. exact enc_unsupported_refuted. Qed.

(* ---- kernels ---- *)
Theorem C37_filter_matches_arrow : forall a pred,
  ty_in (a_ty a) [TInt64; TFloat64; TBool] = true -> known_filter_null a pred = false ->
  filter_simd a pred = arrow_filter a pred.
Proof. exact filter_matches_arrow. Qed.
Theorem C37_known_filter_null_exact : forall a pred,
  ty_in (a_ty a) [TInt64; TFloat64; TBool] = true -> alen a = length pred ->
  known_filter_null a pred = true -> filter_simd a pred <> arrow_filter a pred.
Proof. exact known_filter_null_exact. Qed.
Theorem C37_filter_refuted :
  let a := mkArr TInt64 [(true, VI 1); (false, VI 0); (true, VI 3)] in
  filter_simd a [true; true; false] = KOk [Some (VI 1)] /\
  arrow_filter a [true; true; false] = KOk [Some (VI 1); None].
Proof. exact filter_refuted. Qed.
Theorem C37_filter_type_refuted :
  let a := mkArr TInt32 [(true, VI 1)] in
  filter_simd a [true] = KErr /\ arrow_filter a [true] = KOk [Some (VI 1)].
Proof. exact filter_type_refuted. Qed.

Theorem C37_compare_matches_arrow : forall l r op,
  ty_in (a_ty l) [TInt64; TFloat64] = true -> a_ty r = a_ty l ->
  f64_bits_ok l -> f64_bits_ok r ->
  known_cmp_null l r = false -> known_cmp_float_order l r = false ->
  compare_simd l r op = arrow_cmp l r op.
Proof. exact compare_matches_arrow. Qed.
Theorem C37_known_cmp_null_exact : forall l r op,
  ty_in (a_ty l) [TInt64; TFloat64] = true -> a_ty r = a_ty l -> alen l = alen r ->
  known_cmp_null l r = true -> compare_simd l r op <> arrow_cmp l r op.
Proof. exact known_cmp_null_exact. Qed.
Theorem C37_compare_null_refuted :
  let l := mkArr TInt64 [(true, VI 1); (false, VI 0)] in
  let r := mkArr TInt64 [(true, VI 1); (true, VI 0)] in
  compare_simd l r OEq = KOk [Some (VI 1); Some (VI 1)] /\ arrow_cmp l r OEq = KOk [Some (VI 1); None].
Proof. exact compare_null_refuted. Qed.
Theorem C37_compare_float_order_refuted :
  let nan := 9221120237041090560 in
  let l := mkArr TFloat64 [(true, VI nan); (true, VI two63)] in
  let r := mkArr TFloat64 [(true, VI nan); (true, VI 0)] in
  compare_simd l r OEq = KOk [Some (VI 0); Some (VI 1)] /\ arrow_cmp l r OEq = KOk [Some (VI 1); Some (VI 0)].
Proof. exact compare_float_order_refuted. Qed.
Theorem C37_compare_type_refuted :
  let l := mkArr TInt32 [(true, VI 1)] in
  compare_simd l l OEq = KErr /\ arrow_cmp l l OEq = KOk [Some (VI 1)].
Proof. exact compare_type_refuted. Qed.

(* add_simd / multiply_simd (iop = Z.add / Z.mul, fop = IEEE add / mul on bit patterns) against the
   checked kernels numeric::add / numeric::mul, in either build mode *)
Theorem C37_arith_matches_arrow : forall (iop fop : Z -> Z -> Z) checks l r,
  ty_in (a_ty l) [TInt64; TFloat64] = true -> a_ty r = a_ty l -> alen l = alen r ->
  known_arith_null l r = false -> known_arith_overflow iop l r = false ->
  arith_simd checks iop fop l r = arrow_arith iop fop false l r.
Proof. exact arith_matches_arrow. Qed.
Theorem C37_arith_matches_arrow_wrapping : forall (iop fop : Z -> Z -> Z) l r,
  ty_in (a_ty l) [TInt64; TFloat64] = true -> a_ty r = a_ty l -> alen l = alen r ->
  known_arith_null l r = false ->
  arith_simd false iop fop l r = arrow_arith iop fop true l r.
Proof. exact arith_matches_arrow_wrapping. Qed.
Theorem C37_add_null_refuted :
  let l := mkArr TInt64 [(true, VI 1); (false, VI 5)] in
  let r := mkArr TInt64 [(true, VI 2); (true, VI 2)] in
  (forall c, arith_simd c Z.add Z.add l r = KOk [Some (VI 3); Some (VI 7)]) /\
  arrow_arith Z.add Z.add false l r = KOk [Some (VI 3); None].
Proof. exact add_null_refuted. Qed.
Theorem C37_add_overflow_refuted :
  let l := mkArr TInt64 [(true, VI i64_max)] in
  let r := mkArr TInt64 [(true, VI 1)] in
  arith_simd true Z.add Z.add l r = KPanic /\
  arith_simd false Z.add Z.add l r = KOk [Some (VI i64_min)] /\
  arrow_arith Z.add Z.add false l r = KErr.
Proof. exact add_overflow_refuted. Qed.
Theorem C37_mul_overflow_refuted :
  let l := mkArr TInt64 [(true, VI 4294967296)] in
  let r := mkArr TInt64 [(true, VI 4294967296)] in
  arith_simd true Z.mul Z.mul l r = KPanic /\
  arith_simd false Z.mul Z.mul l r = KOk [Some (VI 0)] /\
  arrow_arith Z.mul Z.mul false l r = KErr.
Proof. exact mul_overflow_refuted. Qed.
Theorem C37_arith_type_refuted :
  let l := mkArr TInt32 [(true, VI 1)] in
  arith_simd true Z.add Z.add l l = KErr /\ arrow_arith Z.add Z.add false l l = KOk [Some (VI 2)].
Proof. exact arith_type_refuted. Qed.

Theorem C37_sum_matches_arrow : forall checks fadd a,
  ty_in (a_ty a) [TInt64; TFloat64] = true -> known_sum_all_null a = false ->
  (checks = false \/ known_sum_overflow a = false) ->
  sum_simd checks fadd a = arrow_sum fadd a.
Proof. exact sum_matches_arrow. Qed.
Theorem C37_known_sum_all_null_exact : forall checks fadd a,
  known_sum_all_null a = true ->
  arrow_sum fadd a = KOk [None] /\ exists v, sum_simd checks fadd a = KOk [Some v].
Proof. exact known_sum_all_null_exact. Qed.
Theorem C37_sum_all_null_refuted :
  let a := mkArr TInt64 [(false, VI 9); (false, VI 9)] in
  (forall c f, sum_simd c f a = KOk [Some (VI 0)]) /\ (forall f, arrow_sum f a = KOk [None]).
Proof. exact sum_all_null_refuted. Qed.
Theorem C37_sum_empty_refuted :
  let a := mkArr TFloat64 [] in
  (forall c f, sum_simd c f a = KOk [Some (VI 0)]) /\ (forall f, arrow_sum f a = KOk [None]).
Proof. exact sum_empty_refuted. Qed.
Theorem C37_sum_overflow_refuted :
  let a := mkArr TInt64 [(true, VI i64_max); (true, VI 1)] in
  sum_simd true Z.add a = KPanic /\ sum_simd false Z.add a = KOk [Some (VI i64_min)] /\
  arrow_sum Z.add a = KOk [Some (VI i64_min)].
Proof. exact sum_overflow_refuted. Qed.
Theorem C37_sum_type_refuted :
  let a := mkArr TInt32 [(true, VI 1)] in
  sum_simd true Z.add a = KErr /\ arrow_sum Z.add a = KOk [Some (VI 1)].
Proof. exact sum_type_refuted. Qed.

Theorem C37_count_matches_arrow : forall a, count_simd a = arrow_count a.
Proof. exact count_matches_arrow. Qed.

Print Assumptions C37_rle_expand_compress.
Print Assumptions C37_rle_expand_compress_gen.
Print Assumptions C37_rle_signed_zero_refuted.
Print Assumptions C37_dict_decode_identity.
Print Assumptions C37_encode_flat.
Print Assumptions C37_encode_dictionary.
Print Assumptions C37_encode_rle.
Print Assumptions C37_encode_constant.
Print Assumptions C37_encode_roundtrip.
Print Assumptions C37_encode_roundtrip_sliced.
Print Assumptions C37_slice_index.
Print Assumptions C37_known_const_null_exact.
Print Assumptions C37_known_enc_unsupported_exact.
Print Assumptions C37_const_null_refuted.
Print Assumptions C37_const_all_null_refuted.
Print Assumptions C37_enc_unsupported_refuted.
Print Assumptions C37_filter_matches_arrow.
Print Assumptions C37_known_filter_null_exact.
Print Assumptions C37_filter_refuted.
Print Assumptions C37_filter_type_refuted.
Print Assumptions C37_compare_matches_arrow.
Print Assumptions C37_known_cmp_null_exact.
Print Assumptions C37_compare_null_refuted.
Print Assumptions C37_compare_float_order_refuted.
Print Assumptions C37_compare_type_refuted.
Print Assumptions C37_arith_matches_arrow.
Print Assumptions C37_arith_matches_arrow_wrapping.
Print Assumptions C37_add_null_refuted.
Print Assumptions C37_add_overflow_refuted.
Print Assumptions C37_mul_overflow_refuted.
Print Assumptions C37_arith_type_refuted.
Print Assumptions C37_sum_matches_arrow.
Print Assumptions C37_known_sum_all_null_exact.
Print Assumptions C37_sum_all_null_refuted.
Print Assumptions C37_sum_empty_refuted.
Print Assumptions C37_sum_overflow_refuted.
Print Assumptions C37_sum_type_refuted.
Print Assumptions C37_count_matches_arrow.
