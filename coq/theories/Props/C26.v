(* C26 — Window functions match their SQL definition. Pins, `exact`, Print Assumptions only.
   m_value / m_frame / wmodel: transcription of src/physical/operators/window.rs on the engine's sorted input;
   s_value / s_frame / wspec: the SQL definition by counting / filtering over the partition (C26/Model.v).
   wf_sorted w lin: the decidable statement that lin is sorted by (partition keys, order keys) with well-typed
   keys; the check evaluates it on every linearisation of every generated case. *)
From QV Require Import Sql.Query C26.Model C26.Lemmas C26.Proofs C26.Bounded.

(* arrow's `partition` kernel on a list whose classes are contiguous: the range of i holds exactly the rows
   equivalent to row i (partitions and peer groups of the sorted input) *)
Theorem C26_ranges_class : forall (A : Type) (same : A -> A -> bool) (d : A) (l : list A),
  (forall i, (i < length l)%nat -> same (nth i l d) (nth i l d) = true) ->
  (forall i j, (i < length l)%nat -> (j < length l)%nat -> same (nth i l d) (nth j l d) = true -> same (nth j l d) (nth i l d) = true) ->
  (forall i j k, (i < length l)%nat -> (j < length l)%nat -> (k < length l)%nat ->
     same (nth i l d) (nth j l d) = true -> same (nth j l d) (nth k l d) = true -> same (nth i l d) (nth k l d) = true) ->
  (forall i j k, (i < j)%nat -> (j < k)%nat -> (k < length l)%nat -> same (nth i l d) (nth k l d) = true -> same (nth i l d) (nth j l d) = true) ->
  forall i, (i < length l)%nat ->
  let r := range_of (ranges same l) i in
  (fst r <= i < snd r)%nat /\ (snd r <= length l)%nat /\
  (forall j, (j < length l)%nat -> (fst r <= j < snd r)%nat <-> same (nth i l d) (nth j l d) = true).
Proof. exact @ranges_class. Qed.

(* ROW_NUMBER (position in the linearisation), RANK = 1 + #rows with a smaller key, PERCENT_RANK = (rank-1)/(n-1)
   (0 when n = 1), CUME_DIST = #rows with key <= / n : the engine's peer-range formulas are these counts, on every
   sorted input, every partitioning, every multi-key ordering with ties and NULLs *)
Theorem C26_rank_family_correct : forall (w : wexpr) (lin : list row), wf_sorted w lin = true ->
  forall i, (i < length lin)%nat ->
  match w_func w with WRowNumber | WRank | WPercentRank | WCumeDist => True | _ => False end ->
  m_value w lin i = s_value w lin i.
Proof. exact rank_family_correct. Qed.

(* frame_range = the definitional frame, as a slice of the sorted input, for every ROWS frame (all offset combinations,
   empty and inverted ones included) and every RANGE frame bounded by UNBOUNDED / CURRENT ROW (whole peer groups;
   the default frames) *)
Theorem C26_frame_correct : forall (w : wexpr) (lin : list row), wf_sorted w lin = true ->
  forall i, (i < length lin)%nat -> forall fs fe,
  (f_units (resolve w) = URange -> is_offset (f_start (resolve w)) || is_offset (f_end (resolve w)) = false) ->
  m_frame w lin i = Some (fs, fe) ->
  s_frame w lin i = Some (slice lin fs fe) /\
  (fst (range_of (m_parts w lin) i) <= fs)%nat /\ (fs <= fe <= snd (range_of (m_parts w lin) i))%nat.
Proof. exact frame_correct. Qed.
Theorem C26_empty_frame_correct : forall w lin i fs fe, wf_sorted w lin = true -> (i < length lin)%nat ->
  frame_supported w -> m_frame w lin i = Some (fs, fe) -> (fe <= fs)%nat -> s_frame w lin i = Some [].
Proof. exact empty_frame_correct. Qed.
Theorem C26_empty_frame_values :
  agg_apply ACountStar [] 0 = VInt 0 /\ agg_apply ACount [] 0 = VInt 0 /\ agg_apply ASum [] 0 = VNull /\
  agg_apply AAvg [] 0 = VNull /\ agg_apply AMin [] 0 = VNull /\ agg_apply AMax [] 0 = VNull.
Proof. exact empty_frame_values. Qed.

(* FIRST_VALUE / LAST_VALUE / NTH_VALUE over those frames; LAG / LEAD with offset and default *)
Theorem C26_value_functions_correct : forall (w : wexpr) (lin : list row), wf_sorted w lin = true ->
  forall i, (i < length lin)%nat ->
  (forall r e, In r lin -> w_arg w = Some e \/ w_default w = Some e -> eval eng_sem r e = eval sql_sem r e) ->
  w_mod w = MNone -> frame_supported w ->
  match w_func w with WFirst | WLast | WNth _ => True | _ => False end ->
  m_value w lin i = s_value w lin i.
Proof. exact value_functions_correct. Qed.
Theorem C26_lag_lead_correct : forall (w : wexpr) (lin : list row), wf_sorted w lin = true ->
  forall i, (i < length lin)%nat ->
  (forall r e, In r lin -> w_arg w = Some e \/ w_default w = Some e -> eval eng_sem r e = eval sql_sem r e) ->
  w_mod w = MNone ->
  match w_func w with WLag _ | WLead _ => True | _ => False end ->
  m_value w lin i = s_value w lin i.
Proof. exact lag_lead_correct. Qed.

(* prefix arrays: difference of two entries = fold over the frame; the f64 array is exact while the magnitudes of
   the whole sorted input add up to at most 2^53, and not beyond *)
Theorem C26_prefix_diff_is_frame_sum : forall xs s e, (s <= e)%nat -> (e <= length xs)%nat ->
  (nth e (scan Z.add 0 xs) 0 - nth s (scan Z.add 0 xs) 0 = zsum (slice xs s e))%Z.
Proof. exact prefix_diff_is_frame_sum. Qed.
Theorem C26_f64_prefix_sum_exact : forall xs s e, (s <= e)%nat -> (e <= length xs)%nat -> (abs_sum xs <= 2 ^ 53)%Z ->
  let P := scan fadd 0 (map rnd53 xs) in
  rnd53 (nth e P 0%Z - nth s P 0%Z) = zsum (slice xs s e).
Proof. exact f64_prefix_sum_exact. Qed.
Theorem C26_f64_prefix_sum_refuted :
  let xs := [2 ^ 53; 1; 1]%Z in
  let P := scan fadd 0 (map rnd53 xs) in
  rnd53 (nth 3%nat P 0%Z - nth 1%nat P 0%Z) = 0%Z /\ zsum (slice xs 1 3) = 2%Z /\ abs_sum xs = (2 ^ 53 + 2)%Z.
Proof. exact f64_prefix_sum_refuted. Qed.

(* COUNT star / COUNT / SUM (integer column, within 2^53) / MIN / MAX OVER a frame = agg_apply over the frame's rows *)
Theorem C26_aggregates_correct : forall (w : wexpr) (lin : list row), wf_sorted w lin = true ->
  forall i, (i < length lin)%nat ->
  (forall r e, In r lin -> w_arg w = Some e \/ w_default w = Some e -> eval eng_sem r e = eval sql_sem r e) ->
  w_mod w = MNone -> forall f : aggfn, frame_supported w -> w_func w = WAgg f ->
  match f with
  | ACountStar => w_arg w = None
  | ASum => w_arg w <> None /\ m_int_col w lin = true /\ known_f64_prefix w lin = false
  | AAvg | ACountDistinct => False
  | _ => w_arg w <> None
  end -> m_value w lin i = s_value w lin i.
Proof. exact aggregates_correct. Qed.

(* NTILE: the closed form is the standard's bucket list (first n mod k buckets one row larger), n, k <= 40 *)
Theorem C26_ntile_bounded : forall n k pos, (n <= 40)%nat -> (1 <= k <= 40)%nat -> (pos < n)%nat ->
  nth pos (ntile_list n k) 0%Z = ntile_ix n k pos.
Proof. exact ntile_bounded. Qed.

(* whole functions, exhaustively: all 12 functions (DENSE_RANK, NTILE, AVG included) = their definition on every
   well-formed sorted input of at most 3 rows over (p in {NULL,1}) x (k in {NULL,0,1}) x (x in {NULL,1,2}) *)
Theorem C26_small_inputs_agree : forall part dn f lin,
  In part bools -> In dn flag_combos -> In f small_funcs -> In lin tables3 ->
  wf_sorted (mkf part dn f) lin = true -> agree (mkf part dn f) lin = true.
Proof. exact small_inputs_agree. Qed.

(* RANGE frames with offsets (value-based bounds, ASC/DESC, NULLS FIRST/LAST, NULL keys): the scans are the
   standard's predicate on every sorted input of at most 4 rows, outside the recorded class ... *)
Theorem C26_range_offset_agree : forall dn f lin,
  In dn all_flags -> In f range_funcs -> In lin tables4 ->
  wf_sorted (mkf false dn f) lin = true -> known_range_null_edge (mkf false dn f) lin = false ->
  agree (mkf false dn f) lin = true.
Proof. exact range_offset_agree. Qed.
(* ... and inside it the deviation is real *)
Theorem C26_range_null_edge_refuted :
  wf_sorted w_edge t_edge = true /\ known_range_null_edge w_edge t_edge = true /\
  wspec w_edge t_edge = Some [VInt 1; VInt 1] /\ wmodel w_edge t_edge = Some [VInt 1; VInt 0].
Proof. exact range_null_edge_refuted. Qed.
Theorem C26_range_null_edge_refuted2 :
  wf_sorted w_edge2 t_edge2 = true /\ known_range_null_edge w_edge2 t_edge2 = true /\
  wspec w_edge2 t_edge2 = Some [VInt 1; VInt 1] /\ wmodel w_edge2 t_edge2 = Some [VInt 0; VInt 1].
Proof. exact range_null_edge_refuted2. Qed.
Theorem C26_f64_prefix_refuted :
  wf_sorted w_f64 t_f64 = true /\ known_f64_prefix w_f64 t_f64 = true /\
  wspec w_f64 t_f64 = Some [VInt (2 ^ 60); VInt 3; VInt 3] /\ wmodel w_f64 t_f64 = Some [VInt (2 ^ 60); VInt 0; VInt 0].
Proof. exact f64_prefix_refuted. Qed.
Theorem C26_f64_range_key_refuted :
  wf_sorted w_rkey t_rkey = true /\ known_f64_range_key w_rkey t_rkey = true /\
  wspec w_rkey t_rkey = Some [VInt 0] /\ wmodel w_rkey t_rkey = Some [VInt 1].
Proof. exact f64_range_key_refuted. Qed.
(* call modifiers (IGNORE NULLS, FILTER, DISTINCT): formerly parsed and dropped (regression witness against the
   definitions), now refused by name for every input; calls without a modifier are unaffected *)
Theorem C26_ignored_modifier_before_fix :
  wspec w_ignore t_mod = Some [VNull; VInt 1; VInt 1] /\ wmodel_before_modifier_fix w_ignore t_mod = Some [VNull; VInt 1; VNull] /\
  wspec w_filter t_mod = Some [VInt 1; VInt 1; VInt 1] /\ wmodel_before_modifier_fix w_filter t_mod = Some [VInt 2; VInt 2; VInt 2] /\
  wspec w_distinct t_mod = Some [VInt 1; VInt 1; VInt 1] /\ wmodel_before_modifier_fix w_distinct t_mod = Some [VInt 2; VInt 2; VInt 2].
Proof. exact ignored_modifier_before_fix. Qed.
Theorem C26_modifiers_refused : forall w lin, has_modifier w = true -> wmodel w lin = None.
Proof. exact modifiers_refused. Qed.
Theorem C26_no_modifier_unchanged : forall w lin, w_mod w = MNone -> wmodel w lin = wmodel_before_modifier_fix w lin.
Proof. exact no_modifier_unchanged. Qed.

Print Assumptions C26_ranges_class.
Print Assumptions C26_rank_family_correct.
Print Assumptions C26_frame_correct.
Print Assumptions C26_empty_frame_correct.
Print Assumptions C26_empty_frame_values.
Print Assumptions C26_value_functions_correct.
Print Assumptions C26_lag_lead_correct.
Print Assumptions C26_prefix_diff_is_frame_sum.
Print Assumptions C26_f64_prefix_sum_exact.
Print Assumptions C26_f64_prefix_sum_refuted.
Print Assumptions C26_aggregates_correct.
Print Assumptions C26_ntile_bounded.
Print Assumptions C26_small_inputs_agree.
Print Assumptions C26_range_offset_agree.
Print Assumptions C26_range_null_edge_refuted.
Print Assumptions C26_range_null_edge_refuted2.
Print Assumptions C26_f64_prefix_refuted.
Print Assumptions C26_f64_range_key_refuted.
Print Assumptions C26_ignored_modifier_before_fix.
Print Assumptions C26_modifiers_refused.
Print Assumptions C26_no_modifier_unchanged.
