(* C21 — Aggregates follow SQL NULL and empty-input rules on every path. Pins, `exact`, Print Assumptions only.
   `group_rows` / `agg_apply` are shared by the SQL reference semantics and the engine model, so every statement
   below holds for both (Q is arbitrary); whole-query agreement of the two is C21_engine_model_agrees. *)
From QV Require Import Sql.Query Sql.QueryProofs C21.Proofs.

(* COUNT(e), SUM, AVG, MIN, MAX, COUNT(DISTINCT e) see their inputs only through the non-NULL values ... *)
Theorem C21_aggregates_ignore_nulls : forall f args n,
  agg_apply f args n = agg_apply f (non_null args) n.
Proof. exact agg_ignores_nulls. Qed.

(* ... so a NULL input anywhere in the group changes no aggregate but COUNT( * ) *)
Theorem C21_null_input_insensitive : forall f a b n m,
  f <> ACountStar -> agg_apply f (a ++ VNull :: b) n = agg_apply f (a ++ b) m.
Proof. exact agg_null_insensitive. Qed.

(* ... and a global f(e) is f(e) over the rows WHERE e IS NOT NULL *)
Theorem C21_global_agg_is_agg_over_not_null : forall Q f e rows,
  f <> ACountStar ->
  group_rows Q [] [(f, e)] rows
  = group_rows Q [] [(f, e)] (filter (fun r => negb (is_null (eval (q_esem Q) r e))) rows).
Proof. exact global_agg_filter_not_null. Qed.

(* a group with no non-NULL input: NULL from SUM/AVG/MIN/MAX, 0 from COUNT and COUNT DISTINCT *)
Theorem C21_all_null_group : forall f k n,
  agg_apply f (repeat VNull k) n
  = match f with
    | ACountStar => VInt (Z.of_nat n)
    | ACount | ACountDistinct => VInt 0
    | ASum | AAvg | AMin | AMax => VNull
    end.
Proof. exact agg_all_null. Qed.

Theorem C21_count_zero_iff_no_input : forall args n,
  agg_apply ACount args n = VInt 0 <-> non_null args = [].
Proof. exact count_zero_iff. Qed.

(* a global aggregate returns exactly one row whatever the input; over no rows it is (0 | NULL) per function;
   a grouped aggregate over no rows has no groups *)
Theorem C21_global_one_row : forall Q aggs rows, length (group_rows Q [] aggs rows) = 1%nat.
Proof. exact global_one_row. Qed.

Theorem C21_global_over_empty : forall Q aggs,
  group_rows Q [] aggs []
  = [map (fun fa => match fst fa with
                    | ACountStar | ACount | ACountDistinct => VInt 0
                    | ASum | AAvg | AMin | AMax => VNull end) aggs].
Proof. exact global_over_empty. Qed.

Theorem C21_grouped_over_empty : forall Q k keys aggs, group_rows Q (k :: keys) aggs [] = [].
Proof. exact grouped_empty_no_rows. Qed.

(* NULL grouping keys form ONE group: the groups never contain two not-distinct key tuples; exactly one output
   row has all key columns NULL iff some input row has, and it aggregates ALL the rows with an all-NULL key *)
Theorem C21_groups_are_distinct : forall l, has_dups (distinct l) = false.
Proof. exact distinct_no_dups. Qed.

Theorem C21_null_keys_one_group : forall Q keys aggs rows,
  keys <> [] ->
  filter (fun o => forallb is_null (firstn (length keys) o)) (group_rows Q keys aggs rows)
  = match filter (fun r => forallb is_null (map (eval (q_esem Q) r) keys)) rows with
    | [] => []
    | ms => [nulls (length keys)
             ++ map (fun fa => agg_apply (fst fa) (map (fun r => eval (q_esem Q) r (snd fa)) ms) (length ms)) aggs]
    end.
Proof. exact null_keys_one_group. Qed.

(* partial aggregation (morsel / per-thread / disjoint / spilled paths): (rows, count, sum, min, max, distinct set)
   with `merge` is a monoid, commutative up to the listing order of the distinct set, ... *)
Theorem C21_merge_assoc : forall a b c, merge a (merge b c) = merge (merge a b) c.
Proof. exact merge_assoc. Qed.

Theorem C21_merge_identity : forall s, merge pempty s = s /\ merge s pempty = s.
Proof. exact merge_identity. Qed.

Theorem C21_merge_comm : forall f a b,
  NoDup (p_dist a) -> NoDup (p_dist b) ->
  pequiv (merge a b) (merge b a) /\ finish f (merge a b) = finish f (merge b a).
Proof. exact merge_comm_both. Qed.

(* ... and for ANY split of the input into parts, merging the parts' states and finishing gives the reference
   aggregate of the whole input: COUNT( * ), COUNT, integer SUM, AVG as (sum, count), MIN, MAX, COUNT DISTINCT *)
Theorem C21_partial_aggregation_sound : forall f (parts : list (list (option Z))),
  finish f (fold_left merge (map partial parts) pempty)
  = agg_apply f (map inj (concat parts)) (length (concat parts)).
Proof. exact partial_aggregation_sound. Qed.

(* any merge shape (tree) and any arrival order of the rows *)
Theorem C21_merge_tree_sound : forall f t,
  finish f (mstate t) = agg_apply f (map inj (flat t)) (length (flat t)).
Proof. exact merge_tree_sound. Qed.

Theorem C21_merge_order_irrelevant : forall f t1 t2,
  Permutation (flat t1) (flat t2) -> finish f (mstate t1) = finish f (mstate t2).
Proof. exact merge_order_irrelevant. Qed.

(* a SUM accumulator that keeps only the running total cannot tell the all-NULL group from a zero sum *)
Theorem C21_sum_needs_seen_bit :
  p_sum (partial [None; None]) = p_sum (partial [Some 1; Some (-1)]) /\
  finish ASum (partial [None; None]) = VNull /\ finish ASum (partial [Some 1; Some (-1)]) = VInt 0.
Proof. exact sum_needs_seen_bit. Qed.

(* the engine model computes the reference answer for every query outside the recorded expression/set-op classes *)
Theorem C21_engine_model_agrees : forall db q,
  known_q db q = false -> qeval eng_qsem db q = qeval sql_qsem db q.
Proof. exact eng_query_agrees. Qed.

Print Assumptions C21_aggregates_ignore_nulls.
Print Assumptions C21_null_input_insensitive.
Print Assumptions C21_global_agg_is_agg_over_not_null.
Print Assumptions C21_all_null_group.
Print Assumptions C21_count_zero_iff_no_input.
Print Assumptions C21_global_one_row.
Print Assumptions C21_global_over_empty.
Print Assumptions C21_grouped_over_empty.
Print Assumptions C21_groups_are_distinct.
Print Assumptions C21_null_keys_one_group.
Print Assumptions C21_merge_assoc.
Print Assumptions C21_merge_identity.
Print Assumptions C21_merge_comm.
Print Assumptions C21_partial_aggregation_sound.
Print Assumptions C21_merge_tree_sound.
Print Assumptions C21_merge_order_irrelevant.
Print Assumptions C21_sum_needs_seen_bit.
Print Assumptions C21_engine_model_agrees.
