(* C34 — Flight and HTTP return the same answer.
   This file holds only statement pins, `exact` proofs and Print Assumptions.
   Model: C34/Model.v (flight.rs) on top of C35/Model.v (server.rs: execute_statement, POST /sql). *)
From QV Require Import C35.Model C35.Proofs C34.Model C34.Proofs.

(* ---- ticket validation as a decision function ---- *)
(* accepted <-> within the size cap /\ well-formed JSON of the ticket shape /\ version 1 /\ a known mode *)
Theorem C34_ticket_accept_iff : forall len pj sql m,
  ticket_validate len pj = Accept sql m <->
  len <= MAX_TICKET_BYTES /\
  exists j t, pj = Some j /\ ticket_of_json j = Some t /\
              t_v t = 1 /\ flight_parse_mode (t_mode t) = Some m /\ t_sql t = sql.
Proof. exact ticket_accept_iff. Qed.

(* oversized, malformed, unknown-version and unknown-mode tickets are refused, each for its own reason *)
Theorem C34_ticket_refusals : forall len pj,
  (MAX_TICKET_BYTES < len -> ticket_validate len pj = TooBig) /\
  (len <= MAX_TICKET_BYTES -> pj = None -> ticket_validate len pj = Malformed) /\
  (forall j, len <= MAX_TICKET_BYTES -> pj = Some j -> ticket_of_json j = None -> ticket_validate len pj = Malformed) /\
  (forall j t, len <= MAX_TICKET_BYTES -> pj = Some j -> ticket_of_json j = Some t -> t_v t <> 1 ->
               ticket_validate len pj = BadVersion) /\
  (forall j t, len <= MAX_TICKET_BYTES -> pj = Some j -> ticket_of_json j = Some t -> t_v t = 1 ->
               flight_parse_mode (t_mode t) = None -> ticket_validate len pj = BadMode).
Proof. exact ticket_refusals. Qed.

(* the JSON shape: an accepted object has `v` (u32) and `sql` (string) exactly once, `mode` (string) at most once *)
Theorem C34_ticket_object_shape : forall fs t,
  ticket_of_json (JObj fs) = Some t ->
  count_key (B "v") fs = 1%nat /\ (exists j, In (B "v", j) fs /\ as_u32 j = Some (t_v t)) /\
  0 <= t_v t < 4294967296 /\
  count_key (B "sql") fs = 1%nat /\ In (B "sql", JStr (t_sql t)) fs /\
  ((count_key (B "mode") fs = 0%nat /\ t_mode t = B "auto") \/
   (count_key (B "mode") fs = 1%nat /\ In (B "mode", JStr (t_mode t)) fs)).
Proof. exact ticket_object_shape. Qed.

Theorem C34_ticket_duplicate_key_refused : forall fs k,
  In k [B "v"; B "sql"; B "mode"] -> (2 <= count_key k fs)%nat -> ticket_of_json (JObj fs) = None.
Proof. exact ticket_duplicate_key_refused. Qed.

Theorem C34_ticket_array_shape : forall l t,
  ticket_of_json (JArr l) = Some t ->
  (exists a, l = [a; JStr (t_sql t)] /\ as_u32 a = Some (t_v t) /\ t_mode t = B "auto") \/
  (exists a, l = [a; JStr (t_sql t); JStr (t_mode t)] /\ as_u32 a = Some (t_v t)).
Proof. exact ticket_array_shape. Qed.

Theorem C34_ticket_scalar_refused : forall j,
  (forall fs, j <> JObj fs) -> (forall l, j <> JArr l) -> ticket_of_json j = None.
Proof. exact ticket_scalar_refused. Qed.

(* mode values: the ticket vocabulary is POST /sql's vocabulary plus the spelling `off` *)
Theorem C34_flight_mode_table : forall v,
  (flight_parse_mode v = Some Auto <-> v = B "auto") /\
  (flight_parse_mode v = Some Force <-> In v [B "1"; B "true"; B "yes"; B "force"]) /\
  (flight_parse_mode v = Some Off <-> In v [B "0"; B "false"; B "no"; B "local"; B "off"]).
Proof. exact flight_mode_table. Qed.

Theorem C34_flight_mode_extends_http : forall v m,
  http_mode_value v = Some m -> flight_parse_mode v = Some m.
Proof. exact flight_mode_extends_http. Qed.

Theorem C34_flight_mode_only_adds_off : forall v m,
  flight_parse_mode v = Some m -> http_mode_value v = Some m \/ (v = B "off" /\ m = Off).
Proof. exact flight_mode_only_adds_off. Qed.

(* ---- minting ---- *)
Theorem C34_ticket_bytes_len : forall sql mode, zlen (ticket_bytes sql mode) = ticket_len sql mode.
Proof. exact ticket_bytes_len. Qed.

(* every ticket GetFlightInfo issues validates (as the statement and mode it was issued for), for all statements
   and modes, when it is within the cap; `json_parse` is serde_json's reader, assumed only to read this ticket back *)
Theorem C34_issued_tickets_accepted : forall (json_parse : bytes -> option jvalue) sql mode m,
  json_parse (ticket_bytes sql mode) = Some (ticket_json sql mode) ->
  flight_parse_mode mode = Some m ->
  ticket_len sql mode <= MAX_TICKET_BYTES ->
  ticket_validate_bytes json_parse (ticket_bytes sql mode) = Accept sql m.
Proof. exact issued_tickets_accepted. Qed.

Theorem C34_issued_over_cap_refused : forall (json_parse : bytes -> option jvalue) sql mode,
  MAX_TICKET_BYTES < ticket_len sql mode ->
  ticket_validate_bytes json_parse (ticket_bytes sql mode) = TooBig.
Proof. exact issued_over_cap_refused. Qed.

Theorem C34_command_mode_valid : forall len utf8 text parsed trim sql mode,
  parse_command len utf8 text parsed trim = CmdOk sql mode ->
  len <= MAX_COMMAND_BYTES /\ exists m, flight_parse_mode mode = Some m.
Proof. exact command_mode_valid. Qed.

(* "every issued ticket is honoured" is FALSE of the faithful model: a statement within the command cap (and
   POST /sql's body cap) whose minted ticket is over the ticket cap ... *)
Theorem C34_issued_tickets_refuted :
  zlen overcap_witness <= MAX_COMMAND_BYTES /\
  flight_parse_mode default_mode = Some Auto /\
  known_ticket_over_cap overcap_witness default_mode = true /\
  forall json_parse, ticket_validate_bytes json_parse (ticket_bytes overcap_witness default_mode) = TooBig.
Proof. exact issued_tickets_refuted. Qed.

(* ... and true outside that class, which is decided by the statement's (escaped) length alone *)
Theorem C34_issued_accepted_outside_known : forall (json_parse : bytes -> option jvalue) sql mode m,
  json_parse (ticket_bytes sql mode) = Some (ticket_json sql mode) ->
  flight_parse_mode mode = Some m ->
  zlen sql <= MAX_COMMAND_BYTES ->
  known_ticket_over_cap sql mode = false ->
  ticket_validate_bytes json_parse (ticket_bytes sql mode) = Accept sql m.
Proof. exact issued_accepted_outside_known. Qed.

Theorem C34_known_class_characterised : forall sql mode,
  known_ticket_over_cap sql mode = true <->
  zlen sql <= MAX_COMMAND_BYTES /\ MAX_TICKET_BYTES < 26 + esc_len sql + esc_len mode.
Proof. exact known_class_characterised. Qed.

(* ---- slicing into <= M-row messages, for every batch length (M = MAX_ENCODE_ROWS = 4096 in the source) ---- *)
Theorem C34_slices_concat : forall (A : Type) (M : nat) (b : list A), concat (slices M b) = b.
Proof. exact @slices_concat. Qed.

Theorem C34_slices_bounded : forall (A : Type) (M : nat), (0 < M)%nat ->
  forall b : list A, Forall (fun s => (length s <= M)%nat) (slices M b).
Proof. exact @slices_bounded. Qed.

Theorem C34_slices_nonempty : forall (A : Type) (M : nat), (0 < M)%nat ->
  forall b : list A, b <> [] -> Forall (fun s => s <> []) (slices M b).
Proof. exact @slices_nonempty. Qed.

(* a zero-row batch still emits one message *)
Theorem C34_slices_nil : forall (A : Type) (M : nat), slices M (@nil A) = [[]].
Proof. exact @slices_nil. Qed.

Theorem C34_slices_never_empty : forall (A : Type) (M : nat) (b : list A), slices M b <> [].
Proof. exact @slices_never_empty. Qed.

Theorem C34_slices_small : forall (A : Type) (M : nat), (0 < M)%nat ->
  forall b : list A, (length b <= M)%nat -> slices M b = [b].
Proof. exact @slices_small. Qed.

(* the whole stream: rows preserved in order, every message within the limit, always a final zero-row message *)
Theorem C34_stream_concat : forall (A : Type) (M : nat) (bs : list (list A)),
  concat (stream_msgs M bs) = concat bs.
Proof. exact @stream_concat. Qed.

Theorem C34_stream_bounded : forall (A : Type) (M : nat), (0 < M)%nat ->
  forall bs : list (list A), Forall (fun s => (length s <= M)%nat) (stream_msgs M bs).
Proof. exact @stream_bounded. Qed.

Theorem C34_stream_ends_with_trailer : forall (A : Type) (M : nat) (bs : list (list A)),
  exists pre, stream_msgs M bs = pre ++ [[]] /\ pre = concat (map (slices M) bs).
Proof. exact @stream_ends_with_trailer. Qed.

Theorem C34_stream_data_nonempty : forall (A : Type) (M : nat), (0 < M)%nat ->
  forall bs : list (list A), Forall (fun b => b <> []) bs ->
  Forall (fun s => s <> []) (concat (map (slices M) bs)).
Proof. exact @stream_data_nonempty. Qed.

Theorem C34_max_rows : Z.of_nat MAX_ENCODE_ROWS = 4096.
Proof. exact max_rows_Z. Qed.

(* trailer_rows = sum of the rows streamed *)
Theorem C34_trailer_rows_is_sum : forall (A : Type) (r : query_result A),
  result_wf r -> trailer_rows r = zsum (map zlen (stream_msgs MAX_ENCODE_ROWS (q_batches r))).
Proof. exact @trailer_rows_is_sum. Qed.

Theorem C34_stream_model_meets_spec : forall (A : Type) (r : query_result A),
  result_wf r ->
  let msgs := map zlen (stream_msgs MAX_ENCODE_ROWS (q_batches r)) in
  stream_spec_ok (q_row_count r) msgs [zlen msgs] (trailer_rows r) = true.
Proof. exact @stream_model_meets_spec. Qed.

(* ---- both front doors are the same function of (state, statement, mode) ---- *)
Theorem C34_http_door_is_execute_statement : forall rq e f m,
  result_format_parse (r_query rq) = Some f -> dist_mode_parse (r_query rq) = Some m ->
  e_load e = Loaded ->
  (r_body_len rq <= MAX_SQL_BODY_BYTES /\ r_body_utf8 rq = true /\ r_body_blank rq = false) ->
  r_encodes rq = true ->
  sql_handler rq e = http_sql f m e.
Proof. exact http_door_is_execute_statement. Qed.

Theorem C34_doors_agree : forall f m e,
  option_map view_coarse (view_http (http_sql f m e)) = Some (view_coarse (view_flight (flight_do_get m e))).
Proof. exact doors_agree. Qed.

Theorem C34_doors_agree_on_rows : forall f m e d w,
  http_sql f m e = RespRows f d w <-> flight_do_get m e = FlightRows d w.
Proof. exact doors_agree_on_rows. Qed.

Theorem C34_doors_same_decision : forall v m e f,
  http_mode_value v = Some m ->
  exists m', flight_parse_mode v = Some m' /\
    option_map view_coarse (view_http (http_sql f m e)) = Some (view_coarse (view_flight (flight_do_get m' e))).
Proof. exact doors_same_decision. Qed.

Theorem C34_error_vocabulary : forall k,
  (err_status k = 501 <-> query_error_code k = Unimplemented) /\
  (err_status k = 400 <-> query_error_code k <> Unimplemented).
Proof. exact error_vocabulary. Qed.

Print Assumptions C34_ticket_accept_iff.
Print Assumptions C34_ticket_refusals.
Print Assumptions C34_ticket_object_shape.
Print Assumptions C34_ticket_duplicate_key_refused.
Print Assumptions C34_ticket_array_shape.
Print Assumptions C34_ticket_scalar_refused.
Print Assumptions C34_flight_mode_table.
Print Assumptions C34_flight_mode_extends_http.
Print Assumptions C34_flight_mode_only_adds_off.
Print Assumptions C34_ticket_bytes_len.
Print Assumptions C34_issued_tickets_accepted.
Print Assumptions C34_issued_over_cap_refused.
Print Assumptions C34_command_mode_valid.
Print Assumptions C34_issued_tickets_refuted.
Print Assumptions C34_issued_accepted_outside_known.
Print Assumptions C34_known_class_characterised.
Print Assumptions C34_slices_concat.
Print Assumptions C34_slices_bounded.
Print Assumptions C34_slices_nonempty.
Print Assumptions C34_slices_nil.
Print Assumptions C34_slices_never_empty.
Print Assumptions C34_slices_small.
Print Assumptions C34_stream_concat.
Print Assumptions C34_stream_bounded.
Print Assumptions C34_stream_ends_with_trailer.
Print Assumptions C34_stream_data_nonempty.
Print Assumptions C34_max_rows.
Print Assumptions C34_trailer_rows_is_sum.
Print Assumptions C34_stream_model_meets_spec.
Print Assumptions C34_http_door_is_execute_statement.
Print Assumptions C34_doors_agree.
Print Assumptions C34_doors_agree_on_rows.
Print Assumptions C34_doors_same_decision.
Print Assumptions C34_error_vocabulary.
