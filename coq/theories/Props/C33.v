(* C33 — Memory pool accounting is exact under concurrency.
   This file holds only statement pins, `exact` proofs and Print Assumptions.
   Model (C33/Model.v): any number of threads (one per script), arbitrary scheduler (list of events), each event
   runs ONE step of one thread: a thread-local step or exactly one atomic operation on `used`.
   `total c` = sum of live reservation sizes + bytes held by methods that are mid-flight (unbounded integer). *)
From QV Require Import Base.Util C33.Model C33.Proofs.

(* general invariant, every reachable state of every schedule: the counter is the true total modulo 2^64 *)
Theorem C33_used_is_total_mod : forall limit scripts c,
  reachable (init limit scripts) c -> used (c_sh c) = (total c) mod 2 ^ 64.
Proof. exact used_is_total_mod. Qed.

(* ... and exactly the true total whenever that fits a usize *)
Theorem C33_used_exact : forall limit scripts c,
  reachable (init limit scripts) c -> total c < 2 ^ 64 -> used (c_sh c) = total c.
Proof. exact used_exact. Qed.

(* at quiescent points (no method mid-flight) usage = sum of live reservation sizes *)
Theorem C33_used_quiescent : forall limit scripts c,
  reachable (init limit scripts) c -> quiescent c = true ->
  used (c_sh c) = (live_sum (c_sh c)) mod 2 ^ 64 /\
  (live_sum (c_sh c) < 2 ^ 64 -> used (c_sh c) = live_sum (c_sh c)).
Proof. exact used_quiescent. Qed.

(* all reservations dropped and nothing mid-flight => usage is zero *)
Theorem C33_all_dropped_zero : forall limit scripts c,
  reachable (init limit scripts) c -> quiescent c = true -> resv (c_sh c) = [] -> used (c_sh c) = 0.
Proof. exact all_dropped_zero. Qed.

(* every value a successful compare-exchange of try_allocate ever stored is within the limit *)
Theorem C33_grant_within_limit : forall limit scripts c,
  reachable (init limit scripts) c -> Forall (fun g => 0 <= g <= c_limit c) (grants (c_sh c)).
Proof. exact grant_within_limit. Qed.

(* step-wise: a thread about to CAS(cur,new) has new <= limit; its step either leaves `used` alone or found
   used = cur, stores new and logs the grant *)
Theorem C33_grant_step_within_limit : forall limit scripts c,
  reachable (init limit scripts) c -> forall e th cur new,
  nth_error (c_threads c) (e_tid e) = Some th -> pending_cas (t_pc th) = Some (cur, new) ->
  new <= c_limit c /\
  (used (c_sh (step c e)) = used (c_sh c) \/
   (used (c_sh c) = cur /\ used (c_sh (step c e)) = new /\ grants (c_sh (step c e)) = new :: grants (c_sh c))).
Proof. exact grant_step_within_limit. Qed.

(* no fetch_sub that is about to run subtracts more than the counter holds (while the true total fits usize) *)
Theorem C33_no_underflow : forall limit scripts c,
  reachable (init limit scripts) c -> total c < 2 ^ 64 -> forall t th d,
  nth_error (c_threads c) t = Some th -> pending_sub (t_pc th) = Some d -> 0 <= d <= used (c_sh c).
Proof. exact no_underflow. Qed.

(* without unchecked fetch_add (allocate / growing resize) everything is unconditional *)
Theorem C33_unforced_within_limit : forall limit scripts c,
  reachable (init limit scripts) c -> forced (c_sh c) = false ->
  total c <= c_limit c /\ used (c_sh c) = total c /\
  forall t th d, nth_error (c_threads c) t = Some th -> pending_sub (t_pc th) = Some d -> 0 <= d <= used (c_sh c).
Proof. exact unforced_within_limit. Qed.

(* reachable = some schedule *)
Theorem C33_reachable_is_run : forall c0 c, reachable c0 c <-> exists evs, c = run c0 evs.
Proof. intros c0 c; split; [apply reachable_is_run | intros [evs ->]; apply reachable_run]. Qed.

(* the sequential model is the concurrent one with thread t running alone and loads reading the current value *)
Theorem C33_seq_refines : forall c t o rest,
  nth_error (c_threads c) t = Some (mkTh PIdle (o :: rest)) -> 0 <= used (c_sh c) < 2 ^ 64 ->
  run c (seq_events t (c_limit c) (c_sh c) o) =
  mkCfg (c_limit c) (seq_step (c_limit c) (c_sh c) o) (upd t (fun _ => mkTh PIdle rest) (c_threads c)).
Proof. exact seq_refines. Qed.

Theorem C33_seq_run_reachable : forall limit ops,
  reachable (init limit [ops]) (mkCfg (usz limit) (fold_left (seq_step (usz limit)) ops s0) [mkTh PIdle []]).
Proof. exact seq_run_reachable. Qed.

(* the executable spec used on the implementation's outputs is met by the model on every input *)
Theorem C33_model_meets_spec : forall limit ops, spec_ok limit ops (model limit ops) = true.
Proof. exact model_meets_spec. Qed.

(* outside the "conditional reservation" clause: the unchecked paths ignore the limit and can wrap *)
Theorem C33_forced_allocate_exceeds_limit : exists c,
  reachable (init 10 [[OAlloc 0 20]]) c /\ quiescent c = true /\ used (c_sh c) = 20 /\ c_limit c = 10.
Proof. exact forced_allocate_exceeds_limit. Qed.

Theorem C33_grow_resize_exceeds_limit : exists c,
  reachable (init 10 [[OTry 0 5; OResize 0 100]]) c /\ quiescent c = true /\
  used (c_sh c) = 100 /\ c_limit c = 10 /\ grants (c_sh c) = [5].
Proof. exact grow_resize_exceeds_limit. Qed.

Theorem C33_forced_allocate_wrap : exists c,
  reachable (init 100 [[OAlloc 0 (2 ^ 63); OAlloc 1 (2 ^ 63); ODrop 0]; [OTry 2 7]]) c /\
  used (c_sh c) = 7 /\ total c = 2 ^ 64 + 7 /\ c_limit c = 100 /\ grants (c_sh c) = [7] /\
  (exists th, nth_error (c_threads c) 0 = Some th /\ pending_sub (t_pc th) = Some (2 ^ 63)) /\
  used (c_sh (step c (ev 0))) = 2 ^ 63 + 7.
Proof. exact forced_allocate_wrap. Qed.

Print Assumptions C33_used_is_total_mod.
Print Assumptions C33_used_exact.
Print Assumptions C33_used_quiescent.
Print Assumptions C33_all_dropped_zero.
Print Assumptions C33_grant_within_limit.
Print Assumptions C33_grant_step_within_limit.
Print Assumptions C33_no_underflow.
Print Assumptions C33_unforced_within_limit.
Print Assumptions C33_reachable_is_run.
Print Assumptions C33_seq_refines.
Print Assumptions C33_seq_run_reachable.
Print Assumptions C33_model_meets_spec.
Print Assumptions C33_forced_allocate_exceeds_limit.
Print Assumptions C33_grow_resize_exceeds_limit.
Print Assumptions C33_forced_allocate_wrap.
