(* C27 — GROUPING SETS, ROLLUP and CUBE match their SQL definition. Pins, `exact`, Print Assumptions only. *)
From QV Require Import Sql.Query C27.Model C27.Proofs.

(* the binder's expansions (prefix slices; bit masks from 2^m-1 down to 0, most significant bit = first column) are
   the standard's, for every column list *)
Theorem C27_rollup_correct : forall (A : Type) (l : list A), eng_rollup l = rollup_spec l.
Proof. exact @rollup_correct. Qed.
Theorem C27_rollup_length : forall (A : Type) (l : list A), length (rollup_spec l) = S (length l).
Proof. exact @rollup_length. Qed.
Theorem C27_rollup_prefixes : forall (A : Type) (l : list A),
  rollup_spec l = map (fun k => firstn k l) (rev (seq 0 (S (length l)))).
Proof. exact @rollup_prefixes. Qed.
Theorem C27_cube_correct : forall (A : Type) (l : list A), eng_cube l = cube_spec l.
Proof. exact @cube_correct. Qed.
Theorem C27_cube_length : forall (A : Type) (l : list A), length (cube_spec l) = (2 ^ length l)%nat.
Proof. exact @cube_length. Qed.
Theorem C27_cube_sublists : forall (A : Type) (l s : list A), In s (cube_spec l) <-> sublist s l.
Proof. exact @cube_sublists. Qed.

(* GROUPING(..): the binder's shift loop is the positional bitmask; bit n-1-i (most significant = first argument)
   is set iff argument i is absent from the grouping set *)
Theorem C27_grouping_correct : forall s args, grouping_eng s args = grouping_spec s args.
Proof. exact grouping_correct. Qed.
Theorem C27_grouping_bit : forall s args i, (i < length args)%nat ->
  Z.testbit (grouping_spec s args) (Z.of_nat (length args - 1 - i)) = negb (memn (nth i args 0%nat) s).
Proof. exact grouping_bit. Qed.

(* the UNION ALL plan evaluates to the concatenation, over the standard's grouping sets, of the per-set aggregate
   with NULL padding and the per-set GROUPING values — under any semantics whose UNION ALL is concatenation *)
Theorem C27_desugar_is_union : forall (Q : qsem) (db : list rel),
  (forall L R, q_setop Q SUnion true L R = L ++ R) ->
  forall g q, desugar_before_distinct_fix g = Some q -> qeval Q db q = union_rows Q db g (spec_sets (g_spec g)).
Proof. exact desugar_is_union. Qed.

(* the engine's answer (union plan, wrapped in Distinct for SELECT DISTINCT) is the SQL definition for every
   grouping-set list, SELECT list and database outside the recorded class of C02 (dominated-NULL expressions reached
   by the input / aggregate arguments) *)
Theorem C27_gs_engine_agrees : forall db g q, desugar g = Some q -> known_q db q = false -> gs_model db g = gs_spec db g.
Proof. exact gs_engine_agrees. Qed.
Theorem C27_gs_errors_agree : forall db g, desugar g = None -> gs_model db g = None /\ gs_spec db g = None.
Proof. exact gs_errors_agree. Qed.

(* a grouping column absent from the set is NULL in every row of that set ... *)
Theorem C27_absent_column_is_null : forall s items k grp j c,
  nth_error items j = Some (IGroup c) -> memn c s = false -> nth j (item_values s items k grp) VErr = VNull.
Proof. exact absent_column_is_null. Qed.
(* ... and only GROUPING() tells that padding from a NULL in the data *)
Theorem C27_null_data_vs_padding :
  gs_spec [[[VNull]]] g_null_witness = Some [[VNull; VInt 0; VInt 1]; [VNull; VInt 1; VInt 1]]
  /\ gs_model [[[VNull]]] g_null_witness = gs_spec [[[VNull]]] g_null_witness.
Proof. exact null_data_vs_padding. Qed.

(* regression: SELECT DISTINCT over duplicate grouping sets used to keep the duplicates (the DISTINCT was dropped);
   the repair is conservative wherever the old plan was already right *)
Theorem C27_distinct_dropped_before_fix :
  known_distinct_dropped [[[VInt 1]]] g_distinct_witness = true
  /\ gs_spec [[[VInt 1]]] g_distinct_witness = Some [[VInt 1]]
  /\ gs_model_before_distinct_fix [[[VInt 1]]] g_distinct_witness = Some [[VInt 1]; [VInt 1]]
  /\ gs_model [[[VInt 1]]] g_distinct_witness = Some [[VInt 1]].
Proof. exact distinct_dropped_before_fix. Qed.
Theorem C27_distinct_fix_conservative : forall db g, known_distinct_dropped db g = false ->
  (match desugar g with Some q => known_q db q | None => false end) = false ->
  gs_model_before_distinct_fix db g = gs_model db g.
Proof. exact distinct_fix_conservative. Qed.

Print Assumptions C27_rollup_correct.
Print Assumptions C27_rollup_length.
Print Assumptions C27_rollup_prefixes.
Print Assumptions C27_cube_correct.
Print Assumptions C27_cube_length.
Print Assumptions C27_cube_sublists.
Print Assumptions C27_grouping_correct.
Print Assumptions C27_grouping_bit.
Print Assumptions C27_desugar_is_union.
Print Assumptions C27_gs_engine_agrees.
Print Assumptions C27_gs_errors_agree.
Print Assumptions C27_absent_column_is_null.
Print Assumptions C27_null_data_vs_padding.
Print Assumptions C27_distinct_dropped_before_fix.
Print Assumptions C27_distinct_fix_conservative.
