(* C15 — Membership view stays consistent under any discovery and probe history.
   This file holds only statement pins, `exact` proofs and Print Assumptions.
   `step is_self` transcribes Membership::{set_members, record_resolve_error, record_up, record_down,
   set_self_flight}; histories are unbounded lists of operations folded from `init` (Membership::new).
   `is_self` stands for is_self_address(_, self_address); the only fact assumed about it is rule 1
   (byte-identical strings), and only where stated. *)
From QV Require Import Base.Util C15.Model C15.Proofs.
From Coq Require Import Sorting.Sorted.

(* after ANY history: peers strictly ascending (sorted & unique) and none of them is this node;
   members() strictly ascending by address; this node is listed, exactly once by flag, exactly once
   by the self predicate (no alias of it is listed), exactly once by address; the non-self members
   are exactly the peers *)
Theorem C15_view_invariant :
  forall (self_addr : bytes) (self_id : Z) (is_self : bytes -> bool),
  is_self self_addr = true ->
  forall ops : list op,
  let s := fold_left (step is_self) ops init in
  StronglySorted (fun a b => bytes_cmp a b = Lt) (keys (peers s))
  /\ (forall a, In a (keys (peers s)) -> is_self a = false)
  /\ StronglySorted (fun a b => bytes_cmp a b = Lt) (map m_addr (members self_addr self_id s))
  /\ In (self_member self_addr self_id s) (members self_addr self_id s)
  /\ length (filter m_is_self (members self_addr self_id s)) = 1%nat
  /\ length (filter (fun m => is_self (m_addr m)) (members self_addr self_id s)) = 1%nat
  /\ count_occ bytes_eq_dec (map m_addr (members self_addr self_id s)) self_addr = 1%nat
  /\ map m_addr (filter (fun m => negb (m_is_self m)) (members self_addr self_id s)) = keys (peers s).
Proof. exact view_invariant. Qed.

(* the generation never decreases over any suffix of any history shorter than 2^64 operations *)
Theorem C15_generation_monotone :
  forall (is_self : bytes -> bool) (ops1 ops2 : list op),
  Z.of_nat (length (ops1 ++ ops2)) < 2 ^ 64 ->
  generation (fold_left (step is_self) ops1 init)
  <= generation (fold_left (step is_self) (ops1 ++ ops2) init).
Proof. exact generation_monotone. Qed.

(* ... and the bound is needed: the u64 counter wraps after 2^64 bumps *)
Theorem C15_generation_monotone_unbounded_refuted :
  exists (is_self : bytes -> bool) (ops : list op) (o : op),
    generation (fold_left (step is_self) (ops ++ [o]) init)
    < generation (fold_left (step is_self) ops init).
Proof. exact generation_monotone_unbounded_refuted. Qed.

(* whenever the member address list differs between two points of a history, the generation is
   strictly larger at the later point *)
Theorem C15_generation_advances_on_change :
  forall (self_addr : bytes) (self_id : Z) (is_self : bytes -> bool) (ops1 ops2 : list op),
  Z.of_nat (length (ops1 ++ ops2)) < 2 ^ 64 ->
  map m_addr (members self_addr self_id (fold_left (step is_self) (ops1 ++ ops2) init))
    <> map m_addr (members self_addr self_id (fold_left (step is_self) ops1 init)) ->
  generation (fold_left (step is_self) ops1 init)
  < generation (fold_left (step is_self) (ops1 ++ ops2) init).
Proof. exact generation_advances_on_change. Qed.

(* a resolve error changes no member record, no peer, not the generation, not `resolved` *)
Theorem C15_resolve_error_keeps_members :
  forall (self_addr : bytes) (self_id : Z) (is_self : bytes -> bool) (ops : list op) (e : bytes),
  let s := fold_left (step is_self) ops init in
  members self_addr self_id (step is_self s (ResolveError e)) = members self_addr self_id s
  /\ peers (step is_self s (ResolveError e)) = peers s
  /\ generation (step is_self s (ResolveError e)) = generation s
  /\ resolved (step is_self s (ResolveError e)) = resolved s.
Proof. exact resolve_error_keeps_members. Qed.

(* a discovery result denoting exactly the current peer set (duplicates, order and any spelling of
   this node allowed) leaves every peer record, the whole member list and the generation unchanged *)
Theorem C15_same_set_keeps_records :
  forall (self_addr : bytes) (self_id : Z) (is_self : bytes -> bool) (ops : list op) (l : list bytes),
  let s := fold_left (step is_self) ops init in
  (forall a, In a l -> is_self a = true \/ In a (keys (peers s))) ->
  (forall a, In a (keys (peers s)) -> In a l) ->
  peers (step is_self s (SetMembers l)) = peers s
  /\ members self_addr self_id (step is_self s (SetMembers l)) = members self_addr self_id s
  /\ generation (step is_self s (SetMembers l)) = generation s.
Proof. exact same_set_keeps_records. Qed.

(* under ANY discovery result a peer that stays keeps its probe record *)
Theorem C15_survivors_keep_records :
  forall (is_self : bytes -> bool) (ops : list op) (l : list bytes) (a : bytes),
  let s := fold_left (step is_self) ops init in
  In a (keys (peers s)) -> In a l ->
  bt_get a (peers (step is_self s (SetMembers l))) = bt_get a (peers s).
Proof. exact survivors_keep_records. Qed.

(* resolve l; any probe results / resolve errors; resolve l again: nothing moves *)
Theorem C15_re_resolve_keeps_probe_state :
  forall (self_addr : bytes) (self_id : Z) (is_self : bytes -> bool)
         (ops : list op) (l : list bytes) (probes : list op),
  forallb (fun o => match o with SetMembers _ => false | _ => true end) probes = true ->
  let s := fold_left (step is_self) (ops ++ SetMembers l :: probes) init in
  peers (step is_self s (SetMembers l)) = peers s
  /\ members self_addr self_id (step is_self s (SetMembers l)) = members self_addr self_id s
  /\ generation (step is_self s (SetMembers l)) = generation s.
Proof. exact re_resolve_keeps_probe_state. Qed.

(* the executable spec applied to the implementation's views is met by the model on every history *)
Theorem C15_model_meets_spec :
  forall (self_addr : bytes) (self_id : Z) (is_self : bytes -> bool),
  is_self self_addr = true ->
  forall ops : list op,
  Z.of_nat (length ops) < 2 ^ 64 ->
  spec_ok self_addr is_self ops (trace self_addr self_id is_self ops) = true.
Proof. exact model_meets_spec. Qed.

(* what a passing per-view check means *)
Theorem C15_view_ok_sound :
  forall (self_addr : bytes) (is_self : bytes -> bool) (v : observable),
  view_ok self_addr is_self v = true ->
  StronglySorted (fun a b => bytes_cmp a b = Lt) (map m_addr (v_members v))
  /\ length (filter m_is_self (v_members v)) = 1%nat
  /\ length (filter (fun m => is_self (m_addr m)) (v_members v)) = 1%nat
  /\ (forall m, In m (v_members v) -> m_is_self m = true -> m_addr m = self_addr)
  /\ StronglySorted (fun a b => bytes_cmp a b = Lt) (v_peer_addrs v)
  /\ (forall a, In a (v_peer_addrs v) -> is_self a = false).
Proof. exact view_ok_sound. Qed.

Print Assumptions C15_view_invariant.
Print Assumptions C15_generation_monotone.
Print Assumptions C15_generation_monotone_unbounded_refuted.
Print Assumptions C15_generation_advances_on_change.
Print Assumptions C15_resolve_error_keeps_members.
Print Assumptions C15_same_set_keeps_records.
Print Assumptions C15_survivors_keep_records.
Print Assumptions C15_re_resolve_keeps_probe_state.
Print Assumptions C15_model_meets_spec.
Print Assumptions C15_view_ok_sound.
