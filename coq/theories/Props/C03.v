(* C03 — Optimization never changes a query's answer. Pins, `exact`, Print Assumptions only. *)
From QV Require Import Sql.Query C03.Model C03.Proofs.
Open Scope Z_scope.

(* ---------- statistics predicates as coded, and what they license ---------- *)
(* `is_unique_key` (null_count = Some 0 /\ ndv_est >= row_count, ndv_est = min(non_null, max-min+1)) holds exactly when the
   RANGE of a NULL-free integer column covers the row count: duplicates are never examined *)
Theorem C03_is_unique_key_iff : forall rows lo hi,
  0 <= rows ->
  is_unique_key rows (mkCS (Some lo) (Some hi) (Some 0) (ndv_est rows (Some 0) (Some lo) (Some hi))) = true
  <-> (lo <= hi /\ rows <= hi - lo + 1).
Proof. exact is_unique_key_iff. Qed.

(* GROUP BY keys  =>  GROUP BY keys[kpos] + ANY_VALUE(other keys): the same rows, in the same order, when the key column
   really is unique (ANY_VALUE = any function returning the member of a singleton) *)
Theorem C03_fd_reduction_equiv : forall (S : qsem) (pick : list value -> value),
  (forall v, pick [v] = v) ->
  forall (keys : list nat) (kpos : nat), (kpos < length keys)%nat ->
  forall aggs (rows : rel) (zs : list Z),
  col (nth kpos keys 0%nat) rows = map VInt zs -> NoDup zs ->
  (forall r c, In r rows -> In c keys -> nth c r VErr <> VErr) ->
  reduced_rows S pick kpos keys aggs rows = original_rows S keys aggs rows.
Proof. exact fd_reduction_equiv. Qed.

(* ... and refuted for the inference the engine actually makes: k = [1;1;5] — 3 rows, range 5, no NULLs — is "unique",
   the rule fires, and two groups are merged whatever ANY_VALUE returns *)
Theorem C03_unique_key_inference_refuted :
  stats_of_col (col 0 gkr_witness) = mkCS (Some 1) (Some 5) (Some 0) (Some 3) /\
  inferred_unique gkr_witness 0 = true /\
  has_dup_values (col 0 gkr_witness) = true /\
  gkr_key gkr_witness (fun _ => true) [0; 1]%nat = Some 0%nat /\
  known_ndv_unique gkr_witness (fun _ => true) [0; 1]%nat = true /\
  original_rows sql_qsem [0; 1]%nat [(ASum, ECol 2)] gkr_witness
    = [[VInt 1; VInt 10; VInt 100]; [VInt 1; VInt 20; VInt 200]; [VInt 5; VInt 30; VInt 300]] /\
  (forall pick, length (reduced_rows sql_qsem pick 0 [0; 1]%nat [(ASum, ECol 2)] gkr_witness) = 2%nat) /\
  reduced_rows sql_qsem (hd VErr) 0 [0; 1]%nat [(ASum, ECol 2)] gkr_witness
    = [[VInt 1; VInt 10; VInt 300]; [VInt 5; VInt 30; VInt 300]].
Proof. exact unique_key_inference_refuted. Qed.

(* statistics are attributed to a column by its bare name: a memory table's column inherits the "uniqueness" of a
   same-named column of a one-row Parquet table *)
Theorem C03_column_table_refuted :
  column_table [[]; [0; 1; 2]] 2 = Some 1%nat /\ column_table [[]; [0; 1; 2]] 1 = Some 1%nat /\
  inferred_unique ct_tb 2 = true /\
  known_stats_by_name [[]; [0; 1; 2]] (Some 0%nat) [2; 1] = true /\
  length (original_rows sql_qsem [2; 1]%nat [(ACountStar, ELit VNull)] ct_ta) = 8%nat /\
  (forall pick, length (reduced_rows sql_qsem pick 0 [2; 1]%nat [(ACountStar, ELit VNull)] ct_ta) = 5%nat).
Proof. exact column_table_refuted. Qed.

(* the LEFT-join count pushdown uses the same estimate *)
Theorem C03_left_count_refuted :
  let db := [[[VInt 1; VInt 10]; [VInt 1; VInt 20]; [VInt 5; VInt 30]];
             [[VInt 1; VInt 7]; [VInt 1; VInt 8]; [VInt 5; VInt 9]; [VInt 2; VInt 1]]] in
  let L := QTable 0 2 in let R := QTable 1 2 in
  known_ndv_unique_count (nth 0 db []) 0 = true /\
  qeval sql_qsem db (left_count_original L R 0 0 1) = [[VInt 1; VInt 4]; [VInt 5; VInt 1]] /\
  qeval sql_qsem db (left_count_rewritten L R 0 0 1) = [[VInt 1; VInt 2]; [VInt 1; VInt 2]; [VInt 5; VInt 1]].
Proof. exact left_count_refuted. Qed.

(* regression witness (fix 2bbc018): the same rewrite declared its pre-aggregate key Int64; with an INTEGER right key every
   count was 0. The repaired rewrite returns the original's answer. *)
Theorem C03_left_count_key_type_before_fix :
  let db := [[[VInt 7; VInt 1]; [VInt 9; VInt 2]]; [[VInt 7; VInt 1]; [VInt 7; VNull]; [VInt 9; VInt 5]; [VInt 2; VInt 1]]] in
  let L := QTable 0 2 in let R := QTable 1 2 in
  known_leftcount_key_type (nth 0 db []) 0 false = true /\ known_ndv_unique_count (nth 0 db []) 0 = false /\
  qeval sql_qsem db (left_count_original L R 0 0 1) = [[VInt 7; VInt 1]; [VInt 9; VInt 1]] /\
  qeval sql_qsem db (left_count_rewritten L R 0 0 1) = [[VInt 7; VInt 1]; [VInt 9; VInt 1]] /\
  qeval sql_qsem db (left_count_before_fix_narrow_key L R 0 0 1) = [[VInt 7; VInt 0]; [VInt 9; VInt 0]].
Proof. exact left_count_key_type_before_fix. Qed.

(* ---------- packed keys ---------- *)
Theorem C03_pack_injective : forall K a b a' b',
  0 <= b < K -> 0 <= b' < K -> pack K a b = pack K a' b' -> a = a' /\ b = b'.
Proof. exact pack_injective. Qed.

(* unpack = LOGICAL right shift of the 64-bit pattern / mask, as the engine evaluates them; exact inside i64 *)
Theorem C03_pack_unpack_roundtrip : forall K s a b,
  0 <= s -> K = 2 ^ s -> 0 <= a -> 0 <= b < K -> pack K a b <= i64_max ->
  unpack_a K (pack K a b) = a /\ unpack_b K (pack K a b) = b.
Proof. exact pack_unpack_roundtrip. Qed.

(* the guard as coded: all minima >= 0, K = next power of two above the larger second-key maximum, no i64 overflow *)
Theorem C03_pack_guard_sound : forall b0 b1 b2 b3 K,
  pack_guard b0 b1 b2 b3 = Some K ->
  0 <= fst b0 /\ 0 <= fst b1 /\ 0 <= fst b2 /\ 0 <= fst b3 /\
  (0 <= Z.max (snd b2) (snd b3) -> Z.max (snd b2) (snd b3) < K /\ (exists s, 0 <= s /\ K = 2 ^ s)) /\
  Z.max (snd b0) (snd b1) * K + Z.max (snd b2) (snd b3) <= i64_max.
Proof. exact pack_guard_sound. Qed.

Theorem C03_pack_in_i64 : forall b0 b1 b2 b3 K a b,
  pack_guard b0 b1 b2 b3 = Some K ->
  0 <= a <= Z.max (snd b0) (snd b1) -> 0 <= b <= Z.max (snd b2) (snd b3) ->
  0 <= pack K a b <= i64_max.
Proof. exact pack_in_i64. Qed.

(* join ON (a,b) = (c,d)  ==  join ON a*K+b = c*K+d, for every join type, NULL keys included, under the Kleene reference
   and under the engine's strict kernels, when the data respects the bounds the guard used *)
Theorem C03_packed_join_equiv_sql : forall jt wl wr K a b c d b0 b1 b2 b3 (L R : rel),
  pack_guard b0 b1 b2 b3 = Some K ->
  (forall l r, In l L -> In r R -> row_in_bounds a b c d b0 b1 b2 b3 (l ++ r) = true) ->
  join_rows sql_qsem jt wl wr (on_packed K a b c d) L R = join_rows sql_qsem jt wl wr (on_pairs a b c d) L R.
Proof. intros jt wl wr K a b c d b0 b1 b2 b3 L R. exact (packed_join_equiv sql_qsem and_keeps_sql jt wl wr K a b c d b0 b1 b2 b3 L R). Qed.
Theorem C03_packed_join_equiv_eng : forall jt wl wr K a b c d b0 b1 b2 b3 (L R : rel),
  pack_guard b0 b1 b2 b3 = Some K ->
  (forall l r, In l L -> In r R -> row_in_bounds a b c d b0 b1 b2 b3 (l ++ r) = true) ->
  join_rows eng_qsem jt wl wr (on_packed K a b c d) L R = join_rows eng_qsem jt wl wr (on_pairs a b c d) L R.
Proof. intros jt wl wr K a b c d b0 b1 b2 b3 L R. exact (packed_join_equiv eng_qsem and_keeps_eng jt wl wr K a b c d b0 b1 b2 b3 L R). Qed.

(* bounds are found by bare column name: a derived column named like a base column passes the guard with bounds it
   does not satisfy, and the packed join / packed group-by return other rows *)
Theorem C03_bounds_by_name_refuted :
  pack_guard_by_name bn_cat 0 2 1 3 = Some 4 /\
  join_rows eng_qsem JInner 2 2 (on_pairs 0 1 2 3) bn_left bn_right = [] /\
  join_rows eng_qsem JInner 2 2 (on_packed 4 0 1 2 3) bn_left bn_right = [[VInt 1; VInt 4; VInt 2; VInt 0]] /\
  known_bounds_by_name [(1, 2); (1, 2); (0, 3); (0, 3)] [col 0 bn_left; col 0 bn_right; col 1 bn_left; col 1 bn_right] = true /\
  original_rows eng_qsem [0; 1]%nat [(ACountStar, ELit VNull)] bn_left = [[VInt 1; VInt 4; VInt 1]; [VInt 2; VInt 7; VInt 1]] /\
  packed_group_rows eng_qsem 4 0 1 [(ACountStar, ELit VNull)] bn_left = [[VInt 2; VInt 0; VInt 1]; [VInt 3; VInt 3; VInt 1]].
Proof. exact bounds_by_name_refuted. Qed.

(* ... and (before the recorded `fix:`) the bounds themselves described only the chunks that carry statistics; now such a
   column reports no bounds and the guard declines *)
Theorem C03_partial_stats_bounds_refuted :
  let a0 := [(true, [VInt 1; VInt 2]); (false, [VInt 1])] in
  let a1 := [(true, [VInt 0; VInt 3]); (false, [VInt 4])] in
  stats_of_chunks_before_fix a1 = mkCS (Some 0) (Some 3) None (Some 3) /\
  stats_of_chunks a1 = mkCS None None None None /\
  known_partial_stats a1 = true /\ known_partial_stats a0 = false /\
  pack_guard (1, 2) (1, 2) (0, 3) (0, 3) = Some 4 /\
  join_rows eng_qsem JInner 2 2 (on_pairs 0 1 2 3) [[VInt 1; VInt 0]; [VInt 2; VInt 3]; [VInt 1; VInt 4]] bn_right = [] /\
  join_rows eng_qsem JInner 2 2 (on_packed 4 0 1 2 3) [[VInt 1; VInt 0]; [VInt 2; VInt 3]; [VInt 1; VInt 4]] bn_right
    = [[VInt 1; VInt 4; VInt 2; VInt 0]].
Proof. exact partial_stats_bounds_refuted. Qed.

(* ---------- algebraic lemma library for the structural rules ---------- *)
(* filter pushdown: sigma_p (L join R) = (sigma_p L) join R when p reads L's columns only; for the join types that keep
   or filter left rows (inner, left outer, cross, semi, anti) *)
Theorem C03_pushdown_inner_sound : forall (S : sem) jt wl wr ok p (L R : rel),
  (forall l, In l L -> length l = wl) -> reads_below wl p ->
  match jt with JInner | JLeft | JCross | JSemi | JAnti => True | _ => False end ->
  filter (fun r => keeps (eval S r p)) (join_gen jt wl wr ok L R)
  = join_gen jt wl wr ok (filter (fun r => keeps (eval S r p)) L) R.
Proof. exact pushdown_inner_sound. Qed.

Theorem C03_pushdown_inner_right_sound : forall (S : sem) wl wr ok p (L R : rel),
  (forall l, In l L -> length l = wl) -> (forall i, In i (cols p) -> (wl <= i)%nat) ->
  filter (fun r => keeps (eval S r p)) (join_gen JInner wl wr ok L R)
  = join_gen JInner wl wr ok L (filter (fun r => keeps (eval S r (remap (fun i => (i - wl)%nat) p))) R).
Proof. exact pushdown_inner_right_sound. Qed.

(* NOT through the null-extended side of an outer join *)
Theorem C03_pushdown_outer_null_side_refuted :
  let L := [[VInt 1]; [VInt 2]] in
  let R := [[VInt 1; VInt 7]] in
  let ok := fun l r : row => keeps (compare_op CEq (nth 0 l VErr) (nth 0 r VErr)) in
  let p := EIsNull (ECol 2) in
  filter (fun r => keeps (eval sql_sem r p)) (join_gen JLeft 1 2 ok L R) = [[VInt 2; VNull; VNull]] /\
  join_gen JLeft 1 2 ok L (filter (fun r => keeps (eval sql_sem r (remap (fun i => (i - 1)%nat) p))) R)
    = [[VInt 1; VNull; VNull]; [VInt 2; VNull; VNull]].
Proof. exact pushdown_outer_null_side_refuted. Qed.

(* conjunction splitting, for the Kleene AND and for the strict AND *)
Theorem C03_filter_conj_split : forall a b (rows : rel),
  filter (fun r => keeps (eval sql_sem r (EAnd a b))) rows
  = filter (fun r => keeps (eval sql_sem r a)) (filter (fun r => keeps (eval sql_sem r b)) rows) /\
  filter (fun r => keeps (eval eng_sem r (EAnd a b))) rows
  = filter (fun r => keeps (eval eng_sem r a)) (filter (fun r => keeps (eval eng_sem r b)) rows).
Proof. intros a b rows. split; [exact (filter_conj_split sql_sem and_keeps_sql a b rows) | exact (filter_conj_split eng_sem and_keeps_eng a b rows)]. Qed.

(* projection pruning *)
Theorem C03_projection_pruning_sound : forall keep es (rows : rel),
  (forall e i, In e es -> In i (cols e) -> In i keep) ->
  prune_project keep es rows = map (fun r => map (eval sql_sem r) es) rows.
Proof. exact projection_pruning_sound. Qed.

(* a filter passes a projection when the projection passes the columns it reads through unchanged *)
Theorem C03_filter_through_project_sound : forall (S : sem) es p (rows : rel),
  (forall i, In i (cols p) -> nth i es (ELit VErr) = ECol i) ->
  filter (fun r => keeps (eval S r p)) (map (fun r => map (eval S r) es) rows)
  = map (fun r => map (eval S r) es) (filter (fun r => keeps (eval S r p)) rows).
Proof. exact filter_through_project_sound. Qed.
(* predicate pushdown over Project / Limit as repaired (fix 12a27a2) keeps the answer, for every plan and both semantics *)
Theorem C03_push_filter_sound : forall Q db q, qeval Q db (push_filter q) = qeval Q db q.
Proof. exact push_filter_sound. Qed.
(* regression witnesses: before the fix the decision was by NAME, and Limit / Sort were passed *)
Theorem C03_filter_below_rename_before_fix :
  let db := [[[VInt 1; VInt 0]; [VInt 2; VInt 3]; [VInt 8; VInt 2]]] in
  let q := QFilter (QProject (QTable 0 2) [ECol 0; EArith AAdd (ECol 1) (ELit (VInt 4))]) (ECmp CGt (ECol 1) (ELit (VInt 5))) in
  qeval sql_qsem db q = [[VInt 2; VInt 7]; [VInt 8; VInt 6]] /\
  qeval sql_qsem db (push_filter_before_fix q) = [] /\
  push_filter q = q.
Proof. exact filter_below_rename_before_fix. Qed.
Theorem C03_filter_below_limit_before_fix :
  let db := [[[VInt 1]; [VInt 2]; [VInt 6]; [VInt 7]; [VInt 8]]] in
  let q := QFilter (QLimit (QSort (QTable 0 1) [mkKey (ECol 0) false false]) 0 (Some 2%nat)) (ECmp CGt (ECol 0) (ELit (VInt 5))) in
  qeval sql_qsem db q = [] /\
  qeval sql_qsem db (push_filter_before_fix q) = [[VInt 6]; [VInt 7]] /\
  push_filter q = q.
Proof. exact filter_below_limit_before_fix. Qed.

(* derive-OR: the derived IN-list is implied by the OR, hence sigma_P = sigma_{P AND D} *)
Theorem C03_derive_or_sound : forall r c e d,
  derive_col c e = Some d -> keeps (eval sql_sem r e) = true -> keeps (eval sql_sem r d) = true.
Proof. exact derive_or_sound. Qed.
Theorem C03_derive_or_filter_equiv : forall P D (rows : rel),
  (forall r, In r rows -> keeps (eval sql_sem r P) = true -> keeps (eval sql_sem r D) = true) ->
  filter (fun r => keeps (eval sql_sem r (EAnd P D))) rows = filter (fun r => keeps (eval sql_sem r P)) rows.
Proof. exact (derive_or_filter_equiv sql_sem and_keeps_sql). Qed.

(* semi/anti-join pushdown below an inner join *)
Theorem C03_semi_join_pushdown_sound : forall (anti : bool) (wa wb wc : nat) okab (okc okc' : row -> row -> bool) (A B C : rel),
  (forall a x c, In a A -> okc (a ++ x) c = okc' a c) ->
  join_gen (if anti then JAnti else JSemi) (wa + wb)%nat wc okc (join_gen JInner wa wb okab A B) C
  = join_gen JInner wa wb okab (join_gen (if anti then JAnti else JSemi) wa wc okc' A C) B.
Proof. exact semi_join_pushdown_sound. Qed.

(* constant folding is the Kleene semantics ... *)
Theorem C03_fold_preserves_kleene : forall r e,
  eval sql_sem r e <> VErr -> eval sql_sem r (fold e) = eval sql_sem r e.
Proof. exact fold_preserves_kleene. Qed.
(* ... which the interpreter's NULL-strict kernels are not: optimised and unoptimised answers differ (class dominated-null) *)
Theorem C03_fold_breaks_strict_refuted :
  let e := EOr (ECmp CGt (ECol 0) (ELit (VInt 10))) (ELit (VBool true)) in
  let r := [VNull] in
  fold e = ELit (VBool true) /\
  eval eng_sem r e = VNull /\ eval eng_sem r (fold e) = VBool true /\ eval sql_sem r e = VBool true /\
  dominated r e = true /\
  qeval eng_qsem [[r]] (QFilter (QTable 0 1) e) = [] /\
  qeval eng_qsem [[r]] (fold_query (QFilter (QTable 0 1) e)) = [r].
Proof. exact fold_breaks_strict_refuted. Qed.

(* ---------- the fixpoint driver ---------- *)
Theorem C03_driver_application_bound : forall (plan : Type) (plan_eqb : plan -> plan -> bool) mi lr fr p,
  (snd (driver plan plan_eqb mi lr fr p) <= mi * length lr + length fr)%nat.
Proof. exact driver_application_bound. Qed.
Theorem C03_production_application_bound :
  application_bound = 141%nat /\ length RuleNames.loop_rules = 14%nat /\ length RuleNames.final_rules = 1%nat.
Proof. exact production_application_bound. Qed.
Theorem C03_driver_keeps_answer : forall (plan A : Type) (plan_eqb : plan -> plan -> bool) (answer : plan -> A) mi lr fr p,
  (forall r, In r (lr ++ fr) -> forall q, answer (r q) = answer q) ->
  answer (fst (driver plan plan_eqb mi lr fr p)) = answer p.
Proof. intros plan A. exact (@driver_keeps_answer plan A). Qed.

Print Assumptions C03_is_unique_key_iff.
Print Assumptions C03_fd_reduction_equiv.
Print Assumptions C03_unique_key_inference_refuted.
Print Assumptions C03_column_table_refuted.
Print Assumptions C03_left_count_refuted.
Print Assumptions C03_left_count_key_type_before_fix.
Print Assumptions C03_pack_injective.
Print Assumptions C03_pack_unpack_roundtrip.
Print Assumptions C03_pack_guard_sound.
Print Assumptions C03_pack_in_i64.
Print Assumptions C03_packed_join_equiv_sql.
Print Assumptions C03_packed_join_equiv_eng.
Print Assumptions C03_bounds_by_name_refuted.
Print Assumptions C03_partial_stats_bounds_refuted.
Print Assumptions C03_pushdown_inner_sound.
Print Assumptions C03_pushdown_inner_right_sound.
Print Assumptions C03_pushdown_outer_null_side_refuted.
Print Assumptions C03_filter_conj_split.
Print Assumptions C03_projection_pruning_sound.
Print Assumptions C03_filter_through_project_sound.
Print Assumptions C03_push_filter_sound.
Print Assumptions C03_filter_below_rename_before_fix.
Print Assumptions C03_filter_below_limit_before_fix.
Print Assumptions C03_derive_or_sound.
Print Assumptions C03_derive_or_filter_equiv.
Print Assumptions C03_semi_join_pushdown_sound.
Print Assumptions C03_fold_preserves_kleene.
Print Assumptions C03_fold_breaks_strict_refuted.
Print Assumptions C03_driver_application_bound.
Print Assumptions C03_production_application_bound.
Print Assumptions C03_driver_keeps_answer.
