(* C32 — Join reordering never introduces a cross product.
   This file holds only statement pins, `exact` proofs and Print Assumptions.
   `better`, `keep_left`, `start`, `score`, `gswap` are universally quantified: the statements hold
   for every cost model, build/probe orientation rule and greedy heuristic. *)
From QV Require Import Base.Util C32.Model C32.Proofs.
From Coq Require Import Relations.
Local Open Scope nat_scope.

(* (1) dp_build_plan on ANY memo satisfying the DP invariant: every relation exactly once, no Cross
   node and every join node has >= 1 equality crossing its two sides, every join node carries exactly
   the crossing edge conditions, every edge condition is placed exactly once (unbounded n) *)
Theorem C32_tree_wellformed :
  forall (keep_left : table -> N -> N -> bool) (n : nat) (es : list edge) (t : table),
  Forall (wf_edge n) es -> memo_inv n es t -> tget t (full n) <> None ->
  exists tr, build_plan keep_left (2 ^ n) n es t (full n) = Some tr /\
    Permutation (leaves tr) (seq 0 n) /\ joins_ok tr = true /\ dp_shape es tr = true /\
    Permutation (map norm_pred (tree_preds tr)) (map norm_pred (all_conds es)).
Proof. exact tree_wellformed. Qed.

(* the DP loop establishes that invariant, for every cost function (unbounded n) *)
Theorem C32_dp_run_inv :
  forall (better : table -> N -> entry -> entry -> bool) (n : nat) (es : list edge),
  1 <= n -> memo_inv n es (dp_run better n es).
Proof. exact dp_run_inv. Qed.

(* (2) a connected join graph always gets an entry for the full set (unbounded n, general proof:
   grow a reachable set one relation at a time along an edge leaving it) *)
Theorem C32_connected_has_plan :
  forall (better : table -> N -> entry -> entry -> bool) (n : nat) (es : list edge),
  1 <= n -> Forall (wf_edge n) es ->
  (forall a b, a < n -> b < n -> clos_refl_trans nat (adj es) a b) ->
  tget (dp_run better n es) (full n) <> None.
Proof. exact connected_has_plan. Qed.

(* (3) greedy fallback: while an unused edge links the joined set to an unjoined relation, one is picked ... *)
Theorem C32_greedy_picks_connected :
  forall (score : list nat -> edge -> Z), (forall j e, (i32_min < score j e)%Z) ->
  forall joined used ies best bs, (best = None -> bs = i32_min) ->
  (exists i e, In (i, e) ies /\ mem i used = false /\ cand joined e <> None) ->
  pick score joined used ies best bs <> None.
Proof. exact pick_finds. Qed.

(* ... so on a connected graph it never emits a Cross node (unbounded n) *)
Theorem C32_greedy_connected_no_cross :
  forall (score : list nat -> edge -> Z) (gswap : ptree -> nat -> bool),
  (forall j e, (i32_min < score j e)%Z) ->
  forall (n : nat) (es : list edge), Forall (wf_edge n) es ->
  (forall a b, a < n -> b < n -> clos_refl_trans nat (adj es) a b) ->
  forall start, start < n -> count_cross (greedy start score gswap n es) = 0.
Proof. exact greedy_connected_no_cross. Qed.

(* the whole rule, judged by the SAME plan_ok the check evaluates on the engine's plans *)
Theorem C32_reorder_ok :
  forall (better : table -> N -> entry -> entry -> bool) (keep_left : table -> N -> N -> bool)
         (start : list edge -> nat) (score : list nat -> edge -> Z) (gswap : ptree -> nat -> bool) (g : graph),
  wf_graph g = true -> known_c g = false -> graph_connectedb g = true -> 2 <= g_n g <= 12 ->
  plan_ok g (reorder better keep_left start score gswap g) = true.
Proof. exact reorder_ok. Qed.

Theorem C32_reorder_connected_ok :
  forall (better : table -> N -> entry -> entry -> bool) (keep_left : table -> N -> N -> bool)
         (start : list edge -> nat) (score : list nat -> edge -> Z) (gswap : ptree -> nat -> bool) (g : graph),
  wf_graph g = true -> known_c g = false -> 2 <= g_n g <= 12 ->
  (forall a b, a < g_n g -> b < g_n g -> clos_refl_trans nat (adj (fst (extract [] (g_all g)))) a b) ->
  let t := reorder better keep_left start score gswap g in
  plan_ok g t = true /\ model_shape g t = true /\ count_cross t = 0 /\
  dp_shape (fst (extract [] (g_all g))) t = true /\
  Permutation (map norm_pred (tree_preds t)) (map norm_pred (g_all g)).
Proof. exact reorder_connected_ok. Qed.

(* plan_ok's first clause means "each relation exactly once" *)
Theorem C32_all_rels_once_perm :
  forall n t, all_rels_once n t = true <-> Permutation (leaves t) (seq 0 n).
Proof. exact all_rels_once_perm. Qed.

(* finite-domain guards kept beside the general theorems: ALL graphs on 2..5 relations (single-column
   edges) and on 2..4 relations (two-column edges), three cost/orientation choices; and the greedy
   fallback run on its own on each of them from every start relation *)
Theorem C32_dp_small : forall n conds,
  In n [2; 3; 4; 5] -> In conds (sublists (pairs n)) -> dp_small_ok n conds = true.
Proof. exact dp_small. Qed.
Theorem C32_dp_small_composite : forall n conds,
  In n [2; 3; 4] -> In conds (sublists (pairs2 n)) -> dp_small_ok n conds = true.
Proof. exact dp_small_composite. Qed.
Theorem C32_greedy_small : forall n conds,
  In n [2; 3; 4; 5] -> In conds (sublists (pairs n)) -> greedy_small_ok n conds = true.
Proof. exact greedy_small. Qed.
Theorem C32_greedy_small_composite : forall n conds,
  In n [2; 3; 4] -> In conds (sublists (pairs2 n)) -> greedy_small_ok n conds = true.
Proof. exact greedy_small_composite. Qed.

(* the code's `(s1 - 1) & s` loop enumerates exactly the model's split list, for all masks of <= 7 relations *)
Theorem C32_splits_iter_small : forall s, (s < 128)%N -> splits_iter s = splits s.
Proof. exact splits_iter_small. Qed.

(* the known deviations (classes `local-predicate` / `local-predicate+residual-filter` of the check): a connected
   graph in which one relation's qualified columns do not resolve gets Cross joins ... *)
Theorem C32_refuted_opaque_relation :
  exists g, wf_graph g = true /\ graph_connectedb (mkGraph (g_n g) (g_conds g) (g_on g) []) = true /\ known_c g = true /\
    let t := reorder b_never k_true (fun _ => 0) sc0 (fun _ _ => false) g in
    count_cross t = 2 /\ plan_ok g t = false /\ preds_present (g_all g) t = true.
Proof. exact opaque_relation_cross_join. Qed.
(* ... and, when the join tree sits under a Filter, loses the ON predicate altogether *)
Theorem C32_refuted_lost_predicate :
  exists g, wf_graph g = true /\ graph_connectedb (mkGraph (g_n g) (g_conds g) (g_on g) []) = true /\ known_c g = true /\
    let t := reorder b_never k_true (fun _ => 0) sc0 (fun _ _ => false) g in
    t = PJoin true [] (PLeaf 0) (PLeaf 1) /\ preds_present (g_all g) t = false.
Proof. exact opaque_relation_lost_predicate. Qed.

Print Assumptions C32_tree_wellformed.
Print Assumptions C32_dp_run_inv.
Print Assumptions C32_connected_has_plan.
Print Assumptions C32_greedy_picks_connected.
Print Assumptions C32_greedy_connected_no_cross.
Print Assumptions C32_reorder_ok.
Print Assumptions C32_reorder_connected_ok.
Print Assumptions C32_all_rels_once_perm.
Print Assumptions C32_dp_small.
Print Assumptions C32_dp_small_composite.
Print Assumptions C32_greedy_small.
Print Assumptions C32_greedy_small_composite.
Print Assumptions C32_splits_iter_small.
Print Assumptions C32_refuted_opaque_relation.
Print Assumptions C32_refuted_lost_predicate.
