(* C19 — Rewritten files are never served from a stale cache.
   This file holds only statement pins, `exact` proofs and Print Assumptions. *)
From QV Require Import Base.Util C19.Model C19.Proofs.

(* whatever the two caches are keyed on: if versions with equal keys hold the same data, then in every
   history of writes, queries (any sidecar mode, same or fresh process) every allowed answer is the fresh one *)
Theorem C19_fresh_if_key_changes : forall (fkey skey : version -> list Z) (vs : list version),
  (forall v1 v2, In v1 vs -> In v2 vs -> fkey v1 = fkey v2 -> same_data v1 v2) ->
  (forall v1 v2, In v1 vs -> In v2 vs -> skey v1 = skey v2 -> same_data v1 v2) ->
  forall v0 ops, In v0 vs -> (forall v, In (Write v) ops -> In v vs) ->
  forall o, In o (run fkey skey (init v0) ops) ->
  match o with OAns allowed truth => allowed = [truth; truth] | _ => True end.
Proof. exact fresh_if_key_changes. Qed.

(* with the keys of the code: mtime (secs, nanos) for the footer cache, (length, mtime seconds) for the stamp *)
Theorem C19_fresh_if_mtime_and_stamp_change : forall vs v0 ops,
  (forall v1 v2, In v1 vs -> In v2 vs -> v_secs v1 = v_secs v2 -> v_nanos v1 = v_nanos v2 -> same_data v1 v2) ->
  (forall v1 v2, In v1 vs -> In v2 vs -> v_len v1 = v_len v2 -> v_secs v1 = v_secs v2 -> same_data v1 v2) ->
  In v0 vs -> (forall v, In (Write v) ops -> In v vs) ->
  forall o, In o (run code_fkey code_skey (init v0) ops) -> obs_fresh o = true \/ exists b t u, o = ODict b t u.
Proof. exact fresh_if_mtime_and_stamp_change. Qed.

(* the histories the property names are stale in the faithful model *)
Theorem C19_stale_same_mtime_refuted :
  run code_fkey code_skey (init w1) [Query Off 2; Write w2_same_mtime; Query Off 2]
    = [OAns [NoRows; NoRows] NoRows; OWrite; OAns [All 2; NoRows] (All 2)] /\
  run code_fkey code_skey (init w1) [Query Off 0; Write w2_same_mtime_layout; Query Off 0]
    = [OAns [All 1; All 1] (All 1); OWrite; OAns [Undef] (All 2)].
Proof. exact stale_same_mtime_refuted. Qed.

Theorem C19_stale_same_second_same_len_refuted :
  run code_fkey code_skey (init w1) [Query Build 0; Write w2_same_second; Query Build 0]
    = [OAns [All 1; All 1] (All 1); OWrite; OAns [All 1; All 1] (All 2)] /\
  run code_fkey code_skey (init w1) [Child Build 0; Write w2_same_second; Query Auto 0]
    = [OAns [All 1; All 1] (All 1); OWrite; OAns [All 1; All 1] (All 2)] /\
  surely_stale (OAns [All 1; All 1] (All 2)) = true.
Proof. exact stale_same_second_same_len_refuted. Qed.

Theorem C19_dict_cols_never_invalidated_refuted :
  run code_fkey code_skey (init w1) [Query Build 0; DictCols; Write w2_plain; Query Build 0; DictCols]
    = [OAns [All 1; All 1] (All 1); ODict true true false; OWrite; OAns [All 2; All 2] (All 2); ODict true false false].
Proof. exact dict_cols_never_invalidated_refuted. Qed.

(* the proposed repair (length in the footer key, nanoseconds in the stamp) is partial by necessity *)
Theorem C19_fixed_keys_partial :
  any_stale (run fixed_fkey fixed_skey (init w1) [Query Build 0; Write w2_same_second; Query Build 0]) = false /\
  any_stale (run fixed_fkey fixed_skey (init w1) [Query Off 0; Write w2_same_mtime_layout; Query Off 0]) = false /\
  any_stale (run fixed_fkey fixed_skey (init w1) [Query Build 0; Write w2_same_mtime; Query Build 0]) = true.
Proof. exact fixed_keys_partial. Qed.

Print Assumptions C19_fresh_if_key_changes.
Print Assumptions C19_fresh_if_mtime_and_stamp_change.
Print Assumptions C19_stale_same_mtime_refuted.
Print Assumptions C19_stale_same_second_same_len_refuted.
Print Assumptions C19_dict_cols_never_invalidated_refuted.
Print Assumptions C19_fixed_keys_partial.
