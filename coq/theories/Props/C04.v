(* C04 — Storage layout and fast-path choice never change an answer. Pins, `exact`, Print Assumptions only. *)
From QV Require Import Sql.Query Sql.QueryProofs C21.Proofs C07.Proofs C04.Proofs.

(* Any two layouts (files x row groups) of the same rows give the same answer, for EVERY query, when the plan is executed
   row group by row group (`peval` over the morsels): *)
Theorem C04_layout_irrelevant : forall Q (HU : forall L R, q_setop Q SUnion true L R = L ++ R) (ldb1 ldb2 : list layout) q,
  map flat ldb1 = map flat ldb2 ->
  concat (peval Q (map morsels ldb1) q) = concat (peval Q (map morsels ldb2) q).
Proof. exact layout_irrelevant. Qed.

(* ... a memory table (any batch split) and a Parquet layout of the same rows give the same answer, which is the answer of
   the reference evaluator on the rows *)
Theorem C04_memory_vs_parquet : forall Q (HU : forall L R, q_setop Q SUnion true L R = L ++ R) (mem : list (list rel)) (ldb : list layout) q,
  map (@concat row) mem = map flat ldb ->
  concat (peval Q mem q) = concat (peval Q (map morsels ldb) q) /\
  concat (peval Q mem q) = qeval Q (map flat ldb) q.
Proof. exact memory_vs_parquet. Qed.

Theorem C04_memory_vs_parquet_engine : forall (mem : list (list rel)) (ldb : list layout) q,
  map (@concat row) mem = map flat ldb ->
  concat (peval eng_qsem mem q) = concat (peval eng_qsem (map morsels ldb) q).
Proof. intros mem ldb q H. exact (proj1 (memory_vs_parquet eng_qsem eng_union_all mem ldb q H)). Qed.

(* scan paths *)
Theorem C04_decoder_filter_sound : forall (p : row -> bool) (l : layout), flat (map (map (filter p)) l) = filter p (flat l).
Proof. exact decoder_filter_sound. Qed.

Theorem C04_pruned_scan_sound : forall (p : row -> bool) (skip : rel -> bool) (rgs : list rel),
  (forall rg, In rg rgs -> skip rg = true -> filter p rg = []) ->
  concat (map (filter p) (filter (fun rg => negb (skip rg)) rgs)) = filter p (concat rgs).
Proof. exact pruned_scan_sound. Qed.

(* morsel-parallel aggregation: one partial state per row group, merged *)
Theorem C04_morsel_aggregation_sound : forall f (l : list (list (list (option Z)))),
  finish f (fold_left merge (map partial (concat l)) pempty)
  = agg_apply f (map inj (concat (concat l))) (length (concat (concat l))).
Proof. exact morsel_aggregation_sound. Qed.

Theorem C04_morsel_group_sound : forall f (member : row -> bool) (arg : row -> option Z) (l : layout),
  finish f (fold_left merge (map (fun m => partial (map arg (filter member m))) (morsels l)) pempty)
  = agg_apply f (map inj (map arg (filter member (flat l)))) (length (filter member (flat l))).
Proof. exact morsel_group_sound. Qed.

Theorem C04_morsel_merge_order : forall f (t1 t2 : mtree),
  Permutation (C21.Proofs.flat t1) (C21.Proofs.flat t2) -> finish f (mstate t1) = finish f (mstate t2).
Proof. exact merge_order_irrelevant. Qed.

(* shared prescan: decode once with the union projection, re-project by column name *)
Theorem C04_reproject_by_name_sound : forall schema u req r,
  NoDup schema -> (forall j, In j u -> (j < length schema)%nat) -> incl req u ->
  reproject schema u req (project u r) = project req r.
Proof. exact reproject_by_name_sound. Qed.

Theorem C04_reproject_dup_names_refuted :
  let schema := [7; 7]%nat in
  let r := [VInt 1; VInt 2] in
  reproject schema [0; 1]%nat [1%nat] (project [0; 1]%nat r) = [VInt 1] /\ project [1%nat] r = [VInt 2].
Proof. exact reproject_dup_names_refuted. Qed.

(* success is uniform over the paths: the dense direct-address aggregation falls back where it cannot represent the input *)
Theorem C04_dense_agg_sound : forall Q key aggs rows, dense_agg Q key aggs rows = group_rows Q [key] aggs rows.
Proof. exact dense_agg_sound. Qed.

Theorem C04_dense_sum_sound_after_fix : forall l : list (option Z),
  l <> [] -> has_none l = false -> dense_sum l = agg_apply ASum (map inj l) (length l).
Proof. exact dense_sum_sound_after_fix. Qed.

(* regression witnesses of the behaviour before `fix:` dd0f095 (classes dense-null-key, dense-empty-sum, now `fixed:`) *)
Theorem C04_dense_before_fix_agrees_outside_class : forall Q key aggs rows,
  dense_null_key_class Q key rows = false -> dense_agg_before_fix Q key aggs rows = Some (group_rows Q [key] aggs rows).
Proof. exact dense_before_fix_agrees_outside_class. Qed.

Theorem C04_dense_before_fix_failed_exactly_in_class : forall Q key aggs rows,
  dense_agg_before_fix Q key aggs rows = None <-> dense_null_key_class Q key rows = true.
Proof. exact dense_before_fix_failed_exactly_in_class. Qed.

Theorem C04_dense_null_key_before_fix_refuted :
  exists key aggs rows, dense_agg_before_fix eng_qsem key aggs rows = None /\
    dense_agg eng_qsem key aggs rows = [[VNull; VInt 1]; [VInt 1; VInt 1]] /\
    group_rows eng_qsem [key] aggs rows = [[VNull; VInt 1]; [VInt 1; VInt 1]].
Proof. exact dense_null_key_before_fix_refuted. Qed.

Theorem C04_dense_sum_agrees_outside_class : forall l : list (option Z),
  dense_empty_sum_class l = false -> dense_sum l = agg_apply ASum (map inj l) (length l).
Proof. exact dense_sum_agrees_outside_class. Qed.

Theorem C04_dense_sum_all_null_before_fix_refuted :
  dense_sum [None; None] = VInt 0 /\ agg_apply ASum (map inj [None; None]) 2 = VNull /\
  dense_empty_sum_class [None; None] = true /\ has_none [None; None] = true.
Proof. exact dense_sum_all_null_before_fix_refuted. Qed.

Print Assumptions C04_layout_irrelevant.
Print Assumptions C04_memory_vs_parquet.
Print Assumptions C04_memory_vs_parquet_engine.
Print Assumptions C04_decoder_filter_sound.
Print Assumptions C04_pruned_scan_sound.
Print Assumptions C04_morsel_aggregation_sound.
Print Assumptions C04_morsel_group_sound.
Print Assumptions C04_morsel_merge_order.
Print Assumptions C04_reproject_by_name_sound.
Print Assumptions C04_reproject_dup_names_refuted.
Print Assumptions C04_dense_agg_sound.
Print Assumptions C04_dense_sum_sound_after_fix.
Print Assumptions C04_dense_before_fix_agrees_outside_class.
Print Assumptions C04_dense_before_fix_failed_exactly_in_class.
Print Assumptions C04_dense_null_key_before_fix_refuted.
Print Assumptions C04_dense_sum_agrees_outside_class.
Print Assumptions C04_dense_sum_all_null_before_fix_refuted.
