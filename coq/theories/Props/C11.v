(* C11 — Split enumeration covers every row exactly once, canonically.
   This file holds only statement pins, `exact` proofs and Print Assumptions.
   The theorems hold for ALL values of the three constants (c : consts); the engine's are engine_consts. *)
From Coq Require Import Sorting.Sorted.
From QV Require Import Base.Util C12.Model C11.Model C11.Proofs.

(* one row group: pieces contiguous from offset 0, each with >= 1 row, row counts summing to the group *)
Theorem C11_cut_cover : forall target rows bytes, 0 < rows ->
  contiguous 0 (cut target rows bytes) /\ zsum (map pn (cut target rows bytes)) = rows
  /\ cut target rows bytes <> [].
Proof. exact cut_cover. Qed.

(* one row group: piece bytes sum exactly to the group's bytes (saturating_sub never saturates, the
   u128 product and the `as u64` never wrap) *)
Theorem C11_cut_bytes : forall target rows bytes, 0 < rows -> rows < W64 -> 0 <= bytes < W64 ->
  zsum (map pb (cut target rows bytes)) = bytes.
Proof. exact cut_bytes. Qed.

(* the inventory is exactly the non-empty row groups of the files, bytes clamped at 0 *)
Theorem C11_inventory_exact : forall files g,
  In g (inventory files) <->
  exists f i rows b, In f files /\ nth_error (snd f) i = Some (rows, b) /\ 0 < rows
                     /\ g = mkRG (fst f) (Z.of_nat i) rows (Z.max b 0).
Proof. exact inventory_exact. Qed.

(* cover_exact: the output consists of exactly the pieces of the inventory's row groups, and per row
   group they are non-empty, contiguous from 0, positive, and their rows sum to the group's rows *)
Theorem C11_cover_exact : forall c table files nodes,
  Permutation (ss_splits (enumerate_c c table files nodes))
              (flat_map (splits_of_rg table (ss_target (enumerate_c c table files nodes))) (inventory files))
  /\ forall g, In g (inventory files) ->
       let ps := splits_of_rg table (ss_target (enumerate_c c table files nodes)) g in
       ps <> [] /\ contiguous_s 0 ps /\ zsum (map s_rows ps) = g_rows g
       /\ (forall s, In s ps -> s_table s = table /\ s_file s = g_file g /\ s_rg s = g_index g).
Proof. exact cover_exact. Qed.

(* with pairwise distinct file names the final sort is the identity: the output IS, in this order, the
   pieces of each non-empty row group of each file in file-name order, strictly ascending by canonical key *)
Theorem C11_enumerate_sorted : forall c table files nodes, NoDup (map fst files) ->
  ss_splits (enumerate_c c table files nodes)
  = flat_map (splits_of_rg table (ss_target (enumerate_c c table files nodes))) (inventory files)
  /\ StronglySorted (fun x y => key_cmp x y = Lt) (ss_splits (enumerate_c c table files nodes)).
Proof. exact enumerate_sorted. Qed.

(* the executable spec the implementation's outputs are judged by is met by the model on every input
   outside the known class (distinct names) with i64 footer values *)
Theorem C11_model_meets_spec : forall c table files nodes,
  NoDup (map fst files) ->
  (forall f r b, In f files -> In (r, b) (snd f) -> r < W63 /\ b < W63) ->
  spec_ok table files (enumerate_c c table files nodes) = true.
Proof. exact model_meets_spec. Qed.

(* bytes_exact: per row group, and for the table *)
Theorem C11_bytes_exact : forall c table files nodes, i64_files files ->
  forall g, In g (inventory files) ->
    zsum (map s_bytes (splits_of_rg table (ss_target (enumerate_c c table files nodes)) g)) = g_bytes g.
Proof. exact bytes_exact. Qed.

Theorem C11_total_bytes_exact : forall c table files nodes, i64_files files ->
  ss_total_bytes (enumerate_c c table files nodes) = zsum (map g_bytes (inventory files))
  /\ zsum (map s_bytes (ss_splits (enumerate_c c table files nodes))) = ss_total_bytes (enumerate_c c table files nodes).
Proof. exact total_bytes_exact. Qed.

Theorem C11_total_rows_exact : forall c table files nodes,
  ss_total_rows (enumerate_c c table files nodes) = zsum (map g_rows (inventory files))
  /\ zsum (map s_rows (ss_splits (enumerate_c c table files nodes))) = ss_total_rows (enumerate_c c table files nodes).
Proof. exact total_rows_exact. Qed.

Theorem C11_target_pos : forall c total nodes, 1 <= target_split_bytes c total nodes.
Proof. exact target_pos. Qed.

(* under the property's bounds nothing leaves its machine range *)
Theorem C11_no_overflow : forall c table files nodes,
  (forall f r b, In f files -> In (r, b) (snd f) -> r <= 2 ^ 31 /\ b <= 2 ^ 40) ->
  n_groups files <= 2 ^ 20 -> nodes <= 2 ^ 32 -> 0 <= c_spn c <= 2 ^ 20 ->
  enumerate_checked c table files nodes = Some (enumerate_c c table files nodes).
Proof. exact no_overflow. Qed.

(* order of the file list is irrelevant when file names are pairwise distinct *)
Theorem C11_perm_invariant : forall c table files files' nodes,
  NoDup (map fst files) -> Permutation files files' ->
  enumerate_c c table files nodes = enumerate_c c table files' nodes.
Proof. exact perm_invariant. Qed.

Theorem C11_perm_invariant_unless_known : forall c table files files' nodes,
  known_c files = false -> Permutation files files' ->
  enumerate_c c table files nodes = enumerate_c c table files' nodes
  /\ digest (enumerate_c c table files nodes) = digest (enumerate_c c table files' nodes).
Proof. exact perm_invariant_unless_known. Qed.

Theorem C11_known_c_false_iff : forall files, known_c files = false <-> NoDup (map fst files).
Proof. exact known_c_false_iff. Qed.

(* the mount path is irrelevant: inventories equal up to directory prefixes give the same SplitSet and digest *)
Theorem C11_path_independent : forall c table (p1 p2 : list pfile) nodes,
  map strip_dir p1 = map strip_dir p2 ->
  enumerate_paths c table p1 nodes = enumerate_paths c table p2 nodes
  /\ digest (enumerate_paths c table p1 nodes) = digest (enumerate_paths c table p2 nodes).
Proof. exact path_independent. Qed.

Theorem C11_path_and_order_independent : forall c table (p1 p2 : list pfile) nodes,
  NoDup (map (fun p => fst (strip_dir p)) p1) ->
  Permutation (map strip_dir p1) (map strip_dir p2) ->
  enumerate_paths c table p1 nodes = enumerate_paths c table p2 nodes.
Proof. exact path_and_order_independent. Qed.

(* the digest is FNV-1a over one byte string built from (table, canonical split fields) only *)
Theorem C11_digest_encoding : forall ss, digest ss = feed fnv_offset (encoding ss).
Proof. exact digest_encoding. Qed.

Theorem C11_digest_fast_eq : forall ss, digest_fast ss = digest ss.
Proof. exact digest_fast_eq. Qed.

(* the FNV-1a step is injective in the byte for a fixed state, and in the state for a fixed byte *)
Theorem C11_digest_step_injective_byte : forall h b1 b2,
  0 <= h < W64 -> 0 <= b1 < W64 -> 0 <= b2 < W64 -> fnv_step h b1 = fnv_step h b2 -> b1 = b2.
Proof. exact digest_step_injective_byte. Qed.

Theorem C11_digest_step_injective_state : forall b h1 h2,
  0 <= b < W64 -> 0 <= h1 < W64 -> 0 <= h2 < W64 -> fnv_step h1 b = fnv_step h2 b -> h1 = h2.
Proof. exact digest_step_injective_state. Qed.

(* PARTIAL: "any change to the content changes the digest" is false for every 64-bit hash. Pinned
   instead: encodings of equal length differing in exactly one byte have different digests. *)
Theorem C11_digest_sensitive_partial : forall a b pre b1 b2 suf,
  encoding a = pre ++ b1 :: suf -> encoding b = pre ++ b2 :: suf ->
  0 <= b1 < 256 -> 0 <= b2 < 256 -> Forall (fun x => 0 <= x < 256) suf -> b1 <> b2 ->
  digest a <> digest b.
Proof. exact digest_sensitive_partial. Qed.

(* REFUTED for duplicate file names: two files named "x" (in different directories) with different
   footers; swapping them in the input list changes the split order and the digest, and the cover
   spec fails on the canonical (file name, row group) key *)
Theorem C11_dup_names_refuted :
  Permutation [([120], [(10, 100)]); ([120], [(20, 300)])] [([120], [(20, 300)]); ([120], [(10, 100)])]
  /\ known_c [([120], [(10, 100)]); ([120], [(20, 300)])] = true
  /\ ss_splits (enumerate [116] [([120], [(10, 100)]); ([120], [(20, 300)])] 1)
     <> ss_splits (enumerate [116] [([120], [(20, 300)]); ([120], [(10, 100)])] 1)
  /\ digest (enumerate [116] [([120], [(10, 100)]); ([120], [(20, 300)])] 1)
     <> digest (enumerate [116] [([120], [(20, 300)]); ([120], [(10, 100)])] 1)
  /\ spec_ok [116] [([120], [(10, 100)]); ([120], [(20, 300)])]
             (enumerate [116] [([120], [(10, 100)]); ([120], [(20, 300)])] 1) = false.
Proof. exact dup_names_refuted. Qed.

Print Assumptions C11_cut_cover.
Print Assumptions C11_cut_bytes.
Print Assumptions C11_inventory_exact.
Print Assumptions C11_cover_exact.
Print Assumptions C11_enumerate_sorted.
Print Assumptions C11_model_meets_spec.
Print Assumptions C11_bytes_exact.
Print Assumptions C11_total_bytes_exact.
Print Assumptions C11_total_rows_exact.
Print Assumptions C11_target_pos.
Print Assumptions C11_no_overflow.
Print Assumptions C11_perm_invariant.
Print Assumptions C11_perm_invariant_unless_known.
Print Assumptions C11_known_c_false_iff.
Print Assumptions C11_path_independent.
Print Assumptions C11_path_and_order_independent.
Print Assumptions C11_digest_encoding.
Print Assumptions C11_digest_fast_eq.
Print Assumptions C11_digest_step_injective_byte.
Print Assumptions C11_digest_step_injective_state.
Print Assumptions C11_digest_sensitive_partial.
Print Assumptions C11_dup_names_refuted.
