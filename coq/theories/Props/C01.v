(* C01 — SQL answers agree with standard SQL semantics. Pins, `exact`, Print Assumptions only.
   The reference semantics is the definitional evaluator of Sql/Query.v instantiated with Kleene logic and
   multiset set operations (sql_qsem); the engine model is the same evaluator instantiated with the kernels
   in which the engine differs (eng_qsem). The correspondence run ties the engine to the engine model. *)
From QV Require Import Sql.Query Sql.QueryProofs Sql.LikeProofs C02.Proofs C24.Proofs.

(* For EVERY query built from scans, VALUES, WHERE, projection, all join types, GROUP BY with the seven
   aggregates, DISTINCT, UNION/INTERSECT/EXCEPT [ALL], ORDER BY and LIMIT/OFFSET, over EVERY database, the
   engine model returns exactly the reference relation (same rows, same order) unless the input falls in one
   of the recorded classes (known_q: a NULL operand beside a dominating one under AND/OR/IN/BETWEEN on a row
   that reaches it; INTERSECT/EXCEPT with a NULL-carrying twin row; the ALL forms with overlapping inputs). *)
Theorem C01_engine_model_is_sql : forall (db : list rel) (q : query),
  known_q db q = false -> qeval eng_qsem db q = qeval sql_qsem db q.
Proof. exact eng_query_agrees. Qed.

(* scalar expressions: CASE / COALESCE / IN / BETWEEN / LIKE / comparisons / arithmetic *)
Theorem C01_expressions : forall (r : row) (e : expr),
  dominated r e = false -> eval eng_sem r e = eval sql_sem r e.
Proof. exact expr_agree. Qed.

(* the classes are decided by the input's shape; outside set operations and with NULL-free data they are empty
   for conjunctive predicates: e.g. a query without OR/NOT/IN/BETWEEN/set operations is never in a class *)
Theorem C01_setops_classes_are_the_only_setop_deviation : forall op all (L R : rel),
  setop_null_class op L R = false -> setop_all_class op all L R = false ->
  eng_setop op all L R = sql_setop op all L R.
Proof. exact setop_agree. Qed.

Print Assumptions C01_engine_model_is_sql.
Print Assumptions C01_expressions.
Print Assumptions C01_setops_classes_are_the_only_setop_deviation.
