(* C08 — Running out of memory budget never changes an answer. Pins, `exact`, Print Assumptions only. *)
From QV Require Import Sql.Query Sql.QueryProofs C25.Model C07.Proofs C08.Model C08.Proofs.

(* ---- partitioned execution = unpartitioned execution, for ANY hash function ---- *)
Theorem C08_partition_perm : forall (A : Type) (h : A -> nat) ps (L : list A),
  NoDup ps -> (forall x, In x L -> In (h x) ps) ->
  Permutation (flat_map (fun p => filter (in_part h p) L) ps) L.
Proof. intros A. exact (@partition_perm A). Qed.

Theorem C08_partitioned_join_equiv : forall wl wr ok (hl hr : row -> nat) ps (L R : rel),
  (forall l r, ok l r = true -> hl l = hr r) -> NoDup ps -> (forall l, In l L -> In (hl l) ps) ->
  Permutation (flat_map (fun p => join_gen JInner wl wr ok (filter (in_part hl p) L) (filter (in_part hr p) R)) ps)
              (join_gen JInner wl wr ok L R).
Proof. exact partitioned_join_equiv. Qed.

Theorem C08_partitioned_group_equiv : forall Q k keys aggs (hk : row -> nat) ps (rows : rel),
  (forall a b, row_same a b = true -> hk a = hk b) -> NoDup ps ->
  (forall r, In r rows -> In (hk (map (eval (q_esem Q) r) (k :: keys))) ps) ->
  Permutation
    (flat_map (fun p => group_rows Q (k :: keys) aggs
                          (filter (in_part (fun r => hk (map (eval (q_esem Q) r) (k :: keys))) p) rows)) ps)
    (group_rows Q (k :: keys) aggs rows).
Proof. exact partitioned_group_equiv. Qed.

Theorem C08_partitioned_distinct_equiv : forall (h : row -> nat) ps (rows : rel),
  (forall a b, row_same a b = true -> h a = h b) -> NoDup ps -> (forall r, In r rows -> In (h r) ps) ->
  Permutation (flat_map (fun p => distinct (filter (in_part h p) rows)) ps) (distinct rows).
Proof. exact partitioned_distinct_equiv. Qed.

(* ---- external sort ---- *)
Theorem C08_merge2_perm : forall (A : Type) (le : A -> A -> bool) (a b : list A), Permutation (merge2 le a b) (a ++ b).
Proof. intros A. exact (@merge2_perm A). Qed.

Theorem C08_merge2_sorted : forall (A : Type) (le : A -> A -> bool),
  (forall a b, le a b = true \/ le b a = true) ->
  forall a b, Sorted (fun x y => le x y = true) a -> Sorted (fun x y => le x y = true) b ->
              Sorted (fun x y => le x y = true) (merge2 le a b).
Proof. intros A. exact (@merge2_sorted A). Qed.

Theorem C08_kmerge_sorted_perm : forall (A : Type) (le : A -> A -> bool),
  (forall a b, le a b = true \/ le b a = true) ->
  forall runs, Forall (Sorted (fun x y => le x y = true)) runs ->
  Sorted (fun x y => le x y = true) (kmerge le runs) /\ Permutation (kmerge le runs) (concat runs).
Proof. intros A. exact (@kmerge_sorted_perm A). Qed.

(* every merge schedule (several passes, any fan-in) *)
Theorem C08_kmerge_any_tree : forall (A : Type) (le : A -> A -> bool),
  (forall a b, le a b = true \/ le b a = true) ->
  forall t : mtree, mruns_sorted le t ->
  Sorted (fun x y => le x y = true) (mmerge le t) /\ Permutation (mmerge le t) (mflat t).
Proof. intros A. exact (@kmerge_any_tree A). Qed.

(* sorted runs of ANY split of the input, merged with the QUERY's comparator = a sorted permutation of ORDER BY's output *)
Theorem C08_ext_sort_rows_correct : forall Q keys (parts : list rel),
  Sorted (fun a b => sort_le Q keys a b = true) (ext_sort (sort_le Q keys) parts) /\
  Permutation (ext_sort (sort_le Q keys) parts) (sort_rows Q keys (concat parts)).
Proof. exact ext_sort_rows_correct. Qed.

Theorem C08_sort_rows_uses_sort_le : forall Q keys rows, sort_rows Q keys rows = isort (sort_le Q keys) rows.
Proof. exact sort_rows_is_isort. Qed.

(* the merge comparator the engine used before `fix:` 0e417e6 is the query's comparator exactly when every key has NULLS FIRST
   iff DESC ... *)
Theorem C08_eng_merge_agrees : forall Q keys,
  merge_flags_agree keys = true -> forall a b, eng_merge_le Q keys a b = sort_le Q keys a b.
Proof. exact eng_merge_agrees. Qed.

Theorem C08_eng_ext_sort_correct : forall Q keys (parts : list rel),
  known_spill_sort keys None = false ->
  Sorted (fun a b => sort_le Q keys a b = true) (eng_ext_sort Q keys parts) /\
  Permutation (eng_ext_sort Q keys parts) (sort_rows Q keys (concat parts)).
Proof. exact eng_ext_sort_correct. Qed.

(* ... and the regression witnesses of the repaired defects: NULL placement of the merge (0e417e6), LIMIT not applied on the
   spilled path (00c4928) *)
Theorem C08_merge_comparator_refuted :
  let keys := [mkKey (ECol 0) false true] in
  known_spill_sort keys None = true /\
  eng_ext_sort eng_qsem keys [[[VNull]]; [[VInt 1]]] = [[VInt 1]; [VNull]] /\
  sort_rows eng_qsem keys [[VNull]; [VInt 1]] = [[VNull]; [VInt 1]].
Proof. exact merge_comparator_refuted. Qed.

Theorem C08_merge_comparator_refuted_desc :
  let keys := [mkKey (ECol 0) true false] in
  known_spill_sort keys None = true /\
  eng_ext_sort eng_qsem keys [[[VNull]]; [[VInt 1]]] = [[VNull]; [VInt 1]] /\
  sort_rows eng_qsem keys [[VNull]; [VInt 1]] = [[VInt 1]; [VNull]].
Proof. exact merge_comparator_refuted_desc. Qed.

Theorem C08_spill_ignores_fetch_refuted :
  let keys := [mkKey (ECol 0) false false] in
  let rows := [[VInt 3]; [VInt 1]; [VInt 2]] in
  known_spill_sort keys (Some 1%nat) = true /\
  eng_ext_sort eng_qsem keys [[[VInt 3]]; [[VInt 1]; [VInt 2]]] = [[VInt 1]; [VInt 2]; [VInt 3]] /\
  qeval eng_qsem [rows] (QLimit (QSort (QTable 0 1) keys) 0 (Some 1%nat)) = [[VInt 1]].
Proof. exact spill_ignores_fetch_refuted. Qed.

(* ---- the run under an arbitrary oracle of spill decisions ---- *)
Theorem C08_run_never_spill : forall Q db q path, run Q db never_spill path q = Rows (qeval Q db q).
Proof. intros Q db q path. exact (run_never_spill Q db q path). Qed.

(* scans, filters, projections, joins of every type, UNION ALL: any decisions whose hash functions agree on matching rows *)
Theorem C08_bag_limit_independent : forall Q (HU : forall L R, q_setop Q SUnion true L R = L ++ R) db o q path,
  bag_q q = true -> oracle_ok Q o path q ->
  match run Q db o path q with Err => True | Rows r => Permutation r (qeval Q db q) end.
Proof. intros Q HU db o q path. exact (bag_limit_independent Q HU db o q path). Qed.

Theorem C08_group_limit_independent : forall Q db o path c k keys aggs,
  quiet o (0%nat :: path) c ->
  (match o path with DSpill hl _ _ _ => forall a b, row_same a b = true -> hl a = hl b | _ => True end) ->
  match run Q db o path (QAgg c (k :: keys) aggs) with Err => True | Rows r => Permutation r (qeval Q db (QAgg c (k :: keys) aggs)) end.
Proof. exact group_limit_independent. Qed.

Theorem C08_distinct_limit_independent : forall Q db o path c,
  quiet o (0%nat :: path) c ->
  (match o path with DSpill hl _ _ _ => forall a b, row_same a b = true -> hl a = hl b | _ => True end) ->
  match run Q db o path (QDistinct c) with Err => True | Rows r => Permutation r (qeval Q db (QDistinct c)) end.
Proof. exact distinct_limit_independent. Qed.

Theorem C08_global_agg_limit_independent : forall Q db o path c aggs,
  quiet o (0%nat :: path) c -> o path <> DFail ->
  run Q db o path (QAgg c [] aggs) = Rows (qeval Q db (QAgg c [] aggs)).
Proof. exact global_agg_limit_independent. Qed.

Theorem C08_sort_limit_independent : forall Q (HU : forall L R, q_setop Q SUnion true L R = L ++ R) db o path c keys,
  bag_q c = true -> oracle_ok Q o (0%nat :: path) c ->
  match run Q db o path (QSort c keys) with
  | Err => True
  | Rows r => Permutation r (qeval Q db (QSort c keys)) /\ Sorted (fun a b => sort_le Q keys a b = true) r
  end.
Proof. exact sort_limit_independent. Qed.

Theorem C08_topk_limit_independent : forall Q (HU : forall L R, q_setop Q SUnion true L R = L ++ R) db o path c keys skip fetch,
  bag_q c = true -> oracle_ok Q o (0%nat :: 0%nat :: path) c ->
  match run Q db o path (QLimit (QSort c keys) skip fetch) with
  | Err => True
  | Rows r => exists full, Permutation full (qeval Q db (QSort c keys)) /\
                           Sorted (fun a b => sort_le Q keys a b = true) full /\ r = limit_spec skip fetch full
  end.
Proof. exact topk_limit_independent. Qed.

(* the main statement: under ANY oracle the run is an explicit error or has the rows of the unlimited run *)
Theorem C08_limit_independent : forall Q (HU : forall L R, q_setop Q SUnion true L R = L ++ R) db o q,
  covered Q o [] q ->
  is_error (run Q db o [] q) = true \/
  exists r r0, run Q db o [] q = Rows r /\ run Q db never_spill [] q = Rows r0 /\ Permutation r r0.
Proof. exact limit_independent. Qed.

Theorem C08_covered_plans : forall Q o path q,
  covered Q o path q =
  match q with
  | QAgg c (_ :: _) _ | QDistinct c =>
      quiet o (0%nat :: path) c /\
      match o path with DSpill hl _ _ _ => forall a b, row_same a b = true -> hl a = hl b | _ => True end
  | QSort c _ => bag_q c = true /\ oracle_ok Q o (0%nat :: path) c
  | _ => bag_q q = true /\ oracle_ok Q o path q
  end.
Proof. reflexivity. Qed.

Print Assumptions C08_partition_perm.
Print Assumptions C08_partitioned_join_equiv.
Print Assumptions C08_partitioned_group_equiv.
Print Assumptions C08_partitioned_distinct_equiv.
Print Assumptions C08_merge2_perm.
Print Assumptions C08_merge2_sorted.
Print Assumptions C08_kmerge_sorted_perm.
Print Assumptions C08_kmerge_any_tree.
Print Assumptions C08_ext_sort_rows_correct.
Print Assumptions C08_sort_rows_uses_sort_le.
Print Assumptions C08_eng_merge_agrees.
Print Assumptions C08_eng_ext_sort_correct.
Print Assumptions C08_merge_comparator_refuted.
Print Assumptions C08_merge_comparator_refuted_desc.
Print Assumptions C08_spill_ignores_fetch_refuted.
Print Assumptions C08_run_never_spill.
Print Assumptions C08_bag_limit_independent.
Print Assumptions C08_group_limit_independent.
Print Assumptions C08_distinct_limit_independent.
Print Assumptions C08_global_agg_limit_independent.
Print Assumptions C08_sort_limit_independent.
Print Assumptions C08_topk_limit_independent.
Print Assumptions C08_limit_independent.
Print Assumptions C08_covered_plans.
