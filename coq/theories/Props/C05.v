(* C05 — Statistics-based row-group skipping is sound.
   Statement pins, `exact` proofs and Print Assumptions only.

   Reading guide. `keep ext extc extp bm fm p r` = "the row filter keeps row r":
     bm = Strict is the engine's row filter (arrow boolean::and/or and the compiled path: NULL as soon as a side
          is NULL), bm = Kleene is SQL three-valued logic;
     fm = IEEE is the compiled predicate path (Rust PartialOrd on f64), fm = Total is the interpreter
          (arrow comparison kernels, f64::total_cmp);
     ext/extc/extp = whatever the engine answers on comparisons and predicates the model does not describe
          (string vs number, Boolean literals, non-column operands, IS NULL, LIKE, functions ...).
   The property ("enabling skipping never changes the answer") needs bm = Strict and the fm the engine picks for the
   predicate; the theorems hold for every combination, so also against standard SQL semantics.
   `known_*` are the input classes on which the faithful model — and the engine — violate the property
   (`*_refuted` below); everything else is covered. *)
From QV Require Import Base.Util C05.Model C05.Proofs.

(* a row group reported "cannot match" holds no row the filter keeps *)
Theorem C05_might_match_sound : forall ext extc extp bm fm cts sts rows p,
  rows_typed cts rows = true -> stats_ok rows sts = true -> wt cts p = true ->
  known_nan p rows = false -> known_negzero fm p sts = false -> known_i32_trunc p sts = false ->
  known_2p53 p sts = false -> known_strict_or bm p sts = false ->
  might_match sts p = false -> forall r, In r rows -> keep ext extc extp bm fm p r = false.
Proof. exact might_match_sound. Qed.

(* without NOT, only the NaN / negative-zero / i32-truncation classes matter *)
Theorem C05_might_match_sound_notfree : forall ext extc extp bm fm cts sts rows p,
  notfree p = true ->
  rows_typed cts rows = true -> stats_ok rows sts = true -> wt cts p = true ->
  known_nan p rows = false -> known_negzero fm p sts = false -> known_i32_trunc p sts = false ->
  might_match sts p = false -> forall r, In r rows -> keep ext extc extp bm fm p r = false.
Proof. exact might_match_sound_notfree. Qed.

(* a row group reported "all rows match" (row filter dropped) holds only rows the filter keeps *)
Theorem C05_definite_sound : forall ext extc extp bm fm cts sts rows p,
  rows_typed cts rows = true -> stats_ok rows sts = true -> wt cts p = true ->
  known_nan p rows = false -> known_negzero fm p sts = false -> known_i32_trunc p sts = false ->
  known_2p53 p sts = false -> known_strict_or bm p sts = false ->
  definitely_matches sts p = true -> forall r, In r rows -> keep ext extc extp bm fm p r = true.
Proof. exact definite_sound. Qed.

(* so a scan with skipping returns exactly what the scan without skipping returns *)
Theorem C05_prune_keeps_answer : forall ext extc extp bm fm cts p rgs,
  wt cts p = true -> (forall g, In g rgs -> rg_ok bm fm cts p g = true) ->
  scan_skipping ext extc extp bm fm p rgs = scan_plain ext extc extp bm fm p rgs.
Proof. exact prune_keeps_answer. Qed.

(* `i64 as f64`: monotone on all of i64, strictly monotone up to 2^53 (the facts the soundness proof rests on) *)
Theorem C05_of_i64_mono : forall a b, - TWO63 <= a <= TWO63 -> - TWO63 <= b <= TWO63 -> a <= b ->
  f_key (of_i64 a) <= f_key (of_i64 b).
Proof. exact of_i64_mono. Qed.
Theorem C05_of_i64_strict : forall a b, - TWO53 <= a -> a < b -> b <= TWO53 -> f_key (of_i64 a) < f_key (of_i64 b).
Proof. exact of_i64_strict. Qed.

(* ---- refutations (witnesses replayed on the engine by checks/C05.py: witness_cases) ---- *)

Theorem C05_definite_i64_beyond_2p53_refuted :
  let cts := [TI64] in let rows := [[VInt TWO53]; [VInt (TWO53 + 1)]] in
  let sts := [Some (SInt64 (Some TWO53) (Some (TWO53 + 1)), Some 0)] in
  let p := PCmp Le' (OCol 0) (OLit (LI64 TWO53)) in
  side_ok Strict IEEE cts p rows sts /\
  known_nan p rows = false /\ known_negzero Total p sts = false /\ known_i32_trunc p sts = false /\
  known_strict_or Strict p sts = false /\ known_2p53 p sts = true /\
  might_match sts p = true /\ definitely_matches sts p = true /\
  forall ext extc extp bm fm, keep ext extc extp bm fm p [VInt (TWO53 + 1)] = false.
Proof. exact definite_i64_beyond_2p53_refuted. Qed.

Theorem C05_i32_truncation_refuted :
  let cts := [TI64] in let rows := [[VInt (2 ^ 32 + 5)]] in
  let sts := [Some (SInt64 (Some (2 ^ 32 + 5)) (Some (2 ^ 32 + 5)), Some 0)] in
  let p := PCmp Gt' (OCol 0) (OLit (LDate 10)) in
  side_ok Strict IEEE cts p rows sts /\
  known_nan p rows = false /\ known_negzero Total p sts = false /\ known_2p53 p sts = false /\
  known_strict_or Strict p sts = false /\ known_i32_trunc p sts = true /\
  might_match sts p = false /\
  forall ext extc extp bm fm, keep ext extc extp bm fm p [VInt (2 ^ 32 + 5)] = true.
Proof. exact i32_truncation_refuted. Qed.

Theorem C05_nan_row_refuted_might :
  let cts := [TF64] in let rows := [[VF64 F1_0]; [VF64 FNAN]] in
  let sts := [Some (SDouble (Some F1_0) (Some F1_0), Some 0)] in
  let p := PCmp Ne' (OCol 0) (OLit (LF64 F1_0)) in
  side_ok Strict IEEE cts p rows sts /\
  known_negzero Total p sts = false /\ known_i32_trunc p sts = false /\ known_2p53 p sts = false /\
  known_strict_or Strict p sts = false /\ known_nan p rows = true /\
  might_match sts p = false /\
  forall ext extc extp bm fm, keep ext extc extp bm fm p [VF64 FNAN] = true.
Proof. exact nan_row_refuted_might. Qed.

Theorem C05_nan_row_refuted_definite :
  let cts := [TF64] in let rows := [[VF64 F1_0]; [VF64 FNAN]] in
  let sts := [Some (SDouble (Some F1_0) (Some F1_0), Some 0)] in
  let p := PCmp Lt' (OCol 0) (OLit (LF64 F5_0)) in
  side_ok Strict IEEE cts p rows sts /\
  known_negzero Total p sts = false /\ known_i32_trunc p sts = false /\ known_2p53 p sts = false /\
  known_strict_or Strict p sts = false /\ known_nan p rows = true /\
  might_match sts p = true /\ definitely_matches sts p = true /\
  (forall ext extc extp bm fm, keep ext extc extp bm fm p [VF64 FNAN] = false) /\
  might_match sts (PNot p) = false /\
  forall ext extc extp bm fm, keep ext extc extp bm fm (PNot p) [VF64 FNAN] = true.
Proof. exact nan_row_refuted_definite. Qed.

Theorem C05_negzero_refuted :
  let cts := [TF64] in let rows := [[VF64 FNEG0]] in
  let sts := [Some (SDouble (Some FNEG0) (Some 0), Some 0)] in
  let p1 := PCmp Lt' (OCol 0) (OLit (LF64 0)) in let p2 := PCmp Eq' (OCol 0) (OLit (LF64 0)) in
  side_ok Strict Total cts p1 rows sts /\ side_ok Strict Total cts p2 rows sts /\
  known_nan p1 rows = false /\ known_i32_trunc p1 sts = false /\ known_2p53 p1 sts = false /\
  known_strict_or Strict p1 sts = false /\ known_negzero Total p1 sts = true /\ known_negzero Total p2 sts = true /\
  might_match sts p1 = false /\ (forall ext extc extp bm, keep ext extc extp bm Total p1 [VF64 FNEG0] = true) /\
  might_match sts p2 = true /\ definitely_matches sts p2 = true /\
  (forall ext extc extp bm, keep ext extc extp bm Total p2 [VF64 FNEG0] = false).
Proof. exact negzero_refuted. Qed.

Theorem C05_strict_or_refuted :
  let cts := [TI64; TI64] in let rows := [[VInt 1; VNull]] in
  let sts := [Some (SInt64 (Some 1) (Some 1), Some 0); Some (SInt64 None None, Some 1)] in
  let p := POr (PCmp Ge' (OCol 0) (OLit (LI64 0))) (PCmp Eq' (OCol 1) (OLit (LI64 1))) in
  side_ok Strict IEEE cts p rows sts /\
  known_nan p rows = false /\ known_negzero Total p sts = false /\ known_i32_trunc p sts = false /\
  known_2p53 p sts = false /\ known_strict_or Strict p sts = true /\
  might_match sts p = true /\ definitely_matches sts p = true /\
  (forall ext extc extp fm, keep ext extc extp Strict fm p [VInt 1; VNull] = false) /\
  (forall ext extc extp fm, keep ext extc extp Kleene fm p [VInt 1; VNull] = true).
Proof. exact strict_or_refuted. Qed.

(* the hypotheses of the soundness theorems hold on a non-trivial instance (a skipped group, a dropped filter) *)
Theorem C05_hypotheses_satisfiable :
  rows_typed ex_cts ex_rows = true /\ stats_ok ex_rows ex_sts = true /\
  (wt ex_cts ex_p1 = true /\ known_nan ex_p1 ex_rows = false /\ known_negzero Total ex_p1 ex_sts = false /\
   known_i32_trunc ex_p1 ex_sts = false /\ known_2p53 ex_p1 ex_sts = false /\ known_strict_or Strict ex_p1 ex_sts = false /\
   might_match ex_sts ex_p1 = false) /\
  (wt ex_cts ex_p2 = true /\ known_nan ex_p2 ex_rows = false /\ known_negzero Total ex_p2 ex_sts = false /\
   known_i32_trunc ex_p2 ex_sts = false /\ known_2p53 ex_p2 ex_sts = false /\ known_strict_or Strict ex_p2 ex_sts = false /\
   might_match ex_sts ex_p2 = true /\ definitely_matches ex_sts ex_p2 = true) /\
  rg_ok Strict Total ex_cts ex_p2 (ex_rows, ex_sts) = true.
Proof. exact hypotheses_satisfiable. Qed.

Print Assumptions C05_might_match_sound.
Print Assumptions C05_might_match_sound_notfree.
Print Assumptions C05_definite_sound.
Print Assumptions C05_prune_keeps_answer.
Print Assumptions C05_of_i64_mono.
Print Assumptions C05_of_i64_strict.
Print Assumptions C05_definite_i64_beyond_2p53_refuted.
Print Assumptions C05_i32_truncation_refuted.
Print Assumptions C05_nan_row_refuted_might.
Print Assumptions C05_nan_row_refuted_definite.
Print Assumptions C05_negzero_refuted.
Print Assumptions C05_strict_or_refuted.
Print Assumptions C05_hypotheses_satisfiable.
