(* C43 — Exact vector search is the literal ORDER BY ... LIMIT.  Statement pins only. *)
From QV Require Import Base.Util C43.Model C43.Proofs.
From Coq Require Import Sorting.Sorted.
Local Open Scope nat_scope.

(* the matcher fires exactly on the canonical shape (Model.canonical spells out every gate) *)
Theorem C43_matches_sound : forall p v, matches p = Some v -> canonical p v.
Proof. exact matches_sound. Qed.
Theorem C43_matches_complete : forall p v, canonical p v -> matches p = Some v.
Proof. exact matches_complete. Qed.

(* anywhere in a plan, the rewrite fires only at a node of the canonical shape *)
Theorem C43_find_match_sound : forall p v, find_match p = Some v -> exists s, subplan s p /\ matches s = Some v.
Proof. exact find_match_sound. Qed.

(* the fallback the physical planner builds is the plan the rule replaced ... *)
Theorem C43_match_roundtrip_syntactic : forall p v, matches p = Some v -> lower_exact v = p.
Proof. exact match_roundtrip_syntactic. Qed.

(* ... so, for ANY distance function (keyval), table contents, projection semantics: *)
Theorem C43_match_roundtrip : forall row scan_rows keyval proj other p v,
  matches p = Some v ->
  eval row scan_rows keyval proj other (lower_exact v) = eval row scan_rows keyval proj other p.
Proof. exact match_roundtrip. Qed.

Theorem C43_exact_is_sort_limit : forall row scan_rows keyval proj other p v,
  matches p = Some v ->
  eval row scan_rows keyval proj other p =
  firstn (v_k v) (skipn (v_skip v) (isort (keys_le row keyval [v_key v]) (eval row scan_rows keyval proj other (v_input v)))).
Proof. exact exact_is_sort_limit. Qed.

(* default (Exact) mode never uses the index, whatever the provider would answer *)
Theorem C43_exact_mode_exact : forall row scan_rows keyval proj other p v knn,
  matches p = Some v ->
  exec row scan_rows keyval proj other (Exact) knn v = eval row scan_rows keyval proj other p.
Proof. exact exact_mode_exact. Qed.

(* exact mode NEVER consults the provider (scan_knn is not called), whatever the provider could answer *)
Theorem C43_exact_never_consults : forall row scan_rows keyval proj other p v provider,
  matches p = Some v ->
  fst (try_index row Exact provider v) = false /\
  exec_p row scan_rows keyval proj other Exact provider v = eval row scan_rows keyval proj other p.
Proof. exact exact_never_consults. Qed.
Theorem C43_consulted_only_indexed : forall row md provider v, fst (try_index row md provider v) = true -> md = Indexed.
Proof. exact consulted_only_indexed. Qed.
Theorem C43_declining_provider_exact : forall row scan_rows keyval proj other p v md provider,
  matches p = Some v ->
  (forall scan_knn, provider = Some scan_knn -> scan_knn v = None) ->
  exec_p row scan_rows keyval proj other md provider v = eval row scan_rows keyval proj other p.
Proof. exact declining_provider_exact. Qed.

(* a provider without an index (scan_knn = None) gets the exact path in every mode *)
Theorem C43_no_index_exact : forall row scan_rows keyval proj other p v md,
  matches p = Some v ->
  exec row scan_rows keyval proj other md None v = eval row scan_rows keyval proj other p.
Proof. exact no_index_exact. Qed.

(* ties: any full sort of the same rows followed by OFFSET/LIMIT has the same key sequence,
   and the returned rows are a sub-bag of the input rows *)
Theorem C43_topk_keys_unique : forall row scan_rows keyval proj other p v l',
  matches p = Some v ->
  Permutation l' (eval row scan_rows keyval proj other (v_input v)) ->
  StronglySorted (fun x y => kle (v_key v) x y = true) (map (keyval (v_key v)) l') ->
  map (keyval (v_key v)) (firstn (v_k v) (skipn (v_skip v) l'))
  = map (keyval (v_key v)) (eval row scan_rows keyval proj other p).
Proof. exact topk_keys_unique. Qed.

Theorem C43_topk_subbag : forall row scan_rows keyval proj other p v,
  matches p = Some v ->
  exists rest, Permutation (eval row scan_rows keyval proj other p ++ rest)
                           (eval row scan_rows keyval proj other (v_input v)).
Proof. exact topk_subbag. Qed.

(* non-canonical shapes are declined: one lemma per gate *)
Theorem C43_declined_not_limit : forall p, (forall s f i, p <> PLimit s f i) -> matches p = None.
Proof. exact declined_not_limit. Qed.
Theorem C43_declined_no_fetch : forall s i, matches (PLimit s None i) = None.
Proof. exact declined_no_fetch. Qed.
Theorem C43_declined_fetch_zero : forall s i, matches (PLimit s (Some 0) i) = None.
Proof. exact declined_fetch_zero. Qed.
Theorem C43_declined_not_sort : forall s f i, (forall ks j, i <> PSort ks j) -> matches (PLimit s f i) = None.
Proof. exact declined_not_sort. Qed.
Theorem C43_declined_key_count : forall s f ks i, length ks <> 1 -> matches (PLimit s f (PSort ks i)) = None.
Proof. exact declined_key_count. Qed.
Theorem C43_declined_nulls_first : forall s f k i, k_nulls k = NullsFirst -> matches (PLimit s f (PSort [k] i)) = None.
Proof. exact declined_nulls_first. Qed.
Theorem C43_declined_not_distance : forall s f k i,
  (k_fn k = None \/ k_fn k = Some OtherFunc) -> matches (PLimit s f (PSort [k] i)) = None.
Proof. exact declined_not_distance. Qed.
Theorem C43_declined_direction : forall s f k i fn,
  k_fn k = Some fn ->
  k_dir k = match fn with L2Distance | CosineDistance => Desc | _ => Asc end ->
  matches (PLimit s f (PSort [k] i)) = None.
Proof. exact declined_direction. Qed.
Theorem C43_declined_arity : forall s f k i, length (k_args k) <> 2 -> matches (PLimit s f (PSort [k] i)) = None.
Proof. exact declined_arity. Qed.
Theorem C43_declined_no_literal : forall s f k i,
  (forall a, In a (k_args k) -> constant_vector a = None) -> matches (PLimit s f (PSort [k] i)) = None.
Proof. exact declined_no_literal. Qed.
Theorem C43_declined_no_column : forall s f k i,
  (forall a, In a (k_args k) -> forall c, a <> ECol c) -> matches (PLimit s f (PSort [k] i)) = None.
Proof. exact declined_no_column. Qed.
Theorem C43_declined_not_chain : forall s f k i, chain_scan i = None -> matches (PLimit s f (PSort [k] i)) = None.
Proof. exact declined_not_chain. Qed.
Theorem C43_declined_dimension : forall s f k i t fields filt,
  chain_scan i = Some (t, fields, filt) ->
  (forall c q, In (EVecLit q) (k_args k) -> lookup c fields <> Some (Some q)) ->
  matches (PLimit s f (PSort [k] i)) = None.
Proof. exact declined_dimension. Qed.

Print Assumptions C43_matches_sound.
Print Assumptions C43_matches_complete.
Print Assumptions C43_find_match_sound.
Print Assumptions C43_match_roundtrip_syntactic.
Print Assumptions C43_match_roundtrip.
Print Assumptions C43_exact_is_sort_limit.
Print Assumptions C43_exact_mode_exact.
Print Assumptions C43_exact_never_consults.
Print Assumptions C43_consulted_only_indexed.
Print Assumptions C43_declining_provider_exact.
Print Assumptions C43_no_index_exact.
Print Assumptions C43_topk_keys_unique.
Print Assumptions C43_topk_subbag.
Print Assumptions C43_declined_not_limit.
Print Assumptions C43_declined_no_fetch.
Print Assumptions C43_declined_fetch_zero.
Print Assumptions C43_declined_not_sort.
Print Assumptions C43_declined_key_count.
Print Assumptions C43_declined_nulls_first.
Print Assumptions C43_declined_not_distance.
Print Assumptions C43_declined_direction.
Print Assumptions C43_declined_arity.
Print Assumptions C43_declined_no_literal.
Print Assumptions C43_declined_no_column.
Print Assumptions C43_declined_not_chain.
Print Assumptions C43_declined_dimension.
