(* C39 — The TPC-H generator is deterministic and self-consistent (PARTIAL: determinism across runs,
   threads and the Parquet path is observed by the check, not proved).
   Statement pins only.  sf = m * 2^e is an IEEE double; in_range = 0.001 <= sf <= 0.05. *)
From QV Require Import Base.Util C39.Model C39.Proofs.
Local Open Scope Z_scope.

(* row counts: every table is non-empty over the whole range ... *)
Theorem C39_counts_lower : forall m e, in_range m e ->
  let c := row_counts m e in
  200 <= n_part c /\ 10 <= n_supplier c /\ 800 <= n_partsupp c /\ 150 <= n_customer c /\
  1500 <= n_orders c /\ 6000 <= n_lineitem c.
Proof. exact counts_lower. Qed.

(* ... and `(base * sf) as usize` is within 1 + 2^-35 of base*sf (the TPC-H ratio) *)
Theorem C39_row_count_ratio : forall base m e, 0 < base < 2 ^ 23 -> in_range m e ->
  f64_mul_trunc base m e * 2 ^ (- e) <= base * m + 2 ^ 22 /\
  base * m - 2 ^ 22 < (f64_mul_trunc base m e + 1) * 2 ^ (- e).
Proof. exact row_count_ratio. Qed.

Theorem C39_nominal_counts :
  map (fun me => counts_list (row_counts (fst me) (snd me)))
      [f64_of_ratio 1 1000; f64_of_ratio 2 1000; f64_of_ratio 5 1000; f64_of_ratio 10 1000;
       f64_of_ratio 13 1000; f64_of_ratio 20 1000; f64_of_ratio 50 1000]
  = map (fun k => [25; 5; 200 * k; 10 * k; 800 * k; 150 * k; 1500 * k; 6000 * k]) [1; 2; 5; 10; 13; 20; 50].
Proof. exact nominal_counts. Qed.

(* single-column foreign keys: for EVERY stream of the random generator *)
Theorem C39_fk_nationkeys : forall rng : Z -> Z -> Z -> Z -> Z,
  (forall site i lo hi, lo < hi -> lo <= rng site i lo hi < hi) ->
  forall i, In (s_nationkey rng i) nation_keys /\ In (c_nationkey rng i) nation_keys.
Proof. exact fk_nationkeys. Qed.

Theorem C39_fk_n_regionkey : forall kr, In kr nations -> In (snd kr) region_keys.
Proof. exact fk_n_regionkey. Qed.

Theorem C39_fk_partsupp : forall m e, in_range m e -> let c := row_counts m e in
  forall i, (exists j, 0 <= j < n_part c /\ p_partkey j = ps_partkey (n_part c) i) /\
            (exists j, 0 <= j < n_supplier c /\ s_suppkey j = ps_suppkey (n_supplier c) i).
Proof. exact fk_partsupp. Qed.

Theorem C39_fk_lineitem : forall (coin : nat -> bool) m e, in_range m e -> let c := row_counts m e in
  forall i, (exists j, 0 <= j < n_orders c /\ o_orderkey j = l_orderkey coin (n_orders c) i) /\
            (exists j, 0 <= j < n_part c /\ p_partkey j = l_partkey (n_part c) i) /\
            (exists j, 0 <= j < n_supplier c /\ s_suppkey j = l_suppkey (n_supplier c) i).
Proof. exact fk_lineitem. Qed.

(* o_custkey: in 1 ..= floor(1.5*customers); a customer row exists iff the draw is <= customers;
   REFUTED as a foreign key for every customer count >= 2 (class o_custkey-1.5x) *)
Theorem C39_o_custkey_iff : forall rng : Z -> Z -> Z -> Z -> Z,
  (forall site i lo hi, lo < hi -> lo <= rng site i lo hi < hi) ->
  forall C i, 1 <= C ->
    1 <= o_custkey rng C i <= custkey_range C /\
    ((exists j, 0 <= j < C /\ c_custkey j = o_custkey rng C i) <-> o_custkey rng C i <= C).
Proof. exact o_custkey_iff. Qed.

Theorem C39_o_custkey_fk_refuted : forall C, 2 <= C ->
  exists rng : Z -> Z -> Z -> Z -> Z,
    (forall site i lo hi, lo < hi -> lo <= rng site i lo hi < hi) /\
    ~ (exists j, 0 <= j < C /\ c_custkey j = o_custkey rng C 0).
Proof. exact fk_o_custkey_refuted. Qed.

(* composite (l_partkey, l_suppkey) -> partsupp: the exact condition ... *)
Theorem C39_composite_fk_iff : forall c, 0 < n_part c -> 0 < n_supplier c -> 0 <= n_partsupp c ->
  (forall i, 0 <= i < n_lineitem c ->
     exists j, 0 <= j < n_partsupp c /\
       ps_partkey (n_part c) j = l_partkey (n_part c) i /\ ps_suppkey (n_supplier c) j = l_suppkey (n_supplier c) i)
  <-> (n_lineitem c <=? n_partsupp c) || (Z.lcm (n_part c) (n_supplier c) <=? n_partsupp c) = true.
Proof. exact composite_fk_iff. Qed.

(* ... under which it holds over the whole range ... *)
Theorem C39_composite_fk_holds : forall m e, in_range m e -> known_composite (row_counts m e) = false ->
  composite_fk (row_counts m e).
Proof. exact composite_fk_holds_known. Qed.

(* ... and the smallest scale factor in the range at which it fails: 0.001005 = M_W * 2^-62
   (201 parts, 10 suppliers: lcm 2010 > 804 partsupp rows) *)
Theorem C39_composite_fk_refuted :
  in_range M_W (-62) /\ counts_list (row_counts M_W (-62)) = [25; 5; 201; 10; 804; 150; 1507; 6030] /\
  ~ composite_fk (row_counts M_W (-62)).
Proof. exact composite_fk_refuted. Qed.

Theorem C39_composite_fk_below_witness : forall m, M_LO <= m < M_W -> composite_ok (row_counts m (-62)) = true.
Proof. exact composite_fk_below_witness. Qed.

(* the dangling-row count reported by the model is zero exactly under the condition, and equals
   brute force on small instances *)
Theorem C39_composite_violations_zero_iff : forall c,
  0 < n_part c -> 0 < n_supplier c -> 0 <= n_partsupp c -> 0 <= n_lineitem c ->
  composite_violations c = 0 <-> composite_ok c = true.
Proof. exact composite_violations_zero_iff. Qed.

Theorem C39_composite_violations_small :
  forallb (fun P => forallb (fun Sn => forallb (fun PS => forallb (fun L =>
    composite_violations (mkCounts P Sn PS 0 0 L) =? composite_violations_bf (mkCounts P Sn PS 0 0 L))
    [0; 1; 2; 3; 5; 7; 12; 13; 30; 31]) [0; 1; 2; 3; 4; 6; 11; 12; 13]) [1; 2; 3; 4; 6]) [1; 2; 3; 4; 5; 6] = true.
Proof. exact composite_violations_small. Qed.

Print Assumptions C39_counts_lower.
Print Assumptions C39_row_count_ratio.
Print Assumptions C39_nominal_counts.
Print Assumptions C39_fk_nationkeys.
Print Assumptions C39_fk_n_regionkey.
Print Assumptions C39_fk_partsupp.
Print Assumptions C39_fk_lineitem.
Print Assumptions C39_o_custkey_iff.
Print Assumptions C39_o_custkey_fk_refuted.
Print Assumptions C39_composite_fk_iff.
Print Assumptions C39_composite_fk_holds.
Print Assumptions C39_composite_fk_refuted.
Print Assumptions C39_composite_fk_below_witness.
Print Assumptions C39_composite_violations_zero_iff.
Print Assumptions C39_composite_violations_small.
