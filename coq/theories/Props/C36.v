(* C36 — Scalar functions compute their documented values (partial: string index conventions, edit
   distances, Soundex, Luhn, codecs, bitwise words, civil-date arithmetic, conditional NULL rules).
   m_f = the engine as coded, s_f = documented (Trino) value, k_f = 0 iff the arguments are outside
   every known deviation class.  Only statement pins, `exact` proofs and Print Assumptions.
   After the engine repairs 3767e33 1657caf 584cd34 e4bd2bb e21b72e 08c65d9 0d7bffe the statements for
   length, strpos/position, soundex, translate, to_hex, the shifts (non-negative amounts) and day_of_week
   are unconditional regression theorems: the model EQUALS the documented value on every argument. *)
From QV Require Import Base.Util Bytes.ByteStr C36.Model C36.Proofs.

(* ---- Levenshtein: the two-row DP equals the recursive definition, for all strings ---- *)
Theorem C36_levenshtein_dp : forall a b, lev_model a b = lev_spec a b.
Proof. exact lev_model_spec. Qed.
(* ... where lev_spec is THE function satisfying the delete / insert / substitute recurrence *)
Theorem C36_levenshtein_recurrence :
  (forall b, lev_spec [] b = zlen b) /\ (forall a, lev_spec a [] = zlen a) /\
  (forall a x b y, lev_spec (a ++ [x]) (b ++ [y]) =
     Z.min (Z.min (lev_spec a (b ++ [y]) + 1) (lev_spec (a ++ [x]) b + 1)) (lev_spec a b + (if x =? y then 0 else 1))).
Proof. exact (conj lev_spec_nil_l (conj lev_spec_nil_r lev_spec_snoc)). Qed.

(* ---- Luhn: the enumerate/rev loop equals "every second digit from the right doubled, digit sums" ---- *)
Theorem C36_luhn_loop : forall l, l <> [] -> forallb is_digit l = true ->
  luhn_eng l = luhn_std (map (fun c => c - 48) l).
Proof. exact luhn_eng_std. Qed.
Theorem C36_luhn : forall s, k_luhn s = 0 -> spec_ok (s_luhn s) (m_luhn s) = true.
Proof. exact luhn_agrees. Qed.

(* ---- Soundex: the engine loop (early exit at four characters, prev_code kept only across H/W) is
        American Soundex (commons-codec US_ENGLISH) for EVERY string ---- *)
Theorem C36_soundex_loop : forall s, soundex_eng s = soundex_std s.
Proof. exact soundex_eng_std. Qed.
Theorem C36_soundex : forall s, spec_ok (s_soundex s) (m_soundex s) = true.
Proof. exact soundex_agrees. Qed.

(* ---- string index conventions: model = documented value outside the known classes ---- *)
Theorem C36_length : forall s, spec_ok (s_length s) (m_length s) = true.
Proof. exact length_agrees. Qed.
Theorem C36_strpos : forall s sub, spec_ok (s_strpos s sub) (m_strpos s sub) = true.
Proof. exact strpos_agrees. Qed.
Theorem C36_substr : forall cp s st ln,
  is_i64 (gi st) = true -> is_i64 (match ln with Some l => gi l | None => 0 end) = true ->
  k_substr cp s st ln = 0 -> spec_ok (s_substr s st ln) (m_substr cp s st ln) = true.
Proof. exact substr_agrees. Qed.
Theorem C36_pad : forall left s n pad pad0,
  - 2 ^ 62 <= gi n <= 2 ^ 62 -> zlen (gs s) < 2 ^ 62 ->
  k_pad s n pad pad0 = 0 -> spec_ok (s_pad left s n pad) (m_pad left s n pad0) = true.
Proof. exact pad_agrees. Qed.
Theorem C36_split_part : forall s d idx, is_i64 (gi idx) = true ->
  k_split_part s d idx = 0 -> spec_ok (s_split_part s d idx) (m_split_part s d idx) = true.
Proof. exact split_part_agrees. Qed.
Theorem C36_chr : forall n, k_chr n = 0 -> spec_ok (s_chr n) (m_chr n) = true.
Proof. exact chr_agrees. Qed.
Theorem C36_left : forall s n, is_i64 (gi n) = true -> k_count s n = 0 -> spec_ok (s_left s n) (m_left s n) = true.
Proof. exact left_agrees. Qed.
Theorem C36_right : forall s n, is_i64 (gi n) = true -> k_count s n = 0 -> spec_ok (s_right s n) (m_right s n) = true.
Proof. exact right_agrees. Qed.
Theorem C36_repeat : forall s n, k_count s n = 0 -> spec_ok (s_repeat s n) (m_repeat s n) = true.
Proof. exact repeat_agrees. Qed.
Theorem C36_hamming : forall a b, k_hamming a b = 0 -> spec_ok (s_hamming a b) (m_hamming a b) = true.
Proof. exact hamming_agrees. Qed.
Theorem C36_translate : forall s f t, spec_ok (s_translate s f t) (m_translate s f t) = true.
Proof. exact translate_agrees. Qed.
Theorem C36_translate_prefix_behaviour : forall fr tl c,
  tr_eng fr tl c = tr_std fr tl c \/ (tr_std fr tl c = [] /\ tr_eng fr tl c = [c]).
Proof. exact translate_prefix_behaviour. Qed.
Theorem C36_concat : forall args, k_concat args = 0 -> spec_ok (s_concat args) (m_concat args) = true.
Proof. exact concat_agrees. Qed.
Theorem C36_greatest_least : forall gt args, k_extreme args = 0 -> spec_ok (s_extreme gt args) (m_extreme gt args) = true.
Proof. exact extreme_agrees. Qed.

(* ---- codecs: decode (encode x) = x ---- *)
Theorem C36_hex_roundtrip : forall up b, bytes b -> dec_hex (enc_hex up b) = Some b.
Proof. exact hex_roundtrip. Qed.
Theorem C36_to_hex : forall b, spec_ok (s_to_hex b) (m_to_hex b) = true.
Proof. exact to_hex_agrees. Qed.
Theorem C36_from_hex_to_hex : forall b, bytes b ->
  match m_to_hex (Some b) with RStr h => m_from_hex (Some h) = RStr b | _ => False end.
Proof. exact from_hex_to_hex. Qed.
Theorem C36_base64_roundtrip : forall b, bytes b -> dec_b64 (enc_b64 b) = Some b.
Proof. exact b64_roundtrip. Qed.
Theorem C36_base32_group : forall a b c d e, is_byte a -> is_byte b -> is_byte c -> is_byte d -> is_byte e ->
  b32_bytes (b32_group a b c d e) = [a; b; c; d; e] /\ Forall (fun i => 0 <= i < 32) (b32_group a b c d e).
Proof. exact b32_group_roundtrip. Qed.
Theorem C36_base32_roundtrip_small :
  forall l, In l (lists_upto [0; 1; 127; 128; 255; 90] 6) -> dec_b32 (S (length (enc_b32 l))) (enc_b32 l) = Some l.
Proof. exact b32_roundtrip_small. Qed.
Theorem C36_url_roundtrip_engine : forall b, bytes b -> pctdec false (S (length (urlenc_eng b))) (urlenc_eng b) = b.
Proof. exact url_roundtrip_engine. Qed.
Theorem C36_url_roundtrip_trino : forall b, bytes b -> pctdec true (S (length (urlenc_std b))) (urlenc_std b) = b.
Proof. exact url_roundtrip_trino. Qed.
Theorem C36_base_roundtrip : forall r v, radix_ok r = true -> is_i64 v = true -> parse_i64 r (signed_digits r v) = Some v.
Proof. exact base_roundtrip. Qed.

(* ---- bitwise functions on 64-bit two's complement words ---- *)
Theorem C36_bitwise_and : forall x y n, 0 <= n < 64 ->
  res_bits (m_bitwise_and (Some x) (Some y)) (fun r => is_i64 r = true /\
    Z.testbit (to_u64 r) n = Z.testbit (to_u64 x) n && Z.testbit (to_u64 y) n).
Proof. exact bitwise_and_bits. Qed.
Theorem C36_bitwise_or : forall x y n, 0 <= n < 64 ->
  res_bits (m_bitwise_or (Some x) (Some y)) (fun r => is_i64 r = true /\
    Z.testbit (to_u64 r) n = Z.testbit (to_u64 x) n || Z.testbit (to_u64 y) n).
Proof. exact bitwise_or_bits. Qed.
Theorem C36_bitwise_xor : forall x y n, 0 <= n < 64 ->
  res_bits (m_bitwise_xor (Some x) (Some y)) (fun r => is_i64 r = true /\
    Z.testbit (to_u64 r) n = xorb (Z.testbit (to_u64 x) n) (Z.testbit (to_u64 y) n)).
Proof. exact bitwise_xor_bits. Qed.
Theorem C36_bitwise_not : forall x n, 0 <= n < 64 ->
  res_bits (m_bitwise_not (Some x)) (fun r => is_i64 r = true /\ Z.testbit (to_u64 r) n = negb (Z.testbit (to_u64 x) n)).
Proof. exact bitwise_not_bits. Qed.
Theorem C36_bitwise_not_value : forall x, is_i64 x = true -> m_bitwise_not (Some x) = RInt (- x - 1).
Proof. exact bitwise_not_value. Qed.
Theorem C36_shift : forall kind x s, k_shift x s = 0 -> spec_ok (s_shift kind x s) (m_shift kind x s) = true.
Proof. exact shift_agrees. Qed.
(* ... i.e. for every non-negative amount, 64 and beyond included *)
Theorem C36_shift_nonneg_total : forall kind a sv, 0 <= sv ->
  spec_ok (s_shift kind (Some a) (Some sv)) (m_shift kind (Some a) (Some sv)) = true.
Proof. exact shift_nonneg_total. Qed.
Theorem C36_shift_ge64 : forall a sv, is_i64 a = true -> 64 <= sv ->
  m_shift 0 (Some a) (Some sv) = RInt 0 /\ (to_u64 a * 2 ^ sv) mod two64 = 0 /\
  m_shift 1 (Some a) (Some sv) = RInt 0 /\ to_u64 a / 2 ^ sv = 0 /\
  m_shift 2 (Some a) (Some sv) = RInt (Z.shiftr a sv).
Proof. exact shift_ge64_math. Qed.
(* the remaining deviation: a negative amount saturates where Trino raises an error *)
Theorem C36_shift_negative : forall kind a sv, sv < 0 ->
  m_shift kind (Some a) (Some sv) = RInt (shift_saturated kind a) /\ s_shift kind (Some a) (Some sv) = Some RErr.
Proof. exact shift_negative_saturates. Qed.
Theorem C36_shift_left_word : forall a k, 0 <= k < 64 ->
  res_bits (m_shift 0 (Some a) (Some k)) (fun r => to_u64 r = (a * 2 ^ k) mod two64).
Proof. exact shift_left_word. Qed.
Theorem C36_shift_right_arithmetic : forall a k, 0 <= k < 64 -> m_shift 2 (Some a) (Some k) = RInt (Z.shiftr a k).
Proof. exact shift_right_arith_value. Qed.
Theorem C36_shift_right_logical : forall a k, 0 <= k < 64 ->
  res_bits (m_shift 1 (Some a) (Some k)) (fun r => to_u64 r = Z.shiftr (to_u64 a) k).
Proof. exact shift_right_logical_word. Qed.
Theorem C36_bit_count : forall x bits, k_bit_count x bits = 0 -> spec_ok (s_bit_count x bits) (m_bit_count x bits) = true.
Proof. exact bit_count_agrees. Qed.

(* ---- civil-date arithmetic on days since 1970-01-01 (proleptic Gregorian), for ALL integers ---- *)
Theorem C36_civil_roundtrip : forall z,
  let '(y, m, d) := civil_from_days z in days_from_civil y m d = z /\ valid_ymd y m d = true.
Proof. exact civil_roundtrip. Qed.
Theorem C36_civil_roundtrip_inv : forall y m d, valid_ymd y m d = true -> civil_from_days (days_from_civil y m d) = (y, m, d).
Proof. exact civil_roundtrip_inv. Qed.
Theorem C36_add_months_clamps : forall z k,
  let '(y, m, d) := civil_from_days z in
  let t := y * 12 + (m - 1) + k in
  civil_from_days (add_months z k) = (t / 12, t mod 12 + 1, Z.min d (dim (t / 12) (t mod 12 + 1))).
Proof. exact add_months_clamps. Qed.
Theorem C36_day_of_week : forall d, spec_ok (s_day_of_week d) (m_day_of_week d) = true.
Proof. exact day_of_week_agrees. Qed.
Theorem C36_day_of_week_iso : forall z,
  m_day_of_week (Some z) = RInt (d_dow_iso z) /\ 1 <= d_dow_iso z <= 7 /\ d_dow_iso (z + 1) = d_dow_iso z mod 7 + 1
  /\ d_dow_iso (z + 7) = d_dow_iso z /\ d_dow_sun z <> d_dow_iso z.
Proof. exact day_of_week_iso. Qed.
Theorem C36_day_of_week_anchors :
  d_dow_iso 0 = 4 /\ d_dow_iso (days_from_civil 2024 1 1) = 1 /\ d_dow_iso (days_from_civil 2024 1 7) = 7.
Proof. exact dow_iso_epoch. Qed.
Theorem C36_date_diff_month : forall a b, date_ok a = true -> date_ok b = true ->
  k_date_diff (Some 2) (Some a) (Some b) = 0 ->
  spec_ok (s_date_diff (Some 2) (Some a) (Some b)) (m_date_diff (Some 2) (Some a) (Some b)) = true.
Proof. exact date_diff_month_agrees. Qed.

(* ---- every known class is inhabited by a concrete witness where the model differs from the documented value ---- *)
Theorem C36_deviations_witnessed : forallb (fun b => b) dev_witnesses = true.
Proof. exact deviations_witnessed. Qed.
(* ---- the witnesses of the eight repaired classes now yield the documented value ---- *)
Theorem C36_regressions_fixed : forallb (fun b => b) fixed_regressions = true.
Proof. exact regressions_fixed. Qed.

Print Assumptions C36_levenshtein_dp.
Print Assumptions C36_levenshtein_recurrence.
Print Assumptions C36_luhn_loop.
Print Assumptions C36_luhn.
Print Assumptions C36_soundex_loop.
Print Assumptions C36_soundex.
Print Assumptions C36_length.
Print Assumptions C36_strpos.
Print Assumptions C36_substr.
Print Assumptions C36_pad.
Print Assumptions C36_split_part.
Print Assumptions C36_chr.
Print Assumptions C36_left.
Print Assumptions C36_right.
Print Assumptions C36_repeat.
Print Assumptions C36_hamming.
Print Assumptions C36_translate.
Print Assumptions C36_translate_prefix_behaviour.
Print Assumptions C36_concat.
Print Assumptions C36_greatest_least.
Print Assumptions C36_hex_roundtrip.
Print Assumptions C36_to_hex.
Print Assumptions C36_from_hex_to_hex.
Print Assumptions C36_base64_roundtrip.
Print Assumptions C36_base32_group.
Print Assumptions C36_base32_roundtrip_small.
Print Assumptions C36_url_roundtrip_engine.
Print Assumptions C36_url_roundtrip_trino.
Print Assumptions C36_base_roundtrip.
Print Assumptions C36_bitwise_and.
Print Assumptions C36_bitwise_or.
Print Assumptions C36_bitwise_xor.
Print Assumptions C36_bitwise_not.
Print Assumptions C36_bitwise_not_value.
Print Assumptions C36_shift.
Print Assumptions C36_shift_nonneg_total.
Print Assumptions C36_shift_ge64.
Print Assumptions C36_shift_negative.
Print Assumptions C36_shift_left_word.
Print Assumptions C36_shift_right_arithmetic.
Print Assumptions C36_shift_right_logical.
Print Assumptions C36_bit_count.
Print Assumptions C36_civil_roundtrip.
Print Assumptions C36_civil_roundtrip_inv.
Print Assumptions C36_add_months_clamps.
Print Assumptions C36_day_of_week.
Print Assumptions C36_day_of_week_iso.
Print Assumptions C36_day_of_week_anchors.
Print Assumptions C36_date_diff_month.
Print Assumptions C36_deviations_witnessed.
Print Assumptions C36_regressions_fixed.
