(* C17 — An Iceberg snapshot reads exactly its live data files.
   This file holds only statement pins, `exact` proofs and Print Assumptions. *)
From Coq Require Import String Sorted.
From QV Require Import Base.Util C17.Model C17.Proofs.

(* MAIN (unbounded histories): for every history of appends, removals, manifest rewrites, metadata rewrites,
   rollbacks and expirations, written in any of the four URI forms, with the current metadata found through
   version-hint.text or (no hint, strictly increasing commit clocks) as the newest *.metadata.json:
   opening the replayed directory at `q` (None = current, Some id = time travel) yields exactly the sorted,
   duplicate-free set of data files the abstract semantics assigns to that snapshot, from the newest metadata
   file; and is refused when that snapshot is unknown/expired, when there is no current snapshot, or when its
   live set is empty. *)
Theorem C17_snapshot_files_exact : forall dir hint h q,
  good_dir dir = true -> wf_history h = true -> (hint = true \/ strict_clock h = true) ->
  open_table (replay_table dir hint h) q =
  match spec_open (abstract h) q with
  | SRefuse => Err EStorage
  | SFiles sid names => Ok (mkOpened (md_name (S (length h))) sid (map (fun n => absp dir (data_rel n)) names))
  end.
Proof. exact snapshot_files_exact. Qed.

(* the same, clause by clause *)
Theorem C17_listed_snapshot_read : forall dir hint h,
  good_dir dir = true -> wf_history h = true -> (hint = true \/ strict_clock h = true) ->
  forall sid L, live h sid = Some L -> L <> [] ->
  open_table (replay_table dir hint h) (Some sid)
  = Ok (mkOpened (md_name (S (length h))) sid (map (fun n => absp dir (data_rel n)) (usort L))).
Proof. exact listed_snapshot_read. Qed.

Theorem C17_current_snapshot_read : forall dir hint h,
  good_dir dir = true -> wf_history h = true -> (hint = true \/ strict_clock h = true) ->
  open_table (replay_table dir hint h) None
  = match current h with Some c => open_table (replay_table dir hint h) (Some c) | None => Err EStorage end.
Proof. exact current_snapshot_read. Qed.

Theorem C17_unknown_snapshot_refused : forall dir hint h,
  good_dir dir = true -> wf_history h = true -> (hint = true \/ strict_clock h = true) ->
  forall sid, live h sid = None -> open_table (replay_table dir hint h) (Some sid) = Err EStorage.
Proof. exact unknown_snapshot_refused. Qed.

Theorem C17_empty_snapshot_refused : forall dir hint h,
  good_dir dir = true -> wf_history h = true -> (hint = true \/ strict_clock h = true) ->
  forall sid, live h sid = Some [] -> open_table (replay_table dir hint h) (Some sid) = Err EStorage.
Proof. exact empty_snapshot_refused. Qed.

(* `usort` really is "the set, sorted": same members, no duplicates, strictly increasing *)
Theorem C17_usort_members : forall l x, In x (usort l) <-> In x l.
Proof. exact usort_in. Qed.
Theorem C17_usort_nodup : forall l, NoDup (usort l).
Proof. exact usort_nodup. Qed.
Theorem C17_usort_sorted : forall l, StronglySorted (fun a b => bytes_cmp a b = Lt) (usort l).
Proof. exact usort_strict. Qed.

(* the model's answer on a replayed history passes the executable spec that the check applies to the engine *)
Theorem C17_model_meets_spec : forall dir hint h q,
  good_dir dir = true -> wf_history h = true -> (hint = true \/ strict_clock h = true) ->
  spec_ok_hist dir h q (impl_of (replay_table dir hint h) (open_table (replay_table dir hint h) q)) = true.
Proof. exact model_meets_spec. Qed.

(* every accepted URI form resolves to the same local path; remote schemes are refused *)
Theorem C17_resolve_uri_forms : forall f dir rel,
  good_dir dir = true -> (no_byte 58 rel = true /\ is_abs rel = false) ->
  resolve_uri (uri_of f dir rel) dir = Ok (absp dir rel).
Proof. exact resolve_uri_forms. Qed.
Theorem C17_remote_uri_refused : forall uri dir, is_remote uri = true -> resolve_uri uri dir = Err ENotImpl.
Proof. exact resolve_uri_remote. Qed.

(* ANY directory: an Ok from data_files_of means every live entry of every listed manifest is a local Parquet
   data file that is in the answer (up to path equality), and the answer contains nothing else *)
Theorem C17_data_files_exact : forall t ml fs, data_files_of t ml = Ok fs ->
  exists ms, fs_lookup ml (t_lists t) = Some ms /\
    (forall u, In u ms -> exists mp es, resolve_uri u (t_dir t) = Ok mp /\ fs_lookup mp (t_mans t) = Some es /\
       forall e, In e es -> live_entry e = true ->
         content_or0 e = 0 /\ eq_ignore_case (e_format e) (bs "parquet") = true /\ is_remote (e_path e) = false /\
         exists p, resolve_uri (e_path e) (t_dir t) = Ok p /\ mem_path p fs = true) /\
    (forall p, In p fs -> exists u mp es e, In u ms /\ resolve_uri u (t_dir t) = Ok mp /\ fs_lookup mp (t_mans t) = Some es /\
       In e es /\ live_entry e = true /\ resolve_uri (e_path e) (t_dir t) = Ok p).
Proof. exact data_files_exact. Qed.

(* ANY directory: what an Ok from open_table implies *)
Theorem C17_open_inversion : forall t q o, open_table t q = Ok o ->
  exists n' md s ml,
    latest_metadata t = Ok (o_md o) /\ name_lookup (o_md o) (t_meta t) = Some (n', Some md) /\
    (md_fv md = 1 \/ md_fv md = 2) /\ In s (md_snaps md) /\ s_id s = o_sid o /\
    match q with Some id => o_sid o = id | None => md_cur md = Some (o_sid o) end /\
    resolve_uri (s_ml s) (t_dir t) = Ok ml /\ data_files_of t ml = Ok (o_files o) /\
    o_files o <> [] /\ forallb (file_exists t) (o_files o) = true.
Proof. exact open_inv. Qed.

(* ANY directory: refusals in direct form *)
Theorem C17_refuses_unknown_snapshot : forall t id name n' md,
  latest_metadata t = Ok name -> name_lookup name (t_meta t) = Some (n', Some md) ->
  (forall s, In s (md_snaps md) -> s_id s <> id) -> open_table t (Some id) = Err EStorage.
Proof. exact refuse_unknown_snapshot. Qed.
Theorem C17_refuses_no_current_snapshot : forall t name n' md,
  latest_metadata t = Ok name -> name_lookup name (t_meta t) = Some (n', Some md) ->
  md_cur md = None -> open_table t None = Err EStorage.
Proof. exact refuse_no_current. Qed.
(* delete files (content <> 0), non-Parquet data files, remote data-file URIs *)
Theorem C17_refuses_bad_entry : forall t ml ms u mp es e,
  fs_lookup ml (t_lists t) = Some ms -> In u ms -> resolve_uri u (t_dir t) = Ok mp ->
  fs_lookup mp (t_mans t) = Some es -> In e es -> live_entry e = true ->
  (content_or0 e <> 0 \/ eq_ignore_case (e_format e) (bs "parquet") = false \/ is_remote (e_path e) = true) ->
  exists x, data_files_of t ml = Err x.
Proof. exact refuse_bad_entry. Qed.
Theorem C17_refuses_remote_manifest : forall t ml ms u,
  fs_lookup ml (t_lists t) = Some ms -> In u ms -> is_remote u = true -> exists x, data_files_of t ml = Err x.
Proof. exact refuse_remote_manifest. Qed.
Theorem C17_refuses_empty_snapshot : forall t q o, open_table t q = Ok o -> o_files o <> [].
Proof. exact open_nonempty. Qed.

(* the order in which the metadata/ directory is listed (read_dir order is unspecified) does not matter *)
Theorem C17_listing_order_immaterial : forall t l', Permutation (t_meta t) l' ->
  latest_metadata t = latest_metadata (mkTable (t_dir t) (t_hint t) l' (t_lists t) (t_mans t) (t_data t)).
Proof. exact latest_metadata_listing_order. Qed.

(* REFUTED without the clock hypothesis: no version-hint, two commits within one millisecond (dt = 0). Ties are
   broken by file name and "v10.metadata.json" < "v9.metadata.json", so the reader serves the stale v9:
   snapshot 1 with {f1} instead of the current snapshot 2 with {f1, f2}. *)
Theorem C17_equal_timestamp_tie_refuted :
  exists dir h, good_dir dir = true /\ wf_history h = true /\ forallb (fun o => 0 <=? op_dt o) h = true /\
    spec_open (abstract h) None = SFiles 2 [bs "f1.parquet"; bs "f2.parquet"] /\
    open_table (replay_table dir false h) None
      = Ok (mkOpened (bs "v9.metadata.json") 1 [absp dir (data_rel (bs "f1.parquet"))]).
Proof. exact equal_timestamp_tie_refuted. Qed.

Print Assumptions C17_snapshot_files_exact.
Print Assumptions C17_listed_snapshot_read.
Print Assumptions C17_current_snapshot_read.
Print Assumptions C17_unknown_snapshot_refused.
Print Assumptions C17_empty_snapshot_refused.
Print Assumptions C17_usort_members.
Print Assumptions C17_usort_nodup.
Print Assumptions C17_usort_sorted.
Print Assumptions C17_model_meets_spec.
Print Assumptions C17_resolve_uri_forms.
Print Assumptions C17_remote_uri_refused.
Print Assumptions C17_data_files_exact.
Print Assumptions C17_open_inversion.
Print Assumptions C17_refuses_unknown_snapshot.
Print Assumptions C17_refuses_no_current_snapshot.
Print Assumptions C17_refuses_bad_entry.
Print Assumptions C17_refuses_remote_manifest.
Print Assumptions C17_refuses_empty_snapshot.
Print Assumptions C17_listing_order_immaterial.
Print Assumptions C17_equal_timestamp_tie_refuted.
