(* C14 — Nodes that disagree about the data refuse to answer.
   This file holds only statement pins, `exact` proofs and Print Assumptions. *)
From QV Require Import Base.Util C12.Model C11.Model C11.Proofs C14.Model C14.Proofs.

(* the fragment runs iff the worker computes the request's digest from its own split set AND the shard
   index exists (assign_lpt builds max(shard_count,1) nodes, so shard_count = 0 lets index 0 through) *)
Theorem C14_fragment_guard : forall req w,
  guard req w = Run <-> digest w = r_digest req /\ r_index req < Z.max (r_count req) 1.
Proof. exact fragment_guard. Qed.

Theorem C14_guard_refuses_digest : forall req w,
  guard req w = RefuseDigest <-> digest w <> r_digest req.
Proof. exact guard_refuses_digest. Qed.

Theorem C14_guard_refuses_range : forall req w,
  guard req w = RefuseRange <-> digest w = r_digest req /\ Z.max (r_count req) 1 <= r_index req.
Proof. exact guard_refuses_range. Qed.

(* the variant the check evaluates is the same function *)
Theorem C14_guard_fast_eq : forall req w, guard_fast req w = guard req w.
Proof. exact guard_fast_eq. Qed.

(* same files (distinct names), any listing order / directory: every in-range shard runs *)
Theorem C14_same_data_accepted : forall c table init_files worker_files idx count,
  NoDup (map fst init_files) -> Permutation init_files worker_files -> idx < Z.max count 1 ->
  execute_fragment_guard c table worker_files (initiator_request c table init_files idx count) = Run.
Proof. exact same_data_accepted. Qed.

(* PARTIAL: copies whose canonical encodings have equal length and differ in exactly one byte are
   refused, whatever the shard index *)
Theorem C14_single_byte_divergence_refused_partial : forall req w init,
  r_digest req = digest init ->
  (exists pre b1 b2 suf, encoding init = pre ++ b1 :: suf /\ encoding w = pre ++ b2 :: suf /\ b1 <> b2) ->
  Forall (fun x => 0 <= x < 256) (encoding init) -> Forall (fun x => 0 <= x < 256) (encoding w) ->
  guard req w = RefuseDigest.
Proof. exact single_byte_divergence_refused. Qed.

(* with equal table, equally many splits and pairwise equal file-name lengths, the digested byte
   string determines (file, row_group, row_offset, num_rows, bytes) of every split *)
Theorem C14_encoding_injective_fixed_names : forall a b,
  ss_table a = ss_table b ->
  Forall split_in_range (ss_splits a) -> Forall split_in_range (ss_splits b) ->
  Forall2 (fun s1 s2 => length (s_file s1) = length (s_file s2)) (ss_splits a) (ss_splits b) ->
  encoding a = encoding b ->
  map (fun s => (s_file s, s_rg s, s_off s, s_rows s, s_bytes s)) (ss_splits a)
  = map (fun s => (s_file s, s_rg s, s_off s, s_rows s, s_bytes s)) (ss_splits b).
Proof. exact encoding_injective_fixed_names. Qed.

(* PARTIAL — general collision freedom ("ANY difference is refused") is false for a 64-bit hash and is
   NOT claimed. For an accepted fragment: digests agree, the encodings are not single-byte variants, and
   equal encodings mean equal digested fields. *)
Theorem C14_collision_freedom_partial : forall req w init,
  r_digest req = digest init -> guard req w = Run ->
  Forall (fun x => 0 <= x < 256) (encoding init) -> Forall (fun x => 0 <= x < 256) (encoding w) ->
  digest w = digest init
  /\ ~ (exists pre b1 b2 suf, encoding init = pre ++ b1 :: suf /\ encoding w = pre ++ b2 :: suf /\ b1 <> b2)
  /\ (ss_table init = ss_table w ->
      Forall split_in_range (ss_splits init) -> Forall split_in_range (ss_splits w) ->
      Forall2 (fun s1 s2 => length (s_file s1) = length (s_file s2)) (ss_splits init) (ss_splits w) ->
      encoding init = encoding w -> map split_core (ss_splits init) = map split_core (ss_splits w)).
Proof. exact collision_freedom_partial. Qed.

Print Assumptions C14_fragment_guard.
Print Assumptions C14_guard_refuses_digest.
Print Assumptions C14_guard_refuses_range.
Print Assumptions C14_guard_fast_eq.
Print Assumptions C14_same_data_accepted.
Print Assumptions C14_single_byte_divergence_refused_partial.
Print Assumptions C14_encoding_injective_fixed_names.
Print Assumptions C14_collision_freedom_partial.
