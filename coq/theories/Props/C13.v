(* C13 — Shard scans reassemble the table exactly.
   This file holds only statement pins, `exact` proofs and Print Assumptions. *)
From QV Require Import Base.Util C12.Model C13.Model C13.Proofs.

(* one split reads exactly its row range of its row group (whole-row-group fast path and RowSelection alike) *)
Theorem C13_read_split : forall (row : Type) (s : split) (rg : list row),
  0 <= s_off s -> 0 <= s_rows s -> s_off s + s_rows s <= Z.of_nat (length rg) ->
  read_rows s rg = firstn (Z.to_nat (s_rows s)) (skipn (Z.to_nat (s_off s)) rg).
Proof. exact @read_rows_firstn_skipn. Qed.

(* for ANY partition of the split indices among the nodes, every shard answers, and the bag union of the
   shard answers under projection pi and pushed filter (predicate + sound pruning + optional decoder
   row filter) is pi(sigma_phi(table)): no row lost, none duplicated.  Split coverage is the hypothesis
   C11 proves of the enumeration (cover_exact). *)
Theorem C13_shards_reassemble : forall (row out : Type) (tbl : @ptable row) (flt : option (@pushed row))
    (pi : row -> out) (splits : list split) (pieces : list Z * Z * list row -> list split),
  NoDup (map fst tbl) ->
  Permutation splits (flat_map pieces (rg_entries tbl)) ->
  (forall e, In e (rg_entries tbl) ->
     contig 0 (pieces e) /\ zsum (map s_rows (pieces e)) = Z.of_nat (length (e_rows e))
     /\ forall s, In s (pieces e) -> s_file s = e_file e /\ s_rg s = e_idx e) ->
  (forall f, flt = Some f -> forall rg, p_prune f rg = true -> forall r, In r rg -> p_pred f r = false) ->
  forall per_node : list (list nat),
  Permutation (concat per_node) (seq 0 (length splits)) ->
  exists outs, map (shard_answer tbl flt pi splits) per_node = map Some outs
               /\ Permutation (concat outs) (map pi (sigma flt (table_rows tbl))).
Proof. exact @shards_reassemble. Qed.

(* in particular for the coordinator's own LPT assignment (C12), any node count *)
Theorem C13_lpt_shards_reassemble : forall (row out : Type) (tbl : @ptable row) (flt : option (@pushed row))
    (pi : row -> out) (splits : list split) (pieces : list Z * Z * list row -> list split) (nodes0 : nat),
  NoDup (map fst tbl) ->
  Permutation splits (flat_map pieces (rg_entries tbl)) ->
  (forall e, In e (rg_entries tbl) ->
     contig 0 (pieces e) /\ zsum (map s_rows (pieces e)) = Z.of_nat (length (e_rows e))
     /\ forall s, In s (pieces e) -> s_file s = e_file e /\ s_rg s = e_idx e) ->
  (forall f, flt = Some f -> forall rg, p_prune f rg = true -> forall r, In r rg -> p_pred f r = false) ->
  (forall s, In s splits -> 0 <= s_bytes s) ->
  exists outs, map (shard_answer tbl flt pi splits) (a_per_node (assign splits nodes0)) = map Some outs
               /\ Permutation (concat outs) (map pi (sigma flt (table_rows tbl))).
Proof. exact @lpt_shards_reassemble. Qed.

(* a split that does not fit the node's copy of the data fails the shard scan: an error, not fewer rows *)
Theorem C13_mismatched_split_is_error : forall (row : Type) (tbl : @ptable row) (flt : option (@pushed row))
    (s : split) (owned : list split),
  In s owned ->
  (lookup_rg tbl (s_file s) (s_rg s) = None \/
   exists rg, lookup_rg tbl (s_file s) (s_rg s) = Some rg /\ Z.of_nat (length rg) < s_off s + s_rows s) ->
  scan_impl tbl flt owned = RErr.
Proof. exact @mismatched_split_is_error. Qed.

(* the shard provider answers parquet_files() = None, and every whole-file path needs Some *)
Theorem C13_shard_never_whole_file : forall k : plan_facts,
  whole_file (choose_path shard_parquet_files k) = false.
Proof. exact shard_never_whole_file. Qed.

Theorem C13_whole_file_needs_parquet_files : forall (F : Type) (pf : option F) (k : plan_facts),
  whole_file (choose_path pf k) = true -> pf <> None.
Proof. exact @whole_file_needs_parquet_files. Qed.

(* the executable spec the implementation's per-node answers are judged by is met by the model *)
Theorem C13_model_meets_spec : forall (tbl : @ptable Z) (sat : option (list Z)) (splits : list split)
    (pieces : list Z * Z * list Z -> list split) (per_node : list (list nat)) (outs : list (list Z)),
  NoDup (map fst tbl) ->
  Permutation splits (flat_map pieces (rg_entries tbl)) ->
  (forall e, In e (rg_entries tbl) ->
     contig 0 (pieces e) /\ zsum (map s_rows (pieces e)) = Z.of_nat (length (e_rows e))
     /\ forall s, In s (pieces e) -> s_file s = e_file e /\ s_rg s = e_idx e) ->
  Permutation (concat per_node) (seq 0 (length splits)) ->
  model_answers tbl sat splits per_node = map Some outs ->
  spec_ok tbl sat outs = true.
Proof. exact model_meets_spec. Qed.

Print Assumptions C13_read_split.
Print Assumptions C13_shards_reassemble.
Print Assumptions C13_lpt_shards_reassemble.
Print Assumptions C13_mismatched_split_is_error.
Print Assumptions C13_shard_never_whole_file.
Print Assumptions C13_whole_file_needs_parquet_files.
Print Assumptions C13_model_meets_spec.
