(* C29 — No SQL input crashes or hangs the engine.  Pins, `exact`, Print Assumptions only.
   The property as a whole is NOT a theorem ("no panic anywhere in 100k lines" has no executable model): these are the
   logic cores in which the recorded C29 defects lived, proved for all inputs about models tied to the code by the
   correspondence run of checks/C29.py; the rest of the property is validated by search (same check). *)
From QV Require Import Base.Util C29.Model C29.Proofs.
From QV Require C03.Model C03.Proofs.
Open Scope Z_scope.

(* ---------- 1. the parser nesting guard (paren_depth / check_nesting, /repo/src/parser/mod.rs) ---------- *)
(* the scanner's result is the maximum of the trajectory of the saturating open-minus-close balance, computed by a fold
   under the same lexical rules (single, double and back quotes; -- comments to end of line) *)
Theorem C29_guard_is_max_of_trajectory : forall s, paren_depth s = max0 (traj s).
Proof. exact paren_depth_is_max_of_trajectory. Qed.
(* ... i.e. the maximum over all prefixes: no prefix exceeds it, and one attains it *)
Theorem C29_guard_bounds_every_prefix : forall p q, balance p <= paren_depth (p ++ q).
Proof. exact prefix_balance_le_depth. Qed.
Theorem C29_guard_attained : forall s, exists p q, s = p ++ q /\ balance p = paren_depth s.
Proof. exact depth_attained. Qed.
(* a statement that passes the guard has no prefix nested deeper than 47; one that is rejected has such a prefix *)
Theorem C29_check_nesting_sound : forall s, check_nesting s = true ->
  forall p q, s = p ++ q -> balance p <= 47.
Proof. exact check_nesting_sound. Qed.
Theorem C29_check_nesting_complete : forall s, check_nesting s = false ->
  exists p q, s = p ++ q /\ 47 < balance p.
Proof. exact check_nesting_complete. Qed.
(* without quote and dash characters: never below the classic maximum nesting, and equal to it when no prefix closes
   more than it opened (unmatched `)` saturate at 0 instead of going negative) *)
Theorem C29_guard_classic_lower_bound : forall s, no_lexical s = true -> classic_depth s <= paren_depth s.
Proof. exact classic_le_paren_depth. Qed.
Theorem C29_guard_classic : forall s, no_lexical s = true ->
  Forall (fun x => 0 <= x) (sums_from 0 (map plain_delta s)) -> paren_depth s = classic_depth s.
Proof. exact paren_depth_classic. Qed.
(* the usize counters cannot wrap: they are bounded by the number of code points *)
Theorem C29_guard_counters_bounded : forall s, 0 <= paren_depth s <= Z.of_nat (length s).
Proof. exact depth_le_length. Qed.
Theorem C29_guard_model_meets_spec : forall s, spec_guard s (negb (check_nesting s)) = true.
Proof. exact guard_model_meets_spec. Qed.

(* ---------- 2. integer kernels (+ - * / % unary minus ABS on i32 / i64) ---------- *)
(* for in-range operands: an error when the divisor is 0 or the mathematical result (truncating / and %) is not
   representable, otherwise exactly that result — nothing else, in particular no panic and no wrap *)
Theorem C29_int_kernel_spec : forall bits op x y, 1 <= bits -> 0 <= op <= 6 ->
  in_range bits x = true -> in_range bits y = true ->
  k_op op bits x y = match math_op op x y with
                     | None => OErr
                     | Some r => if in_range bits r then OVal r else OErr
                     end.
Proof. intros bits op x y Hb. exact (k_op_spec bits Hb op x y). Qed.
Theorem C29_int_kernel_value : forall bits op x y v, 1 <= bits -> 0 <= op <= 6 ->
  in_range bits x = true -> in_range bits y = true ->
  k_op op bits x y = OVal v -> in_range bits v = true /\ math_op op x y = Some v.
Proof. intros bits op x y v Hb. exact (k_op_value bits Hb op x y v). Qed.
Theorem C29_int_kernel_error_iff : forall bits op x y, 1 <= bits -> 0 <= op <= 6 ->
  in_range bits x = true -> in_range bits y = true ->
  (k_op op bits x y = OErr <->
   (math_op op x y = None \/ exists r, math_op op x y = Some r /\ in_range bits r = false)).
Proof. intros bits op x y Hb. exact (k_op_error_iff bits Hb op x y). Qed.
Theorem C29_int_kernel_total : forall bits op x y, 1 <= bits -> 0 <= op <= 6 ->
  in_range bits x = true -> in_range bits y = true ->
  k_op op bits x y = OErr \/ exists v, k_op op bits x y = OVal v.
Proof. intros bits op x y Hb. exact (k_op_total bits Hb op x y). Qed.
(* the convention: truncation toward zero, the remainder has the dividend's sign *)
Theorem C29_division_convention : forall x y, y <> 0 ->
  x = y * Z.quot x y + Z.rem x y /\ Z.abs (Z.rem x y) < Z.abs y /\
  (0 <= x -> 0 <= Z.rem x y) /\ (x <= 0 -> Z.rem x y <= 0).
Proof. exact trunc_convention. Qed.
(* the optimizer's constant folder (second implementation of the operators, on literals) never changes the outcome *)
Theorem C29_constant_folder_agrees : forall op x y, 0 <= op <= 6 -> in_range 64 x = true -> in_range 64 y = true ->
  lit_op op x y = k_op op 64 x y.
Proof. exact fold_agrees. Qed.
Theorem C29_constant_folder_before_fix :
  in_range 64 (imin 64) = true /\ in_range 64 (-1) = true /\
  lit_op_before_fix 3 (imin 64) (-1) = OPanic /\ lit_op_before_fix 4 (imin 64) (-1) = OPanic /\
  lit_op 3 (imin 64) (-1) = OErr /\ lit_op 4 (imin 64) (-1) = OVal 0.
Proof. exact fold_min_div_before_fix. Qed.

(* ---------- 3. date32_to_naive (with chrono's from_num_days_from_ce_opt transcribed) and its consumers ---------- *)
(* for every i32 day count: no intermediate leaves its integer type (the model makes every unchecked i32 / u32 operation
   an RPanic), and the result is the proleptic Gregorian date exactly on chrono's range, None elsewhere *)
Theorem C29_date32_to_naive : forall d, is_i32 d = true ->
  naive_ymd d = ROk (if date_in_range d then Some (civil_from_days d) else None).
Proof. exact date32_to_naive_spec. Qed.
Theorem C29_date32_to_naive_some : forall d y m dd, is_i32 d = true -> naive_ymd d = ROk (Some (y, m, dd)) ->
  -262143 <= y <= 262142 /\ valid_ymd y m dd = true /\ days_from_civil y m dd = d /\ -96465292 <= d <= 95026236.
Proof. exact date32_to_naive_some. Qed.
Theorem C29_civil_roundtrip : forall z,
  let '(y, m, d) := civil_from_days z in days_from_civil y m d = z /\ valid_ymd y m d = true.
Proof. exact civil_roundtrip. Qed.
(* EXTRACT(YEAR | MONTH | DAY) over EVERY Date32 value *)
Theorem C29_extract : forall f d, is_i32 d = true ->
  m_extract f d = OVal (field_of f (if date_in_range d then civil_from_days d else (1970, 1, 1))).
Proof. exact extract_spec. Qed.
(* DATE_TRUNC / DATE_ADD on Date32, as repaired: a value or NULL, never a panic — every unit, every Date32, every count *)
Theorem C29_date_trunc_no_panic : forall u d, is_i32 d = true -> spec_obs (m_date_trunc u d) = true.
Proof. exact date_trunc_no_panic. Qed.
Theorem C29_date_trunc_week : forall d r, is_i32 d = true -> m_date_trunc 1 d = OVal r ->
  -96465292 <= r <= d /\ d - r <= 6 /\ (r + 3) mod 7 = 0.
Proof. exact date_trunc_week_value. Qed.
Theorem C29_date_add_no_panic : forall u v d, is_i32 d = true -> spec_obs (m_date_add u v d) = true.
Proof. exact date_add_no_panic. Qed.
Theorem C29_date_add_day : forall v d r, is_i32 d = true -> m_date_add 0 v d = OVal r ->
  r = d + v /\ date_in_range r = true /\ is_i32 r = true.
Proof. exact date_add_day_value. Qed.
Theorem C29_date_trunc_week_before_fix :
  is_i32 DMIN = true /\ date_in_range DMIN = true /\ civil_from_days DMIN = (MIN_YEAR, 1, 1) /\ (DMIN + 3) mod 7 = 3 /\
  m_date_trunc_before_fix 1 DMIN = OPanic /\ m_date_trunc_before_fix 1 (DMIN + 3) = OPanic /\
  m_date_trunc_before_fix 1 (DMIN + 4) = OVal (DMIN + 4) /\
  m_date_trunc 1 DMIN = ONull /\ m_date_trunc 1 (DMIN + 3) = ONull /\ m_date_trunc 1 (DMIN + 4) = OVal (DMIN + 4).
Proof. exact date_trunc_week_before_fix. Qed.
Theorem C29_date_add_before_fix :
  is_i32 18262 = true /\ in_range 64 9223372036854775807 = true /\
  m_date_add_day_before_fix 9223372036854775807 18262 = OPanic /\
  m_date_add 0 9223372036854775807 18262 = ONull /\ m_date_add 4 9223372036854775807 18262 = ONull /\
  m_date_add 1 9223372036854775807 18262 = ONull /\ m_date_add 2 4294967297 18262 = ONull /\
  m_date_add 0 1 18262 = OVal 18263 /\ m_date_add 2 1 19753 = OVal 19782 /\ m_date_add 4 (-1) 19782 = OVal 19416.
Proof. exact date_add_before_fix. Qed.

(* ---------- 4. JoinReorder::estimate_relation_size_score, statistics branch ---------- *)
(* every usize row count, either admissible value of `(max(1,n) as f64).log2() as i32`: all intermediates fit i32 *)
Theorem C29_join_score_fits_i32 : forall n lg f, 0 <= n < 2 ^ 64 ->
  Z.log2 (Z.max 1 n) <= lg <= Z.log2 (Z.max 1 n) + 1 ->
  exists v, score_with lg f = ROk v /\ -22000 <= v <= 11500 /\
            is_i32 (lg * 500) = true /\ is_i32 (10000 - lg * 500) = true /\ is_i32 v = true.
Proof. exact score_fits_i32. Qed.
Theorem C29_join_score_no_panic : forall n f, 0 <= n < 2 ^ 64 -> exists v, score n f = ROk v /\ -21500 <= v <= 11500.
Proof. exact score_no_panic. Qed.
Theorem C29_join_score_before_fix :
  score_before_fix 0 false = RPanic /\ score 0 false = ROk 10000 /\ score 0 true = ROk 11500 /\
  score 1 false = ROk 10000 /\ score 25 false = ROk 8000 /\ score (2 ^ 64 - 1) false = ROk (-21500) /\
  score_with 64 false = ROk (-22000).
Proof. exact score_before_fix_witness. Qed.

(* ---------- 5. the optimizer's fixpoint driver terminates (re-export of C03's theorems) ---------- *)
Theorem C29_optimizer_driver_bound : forall (plan : Type) (plan_eqb : plan -> plan -> bool) mi lr fr p,
  (snd (QV.C03.Model.driver plan plan_eqb mi lr fr p) <= mi * length lr + length fr)%nat.
Proof. exact QV.C03.Proofs.driver_application_bound. Qed.
Theorem C29_optimizer_production_bound :
  QV.C03.Model.application_bound = 141%nat /\ length QV.C03.Model.RuleNames.loop_rules = 14%nat /\
  length QV.C03.Model.RuleNames.final_rules = 1%nat.
Proof. exact QV.C03.Proofs.production_application_bound. Qed.

Print Assumptions C29_guard_is_max_of_trajectory.
Print Assumptions C29_guard_bounds_every_prefix.
Print Assumptions C29_guard_attained.
Print Assumptions C29_check_nesting_sound.
Print Assumptions C29_check_nesting_complete.
Print Assumptions C29_guard_classic_lower_bound.
Print Assumptions C29_guard_classic.
Print Assumptions C29_guard_counters_bounded.
Print Assumptions C29_guard_model_meets_spec.
Print Assumptions C29_int_kernel_spec.
Print Assumptions C29_int_kernel_value.
Print Assumptions C29_int_kernel_error_iff.
Print Assumptions C29_int_kernel_total.
Print Assumptions C29_division_convention.
Print Assumptions C29_constant_folder_agrees.
Print Assumptions C29_constant_folder_before_fix.
Print Assumptions C29_date32_to_naive.
Print Assumptions C29_date32_to_naive_some.
Print Assumptions C29_civil_roundtrip.
Print Assumptions C29_extract.
Print Assumptions C29_date_trunc_no_panic.
Print Assumptions C29_date_trunc_week.
Print Assumptions C29_date_add_no_panic.
Print Assumptions C29_date_add_day.
Print Assumptions C29_date_trunc_week_before_fix.
Print Assumptions C29_date_add_before_fix.
Print Assumptions C29_join_score_fits_i32.
Print Assumptions C29_join_score_no_panic.
Print Assumptions C29_join_score_before_fix.
Print Assumptions C29_optimizer_driver_bound.
Print Assumptions C29_optimizer_production_bound.
