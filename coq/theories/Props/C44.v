(* C44 — VALUES lists produce their rows. Pins, `exact`, Print Assumptions only. *)
From QV Require Import Sql.Query Sql.QueryProofs.

(* reference semantics: a VALUES list IS its rows, each cell the value of its constant expression *)
Theorem C44_values_spec : forall db w (rows : list (list expr)),
  qeval sql_qsem db (QValues w rows) = map (fun es => map (eval sql_sem []) es) rows.
Proof. intros; reflexivity. Qed.

(* the engine model returns exactly those rows, used directly ... *)
Theorem C44_values_model : forall db w (rows : list (list expr)),
  known_q db (QValues w rows) = false ->
  qeval eng_qsem db (QValues w rows) = map (fun es => map (eval sql_sem []) es) rows.
Proof. intros db w rows H. exact (eng_query_agrees db (QValues w rows) H). Qed.

(* ... and as a derived table under any further query (the whole-query agreement theorem) *)
Theorem C44_values_in_from : forall db q,
  known_q db q = false -> qeval eng_qsem db q = qeval sql_qsem db q.
Proof. exact eng_query_agrees. Qed.

(* regression witness of the defect repaired by the `fix:` commit: the old lowering returned no rows *)
Theorem C44_values_empty_before_fix :
  let q := QValues 2 [[ELit (VInt 1); ELit (VInt 2)]; [ELit (VInt 3); ELit (VInt 4)]] in
  qeval eng_qsem_before_values_fix [] q = [] /\
  qeval eng_qsem [] q = [[VInt 1; VInt 2]; [VInt 3; VInt 4]] /\
  qeval sql_qsem [] q = [[VInt 1; VInt 2]; [VInt 3; VInt 4]].
Proof. exact values_empty_before_fix. Qed.

Print Assumptions C44_values_spec.
Print Assumptions C44_values_model.
Print Assumptions C44_values_in_from.
Print Assumptions C44_values_empty_before_fix.
