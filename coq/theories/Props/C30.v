(* C30 — The reported result schema describes the returned rows.  Statement pins only.
   schema_of = the column types the engine reports for a query (Model.v lists the typing rules and the
   covered operators: all of Sql/Query.v's `query` except VALUES, all of `expr` except a bare NULL literal). *)
From QV Require Import Sql.Query C30.Model C30.Proofs.

(* expression typing is sound for the SQL semantics: a typed expression never yields VErr and
   yields a value of its type (NULL inhabits every type) *)
Theorem C30_tyof_sound : forall r32, is_int r32 = true -> forall S env r,
  row_has_types r env = true -> forall e t, tyof r32 env e = Some t -> has_ty (eval S r e) t = true.
Proof. exact tyof_sound. Qed.

(* type preservation: every row a well-typed query returns has the reported column count and types *)
Theorem C30_rows_conform : forall dbs db q env,
  db_conforms db dbs -> schema_of dbs q = Some env ->
  forall r, In r (qeval sql_qsem db q) -> row_has_types r env = true.
Proof. exact rows_conform. Qed.

Theorem C30_schema_width : forall dbs q env, schema_of dbs q = Some env -> length env = width q.
Proof. exact schema_width_reported. Qed.

(* the kernels' typing (Int32 op Int32 stays Int32) is preserved as well; the two typings differ exactly on
   the recorded class i32-arith, which is inhabited *)
Theorem C30_rows_conform_returned : forall dbs db q env,
  db_conforms db dbs -> returned_schema_of dbs q = Some env ->
  forall r, In r (qeval sql_qsem db q) -> row_has_types r env = true.
Proof. exact rows_conform_returned. Qed.

Theorem C30_i32_arith_witness :
  let q := QProject (QTable 0 1) [EArith AAdd (ECol 0) (ECol 0)] in
  schema_of [[TI32]] q = Some [TI64] /\ returned_schema_of [[TI32]] q = Some [TI32] /\ known_i32_arith [[TI32]] q = true.
Proof. exact i32_arith_witness. Qed.

Print Assumptions C30_tyof_sound.
Print Assumptions C30_rows_conform.
Print Assumptions C30_schema_width.
Print Assumptions C30_rows_conform_returned.
Print Assumptions C30_i32_arith_witness.
