(* C30 — The reported result schema describes the returned rows.  Statement pins only.
   schema_of = the column types the engine reports for a query (Model.v lists the typing rules and the covered
   operators: all of Sql/Query.v's `query` except VALUES, all of `expr` except a bare NULL literal).
   has_ty mx: run-time typing of a value; with mx = true a VInt is accepted at a float type (the Int -> Float64
   cast evaluate_case applies to integer branches of a mixed CASE), with mx = false it is not. *)
From QV Require Import Sql.Query C30.Model C30.Proofs.

(* expression typing is sound for the SQL semantics: a typed expression never yields VErr and yields a value of
   its type; for both value disciplines and for the planner's arithmetic typing after / before 4f06458 *)
Theorem C30_tyof_sound : forall mx same_arm S env r,
  row_has_types mx r env = true -> forall e t, tyof same_arm mx env e = Some t -> has_ty mx (eval S r e) t = true.
Proof. exact tyof_sound. Qed.

(* type preservation: every row a well-typed query returns has the reported column count and types *)
Theorem C30_rows_conform : forall dbs db q env,
  db_conforms true db dbs -> schema_of dbs q = Some env ->
  forall r, In r (qeval sql_qsem db q) -> row_has_types true r env = true.
Proof. exact rows_conform. Qed.

(* ... and strictly (no integer at a float type) when every CASE keeps to one class *)
Theorem C30_rows_conform_strict : forall dbs db q env,
  db_conforms false db dbs -> schema_strict dbs q = Some env ->
  forall r, In r (qeval sql_qsem db q) -> row_has_types false r env = true.
Proof. exact rows_conform_strict. Qed.

Theorem C30_schema_width : forall dbs q env, schema_of dbs q = Some env -> length env = width q.
Proof. exact schema_width_reported. Qed.

(* regression (class i32-arith, closed by fix: 4f06458): Int32 + Int32 is planned Int32, was planned Int64 *)
Theorem C30_i32_arith_regression :
  let q := QProject (QTable 0 1) [EArith AAdd (ECol 0) (ECol 0)] in
  schema_of [[TI32]] q = Some [TI32] /\ schema_before_4f06458 [[TI32]] q = Some [TI64].
Proof. exact i32_arith_regression. Qed.

(* regression (class case-float64-widening, closed by fix: b37af60): CASE is planned with the fold of its branch
   types — Float64 as soon as a differing pair involves Float64, else the THEN's type *)
Theorem C30_case_fold_regression :
  let c := ECmp CGt (ECol 0) (ELit (VInt 0)) in
  let q e := QProject (QTable 0 2) [e] in
  schema_of [[TI64; TF32]] (q (ECase [(c, ECol 0)] (Some (ELit (VDbl (3 # 2)))))) = Some [TF64]
  /\ schema_of [[TI64; TF32]] (q (ECase [(c, ECol 1)] (Some (ELit (VDbl (3 # 2)))))) = Some [TF64]
  /\ schema_of [[TI64; TF32]] (q (ECase [(c, ELit (VDbl (3 # 2)))] (Some (ECol 0)))) = Some [TF64]
  /\ schema_of [[TI32; TI64]] (q (ECase [(c, ECol 0)] (Some (ECol 1)))) = Some [TI32]
  /\ schema_strict [[TI64; TF32]] (q (ECase [(c, ECol 0)] (Some (ELit (VDbl (3 # 2)))))) = None
  /\ case_fold [TI64; TF64] = Some TF64 /\ case_fold [TI32; TF32; TF64] = Some TF64 /\ case_fold [TI32; TF32] = Some TI32.
Proof. exact case_fold_regression. Qed.

(* the planner's coerce_numeric_types on every pair of modelled numeric types *)
Theorem C30_coerce_table :
  map (fun a => map (coerce_numeric true a) [TI8; TI16; TI32; TI64; TF32; TF64]) [TI8; TI16; TI32; TI64; TF32; TF64]
  = [[TI8;  TI32; TI64; TI64; TF64; TF64];
     [TI32; TI16; TI64; TI64; TF64; TF64];
     [TI64; TI64; TI32; TI64; TF64; TF64];
     [TI64; TI64; TI64; TI64; TF64; TF64];
     [TF64; TF64; TF64; TF64; TF32; TF64];
     [TF64; TF64; TF64; TF64; TF64; TF64]].
Proof. exact coerce_table. Qed.

(* regression (class union-all-mixed-types for numeric pairs, closed by fix: f5f2dbc): UNION inputs are planned with
   the binder's common type *)
Theorem C30_union_regression :
  let u a b := QSetOp SUnion true (QProject (QTable 0 3) [ECol a]) (QProject (QTable 0 3) [ECol b]) in
  schema_of [[TI64; TI32; TF32]] (u 1%nat 0%nat) = Some [TI64] /\ schema_of [[TI64; TI32; TF32]] (u 0%nat 1%nat) = Some [TI64]
  /\ schema_of [[TI64; TI32; TF32]] (u 1%nat 2%nat) = Some [TF64] /\ schema_of [[TI64; TI32; TF32]] (u 2%nat 2%nat) = Some [TF32]
  /\ schema_strict [[TI64; TI32; TF32]] (u 1%nat 2%nat) = None
  /\ map (fun a => map (union_ty a) [TI8; TI16; TI32; TI64; TF32; TF64]) [TI8; TI16; TI32; TI64; TF32; TF64]
     = [[TI8;  TI16; TI32; TI64; TF64; TF64];
        [TI16; TI16; TI32; TI64; TF64; TF64];
        [TI32; TI32; TI32; TI64; TF64; TF64];
        [TI64; TI64; TI64; TI64; TF64; TF64];
        [TF64; TF64; TF64; TF64; TF32; TF64];
        [TF64; TF64; TF64; TF64; TF64; TF64]].
Proof. exact union_regression. Qed.

Print Assumptions C30_tyof_sound.
Print Assumptions C30_rows_conform.
Print Assumptions C30_rows_conform_strict.
Print Assumptions C30_schema_width.
Print Assumptions C30_i32_arith_regression.
Print Assumptions C30_case_fold_regression.
Print Assumptions C30_coerce_table.
Print Assumptions C30_union_regression.
