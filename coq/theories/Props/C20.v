(* C20 — IPC sidecars are invisible and safe to build concurrently (publication protocol).
   This file holds only statement pins, `exact` proofs and Print Assumptions. *)
From QV Require Import Base.Util C20.Model C20.Proofs.

(* one process (one BUILD_LOCK), any number of builder (QE_IPC_CACHE=1) and reader (unset) threads, any
   interleaving, any initial sidecar made of whole files: every query ends on complete sidecar files or on the
   Parquet path; never a missing file, never a partial file *)
Theorem C20_single_process_safe : forall (n : nat) f0 modes ls g,
  final_wf n f0 = true -> grun n ls (init f0 [modes]) = Some g ->
  has_outcome Error g = false /\ has_outcome Truncated g = false.
Proof. exact single_process_safe. Qed.

(* any number of processes (locks not shared), threads and schedules: a partially written file is never read *)
Theorem C20_wrong_answer_impossible : forall (n : nat) f0 procs ls g,
  final_wf n f0 = true -> grun n ls (init f0 procs) = Some g -> has_outcome Truncated g = false.
Proof. exact wrong_answer_impossible. Qed.

(* two processes: a reader that saw a fresh `.complete` finds a row-group file gone (the other process's
   remove_dir_all(final)): a partial sidecar IS observable across processes, as an error, not as wrong data *)
Theorem C20_cross_process_partial_refuted :
  exists g1 g2,
    grun 1 sched_publish (init None [[true]; [true]]) = Some g1 /\
    is_fresh (g_final g1) = true /\
    (exists p0, nth_error (g_procs g1) 0 = Some p0 /\ nth_error (p_threads p0) 0 = Some (mkT true (TRead 0))) /\
    grun 1 sched_break g1 = Some g2 /\
    has_outcome Error g2 = true /\ has_outcome Truncated g2 = false.
Proof. exact cross_process_partial_refuted. Qed.

Print Assumptions C20_single_process_safe.
Print Assumptions C20_wrong_answer_impossible.
Print Assumptions C20_cross_process_partial_refuted.
