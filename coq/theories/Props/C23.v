(* C23 — Subqueries follow SQL semantics, decorrelated or not. Pins, `exact`, Print Assumptions only. *)
From QV Require Import Sql.Sub C23.Proofs.

(* Both engine models (row-by-row executor, plan after SubqueryDecorrelation), with any subset `qk` of the recorded
   defects present, return exactly the three-valued reference result for every statement
   SELECT items FROM outer WHERE w (EXISTS / IN / scalar subqueries in any boolean position and in the SELECT list,
   correlated by equalities or not) over every database outside the decidable classes of `known_sub qk`. *)
Theorem C23_sub_agree : forall (qk : sclass -> bool) (B : list (list rel)) (m : mode) (sq : squery),
  known_sub qk B m sq = false -> sub_eval_eng qk B m sq = sub_eval_sql B sq.
Proof. exact sub_agree. Qed.

(* decorrelation into joins returns the same rows as row-by-row execution outside the classes *)
Theorem C23_decorrelated_eq_rowwise : forall (qk : sclass -> bool) (B : list (list rel)) (sq : squery),
  known_sub qk B Decorr sq = false -> known_sub qk B Rowwise sq = false ->
  sub_eval_eng qk B Decorr sq = sub_eval_eng qk B Rowwise sq.
Proof. exact decorrelated_eq_rowwise. Qed.

(* as a top-level WHERE conjunct the executor's two-valued IN keeps the same rows as the three-valued IN *)
Theorem C23_in_positive_keep_equiv : forall (x : value) (vals : list value),
  keeps (in2 false x vals) = keeps (in_sql false x vals).
Proof. exact in_positive_keep_equiv. Qed.

(* the rewrites at the relational level *)
Theorem C23_decorrelate_exists_semi : forall wl wr (c : corr) (O S : rel),
  filter (fun r => negb (is_nil (filter (corr_ok c r) S))) O = join_gen JSemi wl wr (corr_ok c) O S.
Proof. exact decorrelate_exists_semi. Qed.
Theorem C23_decorrelate_not_exists_anti : forall wl wr (c : corr) (O S : rel),
  filter (fun r => is_nil (filter (corr_ok c r) S)) O = join_gen JAnti wl wr (corr_ok c) O S.
Proof. exact decorrelate_not_exists_anti. Qed.
Theorem C23_decorrelate_in_semi : forall wl wr (x : row -> value) col (O S : rel),
  filter (fun r => keeps (in_sql false (x r) (map (cell col) S))) O
  = join_gen JSemi wl wr (fun r s => keeps (compare_op CEq (x r) (cell col s))) O S.
Proof. exact decorrelate_in_semi. Qed.
Theorem C23_decorrelate_not_in_anti_no_nulls : forall wl wr (x : row -> value) col (O S : rel),
  (forall r, In r O -> is_null (x r) = false) -> (forall s, In s S -> is_null (cell col s) = false) ->
  filter (fun r => keeps (in_sql true (x r) (map (cell col) S))) O
  = join_gen JAnti wl wr (fun r s => keeps (compare_op CEq (x r) (cell col s))) O S.
Proof. exact decorrelate_not_in_anti_no_nulls. Qed.

(* the engine as it stands (eng_quirks, after the fix commits): only in-null, agg-dup, scalar-multirow (and the
   always-counted unsupported / base) remain as exclusions *)
Theorem C23_eng_classes_remaining :
  map (with_base eng_quirks) sclasses = [true; false; false; true; false; false; true; false; true; true].
Proof. exact eng_classes_remaining. Qed.
Theorem C23_sub_agree_eng : forall (B : list (list rel)) (m : mode) (sq : squery),
  known_sub eng_quirks B m sq = false -> sub_eval_eng eng_quirks B m sq = sub_eval_sql B sq.
Proof. exact sub_agree_eng. Qed.

(* inside the remaining classes the deviations are real *)
Theorem C23_not_in_null_refuted :
  sub_eval_sql B_not_in w_not_in = [] /\
  sub_eval_eng eng_quirks B_not_in Decorr w_not_in = [[VNull]; [VInt 2]] /\
  sub_eval_eng eng_quirks B_not_in Rowwise w_not_in = [[VInt 2]] /\
  sub_known_bits eng_quirks B_not_in Decorr w_not_in = [true; false; false; false; false; false; false; false; false; false].
Proof. exact not_in_null_refuted. Qed.
Theorem C23_not_in_empty_refuted :
  sub_eval_sql B_not_in_empty w_not_in = [[VNull]] /\
  sub_eval_eng eng_quirks B_not_in_empty Decorr w_not_in = [[VNull]] /\
  sub_eval_eng eng_quirks B_not_in_empty Rowwise w_not_in = [] /\
  sub_known_bits eng_quirks B_not_in_empty Rowwise w_not_in = [true; false; false; false; false; false; false; false; false; false].
Proof. exact not_in_empty_refuted. Qed.
Theorem C23_in_under_not_refuted :
  sub_eval_sql B_not_of_in w_not_of_in = [] /\
  sub_eval_eng eng_quirks B_not_of_in Decorr w_not_of_in = [[VNull]] /\
  sub_eval_eng eng_quirks B_not_of_in Rowwise w_not_of_in = [[VNull]].
Proof. exact in_under_not_refuted. Qed.
Theorem C23_agg_reduction_dup_refuted :
  sub_eval_sql B_dup w_dup_sum = [[VInt 1]; [VInt 1]] /\
  sub_eval_eng eng_quirks B_dup Rowwise w_dup_sum = [[VInt 1]; [VInt 1]] /\
  sub_eval_eng eng_quirks B_dup Decorr w_dup_sum = [] /\
  sub_known_bits eng_quirks B_dup Decorr w_dup_sum = [false; false; false; true; false; false; false; false; false; false].
Proof. exact agg_reduction_dup_refuted. Qed.
Theorem C23_scalar_multirow_refuted :
  sub_must_err_sql B_multi w_multi = true /\
  sub_err_eng eng_quirks B_multi Rowwise w_multi = false /\
  sub_eval_eng eng_quirks B_multi Rowwise w_multi = [[VNull]] /\
  sub_eval_eng eng_quirks B_multi Decorr w_multi = [[VNull]] /\
  sub_known_bits eng_quirks B_multi Rowwise w_multi = [false; false; false; false; false; false; true; false; false; false].
Proof. exact scalar_multirow_refuted. Qed.

(* regression theorems for the repaired defects: wrong before the fix (eng_quirks_before_fix), right now (eng_quirks) *)
Theorem C23_in_corr_dropped_regression :
  sub_eval_sql B_in_corr w_in_corr = [] /\
  sub_eval_eng eng_quirks_before_fix B_in_corr Decorr w_in_corr = [[VInt 1; VInt 5]] /\
  sub_known_bits eng_quirks_before_fix B_in_corr Decorr w_in_corr = [false; true; false; false; false; false; false; false; false; false] /\
  sub_eval_eng eng_quirks B_in_corr Decorr w_in_corr = [] /\ sub_err_eng eng_quirks B_in_corr Decorr w_in_corr = true.
Proof. exact in_corr_dropped_regression. Qed.
Theorem C23_decorrelate_scalar_count_bug_regression :
  sub_eval_sql B_count w_count = [[VInt 7]] /\
  sub_eval_eng eng_quirks_before_fix B_count Decorr w_count = [] /\
  sub_known_bits eng_quirks_before_fix B_count Decorr w_count = [false; false; true; false; false; false; false; false; false; false] /\
  sub_eval_eng eng_quirks B_count Decorr w_count = [[VInt 7]] /\
  sub_eval_eng eng_quirks B_count Rowwise w_count = [[VInt 7]].
Proof. exact decorrelate_scalar_count_bug_regression. Qed.
Theorem C23_agg_reduction_dup_count_regression :
  sub_eval_sql B_dup w_dup = [[VInt 1]; [VInt 1]] /\
  sub_eval_eng eng_quirks_before_fix B_dup Decorr w_dup = [] /\
  sub_eval_eng eng_quirks B_dup Decorr w_dup = [[VInt 1]; [VInt 1]].
Proof. exact agg_reduction_dup_count_regression. Qed.
Theorem C23_scalar_name_regression :
  sub_eval_sql B_name w_name = [] /\
  sub_eval_eng eng_quirks_before_fix B_name Decorr w_name = [[VInt 1]] /\
  sub_known_bits eng_quirks_before_fix B_name Decorr w_name = [false; false; false; false; true; false; false; false; false; false] /\
  sub_eval_eng eng_quirks B_name Decorr w_name = [] /\
  sub_eval_eng eng_quirks B_name Rowwise w_name = [].
Proof. exact scalar_name_regression. Qed.
Theorem C23_scalar_batches_regression :
  sub_eval_sql B_batches w_batches = [[VInt 7]] /\
  sub_eval_eng eng_quirks_before_fix B_batches Rowwise w_batches = [] /\
  sub_eval_eng eng_quirks_before_fix B_batches Decorr w_batches = [] /\
  sub_known_bits eng_quirks_before_fix B_batches Rowwise w_batches = [false; false; false; false; false; true; false; false; false; false] /\
  sub_eval_eng eng_quirks B_batches Rowwise w_batches = [[VInt 7]] /\
  sub_eval_eng eng_quirks B_batches Decorr w_batches = [[VInt 7]].
Proof. exact scalar_batches_regression. Qed.
Theorem C23_scalar_first_null_regression :
  sub_eval_sql B_first w_multi = [[VNull]; [VInt 1]] /\
  sub_eval_eng eng_quirks_before_fix B_first Rowwise w_multi = [[VNull]; [VNull]] /\
  sub_eval_eng eng_quirks_before_fix B_first Decorr w_multi = [[VNull]; [VNull]] /\
  sub_known_bits eng_quirks_before_fix B_first Rowwise w_multi = [false; false; false; false; false; false; false; true; false; false] /\
  sub_eval_eng eng_quirks B_first Rowwise w_multi = [[VNull]; [VInt 1]] /\
  sub_eval_eng eng_quirks B_first Decorr w_multi = [[VNull]; [VInt 1]].
Proof. exact scalar_first_null_regression. Qed.

Print Assumptions C23_sub_agree.
Print Assumptions C23_decorrelated_eq_rowwise.
Print Assumptions C23_in_positive_keep_equiv.
Print Assumptions C23_decorrelate_exists_semi.
Print Assumptions C23_decorrelate_not_exists_anti.
Print Assumptions C23_decorrelate_in_semi.
Print Assumptions C23_decorrelate_not_in_anti_no_nulls.
Print Assumptions C23_eng_classes_remaining.
Print Assumptions C23_sub_agree_eng.
Print Assumptions C23_not_in_null_refuted.
Print Assumptions C23_not_in_empty_refuted.
Print Assumptions C23_in_under_not_refuted.
Print Assumptions C23_agg_reduction_dup_refuted.
Print Assumptions C23_scalar_multirow_refuted.
Print Assumptions C23_in_corr_dropped_regression.
Print Assumptions C23_decorrelate_scalar_count_bug_regression.
Print Assumptions C23_agg_reduction_dup_count_regression.
Print Assumptions C23_scalar_name_regression.
Print Assumptions C23_scalar_batches_regression.
Print Assumptions C23_scalar_first_null_regression.
