(* C07 — Answers do not depend on parallelism, batching or scheduling. Pins, `exact`, Print Assumptions only. *)
From QV Require Import Sql.Query Sql.QueryProofs C21.Proofs C22.Proofs C25.Model C25.Proofs C07.Proofs.
From Coq Require Import Sorting.Sorted.

(* ---- batch homomorphisms: the streaming operators commute with concatenation of batches ---- *)
Theorem C07_filter_batches : forall (A : Type) (p : A -> bool) (parts : list (list A)),
  filter p (concat parts) = concat (map (filter p) parts).
Proof. intros A. exact (@filter_concat A). Qed.

Theorem C07_project_batches : forall (A B : Type) (f : A -> B) (parts : list (list A)),
  map f (concat parts) = concat (map (map f) parts).
Proof. intros A B. exact (@map_concat A B). Qed.

Theorem C07_probe_batches : forall jt wl wr ok (L1 L2 R : rel),
  probe_local jt = true ->
  join_gen jt wl wr ok (L1 ++ L2) R = join_gen jt wl wr ok L1 R ++ join_gen jt wl wr ok L2 R.
Proof. exact join_probe_app. Qed.

Theorem C07_probe_partitions : forall jt wl wr ok (parts : list rel) (R : rel),
  probe_local jt = true ->
  join_gen jt wl wr ok (concat parts) R = concat (map (fun L => join_gen jt wl wr ok L R) parts).
Proof. exact join_probe_concat. Qed.

Theorem C07_probe_local_joins :
  map probe_local [JInner; JLeft; JSemi; JAnti; JCross; JRight; JFull] = [true; true; true; true; true; false; false].
Proof. reflexivity. Qed.

Theorem C07_right_join_batches : forall wl wr ok (L : rel) (parts : list rel),
  join_gen JRight wl wr ok L (concat parts) = concat (map (fun R => join_gen JRight wl wr ok L R) parts).
Proof. exact join_right_concat. Qed.

Theorem C07_union_all_batches : forall (A : Type) (p1 p2 : list (list A)), concat p1 ++ concat p2 = concat (p1 ++ p2).
Proof. intros A. exact (@union_all_concat A). Qed.

(* ---- the umbrella: the partition-wise evaluator (streaming operators per part, pipeline breakers gather, LIMIT =
   C25's LimitExec over the partition list) returns the answer of the whole input, for EVERY query ... ---- *)
Theorem C07_partitionwise_sound : forall Q (HU : forall L R, q_setop Q SUnion true L R = L ++ R) (pdb : list (list rel)) q,
  concat (peval Q pdb q) = qeval Q (map (@concat row) pdb) q.
Proof. exact peval_sound. Qed.

(* ... so any two splits of the same tables into batches and partitions give the same answer (as a sequence) *)
Theorem C07_split_irrelevant : forall Q (HU : forall L R, q_setop Q SUnion true L R = L ++ R) (pdb1 pdb2 : list (list rel)) q,
  map (@concat row) pdb1 = map (@concat row) pdb2 ->
  concat (peval Q pdb1 q) = concat (peval Q pdb2 q).
Proof. exact split_irrelevant. Qed.

Theorem C07_split_irrelevant_engine : forall (pdb1 pdb2 : list (list rel)) q,
  map (@concat row) pdb1 = map (@concat row) pdb2 ->
  concat (peval eng_qsem pdb1 q) = concat (peval eng_qsem pdb2 q) /\
  concat (peval sql_qsem pdb1 q) = concat (peval sql_qsem pdb2 q).
Proof. intros pdb1 pdb2 q H. split; [exact (split_irrelevant eng_qsem eng_union_all pdb1 pdb2 q H) | exact (split_irrelevant sql_qsem sql_union_all pdb1 pdb2 q H)]. Qed.

(* ---- arrival order (thread interleaving): permuted inputs give a permuted output for every bag operator ---- *)
Theorem C07_join_arrival_order : forall jt wl wr ok (L L' R R' : rel),
  Permutation L L' -> Permutation R R' -> Permutation (join_gen jt wl wr ok L R) (join_gen jt wl wr ok L' R').
Proof. exact join_gen_perm. Qed.

Theorem C07_bag_arrival_order : forall Q (HU : forall L R, q_setop Q SUnion true L R = L ++ R) (db db' : list rel) q,
  Forall2 (@Permutation row) db db' -> bag_q q = true -> Permutation (qeval Q db q) (qeval Q db' q).
Proof. exact qeval_perm. Qed.

(* DISTINCT: the same number of classes, and each class is represented on both sides *)
Theorem C07_distinct_arrival_order : forall (l l' : rel), Permutation l l' ->
  length (distinct l) = length (distinct l') /\
  forall z, length (filter (row_same z) (distinct l)) = length (filter (row_same z) (distinct l')).
Proof. exact distinct_perm. Qed.

(* GROUP BY: the same key classes (counted under every class-respecting predicate) and, for not-distinct keys, member lists
   that are permutations of each other *)
Theorem C07_group_arrival_order : forall Q (keys : list expr) (rows rows' : rel),
  Permutation rows rows' ->
  let kv := fun r => map (eval (q_esem Q) r) keys in
  (forall p, respects row_same p ->
     length (filter p (distinct (map kv rows))) = length (filter p (distinct (map kv rows')))) /\
  (forall ks ks', row_same ks ks' = true ->
     Permutation (filter (fun r => row_same (kv r) ks) rows) (filter (fun r => row_same (kv r) ks') rows')).
Proof. exact group_rows_perm. Qed.

Theorem C07_group_rows_shape : forall Q k keys aggs rows,
  group_rows Q (k :: keys) aggs rows
  = map (fun ks => out_row Q ks aggs (filter (fun r => row_same (map (eval (q_esem Q) r) (k :: keys)) ks) rows))
        (distinct (map (fun r => map (eval (q_esem Q) r) (k :: keys)) rows)).
Proof. exact group_rows_unfold. Qed.

(* order-insensitive aggregates: COUNT-star, COUNT, COUNT DISTINCT over any values; all seven over integer-or-NULL values *)
Theorem C07_aggregate_arrival_order : forall f (args args' : list value),
  Permutation args args' -> order_free f args = true ->
  agg_apply f args (length args) = agg_apply f args' (length args').
Proof. exact agg_apply_perm_any. Qed.

Theorem C07_group_row_arrival_order : forall Q ks aggs (members members' : rel),
  Permutation members members' ->
  (forall fa, In fa aggs -> order_free (fst fa) (map (fun r => eval (q_esem Q) r (snd fa)) members) = true) ->
  out_row Q ks aggs members = out_row Q ks aggs members'.
Proof. exact out_row_perm. Qed.

(* partial aggregation: any split, any merge tree, any arrival order (C21) *)
Theorem C07_partial_aggregation : forall f (parts : list (list (option Z))),
  finish f (fold_left merge (map partial parts) pempty) = agg_apply f (map inj (concat parts)) (length (concat parts)).
Proof. exact partial_aggregation_sound. Qed.

Theorem C07_any_merge_tree : forall f (t1 t2 : mtree),
  Permutation (flat t1) (flat t2) -> finish f (mstate t1) = finish f (mstate t2).
Proof. exact merge_order_irrelevant. Qed.

(* ORDER BY over a permuted input: a sorted permutation of the same rows *)
Theorem C07_sort_arrival_order : forall Q keys (rows rows' : rel),
  Permutation rows rows' ->
  let flags := map (fun k => (k_desc k, k_nulls_first k)) keys in
  let kv r := map (fun k => eval (q_esem Q) r (k_expr k)) keys in
  Permutation (sort_rows Q keys rows) (sort_rows Q keys rows') /\
  LocallySorted (fun a b => keys_cmp flags (kv a) (kv b) <> Gt) (sort_rows Q keys rows) /\
  LocallySorted (fun a b => keys_cmp flags (kv a) (kv b) <> Gt) (sort_rows Q keys rows').
Proof. exact sort_rows_perm. Qed.

(* LIMIT / OFFSET over any split (C25) *)
Theorem C07_limit_split_irrelevant : forall (A : Type) skip fetch (p1 p2 : list (list (list A))),
  concat (concat p1) = concat (concat p2) ->
  concat (limit_exec skip fetch p1) = concat (limit_exec skip fetch p2).
Proof. intros A. exact (@limit_split_irrelevant A). Qed.

(* ---- the partition contract on the operator classes ---- *)
Theorem C07_partition_contract : forall op, pwf op = true ->
  forall p, exec op p = if Nat.ltb p (declared op) then PStream else PartitionError.
Proof. exact partition_contract. Qed.

Theorem C07_declared_partitions_execute : forall op p, pwf op = true -> (p < declared op)%nat -> exec op p = PStream.
Proof. exact declared_partitions_execute. Qed.

Theorem C07_undeclared_partitions_error : forall op p, (declared op <= p)%nat -> exec op p = PartitionError.
Proof. exact undeclared_partitions_error. Qed.

Print Assumptions C07_filter_batches.
Print Assumptions C07_project_batches.
Print Assumptions C07_probe_batches.
Print Assumptions C07_probe_partitions.
Print Assumptions C07_probe_local_joins.
Print Assumptions C07_right_join_batches.
Print Assumptions C07_union_all_batches.
Print Assumptions C07_partitionwise_sound.
Print Assumptions C07_split_irrelevant.
Print Assumptions C07_split_irrelevant_engine.
Print Assumptions C07_join_arrival_order.
Print Assumptions C07_bag_arrival_order.
Print Assumptions C07_distinct_arrival_order.
Print Assumptions C07_group_arrival_order.
Print Assumptions C07_group_rows_shape.
Print Assumptions C07_aggregate_arrival_order.
Print Assumptions C07_group_row_arrival_order.
Print Assumptions C07_partial_aggregation.
Print Assumptions C07_any_merge_tree.
Print Assumptions C07_sort_arrival_order.
Print Assumptions C07_limit_split_irrelevant.
Print Assumptions C07_partition_contract.
Print Assumptions C07_declared_partitions_execute.
Print Assumptions C07_undeclared_partitions_error.
