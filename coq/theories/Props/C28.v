(* C28 — Each CTE reference yields that CTE's rows. Pins, `exact`, Print Assumptions only. *)
From QV Require Import C28.Model C28.Proofs.

(* With every WITH name defined once and different from the visible table names, the binder's statement-global map
   (insert on bind, never scoped) resolves every reference exactly like lexical scoping. *)
Theorem C28_cte_unique_names_sound : forall (E : env) (w : wq) (r : rq),
  unique_namesb E w = true -> resolve_sql E w = Some r -> binder_resolve true E w = Some r.
Proof. exact cte_unique_names_sound. Qed.

(* ... and then every name denotes one bound plan ... *)
Theorem C28_unique_coherent : forall (E : env) (w : wq) (r : rq),
  tables_only E -> unique_namesb E w = true -> resolve_sql E w = Some r ->
  forall n b1 b2, In (n, b1) (refs r) -> In (n, b2) (refs r) -> b1 = b2.
Proof. exact unique_coherent. Qed.

(* ... so the planner's cache keyed by the name (the first widest candidate executed once, every reference with that
   name reading the cached rows; an IN-subquery planned on its own re-materialising its shared names when the bound
   plan runs unoptimised) returns the rows of evaluating each reference separately. *)
Theorem C28_materialise_eq_inline : forall (Q : qsem) (db : list rel) (rowwise : bool) (r : rq),
  q_values_empty Q = false ->
  (forall n b1 b2, In (n, b1) (refs r) -> In (n, b2) (refs r) -> b1 = b2) ->
  plan_eval true rowwise Q db r = qeval Q db (inline r).
Proof. exact materialise_eq_inline. Qed.

(* the same for ANY candidate choice and ANY materialisation order (HashMap iteration, post-optimisation widths) *)
Theorem C28_mat_eq_inline_any_order : forall (Q : qsem) (db : list rel) (pick : name -> list rq -> option rq)
    (perm : option (list name)) (rowwise : bool),
  q_values_empty Q = false -> (forall n l b, pick n l = Some b -> In b l) ->
  forall r0 : rq, coherent r0 -> mat_eval Q db pick perm rowwise r0 = qeval Q db (inline r0).
Proof. exact mat_eq_inline. Qed.

(* end to end, for the engine as it stands and after either repair, against lexical scoping + inline evaluation *)
Theorem C28_cte_agree : forall (global by_name rowwise : bool) (db : list rel) (E : env) (w : wq) (r : rq),
  tables_only E -> unique_namesb E w = true -> resolve_sql E w = Some r -> known_q db (inline r) = false ->
  cte_eval_eng global by_name rowwise eng_qsem db E w = cte_eval_sql db E w.
Proof. exact cte_agree. Qed.

(* the engine as it stands (lexically scoped binder, cache per definition, /repo 78a9b54): EVERY statement, names
   re-used or not, agrees with lexical scoping + inline evaluation outside the base classes *)
Theorem C28_cte_repaired_agree : forall (rowwise : bool) (db : list rel) (E : env) (w : wq) (r : rq),
  resolve_sql E w = Some r -> known_q db (inline r) = false ->
  cte_eval_eng eng_binder_global eng_cache_by_name rowwise eng_qsem db E w = cte_eval_sql db E w.
Proof. exact cte_repaired_agree. Qed.

(* regression: with a re-used name both mechanisms failed before the repair (binder-global map: `true` as first flag;
   cache keyed by the bare name: `true` as second flag) *)
Theorem C28_shadowing_refuted :
  name_reuse E1 w_shadow = true /\
  cte_eval_sql db1 E1 w_shadow = Some [[VInt 2; VInt 1]] /\
  cte_eval_eng true true false eng_qsem db1 E1 w_shadow = Some [[VInt 2; VInt 2]] /\
  cte_eval_eng true false false eng_qsem db1 E1 w_shadow = Some [[VInt 2; VInt 2]] /\
  cte_eval_eng false false false eng_qsem db1 E1 w_shadow = Some [[VInt 2; VInt 1]].
Proof. exact shadowing_refuted. Qed.
Theorem C28_same_name_materialisation_refuted :
  name_reuse E1 w_collide = true /\
  binder_resolve true E1 w_collide = resolve_sql E1 w_collide /\
  cte_eval_sql db1 E1 w_collide = Some [[VInt 1; VInt 2]] /\
  cte_eval_eng true true false eng_qsem db1 E1 w_collide = Some [[VInt 1; VInt 1]] /\
  cte_eval_eng true true true eng_qsem db1 E1 w_collide = Some [[VInt 1; VInt 1]] /\
  cte_eval_eng true false false eng_qsem db1 E1 w_collide = Some [[VInt 1; VInt 2]].
Proof. exact same_name_materialisation_refuted. Qed.
Theorem C28_table_name_capture_refuted :
  name_reuse E1 w_capture = true /\
  cte_eval_sql db1 E1 w_capture = Some [[VInt 2; VInt 1]; [VInt 2; VInt 2]] /\
  cte_eval_eng true true false eng_qsem db1 E1 w_capture = Some [[VInt 2; VInt 2]].
Proof. exact table_name_capture_refuted. Qed.
Theorem C28_cte_name_reuse_regression :
  cte_eval_eng eng_binder_global_before_fix eng_cache_by_name_before_fix false eng_qsem db1 E1 w_shadow = Some [[VInt 2; VInt 2]] /\
  cte_eval_eng eng_binder_global_before_fix eng_cache_by_name_before_fix false eng_qsem db1 E1 w_collide = Some [[VInt 1; VInt 1]] /\
  cte_eval_eng eng_binder_global_before_fix eng_cache_by_name_before_fix false eng_qsem db1 E1 w_capture = Some [[VInt 2; VInt 2]] /\
  cte_eval_eng eng_binder_global eng_cache_by_name false eng_qsem db1 E1 w_shadow = cte_eval_sql db1 E1 w_shadow /\
  cte_eval_eng eng_binder_global eng_cache_by_name false eng_qsem db1 E1 w_collide = cte_eval_sql db1 E1 w_collide /\
  cte_eval_eng eng_binder_global eng_cache_by_name true eng_qsem db1 E1 w_capture = cte_eval_sql db1 E1 w_capture.
Proof. exact cte_name_reuse_regression. Qed.

Print Assumptions C28_cte_unique_names_sound.
Print Assumptions C28_unique_coherent.
Print Assumptions C28_materialise_eq_inline.
Print Assumptions C28_mat_eq_inline_any_order.
Print Assumptions C28_cte_agree.
Print Assumptions C28_cte_repaired_agree.
Print Assumptions C28_shadowing_refuted.
Print Assumptions C28_same_name_materialisation_refuted.
Print Assumptions C28_table_name_capture_refuted.
Print Assumptions C28_cte_name_reuse_regression.
