(* C38 — Vector distance functions compute their formulas (partial: float rounding is not bounded).
   Statement pins, `exact` proofs and Print Assumptions only. *)
From QV Require Import Base.Util C38.Model C38.Proofs.
From Coq Require Import Reals.

(* lane/chunk accumulation + remainder loop = the plain sum, every length, every lane width >= 1 *)
Theorem C38_chunked_sum_plain : forall f w a b, (1 <= w)%nat -> length a = length b ->
  chunked_sum f w a b = plain_sum f a b.
Proof. exact chunked_sum_plain. Qed.

Theorem C38_row_exact_plain : forall w a b, (1 <= w)%nat -> length a = length b ->
  row_exact w a b = mkExact (plain_sum fmul a b) (plain_sum fsqd a b) (plain_sum fmul a a) (plain_sum fmul b b)
                            (zsum (map2 (fun x y => Z.abs (x * y)) a b)).
Proof. exact row_exact_plain. Qed.

(* dimension mismatch is an error *)
Theorem C38_column_dim_mismatch : forall w col query,
  f_dim col <> length query -> distance_column w col query = None.
Proof. exact distance_column_dim_mismatch. Qed.
Theorem C38_columns_dim_mismatch : forall w l r,
  f_dim l <> f_dim r -> distance_columns w l r = None.
Proof. exact distance_columns_dim_mismatch. Qed.

(* one output per row; NULL exactly on NULL rows; other rows computed from their own dim elements *)
Theorem C38_column_rows : forall w col query res,
  distance_column w col query = Some res ->
  f_dim col = length query /\ length res = nrows col /\
  forall i, (i < nrows col)%nat ->
    nth i res None = if nth i (f_valid col) false then Some (row_exact w (row col i) query) else None.
Proof. exact distance_column_rows. Qed.
Theorem C38_columns_rows : forall w l r res,
  distance_columns w l r = Some res ->
  f_dim l = f_dim r /\ length res = Nat.min (nrows l) (nrows r) /\
  forall i, (i < Nat.min (nrows l) (nrows r))%nat ->
    nth i res None = if nth i (f_valid l) false && nth i (f_valid r) false
                     then Some (row_exact w (row l i) (row r i)) else None.
Proof. exact distance_columns_rows. Qed.

(* slicing / offsets *)
Theorem C38_slice_row : forall off n a i, (i < n)%nat -> row (fsl_slice off n a) i = row a (off + i).
Proof. exact slice_row. Qed.
Theorem C38_slice_valid : forall off n a i, (i < n)%nat ->
  nth i (f_valid (fsl_slice off n a)) false = nth (off + i) (f_valid a) false.
Proof. exact slice_valid. Qed.
Theorem C38_row_elements : forall a j k, (k < f_dim a)%nat ->
  nth k (row a j) 0 = nth (j * f_dim a + k) (f_vals a) 0.
Proof. exact row_elements. Qed.

(* real-valued reading *)
Theorem C38_cosine_distance_one_minus_similarity : forall den x,
  row_value Cosine den x = (1 - row_value CosineSim den x)%R.
Proof. exact cosine_distance_one_minus_similarity. Qed.

Theorem C38_formulas : forall w den a b, (1 <= w)%nat -> length a = length b ->
  let x := row_exact w a b in
  row_value L2 den x = sqrt (val den (zsum (map2 (fun p q => (p - q) * (p - q)) a b))) /\
  row_value Dot den x = val den (zsum (map2 Z.mul a b)) /\
  ((sqrt (val den (zsum (map2 Z.mul a a))) * sqrt (val den (zsum (map2 Z.mul b b))))%R <> 0%R ->
   row_value CosineSim den x =
     (val den (zsum (map2 Z.mul a b)) / (sqrt (val den (zsum (map2 Z.mul a a))) * sqrt (val den (zsum (map2 Z.mul b b)))))%R).
Proof. exact formulas. Qed.

(* meaning of the exact squared comparisons of the executable spec *)
Theorem C38_le_sqrt_spec : forall x P r, 0 <= P ->
  (le_sqrt x P r = true <-> (IZR x * sqrt (IZR P) <= IZR r)%R).
Proof. exact le_sqrt_spec. Qed.

Theorem C38_spec_l2_sound : forall t den L vn vd,
  0 <= L -> 0 < den -> 0 < vd -> 0 < t_d t ->
  spec_l2 t den L vn vd = true ->
  let v := (IZR vn / IZR vd)%R in let tau := (IZR (t_n t) / IZR (t_d t))%R in
  ((1 - tau) * sqrt (val den L) <= v <= (1 + tau) * sqrt (val den L))%R.
Proof. exact spec_l2_sound. Qed.

Theorem C38_spec_dot_sound : forall t den N SA vn vd,
  0 < den -> 0 < vd -> 0 < t_d t ->
  spec_dot t den N SA vn vd = true ->
  (Rabs (IZR vn / IZR vd - val den N) <= IZR (t_n t) / IZR (t_d t) * val den SA)%R.
Proof. exact spec_dot_sound. Qed.

Theorem C38_spec_cossim_sound : forall t N NA NB SA vn vd,
  0 < NA -> 0 < NB -> 0 < vd -> 0 < t_d t -> 0 < e_d t ->
  spec_cossim t N NA NB SA vn vd = true ->
  let sim := (IZR vn / IZR vd)%R in let tau := (IZR (t_n t) / IZR (t_d t))%R in
  let e := (IZR (e_n t) / IZR (e_d t))%R in let D := sqrt (IZR (NA * NB)) in
  ((sim - e) * D <= IZR N + tau * IZR SA /\ IZR N - tau * IZR SA <= (sim + e) * D)%R.
Proof. exact spec_cossim_sound. Qed.

Theorem C38_denom_units : forall den NA NB, 0 < den -> 0 <= NA -> 0 <= NB ->
  (sqrt (val den NA) * sqrt (val den NB) = sqrt (IZR (NA * NB)) / (IZR den * IZR den))%R.
Proof. exact denom_units. Qed.

Print Assumptions C38_chunked_sum_plain.
Print Assumptions C38_row_exact_plain.
Print Assumptions C38_column_dim_mismatch.
Print Assumptions C38_columns_dim_mismatch.
Print Assumptions C38_column_rows.
Print Assumptions C38_columns_rows.
Print Assumptions C38_slice_row.
Print Assumptions C38_slice_valid.
Print Assumptions C38_row_elements.
Print Assumptions C38_cosine_distance_one_minus_similarity.
Print Assumptions C38_formulas.
Print Assumptions C38_le_sqrt_spec.
Print Assumptions C38_spec_l2_sound.
Print Assumptions C38_spec_dot_sound.
Print Assumptions C38_spec_cossim_sound.
Print Assumptions C38_denom_units.
