(* C12 — Byte-balanced assignment is a deterministic partition within the LPT bound.
   This file holds only statement pins, `exact` proofs and Print Assumptions. *)
From QV Require Import Base.Util C12.Model C12.Proofs.

(* every split goes to exactly one node *)
Theorem C12_partition : forall splits nodes0,
  (forall s, In s splits -> 0 <= s_bytes s) ->
  Permutation (concat (a_per_node (assign splits nodes0))) (seq 0 (length splits)).
Proof. exact assign_partition. Qed.

(* per-node byte and row totals are the sums of what each node owns *)
Theorem C12_node_bytes : forall splits nodes0,
  (forall s, In s splits -> 0 <= s_bytes s) ->
  a_node_bytes (assign splits nodes0) = map (bytes_of splits) (a_per_node (assign splits nodes0)).
Proof. exact assign_node_bytes. Qed.

Theorem C12_node_rows : forall splits nodes0,
  (forall s, In s splits -> 0 <= s_bytes s) ->
  a_node_rows (assign splits nodes0) = map (rows_of splits) (a_per_node (assign splits nodes0)).
Proof. exact assign_node_rows. Qed.

Theorem C12_total : forall splits nodes0,
  (forall s, In s splits -> 0 <= s_bytes s) ->
  zsum (a_node_bytes (assign splits nodes0)) = total_bytes splits.
Proof. exact assign_total. Qed.

(* Graham's bound for all inputs: N*max <= total + (N-1)*pmax, hence max <= (2 - 1/N) OPT *)
Theorem C12_graham : forall splits nodes0,
  (forall s, In s splits -> 0 <= s_bytes s) ->
  Z.of_nat (Nat.max nodes0 1) * zmax_list (a_node_bytes (assign splits nodes0))
    <= total_bytes splits + (Z.of_nat (Nat.max nodes0 1) - 1) * zmax_list (map s_bytes splits).
Proof. exact assign_graham. Qed.

(* the executable spec used on the implementation's outputs is met by the model on every input *)
Theorem C12_model_meets_spec : forall splits nodes0,
  (forall s, In s splits -> 0 <= s_bytes s) ->
  spec_ok splits nodes0 (assign splits nodes0) = true.
Proof. exact model_meets_spec. Qed.

(* brute-force OPT never exceeds any schedule's makespan *)
Theorem C12_opt_lower_bound : forall nodes sizes sched,
  length sched = length sizes -> Forall (fun i => (i < nodes)%nat) sched ->
  opt nodes sizes <= zmax_list (apply_sched (repeat 0 nodes) sizes sched).
Proof. exact opt_lower_bound. Qed.

(* the 4/3 - 1/(3N) clause over ALL small instances (<= 6 splits, sizes 0..3, 1..3 nodes),
   against every schedule — the property's own quantifier for this clause *)
Theorem C12_lpt43_small : forall nodes sizes sched,
  In nodes [1; 2; 3]%nat -> (length sizes <= 6)%nat -> Forall (fun b => 0 <= b <= 3) sizes ->
  length sched = length sizes -> Forall (fun i => (i < nodes)%nat) sched ->
  3 * Z.of_nat nodes * zmax_list (a_node_bytes (assign (mk_inst sizes) nodes))
    <= (4 * Z.of_nat nodes - 1) * zmax_list (apply_sched (repeat 0 nodes) sizes sched).
Proof. exact lpt43_small. Qed.

Print Assumptions C12_partition.
Print Assumptions C12_node_bytes.
Print Assumptions C12_node_rows.
Print Assumptions C12_total.
Print Assumptions C12_graham.
Print Assumptions C12_model_meets_spec.
Print Assumptions C12_opt_lower_bound.
Print Assumptions C12_lpt43_small.
