(* C41 — Chunked metastore responses decode exactly.
   This file holds only statement pins, `exact` proofs and Print Assumptions. *)
From QV Require Import Bytes.ByteStr C41.Model C41.Proofs.

(* the hex renderer / from_str_radix(_,16) round trip, all n < 2^64 *)
Theorem C41_hex_roundtrip : forall n, 0 <= n < 2 ^ 64 -> size_line (hex n) = Some n.
Proof. exact size_line_hex. Qed.

(* any body, any chunking WITHOUT extensions, any trailer: the engine's decoder returns the body *)
Theorem C41_dechunk_encode_no_ext : forall chunks trailer,
  forallb chunk_ok chunks = true -> no_ext chunks [] = true ->
  dechunk (encode chunks [] trailer) = Ok (body_of chunks).
Proof. exact dechunk_encode_no_ext. Qed.

(* the executable spec demands the body for EVERY chunking, extensions included *)
Theorem C41_spec_demands_body : forall chunks last_ext trailer out,
  forallb chunk_ok chunks = true -> ext_ok last_ext = true ->
  spec_ok (encode chunks last_ext trailer) out = true -> out = Ok (body_of chunks).
Proof. exact spec_demands_body. Qed.

(* refuted on the faithful model: a chunk extension makes the engine reject a valid body
   (minimal witness "1;\r\nA\r\n0\r\n\r\n") ... *)
Theorem C41_extension_refuted :
  exists chunks, forallb chunk_ok chunks = true /\
    dechunk (encode chunks [] CRLF) = Reject /\
    ref_strict (encode chunks [] CRLF) = Ok (body_of chunks) /\
    spec_ok (encode chunks [] CRLF) (dechunk (encode chunks [] CRLF)) = false /\
    known_ext (encode chunks [] CRLF) = true.
Proof. exact extension_refuted. Qed.

(* ... and it does so for every encoding whose first extension sits on a chunk *)
Theorem C41_extension_always_rejected : forall pre ch post last_ext trailer,
  forallb chunk_ok pre = true -> forallb (fun c => is_nil (ch_ext c)) pre = true ->
  chunk_ok ch = true -> ch_ext ch <> [] ->
  dechunk (encode (pre ++ ch :: post) last_ext trailer) = Reject.
Proof. exact extension_always_rejected. Qed.

(* refuted: "fffffffffffffffe\r\n" panics (size + 2 overflows usize) *)
Theorem C41_huge_size_panics :
  exists input, input = hex (USIZE - 2) ++ CRLF /\ dechunk input = Panic /\
    spec_ok input (dechunk input) = false /\ known_huge input = true.
Proof. exact huge_size_panics. Qed.

(* totality: the loop always terminates; no panic unless a size line declares a size within 2 of 2^64 *)
Theorem C41_dechunk_terminates : forall b, dechunk b <> OutOfFuel.
Proof. exact dechunk_terminates. Qed.
Theorem C41_dechunk_total : forall input, known_huge input = false -> dechunk input <> Panic.
Proof. exact dechunk_total. Qed.

(* on EVERY byte string outside the two known classes the engine's answer satisfies the spec:
   well-formed bodies decoded, undecodable framing rejected *)
Theorem C41_dechunk_meets_spec_unless_known : forall input,
  known_ext input = false -> known_huge input = false -> spec_ok input (dechunk input) = true.
Proof. exact dechunk_meets_spec_unless_known. Qed.

Print Assumptions C41_hex_roundtrip.
Print Assumptions C41_dechunk_encode_no_ext.
Print Assumptions C41_spec_demands_body.
Print Assumptions C41_extension_refuted.
Print Assumptions C41_extension_always_rejected.
Print Assumptions C41_huge_size_panics.
Print Assumptions C41_dechunk_terminates.
Print Assumptions C41_dechunk_total.
Print Assumptions C41_dechunk_meets_spec_unless_known.
