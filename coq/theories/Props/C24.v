(* C24 — Set operations have SQL multiset semantics. Pins, `exact`, Print Assumptions only. *)
From QV Require Import Sql.Query C24.Proofs.

(* The engine's lowering (UNION = concat [+ distinct]; INTERSECT/EXCEPT = Semi/Anti join on all columns
   [+ distinct unless ALL]) returns exactly the reference multiset result for ALL inputs outside the two
   recorded classes: a left row containing NULL that has a not-distinct twin on the right, and the ALL
   forms as soon as the inputs overlap. *)
Theorem C24_setop_agree : forall op all (L R : rel),
  setop_null_class op L R = false -> setop_all_class op all L R = false ->
  eng_setop op all L R = sql_setop op all L R.
Proof. exact setop_agree. Qed.

(* UNION ALL keeps every copy *)
Theorem C24_union_all_count : forall x L R,
  count_row x (sql_setop SUnion true L R) = (count_row x L + count_row x R)%nat.
Proof. exact union_all_count. Qed.

(* inside the classes the deviation is real *)
Theorem C24_intersect_null_refuted :
  setop_null_class SIntersect [rN] [rN] = true /\
  sql_setop SIntersect false [rN] [rN] = [rN] /\ eng_setop SIntersect false [rN] [rN] = [].
Proof. exact intersect_null_refuted. Qed.
Theorem C24_except_null_refuted :
  setop_null_class SExcept [rN] [rN] = true /\
  sql_setop SExcept false [rN] [rN] = [] /\ eng_setop SExcept false [rN] [rN] = [rN].
Proof. exact except_null_refuted. Qed.
Theorem C24_intersect_all_multiplicity_refuted :
  setop_all_class SIntersect true [r1; r1] [r1] = true /\
  sql_setop SIntersect true [r1; r1] [r1] = [r1] /\ eng_setop SIntersect true [r1; r1] [r1] = [r1; r1].
Proof. exact intersect_all_multiplicity_refuted. Qed.
Theorem C24_except_all_multiplicity_refuted :
  setop_all_class SExcept true [r1; r1] [r1] = true /\
  sql_setop SExcept true [r1; r1] [r1] = [r1] /\ eng_setop SExcept true [r1; r1] [r1] = [].
Proof. exact except_all_multiplicity_refuted. Qed.

Print Assumptions C24_setop_agree.
Print Assumptions C24_union_all_count.
Print Assumptions C24_intersect_null_refuted.
Print Assumptions C24_except_null_refuted.
Print Assumptions C24_intersect_all_multiplicity_refuted.
Print Assumptions C24_except_all_multiplicity_refuted.
