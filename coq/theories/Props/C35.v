(* C35 — The SQL front door decides and encodes consistently.
   This file holds only statement pins, `exact` proofs and Print Assumptions.
   Model: C35/Model.v (server.rs: DistMode::parse, ResultFormat::parse, execute_statement, sql, fragment). *)
From QV Require Import C35.Model C35.Proofs.

(* the accepted spellings of `distributed=` and `format=`, their defaults and what is rejected *)
Theorem C35_mode_table : forall v,
  (http_mode_value v = Some Force <-> In v [B "1"; B "true"; B "yes"; B "force"]) /\
  (http_mode_value v = Some Off <-> In v [B "0"; B "false"; B "no"; B "local"]) /\
  (http_mode_value v = Some Auto <-> v = B "auto") /\
  (http_mode_value v = None <->
     ~ In v [B "1"; B "true"; B "yes"; B "force"] /\ ~ In v [B "0"; B "false"; B "no"; B "local"] /\ v <> B "auto").
Proof. exact http_mode_value_table. Qed.

Theorem C35_format_table : forall v,
  (format_value v = Some FArrow <-> v = B "arrow" \/ v = B "ipc") /\
  (format_value v = Some FJson <-> v = B "json") /\
  (format_value v = Some FCsv <-> v = B "csv") /\
  (format_value v = None <-> v <> B "arrow" /\ v <> B "ipc" /\ v <> B "json" /\ v <> B "csv").
Proof. exact format_value_table. Qed.

Theorem C35_mode_default : forall q,
  find_param (B "distributed") (split_on 38 q) = None -> dist_mode_parse q = Some Auto.
Proof. exact dist_mode_default. Qed.

Theorem C35_format_default : forall q,
  find_param (B "format") (split_on 38 q) = None -> result_format_parse q = Some FArrow.
Proof. exact result_format_default. Qed.

(* the default applies exactly when no pair has the key; pairs without '=' never count *)
Theorem C35_param_absent : forall key pairs,
  find_param key pairs = None <->
  forall p k v, In p pairs -> split_once 61 p = Some (k, v) -> k <> key.
Proof. exact find_param_none. Qed.

(* a node that has not loaded its tables never answers /sql, and says 503 as soon as the parameters parse *)
Theorem C35_not_ready_never_answers : forall rq e,
  e_load e <> Loaded -> is_rows (sql_handler rq e) = false.
Proof. exact not_ready_never_answers. Qed.

Theorem C35_not_ready_503 : forall rq e f m,
  result_format_parse (r_query rq) = Some f -> dist_mode_parse (r_query rq) = Some m ->
  e_load e <> Loaded ->
  sql_handler rq e = Resp503 (match e_load e with LoadFailed => true | _ => false end).
Proof. exact not_ready_503. Qed.

Theorem C35_fragment_not_ready_503 : forall e n p,
  e_load e <> Loaded ->
  fragment_handler e n p = Frag503 (match e_load e with LoadFailed => true | _ => false end).
Proof. exact fragment_not_ready_503. Qed.

Theorem C35_fragment_runs_only_when_loaded : forall e n p,
  fragment_handler e n p = FragRuns -> e_load e = Loaded.
Proof. exact fragment_runs_only_when_loaded. Qed.

(* auto distributes iff at least two members are up and the shape is exactly mergeable *)
Theorem C35_auto_distributes_iff : forall e,
  fst (decide Auto e) = true <-> 2 <= e_members_up e /\ e_plannable e = true.
Proof. exact auto_distributes_iff. Qed.

Theorem C35_auto_distributed_answer : forall rq e f w,
  dist_mode_parse (r_query rq) = Some Auto -> sql_handler rq e = RespRows f true w ->
  2 <= e_members_up e /\ e_plannable e = true /\ w = None /\ e_dist e = RunOk.
Proof. exact auto_distributed_answer_iff. Qed.

(* ... and otherwise answers locally with the reason that applies *)
Theorem C35_auto_local_answer_has_reason : forall rq e f w,
  dist_mode_parse (r_query rq) = Some Auto -> sql_handler rq e = RespRows f false w ->
  (w = Some ROneMember /\ e_members_up e < 2) \/
  (w = Some RUnplannable /\ 2 <= e_members_up e /\ e_plannable e = false).
Proof. exact auto_local_answer_has_reason. Qed.

Theorem C35_local_answer_has_reason : forall rq e f w,
  sql_handler rq e = RespRows f false w -> w <> None.
Proof. exact local_answer_has_reason. Qed.

Theorem C35_force_never_answers_locally : forall rq e f w,
  dist_mode_parse (r_query rq) = Some Force -> sql_handler rq e <> RespRows f false w.
Proof. exact force_never_answers_locally. Qed.

Theorem C35_local_never_distributes : forall rq e f w,
  dist_mode_parse (r_query rq) = Some Off -> sql_handler rq e <> RespRows f true w.
Proof. exact local_never_distributes. Qed.

(* no local answer after a distributed execution failure: once distribution is chosen, a failed distributed run
   is an error response whatever the local engine would have produced *)
Theorem C35_no_fallback_after_failure : forall rq e f m,
  result_format_parse (r_query rq) = Some f -> dist_mode_parse (r_query rq) = Some m ->
  e_load e = Loaded ->
  (r_body_len rq <= MAX_SQL_BODY_BYTES /\ r_body_utf8 rq = true /\ r_body_blank rq = false) ->
  fst (decide m e) = true -> e_dist e <> RunOk ->
  is_rows (sql_handler rq e) = false /\
  (forall k, e_dist e = RunErr k -> sql_handler rq e = RespErr (err_status k) true) /\
  (e_dist e = RunTaskFailed -> sql_handler rq e = RespErr 500 false).
Proof. exact no_fallback_after_failure. Qed.

Theorem C35_distributed_choice_ignores_local : forall rq e x,
  (forall m, dist_mode_parse (r_query rq) = Some m -> fst (decide m e) = true) ->
  sql_handler rq (mkEnv (e_load e) (e_members_up e) (e_plannable e) x (e_dist e)) = sql_handler rq e.
Proof. exact distributed_choice_ignores_local. Qed.

(* every 200 answer, read back: which decision and which run produced it *)
Theorem C35_rows_response_inversion : forall rq e f d w,
  sql_handler rq e = RespRows f d w ->
  e_load e = Loaded /\ result_format_parse (r_query rq) = Some f /\
  exists m, dist_mode_parse (r_query rq) = Some m /\ decide m e = (d, w) /\
            (if d then e_dist e else e_local e) = RunOk.
Proof. exact rows_response_inversion. Qed.

(* "... and otherwise answers locally with a reason": when the answer is the local engine's to give and it has one,
   the response is that answer.  members_up counts members last seen Up only: a peer that discovery has listed but
   no probe has reached yet (Unknown) does not make a second member *)
Theorem C35_local_when_not_distributable : forall rq e m,
  dist_mode_parse (r_query rq) = Some m -> e_load e = Loaded -> request_valid rq = true ->
  should_be_local m e = true -> e_local e = RunOk ->
  exists f r, sql_handler rq e = RespRows f false (Some r).
Proof. exact local_when_not_distributable. Qed.

Theorem C35_auto_one_member_answers_locally : forall rq e,
  dist_mode_parse (r_query rq) = Some Auto -> e_load e = Loaded -> request_valid rq = true ->
  e_members_up e < 2 -> e_local e = RunOk ->
  exists f, sql_handler rq e = RespRows f false (Some ROneMember).
Proof. exact auto_one_member_answers_locally. Qed.

(* the executable spec applied to the implementation's responses is met by the model on every input *)
Theorem C35_model_meets_spec : forall rq e m,
  dist_mode_parse (r_query rq) = Some m -> spec_ok m e (request_valid rq) (sql_handler rq e) true = true.
Proof. exact model_meets_spec. Qed.

(* query-string quirks pinned on concrete strings *)
Theorem C35_parse_examples :
  forallb (fun x => match x with (q, m, f) =>
     mode_opt_eqb (dist_mode_parse q) m && format_opt_eqb (result_format_parse q) f end) parse_examples = true.
Proof. exact parse_examples_ok. Qed.

(* the lossy text encodings are confined to result shapes decided by format + shape; Arrow is never among them *)
Theorem C35_arrow_encoding_never_known : forall s, known_encoding FArrow s = 0.
Proof. exact arrow_encoding_never_known. Qed.

Theorem C35_plain_result_never_known : forall f, known_encoding f (mkShape false false false) = 0.
Proof. exact plain_result_never_known. Qed.

Print Assumptions C35_mode_table.
Print Assumptions C35_format_table.
Print Assumptions C35_mode_default.
Print Assumptions C35_format_default.
Print Assumptions C35_param_absent.
Print Assumptions C35_not_ready_never_answers.
Print Assumptions C35_not_ready_503.
Print Assumptions C35_fragment_not_ready_503.
Print Assumptions C35_fragment_runs_only_when_loaded.
Print Assumptions C35_auto_distributes_iff.
Print Assumptions C35_auto_distributed_answer.
Print Assumptions C35_auto_local_answer_has_reason.
Print Assumptions C35_local_answer_has_reason.
Print Assumptions C35_force_never_answers_locally.
Print Assumptions C35_local_never_distributes.
Print Assumptions C35_no_fallback_after_failure.
Print Assumptions C35_distributed_choice_ignores_local.
Print Assumptions C35_rows_response_inversion.
Print Assumptions C35_local_when_not_distributable.
Print Assumptions C35_auto_one_member_answers_locally.
Print Assumptions C35_model_meets_spec.
Print Assumptions C35_parse_examples.
Print Assumptions C35_arrow_encoding_never_known.
Print Assumptions C35_plain_result_never_known.
