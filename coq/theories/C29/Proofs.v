(* C29 proofs.  Unbounded statements about the modelled logic cores (see Model.v):
   1. the nesting guard computes the maximum over all prefixes of the (saturating) open-minus-close balance under its own
      lexical rules; a statement that passes has no prefix nested deeper than 47;
   2. the integer kernels return the mathematical result when it is representable and an error otherwise — never a
      panic; the constant folder agrees with them outside one class, where it panics (refuted + class);
   3. date32_to_naive: no intermediate leaves its integer type, the result is None or the proleptic Gregorian date, and it
      is Some exactly on chrono's range; EXTRACT / DATE_TRUNC / DATE_ADD consequences;
   4. the join-reorder size score stays inside i32 for every usize row count.
   What is NOT proved (assumption, validated by the search part of checks/C29.py only): that sqlparser's own recursion
   stays below its limit when the textual depth is <= 47, and everything else in the 100k lines. *)
From QV Require Import Base.Util C29.Model.
Local Open Scope Z_scope.

(* =====================================================================================================
   1. nesting guard
   ===================================================================================================== *)
Lemma max0_nonneg l : 0 <= max0 l.
Proof. induction l as [|a l IH]; cbn [max0 fold_right]; [lia|]. fold (max0 l). lia. Qed.
Lemma max0_cons a l : max0 (a :: l) = Z.max a (max0 l).
Proof. reflexivity. Qed.
Lemma max0_in l : max0 l = 0 \/ In (max0 l) l.
Proof.
  induction l as [|a l IH]; [now left|]. rewrite max0_cons.
  destruct (Z.max_spec a (max0 l)) as [[H E]|[H E]]; rewrite E.
  - destruct IH as [IH|IH]; [now left|right; now right].
  - right; now left.
Qed.
Lemma max0_ge l x : In x l -> x <= max0 l.
Proof.
  induction l as [|a l IH]; [intros []|]. rewrite max0_cons. intros [->|H]; [lia|]. specialize (IH H). lia.
Qed.

Lemma lex_delta_indep m c r1 r2 : lex_delta m c r1 = lex_delta m c r2.
Proof.
  destruct m; cbn [lex_delta]; try reflexivity.
  destruct (is_quote c); [reflexivity|].
  destruct (c =? DASH) eqn:E; cbn [andb]; [|reflexivity].
  apply Z.eqb_eq in E. subst c. destruct (next_is_dash r1), (next_is_dash r2); reflexivity.
Qed.
Lemma bal_step_nonneg b d : 0 <= bal_step b d.
Proof. unfold bal_step. lia. Qed.

(* the scanner = the maximum of the trajectory *)
Lemma scan_spec : forall s m depth best, 0 <= depth <= best ->
  scan m depth best s = Z.max best (max0 (traj_from depth (deltas_from m s))).
Proof.
  induction s as [|c r IH]; intros m depth best H.
  - cbn. lia.
  - cbn [scan deltas_from traj_from]. rewrite max0_cons.
    destruct m as [|q|].
    + cbn [lex_delta lex_step].
      destruct (is_quote c).
      { rewrite IH by lia. unfold bal_step. replace (Z.max 0 (depth + 0)) with depth by lia. lia. }
      destruct ((c =? DASH) && next_is_dash r).
      { rewrite IH by lia. unfold bal_step. replace (Z.max 0 (depth + 0)) with depth by lia. lia. }
      destruct (c =? LP).
      { rewrite IH by lia. unfold bal_step. replace (Z.max 0 (depth + 1)) with (depth + 1) by lia. lia. }
      destruct (c =? RP).
      { assert (sat_dec depth = Z.max 0 (depth + -1)) as E by (unfold sat_dec; destruct (Z.leb_spec depth 0); lia).
        rewrite IH by (rewrite E; lia). unfold bal_step. rewrite E. lia. }
      rewrite IH by lia. unfold bal_step. replace (Z.max 0 (depth + 0)) with depth by lia. lia.
    + cbn [lex_delta lex_step]. rewrite IH by lia. unfold bal_step. replace (Z.max 0 (depth + 0)) with depth by lia. lia.
    + cbn [lex_delta lex_step]. rewrite IH by lia. unfold bal_step. replace (Z.max 0 (depth + 0)) with depth by lia. lia.
Qed.

Theorem paren_depth_is_max_of_trajectory s : paren_depth s = max0 (traj s).
Proof. unfold paren_depth, traj, deltas. rewrite scan_spec by lia. pose proof (max0_nonneg (traj_from 0 (deltas_from MNormal s))). lia. Qed.

(* prefixes: the classification of a prefix is the prefix of the classification *)
Lemma deltas_from_length m s : length (deltas_from m s) = length s.
Proof. revert m; induction s as [|c r IH]; intro m; cbn [deltas_from length]; [reflexivity|]. now rewrite IH. Qed.
Lemma deltas_from_prefix : forall p q m, deltas_from m p = firstn (length p) (deltas_from m (p ++ q)).
Proof.
  induction p as [|c p IH]; intros q m; [reflexivity|].
  cbn [app deltas_from length firstn]. rewrite (lex_delta_indep m c p (p ++ q)). f_equal.
  destruct p as [|c' p'].
  - reflexivity.
  - assert (lex_step m c ((c' :: p') ++ q) = lex_step m c (c' :: p')) as E by (destruct m; reflexivity).
    rewrite E. apply IH.
Qed.

Lemma fold_firstn_le : forall ds b k, 0 <= b ->
  fold_left bal_step (firstn k ds) b <= Z.max b (max0 (traj_from b ds)).
Proof.
  induction ds as [|d r IH]; intros b k Hb.
  - rewrite firstn_nil. cbn. lia.
  - destruct k as [|k]; [cbn [firstn fold_left]; lia|].
    cbn [firstn fold_left traj_from]. rewrite max0_cons.
    specialize (IH (bal_step b d) k (bal_step_nonneg b d)). lia.
Qed.
Lemma traj_in : forall ds b x, In x (traj_from b ds) ->
  exists k, (k <= length ds)%nat /\ x = fold_left bal_step (firstn k ds) b.
Proof.
  induction ds as [|d r IH]; intros b x H; [destruct H|].
  cbn [traj_from] in H. destruct H as [<-|H].
  - exists 1%nat. cbn [length firstn fold_left]. split; [lia|reflexivity].
  - destruct (IH _ _ H) as [k [Hk E]]. exists (S k). cbn [length firstn fold_left]. split; [lia|exact E].
Qed.

(* every prefix's balance is at most the scanner's result ... *)
Theorem prefix_balance_le_depth p q : balance p <= paren_depth (p ++ q).
Proof.
  rewrite paren_depth_is_max_of_trajectory. unfold balance, traj, deltas.
  rewrite (deltas_from_prefix p q MNormal).
  pose proof (fold_firstn_le (deltas_from MNormal (p ++ q)) 0 (length p) ltac:(lia)) as H.
  pose proof (max0_nonneg (traj_from 0 (deltas_from MNormal (p ++ q)))). lia.
Qed.
(* ... and some prefix attains it: the result is the maximum over all prefixes *)
Theorem depth_attained s : exists p q, s = p ++ q /\ balance p = paren_depth s.
Proof.
  rewrite paren_depth_is_max_of_trajectory.
  destruct (max0_in (traj s)) as [E|E].
  - exists [], s. split; [reflexivity|]. rewrite E. reflexivity.
  - unfold traj in E. destruct (traj_in _ _ _ E) as [k [Hk Ek]].
    unfold deltas in Hk. rewrite deltas_from_length in Hk.
    exists (firstn k s), (skipn k s). split; [symmetry; apply firstn_skipn|].
    unfold balance, deltas. rewrite (deltas_from_prefix (firstn k s) (skipn k s) MNormal).
    rewrite firstn_skipn, firstn_length, Nat.min_l by exact Hk. unfold traj, deltas in Ek |- *. now rewrite <- Ek.
Qed.

(* the guard: a statement that passes has no prefix nested deeper than 47 *)
Theorem check_nesting_sound s : check_nesting s = true ->
  forall p q, s = p ++ q -> balance p <= MAX_PAREN_DEPTH.
Proof.
  unfold check_nesting. intros H p q ->. apply negb_true_iff, Z.ltb_ge in H.
  pose proof (prefix_balance_le_depth p q). lia.
Qed.
(* and it rejects exactly when some prefix is nested deeper *)
Theorem check_nesting_complete s : check_nesting s = false ->
  exists p q, s = p ++ q /\ MAX_PAREN_DEPTH < balance p.
Proof.
  unfold check_nesting. intro H. apply negb_false_iff, Z.ltb_lt in H.
  destruct (depth_attained s) as [p [q [E B]]]. exists p, q. split; [exact E|lia].
Qed.
(* the executable spec used on the implementation's answers is met by the model *)
Theorem guard_model_meets_spec s : spec_guard s (negb (check_nesting s)) = true.
Proof.
  unfold spec_guard, check_nesting. rewrite <- paren_depth_is_max_of_trajectory, negb_involutive.
  destruct (MAX_PAREN_DEPTH <? paren_depth s); reflexivity.
Qed.

(* usize counters: bounded by the number of code points read, so no wrap for any string that fits in memory *)
Lemma scan_le_length : forall s m depth best, 0 <= depth ->
  scan m depth best s <= Z.max best (depth + Z.of_nat (length s)).
Proof.
  induction s as [|c r IH]; intros m depth best H; [cbn; lia|].
  cbn [scan]. replace (Z.of_nat (length (c :: r))) with (Z.of_nat (length r) + 1) by (cbn [length]; lia).
  destruct m as [|q|].
  - destruct (is_quote c); [specialize (IH (MQuote c) depth best H); lia|].
    destruct ((c =? DASH) && next_is_dash r); [specialize (IH MComment depth best H); lia|].
    destruct (c =? LP); [specialize (IH MNormal (depth + 1) (Z.max best (depth + 1)) ltac:(lia)); lia|].
    destruct (c =? RP).
    + assert (0 <= sat_dec depth <= depth) as S by (unfold sat_dec; destruct (Z.leb_spec depth 0); lia).
      specialize (IH MNormal (sat_dec depth) best ltac:(lia)). lia.
    + specialize (IH MNormal depth best H). lia.
  - specialize (IH (if c =? q then MNormal else MQuote q) depth best H). lia.
  - specialize (IH (if c =? NL then MNormal else MComment) depth best H). lia.
Qed.
Theorem depth_le_length s : 0 <= paren_depth s <= Z.of_nat (length s).
Proof.
  split; [rewrite paren_depth_is_max_of_trajectory; apply max0_nonneg|].
  unfold paren_depth. pose proof (scan_le_length s MNormal 0 0 ltac:(lia)). lia.
Qed.

(* ---- strings without quotes and dashes: the classic notion ---- *)
Lemma deltas_plain s : no_lexical s = true -> deltas s = map plain_delta s.
Proof.
  unfold deltas. induction s as [|c r IH]; intro H; [reflexivity|].
  cbn [no_lexical forallb] in H. apply andb_true_iff in H as [Hc Hr]. apply andb_true_iff in Hc as [Hq Hd].
  apply negb_true_iff in Hq, Hd.
  cbn [deltas_from map lex_delta lex_step]. rewrite Hq, Hd. cbn [andb]. fold (plain_delta c). f_equal. apply IH, Hr.
Qed.
Lemma traj_ge_sums : forall ds b b', b <= b' -> max0 (sums_from b ds) <= max0 (traj_from b' ds).
Proof.
  induction ds as [|d r IH]; intros b b' H; [cbn; lia|].
  cbn [sums_from traj_from]. rewrite !max0_cons.
  assert (b + d <= bal_step b' d) as H' by (unfold bal_step; lia). specialize (IH _ _ H'). lia.
Qed.
Lemma traj_eq_sums : forall ds b, 0 <= b -> Forall (fun x => 0 <= x) (sums_from b ds) -> traj_from b ds = sums_from b ds.
Proof.
  induction ds as [|d r IH]; intros b Hb H; [reflexivity|].
  cbn [sums_from traj_from] in *. inversion H as [|x l Hx Hl]; subst.
  assert (bal_step b d = b + d) as E by (unfold bal_step; lia). rewrite E. f_equal. apply IH; assumption.
Qed.
(* the guard never under-estimates the classic nesting depth (unmatched `)` are forgotten, not counted negatively) *)
Theorem classic_le_paren_depth s : no_lexical s = true -> classic_depth s <= paren_depth s.
Proof.
  intro H. rewrite paren_depth_is_max_of_trajectory. unfold traj, classic_depth. rewrite (deltas_plain s H).
  apply traj_ge_sums. lia.
Qed.
(* and it IS the classic maximum nesting when no prefix closes more than it opened *)
Theorem paren_depth_classic s : no_lexical s = true ->
  Forall (fun x => 0 <= x) (sums_from 0 (map plain_delta s)) -> paren_depth s = classic_depth s.
Proof.
  intros H F. rewrite paren_depth_is_max_of_trajectory. unfold traj, classic_depth. rewrite (deltas_plain s H).
  now rewrite traj_eq_sums by (lia || assumption).
Qed.
Example guard_examples :
  (* "((a)')('))" : the quoted parenthesis is skipped *)
  paren_depth [40; 40; 97; 41; 39; 41; 40; 39; 41; 41] = 2 /\
  (* "(--(\n(" : the comment hides one *)
  paren_depth [40; 45; 45; 40; 10; 40] = 2 /\
  (* ")(" : saturation — scanner 1, classic balance 0 *)
  paren_depth [41; 40] = 1 /\ classic_depth [41; 40] = 0 /\
  check_nesting (repeat 40 47 ++ repeat 41 47) = true /\ check_nesting (repeat 40 48) = false /\
  no_lexical [40; 40; 41; 41] = true /\ Forall (fun x => 0 <= x) (sums_from 0 (map plain_delta [40; 40; 41; 41])).
Proof. repeat split; try (vm_compute; reflexivity). cbn. repeat constructor; lia. Qed.

(* =====================================================================================================
   2. integer kernels
   ===================================================================================================== *)
Section Width.
  Variable bits : Z.
  Hypothesis Hbits : 1 <= bits.
  Let P := 2 ^ (bits - 1).
  Lemma P_pos : 0 < P.
  Proof. unfold P. apply Z.pow_pos_nonneg; lia. Qed.
  Lemma in_range_iff z : in_range bits z = true <-> - P <= z <= P - 1.
  Proof. unfold in_range, imin, imax. fold P. rewrite andb_true_iff, !Z.leb_le. reflexivity. Qed.
  Lemma in_range_false_iff z : in_range bits z = false <-> (z < - P \/ P - 1 < z).
  Proof.
    unfold in_range, imin, imax. fold P. rewrite andb_false_iff, !Z.leb_gt. reflexivity.
  Qed.

  Lemma quot_abs_le x y : y <> 0 -> Z.abs (Z.quot x y) * Z.abs y <= Z.abs x.
  Proof.
    intro Hy. rewrite <- Z.quot_abs by exact Hy.
    rewrite Z.quot_div_nonneg by lia.
    pose proof (Z.mul_div_le (Z.abs x) (Z.abs y) ltac:(lia)). lia.
  Qed.
  Lemma quot_in_range x y : in_range bits x = true -> in_range bits y = true -> y <> 0 ->
    in_range bits (Z.quot x y) = negb ((x =? imin bits) && (y =? -1)).
  Proof.
    intros Hx Hy Hy0. apply in_range_iff in Hx, Hy. pose proof P_pos as HP.
    assert (imin bits = - P) as Em by reflexivity. rewrite Em.
    destruct (Z.eq_dec y (-1)) as [->|Hm1].
    - assert (Z.quot x (-1) = - x) as Q
        by (change (-1) with (Z.opp 1); rewrite Z.quot_opp_r, Z.quot_1_r by lia; reflexivity).
      rewrite Q, Z.eqb_refl, andb_true_r.
      destruct (x =? - P) eqn:E; cbn [negb].
      + apply Z.eqb_eq in E. subst x. apply in_range_false_iff. lia.
      + apply Z.eqb_neq in E. apply in_range_iff. lia.
    - replace (y =? -1) with false by (symmetry; apply Z.eqb_neq; exact Hm1). rewrite andb_false_r. cbn [negb].
      apply in_range_iff.
      destruct (Z.eq_dec y 1) as [->|H1]; [rewrite Z.quot_1_r; lia|].
      pose proof (quot_abs_le x y Hy0) as Q. assert (2 <= Z.abs y) by lia.
      assert (2 * Z.abs (Z.quot x y) <= Z.abs x) by nia. lia.
  Qed.
  Lemma rem_in_range x y : in_range bits y = true -> y <> 0 -> in_range bits (Z.rem x y) = true.
  Proof.
    intros Hy Hy0. apply in_range_iff in Hy. apply in_range_iff.
    pose proof (Z.rem_bound_abs x y Hy0). lia.
  Qed.

  (* the kernels, characterised by the mathematical result and the range test *)
  Theorem k_op_spec op x y : 0 <= op <= 6 -> in_range bits x = true -> in_range bits y = true ->
    k_op op bits x y = match math_op op x y with
                       | None => OErr
                       | Some r => if in_range bits r then OVal r else OErr
                       end.
  Proof.
    intros Hop Hx Hy. unfold k_op, math_op.
    destruct (op =? 0); [reflexivity|]. destruct (op =? 1); [reflexivity|]. destruct (op =? 2); [reflexivity|].
    destruct (op =? 3).
    { unfold k_div. destruct (y =? 0) eqn:E0; [reflexivity|]. apply Z.eqb_neq in E0.
      rewrite (quot_in_range x y Hx Hy E0). destruct ((x =? imin bits) && (y =? -1)); reflexivity. }
    destruct (op =? 4).
    { unfold k_rem. destruct (y =? 0) eqn:E0; [reflexivity|]. apply Z.eqb_neq in E0.
      rewrite (rem_in_range x y Hy E0).
      destruct (y =? -1) eqn:E1; [|reflexivity]. apply Z.eqb_eq in E1. subst y.
      pose proof (Z.rem_bound_abs x (-1) ltac:(lia)). f_equal. lia. }
    pose proof P_pos as HP. apply in_range_iff in Hx.
    destruct (op =? 5).
    { unfold k_neg. assert (imin bits = - P) as Em by reflexivity. rewrite Em.
      destruct (x =? - P) eqn:E.
      - apply Z.eqb_eq in E. subst x. replace (in_range bits (- - P)) with false; [reflexivity|].
        symmetry. apply in_range_false_iff. lia.
      - apply Z.eqb_neq in E. replace (in_range bits (- x)) with true; [reflexivity|].
        symmetry. apply in_range_iff. lia. }
    unfold k_abs. assert (imin bits = - P) as Em by reflexivity. rewrite Em.
    destruct (x =? - P) eqn:E.
    - apply Z.eqb_eq in E. subst x. replace (in_range bits (Z.abs (- P))) with false; [reflexivity|].
      symmetry. apply in_range_false_iff. lia.
    - apply Z.eqb_neq in E. replace (in_range bits (Z.abs x)) with true; [reflexivity|].
      symmetry. apply in_range_iff. lia.
  Qed.

  (* a value is in range and is the mathematical result *)
  Corollary k_op_value op x y v : 0 <= op <= 6 -> in_range bits x = true -> in_range bits y = true ->
    k_op op bits x y = OVal v -> in_range bits v = true /\ math_op op x y = Some v.
  Proof.
    intros Hop Hx Hy. rewrite (k_op_spec op x y Hop Hx Hy).
    destruct (math_op op x y) as [r|]; [|discriminate].
    destruct (in_range bits r) eqn:E; [|discriminate]. intro H. injection H as <-. now split.
  Qed.
  (* an error exactly when the divisor is 0 or the mathematical result is not representable *)
  Corollary k_op_error_iff op x y : 0 <= op <= 6 -> in_range bits x = true -> in_range bits y = true ->
    (k_op op bits x y = OErr <->
     (math_op op x y = None \/ exists r, math_op op x y = Some r /\ in_range bits r = false)).
  Proof.
    intros Hop Hx Hy. rewrite (k_op_spec op x y Hop Hx Hy).
    destruct (math_op op x y) as [r|].
    - destruct (in_range bits r) eqn:E; split.
      + discriminate.
      + intros [H|[r' [H1 H2]]]; [discriminate|]. injection H1 as <-. congruence.
      + intros _. right. exists r. now split.
      + reflexivity.
    - split; [now left|reflexivity].
  Qed.
  (* never anything else: no panic, no NULL from non-NULL operands *)
  Corollary k_op_total op x y : 0 <= op <= 6 -> in_range bits x = true -> in_range bits y = true ->
    k_op op bits x y = OErr \/ exists v, k_op op bits x y = OVal v.
  Proof.
    intros Hop Hx Hy. rewrite (k_op_spec op x y Hop Hx Hy).
    destruct (math_op op x y) as [r|]; [|now left]. destruct (in_range bits r); [right; now exists r|now left].
  Qed.
  Corollary int_model_meets_spec op x y : 0 <= op <= 6 -> in_range bits x = true -> in_range bits y = true ->
    spec_int op x y (k_op op bits x y) = true.
  Proof.
    intros Hop Hx Hy. rewrite (k_op_spec op x y Hop Hx Hy). unfold spec_int.
    destruct (math_op op x y) as [r|] eqn:E; [|reflexivity].
    destruct (in_range bits r); [|reflexivity]. apply Z.eqb_refl.
  Qed.
End Width.

(* the division convention of `/` and `%` (Z.quot / Z.rem): truncation toward zero, remainder takes the dividend's sign *)
Theorem trunc_convention x y : y <> 0 ->
  x = y * Z.quot x y + Z.rem x y /\ Z.abs (Z.rem x y) < Z.abs y /\
  (0 <= x -> 0 <= Z.rem x y) /\ (x <= 0 -> Z.rem x y <= 0).
Proof.
  intro Hy. repeat split.
  - apply Z.quot_rem'.
  - apply Z.rem_bound_abs, Hy.
  - intro H. apply Z.rem_nonneg; assumption.
  - intro H. apply Z.rem_nonpos; assumption.
Qed.
Example int_examples :
  k_op 3 64 (-7) 2 = OVal (-3) /\ k_op 4 64 (-7) 2 = OVal (-1) /\ k_op 3 64 7 (-2) = OVal (-3) /\ k_op 4 64 7 (-2) = OVal 1 /\
  k_op 3 64 (imin 64) (-1) = OErr /\ k_op 4 64 (imin 64) (-1) = OVal 0 /\ k_op 3 32 (imin 32) (-1) = OErr /\
  k_op 0 64 (imax 64) 1 = OErr /\ k_op 0 32 (imax 32) 1 = OErr /\ k_op 2 32 65536 32768 = OErr /\ k_op 2 32 65536 (-32768) = OVal (imin 32) /\
  k_op 5 64 (imin 64) 0 = OErr /\ k_op 6 64 (imin 64) 0 = OErr /\ k_op 6 32 (imin 32) 0 = OErr /\ k_op 6 64 (-5) 0 = OVal 5 /\
  k_op 3 64 5 0 = OErr /\ k_op 4 64 5 0 = OErr.
Proof. vm_compute. repeat split; reflexivity. Qed.

(* ---- the constant folder (as repaired by c308f13) ---- *)
(* a literal expression has exactly the outcome of the run-time kernel, for all operands: the folder never panics and
   never changes an answer *)
Theorem fold_agrees op x y : 0 <= op <= 6 -> in_range 64 x = true -> in_range 64 y = true ->
  lit_op op x y = k_op op 64 x y.
Proof.
  intros Hop Hx Hy. unfold lit_op, lit_with, f_op, k_op.
  destruct (op =? 0). { unfold k_add. destruct (in_range 64 (x + y)); reflexivity. }
  destruct (op =? 1). { unfold k_sub. destruct (in_range 64 (x - y)); reflexivity. }
  destruct (op =? 2). { unfold k_mul. destruct (in_range 64 (x * y)); reflexivity. }
  destruct (op =? 3).
  { unfold k_div. destruct (y =? 0); cbn [orb]; [reflexivity|]. destruct ((x =? imin 64) && (y =? -1)); reflexivity. }
  destruct (op =? 4). { unfold k_rem. destruct (y =? 0); reflexivity. }
  reflexivity.
Qed.
Corollary lit_no_panic op x y : 0 <= op <= 6 -> in_range 64 x = true -> in_range 64 y = true ->
  spec_int op x y (lit_op op x y) = true.
Proof.
  intros Hop Hx Hy. rewrite (fold_agrees op x y Hop Hx Hy). apply int_model_meets_spec; (lia || assumption).
Qed.
(* regression witness: before c308f13 the folder's `/` and `%` panicked on MIN and -1 (in every build profile) *)
Theorem fold_min_div_before_fix :
  in_range 64 (imin 64) = true /\ in_range 64 (-1) = true /\
  lit_op_before_fix 3 (imin 64) (-1) = OPanic /\ lit_op_before_fix 4 (imin 64) (-1) = OPanic /\
  lit_op 3 (imin 64) (-1) = OErr /\ lit_op 4 (imin 64) (-1) = OVal 0.
Proof. vm_compute. repeat split; reflexivity. Qed.

(* =====================================================================================================
   3. date32_to_naive, chrono's from_num_days_from_ce_opt, EXTRACT / DATE_TRUNC / DATE_ADD
   ===================================================================================================== *)
(* ---- civil date <-> day number: the round trip for ALL integers (one 400-year era checked exhaustively by
   vm_compute, lifted by periodicity).  Same lemmas and proofs as in coq/theories/C36/Proofs.v. ---- *)
(* exhaustive check of f on [lo, lo + 2^depth) by binary splitting *)
Fixpoint all_in (depth : nat) (lo : Z) (f : Z -> bool) : bool :=
  match depth with
  | O => f lo
  | S d => all_in d lo f && all_in d (lo + 2 ^ Z.of_nat d) f
  end.
Lemma all_in_spec f : forall depth lo, all_in depth lo f = true ->
  forall z, lo <= z < lo + 2 ^ Z.of_nat depth -> f z = true.
Proof.
  induction depth as [|d IH]; intros lo H z Hz.
  - cbn [all_in] in H. change (2 ^ Z.of_nat 0) with 1 in Hz. now replace z with lo by lia.
  - cbn [all_in] in H. apply andb_true_iff in H as [H1 H2].
    replace (Z.of_nat (S d)) with (Z.succ (Z.of_nat d)) in Hz by lia. rewrite Z.pow_succ_r in Hz by lia.
    destruct (Z.lt_ge_cases z (lo + 2 ^ Z.of_nat d)); [apply (IH lo H1); lia|apply (IH _ H2); lia].
Qed.

(* one 400-year era: days-of-era 0 .. 146096 *)
Definition era_ok (doe : Z) : bool :=
  (146097 <=? doe) ||
  (let '(y, m, d) := civil_from_days (doe - 719468) in
   (days_from_civil y m d =? doe - 719468) && valid_ymd y m d && (0 <=? y) && (y <=? 400)).
Lemma era_checked : forall doe, 0 <= doe < 146097 -> era_ok doe = true.
Proof.
  assert (all_in 18 0 era_ok = true) as H by (vm_compute; reflexivity).
  intros doe Hd. apply (all_in_spec era_ok 18 0 H). change (2 ^ Z.of_nat 18) with 262144. lia.
Qed.

Lemma leap_shift y e : is_leap (y + e * 400) = is_leap y.
Proof.
  unfold is_leap.
  replace ((y + e * 400) mod 4) with (y mod 4) by (replace (y + e * 400) with (y + (e * 100) * 4) by lia; now rewrite Z_mod_plus_full).
  replace ((y + e * 400) mod 100) with (y mod 100) by (replace (y + e * 400) with (y + (e * 4) * 100) by lia; now rewrite Z_mod_plus_full).
  now rewrite Z_mod_plus_full.
Qed.
Lemma valid_shift y m d e : valid_ymd (y + e * 400) m d = valid_ymd y m d.
Proof. unfold valid_ymd, dim. now rewrite leap_shift. Qed.
Lemma dfc_shift y m d e : days_from_civil (y + e * 400) m d = days_from_civil y m d + e * 146097.
Proof.
  unfold days_from_civil. cbv zeta.
  replace (if m <=? 2 then y + e * 400 - 1 else y + e * 400) with ((if m <=? 2 then y - 1 else y) + e * 400)
    by (destruct (m <=? 2); lia).
  rewrite Z_div_plus_full, Z_mod_plus_full by lia. lia.
Qed.
Lemma cfd_shift z e :
  civil_from_days (z + e * 146097) = (let '(y, m, d) := civil_from_days z in (y + e * 400, m, d)).
Proof.
  unfold civil_from_days. cbv zeta.
  replace (z + e * 146097 + 719468) with (z + 719468 + e * 146097) by lia.
  rewrite Z_div_plus_full, Z_mod_plus_full by lia. f_equal. f_equal. lia.
Qed.

Lemma civil_roundtrip_era doe e : 0 <= doe < 146097 ->
  let '(y, m, d) := civil_from_days ((doe - 719468) + e * 146097) in
  days_from_civil y m d = (doe - 719468) + e * 146097 /\ valid_ymd y m d = true.
Proof.
  intro Hd. pose proof (era_checked doe Hd) as C. unfold era_ok in C.
  replace (146097 <=? doe) with false in C by lia. cbn [orb] in C.
  rewrite cfd_shift. destruct (civil_from_days (doe - 719468)) as [[y m] d].
  apply andb_true_iff in C as [C _]. apply andb_true_iff in C as [C _]. apply andb_true_iff in C as [C1 C2]. apply Z.eqb_eq in C1.
  rewrite dfc_shift, valid_shift. split; [lia|assumption].
Qed.
Theorem civil_roundtrip z :
  let '(y, m, d) := civil_from_days z in days_from_civil y m d = z /\ valid_ymd y m d = true.
Proof.
  pose proof (civil_roundtrip_era ((z + 719468) mod 146097) ((z + 719468) / 146097)
                ltac:(apply Z.mod_pos_bound; lia)) as R.
  replace ((z + 719468) mod 146097 - 719468 + (z + 719468) / 146097 * 146097) with z in R; [exact R|].
  pose proof (Z.div_mod (z + 719468) 146097 ltac:(lia)). lia.
Qed.


Lemma is_i32_iff z : is_i32 z = true <-> -2147483648 <= z <= 2147483647.
Proof.
  unfold is_i32, in_range, imin, imax. change (2 ^ (32 - 1)) with 2147483648.
  rewrite andb_true_iff, !Z.leb_le. lia.
Qed.
Lemma is_i32_false_iff z : is_i32 z = false <-> (z < -2147483648 \/ 2147483647 < z).
Proof.
  unfold is_i32, in_range, imin, imax. change (2 ^ (32 - 1)) with 2147483648.
  rewrite andb_false_iff, !Z.leb_gt. lia.
Qed.
Lemma is_u32_iff z : is_u32 z = true <-> 0 <= z < 4294967296.
Proof. unfold is_u32. change (2 ^ 32) with 4294967296. rewrite andb_true_iff, Z.leb_le, Z.ltb_lt. lia. Qed.

(* one 400-year cycle of chrono's day numbering (day 0 = 0000-01-01), checked exhaustively:
   cycle_to_yo does not leave u32, agrees with the proleptic Gregorian calendar, and the year is monotone in the day
   (C0 = 0257-01-01, C1 = 0142-12-31: the cycle days at which chrono's MIN_YEAR / MAX_YEAR begin / end) *)
Definition C0 := 93868.
Definition C1 := 52229.
Definition cycle_chk (c : Z) : bool :=
  match cycle_to_yo c with
  | RPanic => false
  | ROk (ym, ord) =>
      let '(y, m, d) := civil_from_days (c - 719528) in
      (y =? ym) && (0 <=? ym) && (ym <=? 399) && (1 <=? ord) && (ord <=? 366)
      && negb ((ord =? 366) && negb (is_leap ym))
      && (let '(m', d') := md_of_ordinal (is_leap ym) ord in (m' =? m) && (d' =? d))
      && Bool.eqb (257 <=? ym) (C0 <=? c) && Bool.eqb (ym <=? 142) (c <=? C1)
  end.
Lemma cycle_checked : forall c, 0 <= c < 146097 -> cycle_chk c = true.
Proof.
  assert (all_in 18 0 (fun c => (146097 <=? c) || cycle_chk c) = true) as H by (vm_compute; reflexivity).
  intros c Hc. pose proof (all_in_spec _ 18 0 H c) as P. change (2 ^ Z.of_nat 18) with 262144 in P.
  specialize (P ltac:(lia)). cbv beta in P.
  destruct (146097 <=? c) eqn:L; [apply Z.leb_le in L; lia|exact P].
Qed.

Lemma chrono_from_ce_spec n : is_i32 n = true ->
  match chrono_from_ce n with
  | RPanic => False
  | ROk None => date_in_range (n - 719163) = false
  | ROk (Some yo) => date_in_range (n - 719163) = true /\ ymd_of yo = civil_from_days (n - 719163) /\
                     MIN_YEAR <= fst yo <= MAX_YEAR
  end.
Proof.
  intro Hn. apply is_i32_iff in Hn. unfold chrono_from_ce, checked_add32.
  destruct (is_i32 (n + 365)) eqn:E365.
  2:{ apply is_i32_false_iff in E365. unfold date_in_range, DMIN, DMAX.
      apply andb_false_iff. right. apply Z.leb_gt. lia. }
  apply is_i32_iff in E365.
  set (d2 := n + 365) in *. set (e := d2 / 146097). set (c := d2 mod 146097).
  pose proof (Z.div_mod d2 146097 ltac:(lia)) as DM. fold e c in DM.
  pose proof (Z.mod_pos_bound d2 146097 ltac:(lia)) as CB. fold c in CB.
  pose proof (cycle_checked c CB) as CK. unfold cycle_chk in CK.
  destruct (cycle_to_yo c) as [[ym ord]|]; [|discriminate CK].
  pose proof (cfd_shift (c - 719528) e) as SH.
  replace (c - 719528 + e * 146097) with (n - 719163) in SH by (unfold d2 in DM; lia).
  destruct (civil_from_days (c - 719528)) as [[y0 m0] dd0].
  destruct (md_of_ordinal (is_leap ym) ord) as [m' d'] eqn:MD.
  repeat (apply andb_true_iff in CK; destruct CK as [CK ?]).
  match goal with H : Bool.eqb (ym <=? 142) _ = true |- _ => apply eqb_prop in H; rename H into T142 end.
  match goal with H : Bool.eqb (257 <=? ym) _ = true |- _ => apply eqb_prop in H; rename H into T257 end.
  match goal with H : (m' =? m0) && (d' =? dd0) = true |- _ => apply andb_true_iff in H; destruct H as [Hm Hd] end.
  match goal with H : negb _ = true |- _ => apply negb_true_iff in H; rename H into L366 end.
  apply Z.eqb_eq in CK, Hm, Hd. subst y0 m' d'.
  repeat match goal with H : (_ <=? _) = true |- _ => apply Z.leb_le in H end.
  assert (-14700 <= e <= 14699) as EB by (unfold d2 in DM; lia).
  unfold i32op.
  replace (is_i32 (e * 400)) with true by (symmetry; apply is_i32_iff; lia).
  replace (is_i32 (e * 400 + ym)) with true by (symmetry; apply is_i32_iff; lia).
  unfold C0 in T257. unfold C1 in T142.
  assert (n - 719163 = 146097 * e + c - 719528) as EN by (unfold d2 in DM; lia).
  unfold MIN_YEAR, MAX_YEAR, date_in_range, DMIN, DMAX.
  destruct (Z.leb_spec 257 ym), (Z.leb_spec 93868 c); try discriminate T257;
  destruct (Z.leb_spec ym 142), (Z.leb_spec c 52229); try discriminate T142;
  destruct (Z.ltb_spec (e * 400 + ym) (-262143)); cbn [orb];
  try (apply andb_false_iff; left; apply Z.leb_gt; lia);
  destruct (Z.ltb_spec 262142 (e * 400 + ym)); cbn [orb];
  try (apply andb_false_iff; right; apply Z.leb_gt; lia);
  (replace (ord =? 0) with false by (symmetry; apply Z.eqb_neq; lia);
   replace (366 <? ord) with false by (symmetry; apply Z.ltb_ge; lia); cbn [orb];
   replace (e * 400 + ym) with (ym + e * 400) by lia; rewrite leap_shift, L366;
   split; [apply andb_true_iff; split; apply Z.leb_le; lia|];
   split; [unfold ymd_of; rewrite leap_shift, MD; rewrite SH; reflexivity|cbn [fst]; lia]).
Qed.

Lemma ymd_of_fst yo : let '(y, _, _) := ymd_of yo in y = fst yo.
Proof. destruct yo as [y o]. unfold ymd_of. destruct (md_of_ordinal (is_leap y) o). reflexivity. Qed.

(* the conversion: for every i32 day count no intermediate leaves its integer type (no RPanic), and the result is the
   proleptic Gregorian date exactly on chrono's range DMIN..DMAX, None everywhere else *)
Theorem date32_to_naive_spec d : is_i32 d = true ->
  naive_ymd d = ROk (if date_in_range d then Some (civil_from_days d) else None).
Proof.
  intro Hd. unfold naive_ymd, date32_to_naive, checked_add32.
  destruct (is_i32 (d + 719163)) eqn:E.
  - pose proof (chrono_from_ce_spec (d + 719163) E) as S.
    replace (d + 719163 - 719163) with d in S by lia.
    destruct (chrono_from_ce (d + 719163)) as [[yo|]|]; [| |destruct S].
    + destruct S as [S1 [S2 _]]. now rewrite S1, S2.
    + now rewrite S.
  - apply is_i32_iff in Hd. apply is_i32_false_iff in E.
    replace (date_in_range d) with false; [reflexivity|].
    symmetry. unfold date_in_range, DMIN, DMAX. apply andb_false_iff. right. apply Z.leb_gt. lia.
Qed.
Corollary date32_to_naive_no_panic d : is_i32 d = true -> date32_to_naive d <> RPanic.
Proof.
  intros Hd C. pose proof (date32_to_naive_spec d Hd) as S. unfold naive_ymd in S. rewrite C in S. discriminate S.
Qed.
(* a returned date is a valid calendar date inside chrono's bounds, and it is THE date of that day count *)
Corollary date32_to_naive_some d y m dd : is_i32 d = true -> naive_ymd d = ROk (Some (y, m, dd)) ->
  MIN_YEAR <= y <= MAX_YEAR /\ valid_ymd y m dd = true /\ days_from_civil y m dd = d /\ DMIN <= d <= DMAX.
Proof.
  intros Hd S. pose proof (date32_to_naive_spec d Hd) as SP. rewrite S in SP.
  destruct (date_in_range d) eqn:Rg; [|discriminate SP].
  assert (civil_from_days d = (y, m, dd)) as CF by (remember (civil_from_days d) as t; congruence).
  pose proof (civil_roundtrip d) as RT. rewrite CF in RT. destruct RT as [RT1 RT2].
  unfold date_in_range in Rg. apply andb_true_iff in Rg as [R1 R2]. apply Z.leb_le in R1, R2.
  assert (MIN_YEAR <= y <= MAX_YEAR) as YB.
  { unfold naive_ymd, date32_to_naive, checked_add32 in S.
    destruct (is_i32 (d + 719163)) eqn:E; [|discriminate S].
    pose proof (chrono_from_ce_spec (d + 719163) E) as C.
    destruct (chrono_from_ce (d + 719163)) as [[yo|]|]; try discriminate S.
    destruct C as [_ [_ C]]. injection S as S. pose proof (ymd_of_fst yo) as F. rewrite S in F. lia. }
  repeat split; try assumption; lia.
Qed.

Lemma naive_cases d : is_i32 d = true ->
  (date_in_range d = true /\ exists yo, date32_to_naive d = ROk (Some yo) /\ ymd_of yo = civil_from_days d) \/
  (date_in_range d = false /\ date32_to_naive d = ROk None).
Proof.
  intro Hd. pose proof (date32_to_naive_spec d Hd) as S. unfold naive_ymd in S.
  destruct (date32_to_naive d) as [[yo|]|]; destruct (date_in_range d); try discriminate S.
  - left. split; [reflexivity|]. exists yo. split; [reflexivity|].
    remember (ymd_of yo) as a. remember (civil_from_days d) as b. congruence.
  - right. now split.
Qed.

(* EXTRACT(YEAR | MONTH | DAY FROM d) over every Date32 value: the proleptic Gregorian field inside chrono's range,
   the field of the documented default 1970-01-01 outside *)
Theorem extract_spec f d : is_i32 d = true ->
  m_extract f d = OVal (field_of f (if date_in_range d then civil_from_days d else (1970, 1, 1))).
Proof.
  intro Hd. unfold m_extract.
  destruct (naive_cases d Hd) as [[Rg [yo [E Y]]]|[Rg E]]; rewrite E, Rg; [now rewrite Y|reflexivity].
Qed.

(* DATE_TRUNC on Date32 (as repaired): never a panic; NULL outside chrono's range and for the four days whose Monday
   precedes NaiveDate::MIN; otherwise the first day of the week / month / quarter / year *)
Theorem date_trunc_spec u d : is_i32 d = true ->
  m_date_trunc u d =
    if date_in_range d then
      let '(y, m, _) := civil_from_days d in
      if u =? 0 then OVal d
      else if u =? 1 then (if d - (d + 3) mod 7 <? DMIN then ONull else OVal (d - (d + 3) mod 7))
      else if u =? 2 then OVal (days_from_civil y m 1)
      else if u =? 3 then OVal (days_from_civil y ((m - 1) / 3 * 3 + 1) 1)
      else if u =? 4 then OVal (days_from_civil y 1 1)
      else ONull
    else ONull.
Proof.
  intro Hd. unfold m_date_trunc, trunc_with.
  destruct (naive_cases d Hd) as [[Rg [yo [E Y]]]|[Rg E]]; rewrite E, Rg; [now rewrite Y|reflexivity].
Qed.
Corollary date_trunc_no_panic u d : is_i32 d = true -> spec_obs (m_date_trunc u d) = true.
Proof.
  intro Hd. rewrite (date_trunc_spec u d Hd). destruct (date_in_range d); [|reflexivity].
  destruct (civil_from_days d) as [[y m] dd].
  destruct (u =? 0); [reflexivity|]. destruct (u =? 1); [destruct (d - (d + 3) mod 7 <? DMIN); reflexivity|].
  destruct (u =? 2); [reflexivity|]. destruct (u =? 3); [reflexivity|]. destruct (u =? 4); reflexivity.
Qed.
(* the truncated week is the Monday on or before d, at most 6 days back *)
Corollary date_trunc_week_value d r : is_i32 d = true -> m_date_trunc 1 d = OVal r ->
  DMIN <= r <= d /\ d - r <= 6 /\ (r + 3) mod 7 = 0.
Proof.
  intros Hd. rewrite (date_trunc_spec 1 d Hd). destruct (date_in_range d); [|discriminate].
  destruct (civil_from_days d) as [[y m] dd]. cbn [Z.eqb].
  destruct (Z.ltb_spec (d - (d + 3) mod 7) DMIN); [discriminate|]. intro H0. injection H0 as <-.
  pose proof (Z.mod_pos_bound (d + 3) 7 ltac:(lia)) as B. repeat split; try lia.
  replace (d - (d + 3) mod 7 + 3) with ((d + 3) - (d + 3) mod 7) by lia.
  rewrite Zminus_mod, Z.mod_mod, Z.sub_diag by lia. reflexivity.
Qed.
(* regression witness (before a29b909): the panicking `date - Duration` on NaiveDate::MIN, a Thursday *)
Theorem date_trunc_week_before_fix :
  is_i32 DMIN = true /\ date_in_range DMIN = true /\ civil_from_days DMIN = (MIN_YEAR, 1, 1) /\ (DMIN + 3) mod 7 = 3 /\
  m_date_trunc_before_fix 1 DMIN = OPanic /\ m_date_trunc_before_fix 1 (DMIN + 3) = OPanic /\
  m_date_trunc_before_fix 1 (DMIN + 4) = OVal (DMIN + 4) /\
  m_date_trunc 1 DMIN = ONull /\ m_date_trunc 1 (DMIN + 3) = ONull /\ m_date_trunc 1 (DMIN + 4) = OVal (DMIN + 4).
Proof. vm_compute. repeat split; reflexivity. Qed.

(* DATE_ADD on Date32 (as repaired): never a panic, for every unit, every Date32 value and EVERY integer count *)
Theorem date_add_no_panic u v d : is_i32 d = true -> spec_obs (m_date_add u v d) = true.
Proof.
  intro Hd. unfold m_date_add, m_date_add_year, m_date_add_day, m_date_add_week, add_days_with, m_date_add_month.
  destruct (naive_cases d Hd) as [[Rg [yo [E Y]]]|[Rg E]]; rewrite E.
  - destruct (ymd_of yo) as [[y m] dd].
    repeat match goal with
           | |- context [if ?b then _ else _] => destruct b
           | |- context [match checked_add32 ?a ?b with _ => _ end] => destruct (checked_add32 a b)
           end; reflexivity.
  - repeat match goal with |- context [if ?b then _ else _] => destruct b end; reflexivity.
Qed.
(* a day / week result is the exact sum and again a date chrono can represent *)
Theorem date_add_day_value v d r : is_i32 d = true -> m_date_add 0 v d = OVal r ->
  r = d + v /\ date_in_range r = true /\ is_i32 r = true.
Proof.
  intros Hd. unfold m_date_add. cbn [Z.eqb]. unfold m_date_add_day, add_days_with.
  replace (1 * v) with v by lia.
  destruct (naive_cases d Hd) as [[Rg [yo [E Y]]]|[Rg E]]; rewrite E; [|discriminate].
  destruct ((v <? - TD_MAX_DAYS) || (TD_MAX_DAYS <? v)); [discriminate|].
  destruct (is_i32 v); cbn [negb]; [|discriminate].
  destruct (date_in_range (d + v)) eqn:R2; [|discriminate]. intro H. injection H as <-.
  split; [reflexivity|]. split; [exact R2|].
  unfold date_in_range, DMIN, DMAX in R2. apply andb_true_iff in R2 as [A B]. apply Z.leb_le in A, B.
  apply is_i32_iff. lia.
Qed.
(* regression witness (before 54868b4): Duration::days(i64::MAX) panicked *)
Theorem date_add_before_fix :
  is_i32 18262 = true /\ in_range 64 9223372036854775807 = true /\
  m_date_add_day_before_fix 9223372036854775807 18262 = OPanic /\
  m_date_add 0 9223372036854775807 18262 = ONull /\ m_date_add 4 9223372036854775807 18262 = ONull /\
  m_date_add 1 9223372036854775807 18262 = ONull /\ m_date_add 2 4294967297 18262 = ONull /\
  m_date_add 0 1 18262 = OVal 18263 /\ m_date_add 2 1 19753 = OVal 19782 /\ m_date_add 4 (-1) 19782 = OVal 19416.
Proof. vm_compute. repeat split; reflexivity. Qed.

Example date_examples :
  naive_ymd 19782 = ROk (Some (2024, 2, 29)) /\ naive_ymd DMIN = ROk (Some (-262143, 1, 1)) /\
  naive_ymd DMAX = ROk (Some (262142, 12, 31)) /\ naive_ymd (DMIN - 1) = ROk None /\ naive_ymd (DMAX + 1) = ROk None /\
  naive_ymd 2147483647 = ROk None /\ naive_ymd (-2147483648) = ROk None /\
  days_from_civil MIN_YEAR 1 1 = DMIN /\ days_from_civil MAX_YEAR 12 31 = DMAX /\
  m_extract 0 2147483647 = OVal 1970 /\ m_extract 1 2147483647 = OVal 1 /\ m_extract 0 DMAX = OVal 262142.
Proof. vm_compute. repeat split; reflexivity. Qed.

(* =====================================================================================================
   4. the join-reorder size score
   ===================================================================================================== *)
(* for every usize row count and either admissible value of the f64 logarithm: every intermediate fits i32 *)
Theorem score_fits_i32 n lg f : 0 <= n < 2 ^ 64 ->
  log2_floor (Z.max 1 n) <= lg <= log2_floor (Z.max 1 n) + 1 ->
  exists v, score_with lg f = ROk v /\ -22000 <= v <= 11500 /\
            is_i32 (lg * 500) = true /\ is_i32 (10000 - lg * 500) = true /\ is_i32 v = true.
Proof.
  intros Hn Hlg. unfold log2_floor in Hlg.
  assert (0 <= Z.log2 (Z.max 1 n) <= 63) as L.
  { split; [apply Z.log2_nonneg|]. assert (Z.log2 (Z.max 1 n) < 64); [|lia].
    apply Z.log2_lt_pow2; [lia|]. change (2 ^ 64) with 18446744073709551616 in *. lia. }
  assert (is_i32 (lg * 500) = true) as A by (apply is_i32_iff; lia).
  assert (is_i32 (10000 - lg * 500) = true) as B by (apply is_i32_iff; lia).
  unfold score_with, i32op. rewrite A, B. destruct f.
  - assert (is_i32 (10000 - lg * 500 + 1500) = true) as C by (apply is_i32_iff; lia). rewrite C.
    exists (10000 - lg * 500 + 1500). repeat split; try assumption; lia.
  - exists (10000 - lg * 500). repeat split; try assumption; lia.
Qed.
Corollary score_no_panic n f : 0 <= n < 2 ^ 64 -> exists v, score n f = ROk v /\ -21500 <= v <= 11500.
Proof.
  intro Hn. unfold score.
  assert (0 <= log2_floor (Z.max 1 n) <= 63) as L.
  { unfold log2_floor. split; [apply Z.log2_nonneg|]. assert (Z.log2 (Z.max 1 n) < 64); [|lia].
    apply Z.log2_lt_pow2; [lia|]. change (2 ^ 64) with 18446744073709551616 in *. lia. }
  destruct (score_fits_i32 n (log2_floor (Z.max 1 n)) f Hn ltac:(lia)) as [v [E _]].
  set (L0 := log2_floor (Z.max 1 n)) in *.
  exists v. split; [exact E|].
  unfold score_with, i32op in E.
  destruct (is_i32 (L0 * 500)); [|discriminate E].
  destruct (is_i32 (10000 - L0 * 500)); [|discriminate E].
  destruct f.
  - destruct (is_i32 (10000 - L0 * 500 + 1500)); [|discriminate E].
    assert (v = 10000 - L0 * 500 + 1500) as EV by congruence. lia.
  - assert (v = 10000 - L0 * 500) as EV by congruence. lia.
Qed.
(* regression witness (before 993b9a5): an empty table, log2(0) = -inf, `as i32` = i32::MIN, times 500 overflows *)
Theorem score_before_fix_witness :
  score_before_fix 0 false = RPanic /\ score 0 false = ROk 10000 /\ score 0 true = ROk 11500 /\
  score 1 false = ROk 10000 /\ score 25 false = ROk 8000 /\ score (2 ^ 64 - 1) false = ROk (-21500) /\
  score_with 64 false = ROk (-22000).
Proof. vm_compute. repeat split; reflexivity. Qed.
