(* C29 proofs.  Unbounded statements about the modelled logic cores (see Model.v):
   1. the nesting guard computes the maximum over all prefixes of the (saturating) open-minus-close balance under its own
      lexical rules; a statement that passes has no prefix nested deeper than 47;
   2. the integer kernels return the mathematical result when it is representable and an error otherwise — never a
      panic; the constant folder agrees with them outside one class, where it panics (refuted + class);
   3. date32_to_naive: no intermediate leaves its integer type, the result is None or the proleptic Gregorian date, and it
      is Some exactly on chrono's range; EXTRACT / DATE_TRUNC / DATE_ADD consequences;
   4. the join-reorder size score stays inside i32 for every usize row count.
   What is NOT proved (assumption, validated by the search part of checks/C29.py only): that sqlparser's own recursion
   stays below its limit when the textual depth is <= 47, and everything else in the 100k lines. *)
From QV Require Import Base.Util C36.Model C36.Proofs C29.Model.
Local Open Scope Z_scope.

(* =====================================================================================================
   1. nesting guard
   ===================================================================================================== *)
Lemma max0_nonneg l : 0 <= max0 l.
Proof. induction l as [|a l IH]; cbn [max0 fold_right]; [lia|]. fold (max0 l). lia. Qed.
Lemma max0_cons a l : max0 (a :: l) = Z.max a (max0 l).
Proof. reflexivity. Qed.
Lemma max0_in l : max0 l = 0 \/ In (max0 l) l.
Proof.
  induction l as [|a l IH]; [now left|]. rewrite max0_cons.
  destruct (Z.max_spec a (max0 l)) as [[H E]|[H E]]; rewrite E.
  - destruct IH as [IH|IH]; [now left|right; now right].
  - right; now left.
Qed.
Lemma max0_ge l x : In x l -> x <= max0 l.
Proof.
  induction l as [|a l IH]; [intros []|]. rewrite max0_cons. intros [->|H]; [lia|]. specialize (IH H). lia.
Qed.

Lemma lex_delta_indep m c r1 r2 : lex_delta m c r1 = lex_delta m c r2.
Proof.
  destruct m; cbn [lex_delta]; try reflexivity.
  destruct (is_quote c); [reflexivity|].
  destruct (c =? DASH) eqn:E; cbn [andb]; [|reflexivity].
  apply Z.eqb_eq in E. subst c. destruct (next_is_dash r1), (next_is_dash r2); reflexivity.
Qed.
Lemma bal_step_nonneg b d : 0 <= bal_step b d.
Proof. unfold bal_step. lia. Qed.

(* the scanner = the maximum of the trajectory *)
Lemma scan_spec : forall s m depth best, 0 <= depth <= best ->
  scan m depth best s = Z.max best (max0 (traj_from depth (deltas_from m s))).
Proof.
  induction s as [|c r IH]; intros m depth best H.
  - cbn. lia.
  - cbn [scan deltas_from traj_from]. rewrite max0_cons.
    destruct m as [|q|].
    + cbn [lex_delta lex_step].
      destruct (is_quote c).
      { rewrite IH by lia. unfold bal_step. replace (Z.max 0 (depth + 0)) with depth by lia. lia. }
      destruct ((c =? DASH) && next_is_dash r).
      { rewrite IH by lia. unfold bal_step. replace (Z.max 0 (depth + 0)) with depth by lia. lia. }
      destruct (c =? LP).
      { rewrite IH by lia. unfold bal_step. replace (Z.max 0 (depth + 1)) with (depth + 1) by lia. lia. }
      destruct (c =? RP).
      { assert (sat_dec depth = Z.max 0 (depth + -1)) as E by (unfold sat_dec; destruct (depth <=? 0) eqn:L; lia).
        rewrite IH by (unfold sat_dec; destruct (depth <=? 0); lia). unfold bal_step. rewrite E. lia. }
      rewrite IH by lia. unfold bal_step. replace (Z.max 0 (depth + 0)) with depth by lia. lia.
    + cbn [lex_delta lex_step]. rewrite IH by lia. unfold bal_step. replace (Z.max 0 (depth + 0)) with depth by lia. lia.
    + cbn [lex_delta lex_step]. rewrite IH by lia. unfold bal_step. replace (Z.max 0 (depth + 0)) with depth by lia. lia.
Qed.

Theorem paren_depth_is_max_of_trajectory s : paren_depth s = max0 (traj s).
Proof. unfold paren_depth, traj, deltas. rewrite scan_spec by lia. pose proof (max0_nonneg (traj_from 0 (deltas_from MNormal s))). lia. Qed.

(* prefixes: the classification of a prefix is the prefix of the classification *)
Lemma deltas_from_length m s : length (deltas_from m s) = length s.
Proof. revert m; induction s as [|c r IH]; intro m; cbn [deltas_from length]; [reflexivity|]. now rewrite IH. Qed.
Lemma deltas_from_prefix : forall p q m, deltas_from m p = firstn (length p) (deltas_from m (p ++ q)).
Proof.
  induction p as [|c p IH]; intros q m; [reflexivity|].
  cbn [app deltas_from length firstn]. rewrite (lex_delta_indep m c p (p ++ q)). f_equal.
  destruct p as [|c' p'].
  - reflexivity.
  - assert (lex_step m c ((c' :: p') ++ q) = lex_step m c (c' :: p')) as E by (destruct m; reflexivity).
    rewrite E. apply IH.
Qed.

Lemma fold_firstn_le : forall ds b k, 0 <= b ->
  fold_left bal_step (firstn k ds) b <= Z.max b (max0 (traj_from b ds)).
Proof.
  induction ds as [|d r IH]; intros b k Hb.
  - rewrite firstn_nil. cbn. lia.
  - destruct k as [|k]; [cbn [firstn fold_left]; lia|].
    cbn [firstn fold_left traj_from]. rewrite max0_cons.
    specialize (IH (bal_step b d) k (bal_step_nonneg b d)). lia.
Qed.
Lemma traj_in : forall ds b x, In x (traj_from b ds) ->
  exists k, (k <= length ds)%nat /\ x = fold_left bal_step (firstn k ds) b.
Proof.
  induction ds as [|d r IH]; intros b x H; [destruct H|].
  cbn [traj_from] in H. destruct H as [<-|H].
  - exists 1%nat. cbn [length firstn fold_left]. split; [lia|reflexivity].
  - destruct (IH _ _ H) as [k [Hk E]]. exists (S k). cbn [length firstn fold_left]. split; [lia|exact E].
Qed.

(* every prefix's balance is at most the scanner's result ... *)
Theorem prefix_balance_le_depth p q : balance p <= paren_depth (p ++ q).
Proof.
  rewrite paren_depth_is_max_of_trajectory. unfold balance, traj, deltas.
  rewrite (deltas_from_prefix p q MNormal).
  pose proof (fold_firstn_le (deltas_from MNormal (p ++ q)) 0 (length p) ltac:(lia)) as H.
  pose proof (max0_nonneg (traj_from 0 (deltas_from MNormal (p ++ q)))). lia.
Qed.
(* ... and some prefix attains it: the result is the maximum over all prefixes *)
Theorem depth_attained s : exists p q, s = p ++ q /\ balance p = paren_depth s.
Proof.
  rewrite paren_depth_is_max_of_trajectory.
  destruct (max0_in (traj s)) as [E|E].
  - exists [], s. split; [reflexivity|]. rewrite E. reflexivity.
  - unfold traj in E. destruct (traj_in _ _ _ E) as [k [Hk Ek]].
    unfold deltas in Hk. rewrite deltas_from_length in Hk.
    exists (firstn k s), (skipn k s). split; [symmetry; apply firstn_skipn|].
    unfold balance, deltas. rewrite (deltas_from_prefix (firstn k s) (skipn k s) MNormal).
    rewrite firstn_skipn, firstn_length, Nat.min_l by exact Hk. unfold traj, deltas in Ek |- *. now rewrite <- Ek.
Qed.

(* the guard: a statement that passes has no prefix nested deeper than 47 *)
Theorem check_nesting_sound s : check_nesting s = true ->
  forall p q, s = p ++ q -> balance p <= MAX_PAREN_DEPTH.
Proof.
  unfold check_nesting. intros H p q ->. apply negb_true_iff, Z.ltb_ge in H.
  pose proof (prefix_balance_le_depth p q). lia.
Qed.
(* and it rejects exactly when some prefix is nested deeper *)
Theorem check_nesting_complete s : check_nesting s = false ->
  exists p q, s = p ++ q /\ MAX_PAREN_DEPTH < balance p.
Proof.
  unfold check_nesting. intro H. apply negb_false_iff, Z.ltb_lt in H.
  destruct (depth_attained s) as [p [q [E B]]]. exists p, q. split; [exact E|lia].
Qed.
(* the executable spec used on the implementation's answers is met by the model *)
Theorem guard_model_meets_spec s : spec_guard s (negb (check_nesting s)) = true.
Proof.
  unfold spec_guard, check_nesting. rewrite <- paren_depth_is_max_of_trajectory, negb_involutive.
  destruct (MAX_PAREN_DEPTH <? paren_depth s); reflexivity.
Qed.

(* usize counters: bounded by the number of code points read, so no wrap for any string that fits in memory *)
Lemma scan_le_length : forall s m depth best, 0 <= depth ->
  scan m depth best s <= Z.max best (depth + Z.of_nat (length s)).
Proof.
  induction s as [|c r IH]; intros m depth best H; [cbn; lia|].
  cbn [scan]. replace (Z.of_nat (length (c :: r))) with (Z.of_nat (length r) + 1) by (cbn [length]; lia).
  destruct m as [|q|].
  - destruct (is_quote c); [specialize (IH (MQuote c) depth best H); lia|].
    destruct ((c =? DASH) && next_is_dash r); [specialize (IH MComment depth best H); lia|].
    destruct (c =? LP); [specialize (IH MNormal (depth + 1) (Z.max best (depth + 1)) ltac:(lia)); lia|].
    destruct (c =? RP).
    + assert (0 <= sat_dec depth <= depth) as S by (unfold sat_dec; destruct (depth <=? 0) eqn:L; lia).
      specialize (IH MNormal (sat_dec depth) best ltac:(lia)). lia.
    + specialize (IH MNormal depth best H). lia.
  - specialize (IH (if c =? q then MNormal else MQuote q) depth best H). lia.
  - specialize (IH (if c =? NL then MNormal else MComment) depth best H). lia.
Qed.
Theorem depth_le_length s : 0 <= paren_depth s <= Z.of_nat (length s).
Proof.
  split; [rewrite paren_depth_is_max_of_trajectory; apply max0_nonneg|].
  unfold paren_depth. pose proof (scan_le_length s MNormal 0 0 ltac:(lia)). lia.
Qed.

(* ---- strings without quotes and dashes: the classic notion ---- *)
Lemma deltas_plain s : no_lexical s = true -> deltas s = map plain_delta s.
Proof.
  unfold deltas. induction s as [|c r IH]; intro H; [reflexivity|].
  cbn [no_lexical forallb] in H. apply andb_true_iff in H as [Hc Hr]. apply andb_true_iff in Hc as [Hq Hd].
  apply negb_true_iff in Hq, Hd.
  cbn [deltas_from map lex_delta lex_step]. rewrite Hq, Hd. cbn [andb]. fold (plain_delta c). f_equal. apply IH, Hr.
Qed.
Lemma traj_ge_sums : forall ds b b', b <= b' -> max0 (sums_from b ds) <= max0 (traj_from b' ds).
Proof.
  induction ds as [|d r IH]; intros b b' H; [cbn; lia|].
  cbn [sums_from traj_from]. rewrite !max0_cons.
  assert (b + d <= bal_step b' d) as H' by (unfold bal_step; lia). specialize (IH _ _ H'). lia.
Qed.
Lemma traj_eq_sums : forall ds b, 0 <= b -> Forall (fun x => 0 <= x) (sums_from b ds) -> traj_from b ds = sums_from b ds.
Proof.
  induction ds as [|d r IH]; intros b Hb H; [reflexivity|].
  cbn [sums_from traj_from] in *. inversion H as [|x l Hx Hl]; subst.
  assert (bal_step b d = b + d) as E by (unfold bal_step; lia). rewrite E. f_equal. apply IH; assumption.
Qed.
(* the guard never under-estimates the classic nesting depth (unmatched `)` are forgotten, not counted negatively) *)
Theorem classic_le_paren_depth s : no_lexical s = true -> classic_depth s <= paren_depth s.
Proof.
  intro H. rewrite paren_depth_is_max_of_trajectory. unfold traj, classic_depth. rewrite (deltas_plain s H).
  apply traj_ge_sums. lia.
Qed.
(* and it IS the classic maximum nesting when no prefix closes more than it opened *)
Theorem paren_depth_classic s : no_lexical s = true ->
  Forall (fun x => 0 <= x) (sums_from 0 (map plain_delta s)) -> paren_depth s = classic_depth s.
Proof.
  intros H F. rewrite paren_depth_is_max_of_trajectory. unfold traj, classic_depth. rewrite (deltas_plain s H).
  now rewrite traj_eq_sums by (lia || assumption).
Qed.
Example guard_examples :
  (* "((a)')('))" : the quoted parenthesis is skipped *)
  paren_depth [40; 40; 97; 41; 39; 41; 40; 39; 41; 41] = 2 /\
  (* "(--(\n(" : the comment hides one *)
  paren_depth [40; 45; 45; 40; 10; 40] = 2 /\
  (* ")(" : saturation — scanner 1, classic balance 0 *)
  paren_depth [41; 40] = 1 /\ classic_depth [41; 40] = 0 /\
  check_nesting (repeat 40 47 ++ repeat 41 47) = true /\ check_nesting (repeat 40 48) = false /\
  no_lexical [40; 40; 41; 41] = true /\ Forall (fun x => 0 <= x) (sums_from 0 (map plain_delta [40; 40; 41; 41])).
Proof. repeat split; try (vm_compute; reflexivity). cbn. repeat constructor; lia. Qed.

(* =====================================================================================================
   2. integer kernels
   ===================================================================================================== *)
Section Width.
  Variable bits : Z.
  Hypothesis Hbits : 1 <= bits.
  Let P := 2 ^ (bits - 1).
  Lemma P_pos : 0 < P.
  Proof. unfold P. apply Z.pow_pos_nonneg; lia. Qed.
  Lemma in_range_iff z : in_range bits z = true <-> - P <= z <= P - 1.
  Proof. unfold in_range, imin, imax. fold P. rewrite andb_true_iff, !Z.leb_le. reflexivity. Qed.
  Lemma in_range_false_iff z : in_range bits z = false <-> (z < - P \/ P - 1 < z).
  Proof.
    unfold in_range, imin, imax. fold P. rewrite andb_false_iff, !Z.leb_gt. reflexivity.
  Qed.

  Lemma quot_abs_le x y : y <> 0 -> Z.abs (Z.quot x y) * Z.abs y <= Z.abs x.
  Proof.
    intro Hy. rewrite <- Z.quot_abs by exact Hy.
    rewrite Z.quot_div_nonneg by lia.
    pose proof (Z.mul_div_le (Z.abs x) (Z.abs y) ltac:(lia)). lia.
  Qed.
  Lemma quot_in_range x y : in_range bits x = true -> in_range bits y = true -> y <> 0 ->
    in_range bits (Z.quot x y) = negb ((x =? imin bits) && (y =? -1)).
  Proof.
    intros Hx Hy Hy0. apply in_range_iff in Hx, Hy. pose proof P_pos as HP.
    assert (imin bits = - P) as Em by reflexivity. rewrite Em.
    destruct (Z.eq_dec y (-1)) as [->|Hm1].
    - rewrite Z.quot_opp_r, Z.quot_1_r by lia. rewrite Z.eqb_refl, andb_true_r.
      destruct (x =? - P) eqn:E; cbn [negb].
      + apply Z.eqb_eq in E. subst x. apply in_range_false_iff. lia.
      + apply Z.eqb_neq in E. apply in_range_iff. lia.
    - replace (y =? -1) with false by (symmetry; apply Z.eqb_neq; exact Hm1). rewrite andb_false_r. cbn [negb].
      apply in_range_iff.
      destruct (Z.eq_dec y 1) as [->|H1]; [rewrite Z.quot_1_r; lia|].
      pose proof (quot_abs_le x y Hy0) as Q. assert (2 <= Z.abs y) by lia.
      assert (2 * Z.abs (Z.quot x y) <= Z.abs x) by nia. lia.
  Qed.
  Lemma rem_in_range x y : in_range bits y = true -> y <> 0 -> in_range bits (Z.rem x y) = true.
  Proof.
    intros Hy Hy0. apply in_range_iff in Hy. apply in_range_iff.
    pose proof (Z.rem_bound_abs x y Hy0). lia.
  Qed.

  (* the kernels, characterised by the mathematical result and the range test *)
  Theorem k_op_spec op x y : 0 <= op <= 6 -> in_range bits x = true -> in_range bits y = true ->
    k_op op bits x y = match math_op op x y with
                       | None => OErr
                       | Some r => if in_range bits r then OVal r else OErr
                       end.
  Proof.
    intros Hop Hx Hy. unfold k_op, math_op.
    destruct (op =? 0); [reflexivity|]. destruct (op =? 1); [reflexivity|]. destruct (op =? 2); [reflexivity|].
    destruct (op =? 3).
    { unfold k_div. destruct (y =? 0) eqn:E0; [reflexivity|]. apply Z.eqb_neq in E0.
      rewrite (quot_in_range x y Hx Hy E0). destruct ((x =? imin bits) && (y =? -1)); reflexivity. }
    destruct (op =? 4).
    { unfold k_rem. destruct (y =? 0) eqn:E0; [reflexivity|]. apply Z.eqb_neq in E0.
      rewrite (rem_in_range x y Hy E0).
      destruct (y =? -1) eqn:E1; [|reflexivity]. apply Z.eqb_eq in E1. subst y.
      pose proof (Z.rem_bound_abs x (-1) ltac:(lia)). f_equal. lia. }
    pose proof P_pos as HP. apply in_range_iff in Hx.
    destruct (op =? 5).
    { unfold k_neg. assert (imin bits = - P) as Em by reflexivity. rewrite Em.
      destruct (x =? - P) eqn:E.
      - apply Z.eqb_eq in E. subst x. replace (in_range bits (- - P)) with false; [reflexivity|].
        symmetry. apply in_range_false_iff. lia.
      - apply Z.eqb_neq in E. replace (in_range bits (- x)) with true; [reflexivity|].
        symmetry. apply in_range_iff. lia. }
    unfold k_abs. assert (imin bits = - P) as Em by reflexivity. rewrite Em.
    destruct (x =? - P) eqn:E.
    - apply Z.eqb_eq in E. subst x. replace (in_range bits (Z.abs (- P))) with false; [reflexivity|].
      symmetry. apply in_range_false_iff. lia.
    - apply Z.eqb_neq in E. replace (in_range bits (Z.abs x)) with true; [reflexivity|].
      symmetry. apply in_range_iff. lia.
  Qed.

  (* a value is in range and is the mathematical result *)
  Corollary k_op_value op x y v : 0 <= op <= 6 -> in_range bits x = true -> in_range bits y = true ->
    k_op op bits x y = OVal v -> in_range bits v = true /\ math_op op x y = Some v.
  Proof.
    intros Hop Hx Hy. rewrite (k_op_spec op x y Hop Hx Hy).
    destruct (math_op op x y) as [r|]; [|discriminate].
    destruct (in_range bits r) eqn:E; [|discriminate]. intro H. injection H as <-. now split.
  Qed.
  (* an error exactly when the divisor is 0 or the mathematical result is not representable *)
  Corollary k_op_error_iff op x y : 0 <= op <= 6 -> in_range bits x = true -> in_range bits y = true ->
    (k_op op bits x y = OErr <->
     (math_op op x y = None \/ exists r, math_op op x y = Some r /\ in_range bits r = false)).
  Proof.
    intros Hop Hx Hy. rewrite (k_op_spec op x y Hop Hx Hy).
    destruct (math_op op x y) as [r|].
    - destruct (in_range bits r) eqn:E; split.
      + discriminate.
      + intros [H|[r' [H1 H2]]]; [discriminate|]. injection H1 as <-. congruence.
      + intros _. right. exists r. now split.
      + reflexivity.
    - split; [now left|reflexivity].
  Qed.
  (* never anything else: no panic, no NULL from non-NULL operands *)
  Corollary k_op_total op x y : 0 <= op <= 6 -> in_range bits x = true -> in_range bits y = true ->
    k_op op bits x y = OErr \/ exists v, k_op op bits x y = OVal v.
  Proof.
    intros Hop Hx Hy. rewrite (k_op_spec op x y Hop Hx Hy).
    destruct (math_op op x y) as [r|]; [|now left]. destruct (in_range bits r); [right; now exists r|now left].
  Qed.
  Corollary int_model_meets_spec op x y : 0 <= op <= 6 -> in_range bits x = true -> in_range bits y = true ->
    spec_int op x y (k_op op bits x y) = true.
  Proof.
    intros Hop Hx Hy. rewrite (k_op_spec op x y Hop Hx Hy). unfold spec_int.
    destruct (math_op op x y) as [r|] eqn:E; [|reflexivity].
    destruct (in_range bits r); [|reflexivity]. rewrite E. apply Z.eqb_refl.
  Qed.
End Width.

(* the division convention of `/` and `%` (Z.quot / Z.rem): truncation toward zero, remainder takes the dividend's sign *)
Theorem trunc_convention x y : y <> 0 ->
  x = y * Z.quot x y + Z.rem x y /\ Z.abs (Z.rem x y) < Z.abs y /\
  (0 <= x -> 0 <= Z.rem x y) /\ (x <= 0 -> Z.rem x y <= 0).
Proof.
  intro Hy. repeat split.
  - apply Z.quot_rem'.
  - apply Z.rem_bound_abs, Hy.
  - intro H. apply Z.rem_nonneg; assumption.
  - intro H. apply Z.rem_nonpos; assumption.
Qed.
Example int_examples :
  k_op 3 64 (-7) 2 = OVal (-3) /\ k_op 4 64 (-7) 2 = OVal (-1) /\ k_op 3 64 7 (-2) = OVal (-3) /\ k_op 4 64 7 (-2) = OVal 1 /\
  k_op 3 64 (imin 64) (-1) = OErr /\ k_op 4 64 (imin 64) (-1) = OVal 0 /\ k_op 3 32 (imin 32) (-1) = OErr /\
  k_op 0 64 (imax 64) 1 = OErr /\ k_op 0 32 (imax 32) 1 = OErr /\ k_op 2 32 65536 32768 = OErr /\ k_op 2 32 65536 (-32768) = OVal (imin 32) /\
  k_op 5 64 (imin 64) 0 = OErr /\ k_op 6 64 (imin 64) 0 = OErr /\ k_op 6 32 (imin 32) 0 = OErr /\ k_op 6 64 (-5) 0 = OVal 5 /\
  k_op 3 64 5 0 = OErr /\ k_op 4 64 5 0 = OErr.
Proof. vm_compute. repeat split; reflexivity. Qed.

(* ---- the constant folder (as repaired by c308f13) ---- *)
(* a literal expression has exactly the outcome of the run-time kernel, for all operands: the folder never panics and
   never changes an answer *)
Theorem fold_agrees op x y : 0 <= op <= 6 -> in_range 64 x = true -> in_range 64 y = true ->
  lit_op op x y = k_op op 64 x y.
Proof.
  intros Hop Hx Hy. unfold lit_op, lit_with, f_op.
  destruct (op =? 0) eqn:E0.
  { unfold k_op. rewrite E0. unfold k_add. destruct (in_range 64 (x + y)); reflexivity. }
  destruct (op =? 1) eqn:E1.
  { unfold k_op. rewrite E0, E1. unfold k_sub. destruct (in_range 64 (x - y)); reflexivity. }
  destruct (op =? 2) eqn:E2.
  { unfold k_op. rewrite E0, E1, E2. unfold k_mul. destruct (in_range 64 (x * y)); reflexivity. }
  destruct (op =? 3) eqn:E3.
  { unfold k_op. rewrite E0, E1, E2, E3. unfold k_div.
    destruct (y =? 0) eqn:Ey; cbn [orb].
    - rewrite E0, E1, E2, E3. unfold k_div. now rewrite Ey.
    - destruct ((x =? imin 64) && (y =? -1)) eqn:C; [|reflexivity].
      rewrite E0, E1, E2, E3. unfold k_div. now rewrite Ey, C. }
  destruct (op =? 4) eqn:E4.
  { unfold k_op. rewrite E0, E1, E2, E3, E4. unfold k_rem.
    destruct (y =? 0) eqn:Ey; [rewrite E0, E1, E2, E3, E4; unfold k_rem; now rewrite Ey|reflexivity]. }
  reflexivity.
Qed.
Corollary lit_no_panic op x y : 0 <= op <= 6 -> in_range 64 x = true -> in_range 64 y = true ->
  spec_int op x y (lit_op op x y) = true.
Proof.
  intros Hop Hx Hy. rewrite (fold_agrees op x y Hop Hx Hy). apply int_model_meets_spec; (lia || assumption).
Qed.
(* regression witness: before c308f13 the folder's `/` and `%` panicked on MIN and -1 (in every build profile) *)
Theorem fold_min_div_before_fix :
  in_range 64 (imin 64) = true /\ in_range 64 (-1) = true /\
  lit_op_before_fix 3 (imin 64) (-1) = OPanic /\ lit_op_before_fix 4 (imin 64) (-1) = OPanic /\
  lit_op 3 (imin 64) (-1) = OErr /\ lit_op 4 (imin 64) (-1) = OVal 0.
Proof. vm_compute. repeat split; reflexivity. Qed.
