(* C29 model: the logic cores in which the recorded C29 defects lived, transcribed from the Rust (quirks kept).

   1. parser nesting guard            /repo/src/parser/mod.rs  paren_depth / check_nesting / MAX_PAREN_DEPTH
   2. integer kernels of the evaluator /repo/src/physical/operators/filter.rs evaluate_binary_op / evaluate_unary_op / Abs
        (arrow-arith numeric::{add,sub,mul,div,rem,neg} = checked kernels) and the optimizer's second implementation of
        the same operators on literals, /repo/src/optimizer/rules/constant_folding.rs eval_int64
   3. date32_to_naive                 filter.rs:409, with chrono 0.4.45 NaiveDate::from_num_days_from_ce_opt transcribed,
        and its consumers EXTRACT / DATE_TRUNC / DATE_ADD on Date32
   4. JoinReorder::estimate_relation_size_score (statistics branch), /repo/src/optimizer/rules/join_reorder.rs
   5. (the optimizer fixpoint driver is C03's model; its bound is re-exported in Props/C29.v)

   Rust's arithmetic on a fixed-width integer is modelled in Z with the range test written out: a *checked* operation
   returns an error value, an *unchecked* one (`a + b`, `a * b`, `a / b`, `-a`) is a PANIC when the result leaves the range
   (dev profile: overflow checks on; `/` and `%` panic on MIN / -1 in every profile).

   No proofs here.  Executable specs (`spec_*`) and the comparison functions used by checks/C29.py are at the end. *)
From QV Require Export Base.Util.
Local Open Scope Z_scope.

Definition b2z (b : bool) : Z := if b then 1 else 0.

(* =====================================================================================================
   1. The parser nesting guard
   ===================================================================================================== *)
(* code points (Rust `char`s, what `sql.chars()` yields) *)
Definition LP := 40.  Definition RP := 41.  Definition SQ := 39.  Definition DQ := 34.  Definition BQ := 96.
Definition DASH := 45. Definition NL := 10.
Definition MAX_PAREN_DEPTH := 47.

Inductive mode := MNormal | MQuote (q : Z) | MComment.
Definition is_quote (c : Z) : bool := (c =? SQ) || (c =? DQ) || (c =? BQ).
Definition next_is_dash (r : list Z) : bool := match r with d :: _ => d =? DASH | [] => false end.
Definition sat_dec (d : Z) : Z := if d <=? 0 then 0 else d - 1.      (* usize::saturating_sub(1) *)

(* one step of the lexer: the mode after reading `c` (with one code point of lookahead, `chars.peek()`).
   `quote = Some(q)`: everything up to the next q is skipped, a doubled quote '' closes and reopens.
   `-` followed by `-`: `for d in chars.by_ref() { if d == '\n' break }` consumes through the end of line;
   the second `-` is the first code point that loop consumes (MComment sees it as "not a newline"). *)
Definition lex_step (m : mode) (c : Z) (r : list Z) : mode :=
  match m with
  | MQuote q => if c =? q then MNormal else MQuote q
  | MComment => if c =? NL then MNormal else MComment
  | MNormal => if is_quote c then MQuote c
               else if (c =? DASH) && next_is_dash r then MComment
               else MNormal
  end.
(* what `c` does to the depth counter: +1 live `(`, -1 live `)`, 0 anything else *)
Definition lex_delta (m : mode) (c : Z) (r : list Z) : Z :=
  match m with
  | MNormal => if is_quote c then 0
               else if (c =? DASH) && next_is_dash r then 0
               else if c =? LP then 1 else if c =? RP then (-1) else 0
  | _ => 0
  end.

(* the scanner as coded: (depth, best) threaded through the loop; returns `best`.
   depth and best are usize; they are bounded by the number of code points read (theorem depth_le_length), so they
   cannot wrap for any string that exists in memory. *)
Fixpoint scan (m : mode) (depth best : Z) (s : list Z) : Z :=
  match s with
  | [] => best
  | c :: r =>
      match m with
      | MQuote q => scan (if c =? q then MNormal else MQuote q) depth best r
      | MComment => scan (if c =? NL then MNormal else MComment) depth best r
      | MNormal =>
          if is_quote c then scan (MQuote c) depth best r
          else if (c =? DASH) && next_is_dash r then scan MComment depth best r
          else if c =? LP then scan MNormal (depth + 1) (Z.max best (depth + 1)) r
          else if c =? RP then scan MNormal (sat_dec depth) best r
          else scan MNormal depth best r
      end
  end.
Definition paren_depth (s : list Z) : Z := scan MNormal 0 0 s.
(* check_nesting: Ok(()) = true, Err("expression nesting deeper than 47 parentheses") = false *)
Definition check_nesting (s : list Z) : bool := negb (MAX_PAREN_DEPTH <? paren_depth s).

(* ---- the specification: lexical classification, then the balance trajectory as a fold ---- *)
Fixpoint deltas_from (m : mode) (s : list Z) : list Z :=
  match s with
  | [] => []
  | c :: r => lex_delta m c r :: deltas_from (lex_step m c r) r
  end.
Definition deltas (s : list Z) : list Z := deltas_from MNormal s.
(* saturating open-minus-close balance after one more code point *)
Definition bal_step (b d : Z) : Z := Z.max 0 (b + d).
(* the trajectory: balance after each code point, starting from balance b *)
Fixpoint traj_from (b : Z) (ds : list Z) : list Z :=
  match ds with [] => [] | d :: r => bal_step b d :: traj_from (bal_step b d) r end.
Definition traj (s : list Z) : list Z := traj_from 0 (deltas s).
Definition balance (s : list Z) : Z := fold_left bal_step (deltas s) 0.     (* balance at the end of s *)
Definition max0 (l : list Z) : Z := fold_right Z.max 0 l.
(* the classic notions, for strings without quotes / dashes *)
Definition plain_delta (c : Z) : Z := if c =? LP then 1 else if c =? RP then (-1) else 0.
Fixpoint sums_from (b : Z) (ds : list Z) : list Z :=
  match ds with [] => [] | d :: r => (b + d) :: sums_from (b + d) r end.
Definition classic_depth (s : list Z) : Z := max0 (sums_from 0 (map plain_delta s)).   (* max over prefixes of #( - #) *)
Definition no_lexical (s : list Z) : bool := forallb (fun c => negb (is_quote c) && negb (c =? DASH)) s.

(* =====================================================================================================
   2. Integer kernels (i32 / i64; `bits` = 32 or 64)
   ===================================================================================================== *)
Definition imin (bits : Z) : Z := - 2 ^ (bits - 1).
Definition imax (bits : Z) : Z := 2 ^ (bits - 1) - 1.
Definition in_range (bits z : Z) : bool := (imin bits <=? z) && (z <=? imax bits).

(* observable outcome of evaluating one expression for one row *)
Inductive obs := OVal (z : Z) | ONull | OErr | OPanic.
Definition obs_eqb (a b : obs) : bool :=
  match a, b with
  | OVal x, OVal y => x =? y | ONull, ONull => true | OErr, OErr => true | OPanic, OPanic => true | _, _ => false
  end.

(* std: checked_add / checked_sub / checked_mul -> arrow add_checked ... -> ArrowError::ArithmeticOverflow *)
Definition k_add (bits x y : Z) : obs := if in_range bits (x + y) then OVal (x + y) else OErr.
Definition k_sub (bits x y : Z) : obs := if in_range bits (x - y) then OVal (x - y) else OErr.
Definition k_mul (bits x y : Z) : obs := if in_range bits (x * y) then OVal (x * y) else OErr.
(* arrow div_checked: `if rhs.is_zero() { Err(DivideByZero) } else { self.checked_div(rhs).ok_or(overflow) }`;
   std checked_div: None when `rhs == 0 || (self == MIN && rhs == -1)`, else `self / rhs` (truncating) *)
Definition k_div (bits x y : Z) : obs :=
  if y =? 0 then OErr
  else if (x =? imin bits) && (y =? -1) then OErr
  else OVal (Z.quot x y).
(* arrow Op::Rem: `if r.is_zero() { Err(DivideByZero) } else { Ok(l.mod_wrapping(r)) }`;
   mod_wrapping = wrapping_rem: `if rhs == -1 { 0 } else { self % rhs }` (truncating remainder) *)
Definition k_rem (bits x y : Z) : obs :=
  if y =? 0 then OErr
  else OVal (if y =? -1 then 0 else Z.rem x y).
(* numeric::neg -> neg_checked -> checked_neg: None when self == MIN *)
Definition k_neg (bits x : Z) : obs := if x =? imin bits then OErr else OVal (- x).
(* ScalarFunction::Abs (after fix 4e93f42): any MIN in the column => Err("ABS: integer overflow"), else x.abs() *)
Definition k_abs (bits x : Z) : obs := if x =? imin bits then OErr else OVal (Z.abs x).

(* operator codes shared with checks/C29.py: 0 + | 1 - | 2 * | 3 / | 4 % | 5 unary minus | 6 abs *)
Definition k_op (op bits x y : Z) : obs :=
  if op =? 0 then k_add bits x y else if op =? 1 then k_sub bits x y else if op =? 2 then k_mul bits x y
  else if op =? 3 then k_div bits x y else if op =? 4 then k_rem bits x y
  else if op =? 5 then k_neg bits x else k_abs bits x.
(* the mathematical result (truncating division / remainder); None = undefined (divisor 0) *)
Definition math_op (op x y : Z) : option Z :=
  if op =? 0 then Some (x + y) else if op =? 1 then Some (x - y) else if op =? 2 then Some (x * y)
  else if op =? 3 then (if y =? 0 then None else Some (Z.quot x y))
  else if op =? 4 then (if y =? 0 then None else Some (Z.rem x y))
  else if op =? 5 then Some (- x) else Some (Z.abs x).

(* ---- the constant folder: ConstantFolding::eval_int64 on two Int64 literals (as repaired by c308f13) ----
   FNone: "not folded" (the expression stays and is evaluated by the kernels above at run time). *)
Inductive fold_res := FVal (z : Z) | FNone | FPanic.
Definition f_op (op x y : Z) : fold_res :=
  if op =? 0 then (if in_range 64 (x + y) then FVal (x + y) else FNone)           (* left.checked_add(right)? *)
  else if op =? 1 then (if in_range 64 (x - y) then FVal (x - y) else FNone)
  else if op =? 2 then (if in_range 64 (x * y) then FVal (x * y) else FNone)
  else if op =? 3 then (if (y =? 0) || ((x =? imin 64) && (y =? -1)) then FNone    (* left.checked_div(right)? *)
                        else FVal (Z.quot x y))
  else if op =? 4 then (if y =? 0 then FNone                                        (* if right == 0 { None } *)
                        else FVal (if y =? -1 then 0 else Z.rem x y))               (* left.wrapping_rem(right) *)
  else FNone.                                                                       (* unary operators are not folded *)
(* before c308f13: `left / right` and `left % right` — both PANIC on MIN and -1, in every build profile *)
Definition f_op_before_fix (op x y : Z) : fold_res :=
  if op =? 3 then (if y =? 0 then FNone else if in_range 64 (Z.quot x y) then FVal (Z.quot x y) else FPanic)
  else if op =? 4 then (if y =? 0 then FNone else if (x =? imin 64) && (y =? -1) then FPanic else FVal (Z.rem x y))
  else f_op op x y.
(* a statement `SELECT <lit x> op <lit y>`: folded if the folder folds, otherwise the run-time kernel *)
Definition lit_with (f : Z -> Z -> Z -> fold_res) (op x y : Z) : obs :=
  match f op x y with FVal v => OVal v | FPanic => OPanic | FNone => k_op op 64 x y end.
Definition lit_op := lit_with f_op.
Definition lit_op_before_fix := lit_with f_op_before_fix.

(* =====================================================================================================
   3. date32_to_naive and chrono's from_num_days_from_ce_opt
   ===================================================================================================== *)
(* ---- the specification of a calendar date: proleptic Gregorian civil date <-> days since 1970-01-01
   (Hinnant's civil_from_days / days_from_civil).  Textually the same functions as the date specification of C36
   (coq/theories/C36/Model.v); copied so that C29 does not depend on the scalar-function model. ---- *)
Definition civil_from_days (z0 : Z) : Z * Z * Z :=
  let z := z0 + 719468 in
  let era := z / 146097 in
  let doe := z mod 146097 in
  let yoe := (doe - doe / 1460 + doe / 36524 - doe / 146096) / 365 in
  let doy := doe - (365 * yoe + yoe / 4 - yoe / 100) in
  let mp := (5 * doy + 2) / 153 in
  let d := doy - (153 * mp + 2) / 5 + 1 in
  let m := if mp <? 10 then mp + 3 else mp - 9 in
  (yoe + era * 400 + (if m <=? 2 then 1 else 0), m, d).
Definition days_from_civil (y0 m d : Z) : Z :=
  let y := if m <=? 2 then y0 - 1 else y0 in
  let era := y / 400 in
  let yoe := y mod 400 in
  let doy := (153 * (if 2 <? m then m - 3 else m + 9) + 2) / 5 + d - 1 in
  let doe := yoe * 365 + yoe / 4 - yoe / 100 + doy in
  era * 146097 + doe - 719468.
Definition is_leap (y : Z) : bool := ((y mod 4 =? 0) && negb (y mod 100 =? 0)) || (y mod 400 =? 0).
Definition dim (y m : Z) : Z :=
  if m =? 2 then (if is_leap y then 29 else 28)
  else if (m =? 4) || (m =? 6) || (m =? 9) || (m =? 11) then 30 else 31.
Definition valid_ymd (y m d : Z) : bool := (1 <=? m) && (m <=? 12) && (1 <=? d) && (d <=? dim y m).

(* i32 arithmetic with the overflow made explicit *)
Inductive R (A : Type) := ROk (a : A) | RPanic.
Arguments ROk {A} a.  Arguments RPanic {A}.
Definition is_i32 (z : Z) : bool := in_range 32 z.
Definition is_u32 (z : Z) : bool := (0 <=? z) && (z <? 2 ^ 32).
Definition checked_add32 (a b : Z) : option Z := if is_i32 (a + b) then Some (a + b) else None.
(* unchecked i32 / u32 operation: PANIC when the result leaves the range *)
Definition i32op {A} (z : Z) (k : Z -> R A) : R A := if is_i32 z then k z else RPanic.
Definition u32op {A} (z : Z) (k : Z -> R A) : R A := if is_u32 z then k z else RPanic.

Definition MIN_YEAR := -262143.     (* (i32::MIN >> 13) + 1 *)
Definition MAX_YEAR := 262142.      (* (i32::MAX >> 13) - 1 *)
(* chrono's table YEAR_DELTAS[0..=400] (leap days before year y of a 400-year cycle that starts with leap year 0);
   the closed form below reproduces all 401 entries of the table in chrono-0.4.45/src/naive/date/mod.rs *)
Definition year_delta (y : Z) : Z := (y + 3) / 4 - (y + 99) / 100 + (y + 399) / 400.
(* cycle_to_yo(cycle: u32) -> (year_mod_400, ordinal) *)
Definition cycle_to_yo (cycle : Z) : R (Z * Z) :=
  let ym := cycle / 365 in
  let ord0 := cycle mod 365 in
  if 400 <? ym then RPanic                               (* YEAR_DELTAS[ym]: index out of bounds *)
  else
    let delta := year_delta ym in
    if ord0 <? delta then
      u32op (ym - 1) (fun ym' =>                         (* year_mod_400 -= 1 *)
      u32op (365 - year_delta ym') (fun t =>             (* 365 - YEAR_DELTAS[..] as u32 *)
      u32op (ord0 + t) (fun o =>
      u32op (o + 1) (fun o1 => ROk (ym', o1)))))
    else
      u32op (ord0 - delta) (fun o =>                     (* guarded by the comparison *)
      u32op (o + 1) (fun o1 => ROk (ym, o1))).
(* a NaiveDate is represented by (year, ordinal day of the year 1..366) *)
Definition chrono_from_ce (days : Z) : R (option (Z * Z)) :=
  match checked_add32 days 365 with                      (* days.checked_add(365)? *)
  | None => ROk None
  | Some d =>
      let year_div_400 := d / 146097 in                  (* div_euclid, divisor > 0: floor *)
      let cycle := d mod 146097 in                       (* rem_euclid *)
      match cycle_to_yo cycle with
      | RPanic => RPanic
      | ROk (ym, ord) =>
          i32op (year_div_400 * 400) (fun a =>
          i32op (a + ym) (fun year =>
            (* from_ordinal_and_flags *)
            if (year <? MIN_YEAR) || (MAX_YEAR <? year) then ROk None
            else if (ord =? 0) || (366 <? ord) then ROk None
            else if (ord =? 366) && negb (is_leap year) then ROk None
            else ROk (Some (year, ord))))
      end
  end.
(* fn date32_to_naive(days: i32) -> Option<NaiveDate> { from_num_days_from_ce_opt(days.checked_add(719163)?) } *)
Definition date32_to_naive (days : Z) : R (option (Z * Z)) :=
  match checked_add32 days 719163 with
  | None => ROk None
  | Some d => chrono_from_ce d
  end.

(* month and day of (year, ordinal): Datelike::month() / day() *)
Definition month_len (leap : bool) (m : Z) : Z :=
  if m =? 2 then (if leap then 29 else 28) else if (m =? 4) || (m =? 6) || (m =? 9) || (m =? 11) then 30 else 31.
Fixpoint md_go (fuel : nat) (leap : bool) (m ord : Z) : Z * Z :=
  match fuel with
  | O => (m, ord)
  | S f => if ord <=? month_len leap m then (m, ord) else md_go f leap (m + 1) (ord - month_len leap m)
  end.
Definition md_of_ordinal (leap : bool) (ord : Z) : Z * Z := md_go 11 leap 1 ord.
Definition ymd_of (yo : Z * Z) : Z * Z * Z :=
  let '(y, o) := yo in let '(m, d) := md_of_ordinal (is_leap y) o in (y, m, d).

(* the conversion with the calendar fields spelled out *)
Definition naive_ymd (days : Z) : R (option (Z * Z * Z)) :=
  match date32_to_naive days with RPanic => RPanic | ROk None => ROk None | ROk (Some yo) => ROk (Some (ymd_of yo)) end.

(* the Date32 values chrono can represent: -262143-01-01 .. 262142-12-31 *)
Definition DMIN := -96465292.
Definition DMAX := 95026236.
Definition date_in_range (d : Z) : bool := (DMIN <=? d) && (d <=? DMAX).

(* EXTRACT(field FROM d): `date32_to_naive(days).unwrap_or_default()`, default = 1970-01-01;
   field 0 YEAR, 1 MONTH, 2 DAY, anything else => 0 *)
Definition field_of (f : Z) (ymd : Z * Z * Z) : Z :=
  let '(y, m, d) := ymd in if f =? 0 then y else if f =? 1 then m else if f =? 2 then d else 0.
Definition m_extract (f d : Z) : obs :=
  match date32_to_naive d with
  | RPanic => OPanic
  | ROk None => OVal (field_of f (1970, 1, 1))
  | ROk (Some yo) => OVal (field_of f (ymd_of yo))
  end.

(* DATE_TRUNC(unit, d) on Date32: `date32_to_naive(days)?` (NULL when unrepresentable);
   units 0 day | 1 week | 2 month | 3 quarter | 4 year | other => NULL.
   week (as repaired by a29b909): `date.checked_sub_signed(Duration::days(weekday.num_days_from_monday()))?` — NULL when
   the Monday lies before NaiveDate::MIN (which is a Thursday).  Before the fix: `date - Duration::days(..)`, the
   PANICKING Sub ("`NaiveDate - TimeDelta` overflowed").
   month/quarter/year: NaiveDate::from_ymd_opt(year, month', 1)? — the year is unchanged, hence always Some. *)
Definition trunc_with (week_underflow : obs) (u d : Z) : obs :=
  match date32_to_naive d with
  | RPanic => OPanic
  | ROk None => ONull
  | ROk (Some yo) =>
      let '(y, m, _) := ymd_of yo in
      if u =? 0 then OVal d
      else if u =? 1 then (let monday := d - (d + 3) mod 7 in if monday <? DMIN then week_underflow else OVal monday)
      else if u =? 2 then OVal (days_from_civil y m 1)
      else if u =? 3 then OVal (days_from_civil y (((m - 1) / 3) * 3 + 1) 1)
      else if u =? 4 then OVal (days_from_civil y 1 1)
      else ONull
  end.
Definition m_date_trunc := trunc_with ONull.
Definition m_date_trunc_before_fix := trunc_with OPanic.

(* DATE_ADD(unit, v, d) on Date32 (v: i64), as repaired by 54868b4.
   day / week: `date.checked_add_signed(Duration::try_days(v)?)?`; try_days: None when v * 86400 s is outside TimeDelta's
   range (|v| > 106751991167; weeks: |v| > 15250284452); checked_add_signed: None unless num_days fits i32 and the sum is
   representable.  Before the fix `Duration::days(v)` PANICKED outside TimeDelta's range. *)
Definition TD_MAX_DAYS := 106751991167.
Definition TD_MAX_WEEKS := 15250284452.
Definition add_days_with (td_overflow : obs) (td_max per v d : Z) : obs :=
  match date32_to_naive d with
  | RPanic => OPanic
  | ROk None => ONull
  | ROk (Some _) =>
      if (v <? - td_max) || (td_max <? v) then td_overflow
      else if negb (is_i32 (per * v)) then ONull
      else if date_in_range (d + per * v) then OVal (d + per * v) else ONull
  end.
Definition m_date_add_day := add_days_with ONull TD_MAX_DAYS 1.
Definition m_date_add_week := add_days_with ONull TD_MAX_WEEKS 7.
Definition m_date_add_day_before_fix := add_days_with OPanic TD_MAX_DAYS 1.
(* month: month_offset(v) = (v < 0, Months(u32::try_from(|v|).ok()?)); checked_add_months / checked_sub_months:
   0 months => unchanged; more than i32::MAX months => None; else diff_months(±months):
   (year*12 + month - 1).checked_add(months)?, clamp the day to the month's length, from_ymd_opt (None when the year
   leaves chrono's range).  year: month_offset(v.checked_mul(12)?). *)
Definition m_date_add_month (v d : Z) : obs :=
  match date32_to_naive d with
  | RPanic => OPanic
  | ROk None => ONull
  | ROk (Some yo) =>
      let '(y, m, dd) := ymd_of yo in
      if 2 ^ 32 - 1 <? Z.abs v then ONull                   (* u32::try_from *)
      else if v =? 0 then OVal d
      else if 2 ^ 31 - 1 <? Z.abs v then ONull              (* months.0 <= i32::MAX *)
      else match checked_add32 (y * 12 + m - 1) v with
           | None => ONull
           | Some t => let y' := t / 12 in let m' := t mod 12 + 1 in
                       if (y' <? MIN_YEAR) || (MAX_YEAR <? y') then ONull
                       else OVal (days_from_civil y' m' (Z.min dd (dim y' m')))
           end
  end.
Definition m_date_add_year (v d : Z) : obs :=
  if in_range 64 (v * 12) then m_date_add_month (v * 12) d
  else match date32_to_naive d with RPanic => OPanic | _ => ONull end.
(* units shared with checks/C29.py: 0 day | 1 week | 2 month | 4 year *)
Definition m_date_add (u v d : Z) : obs :=
  if u =? 0 then m_date_add_day v d else if u =? 1 then m_date_add_week v d
  else if u =? 2 then m_date_add_month v d else m_date_add_year v d.

(* =====================================================================================================
   4. JoinReorder::estimate_relation_size_score, statistics branch
        let score = 10000 - (row_count.max(1) as f64).log2() as i32 * 500;   (+ 1500 when the relation has a filter)
   `lg` is the value of `(m as f64).log2() as i32` for m = max(1, row_count):
     * m < 2^53: `m as f64` is exact.  log2 is monotone and exact on powers of two, so floor(log2 m) <= lg; the libm
       result is within 1 ulp of the true logarithm, and the true logarithm is < floor(log2 m) + 1, so after rounding
       lg <= floor(log2 m) + 1 (equality only when m is just below a power of two: 2^k - j with k >= 49 rounds up to k).
     * 2^53 <= m < 2^64: `m as f64` rounds to a neighbouring double in [2^53, 2^64], monotonically; again
       floor(log2 m) <= lg <= floor(log2 m) + 1 <= 64.
   The model takes lg as a parameter constrained to that interval; `score n f` uses floor(log2) itself. *)
Definition log2_floor (m : Z) : Z := Z.log2 m.            (* = N.log2, m >= 1 *)
Definition score_with (lg : Z) (has_filter : bool) : R Z :=
  i32op (lg * 500) (fun a =>
  i32op (10000 - a) (fun s =>
  if has_filter then i32op (s + 1500) (fun s' => ROk s') else ROk s)).
Definition score (n : Z) (has_filter : bool) : R Z := score_with (log2_floor (Z.max 1 n)) has_filter.
(* before fix 993b9a5: `(row_count as f64).log2() as i32` with row_count = 0 is -inf as i32 = i32::MIN *)
Definition score_before_fix (n : Z) (has_filter : bool) : R Z :=
  score_with (if n =? 0 then imin 32 else log2_floor n) has_filter.

(* =====================================================================================================
   Executable specs and the per-case checks evaluated by checks/C29.py
   every check returns [impl == model; impl meets the spec; known-class id]
   ===================================================================================================== *)
(* C29 itself: a result or an error, never a panic *)
Definition spec_obs (o : obs) : bool := match o with OPanic => false | _ => true end.
(* guard: it must fire whenever some prefix is nested deeper than 47 (firing more often is an error return: allowed) *)
Definition spec_guard (s : list Z) (fired : bool) : bool := if MAX_PAREN_DEPTH <? max0 (traj s) then fired else true.
Definition chk_guard (s : list Z) (fired : bool) : list Z :=
  [b2z (Bool.eqb fired (negb (check_nesting s))); b2z (spec_guard s fired); 0].
(* integer operation: no panic, and a value is the mathematical result *)
Definition spec_int (op x y : Z) (o : obs) : bool :=
  match o with
  | OPanic => false
  | OVal v => match math_op op x y with Some r => v =? r | None => false end
  | _ => true
  end.
Definition all_eq (m : obs) (impls : list obs) : bool := forallb (fun o => obs_eqb o m) impls.
(* run-time kernel forms (columns, CAST literals, unary-minus literals): all must equal k_op *)
Definition chk_int (op bits x y : Z) (impls : list obs) : list Z :=
  [b2z (all_eq (k_op op bits x y) impls); b2z (forallb (spec_int op x y) impls); 0].
(* literal form that reaches the constant folder *)
Definition chk_lit (op x y : Z) (impls : list obs) : list Z :=
  [b2z (all_eq (lit_op op x y) impls); b2z (forallb (spec_int op x y) impls); 0].
Definition chk_obs (m : obs) (k : Z) (impl : obs) : list Z := [b2z (obs_eqb impl m); b2z (spec_obs impl); k].
Definition chk_extract (f d : Z) (impl : obs) : list Z := chk_obs (m_extract f d) 0 impl.
Definition chk_trunc (u d : Z) (impl : obs) : list Z := chk_obs (m_date_trunc u d) 0 impl.
Definition chk_add (u v d : Z) (impl : obs) : list Z := chk_obs (m_date_add u v d) 0 impl.
