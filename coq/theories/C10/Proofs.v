(* C10 proofs: any failing shard fails the query; every strict prefix of a worker's reply is a failure for the client
   as it is now; the IPC decoder alone accepts a stream that ends at a message boundary without the end marker. *)
From QV Require Import C16.Model C16.Proofs C10.Model.

(* ---------------- little-endian i32 ---------------- *)
Lemma le32_length n : length (le32 n) = 4%nat.
Proof. reflexivity. Qed.

Lemma of_le32_le32 n : 0 <= n < 2147483648 -> of_le32 (le32 n) = n.
Proof.
  intros H. unfold of_le32, le32.
  assert (E : n mod 256 + 256 * ((n / 256) mod 256) + 65536 * ((n / 65536) mod 256) + 16777216 * ((n / 16777216) mod 256) = n).
  { pose proof (Z.div_mod n 256 ltac:(lia)) as H0.
    pose proof (Z.div_mod (n / 256) 256 ltac:(lia)) as H1.
    pose proof (Z.div_mod (n / 65536) 256 ltac:(lia)) as H2.
    replace (n / 256 / 256) with (n / 65536) in H1 by (rewrite Z.div_div by lia; reflexivity).
    replace (n / 65536 / 256) with (n / 16777216) in H2 by (rewrite Z.div_div by lia; reflexivity).
    assert (D : 0 <= n / 16777216 < 256).
    { split; [apply Z.div_pos; lia|]. apply Z.div_lt_upper_bound; lia. }
    rewrite (Z.mod_small (n / 16777216) 256 D). lia. }
  rewrite E. assert (L : n <? 2147483648 = true) by (apply Z.ltb_lt; lia). now rewrite L.
Qed.

Lemma zlen_app a b : zlen (a ++ b) = zlen a + zlen b.
Proof. unfold zlen. rewrite app_length. lia. Qed.
Lemma zlen_nonneg a : 0 <= zlen a.
Proof. unfold zlen. lia. Qed.
Lemma firstn_zlen_app (a b : list Z) : firstn (Z.to_nat (zlen a)) (a ++ b) = a.
Proof. unfold zlen. rewrite Nat2Z.id. apply firstn_app_exact. Qed.
Lemma skipn_zlen_app (a b : list Z) : skipn (Z.to_nat (zlen a)) (a ++ b) = b.
Proof.
  unfold zlen. rewrite Nat2Z.id. replace (length a) with (length a + 0)%nat by lia. apply skipn_app_plus.
Qed.

Section IpcProofs.
  Variable body_len : list Z -> option Z.
  (* a message as the writer frames it *)
  Definition wfm (m : msg) : Prop := 0 < zlen (m_meta m) < 2147483648 /\ body_len (m_meta m) = Some (zlen (m_body m)).

  Lemma firstn4_cont X : firstn 4 (CONT ++ X) = CONT. Proof. reflexivity. Qed.
  Lemma skipn4_cont X : skipn 4 (CONT ++ X) = X. Proof. reflexivity. Qed.
  Lemma firstn4_le32 n Y : firstn 4 (le32 n ++ Y) = le32 n. Proof. reflexivity. Qed.
  Lemma skipn4_le32 n Y : skipn 4 (le32 n ++ Y) = Y. Proof. reflexivity. Qed.

  Lemma read_frame m rest : wfm m -> read_msg body_len (frame m ++ rest) = RdMsg m rest.
  Proof.
    intros [Hl Hb]. destruct m as [meta body]. cbn [m_meta m_body] in *.
    unfold frame. cbn [m_meta m_body]. rewrite <- !app_assoc.
    set (X := le32 (zlen meta) ++ meta ++ body ++ rest). unfold read_msg.
    assert (L0 : (length (CONT ++ X) <? 4)%nat = false) by (apply Nat.ltb_ge; rewrite app_length; cbn [CONT length]; lia).
    rewrite L0, firstn4_cont, skipn4_cont. change (list_eqb Z.eqb CONT CONT) with true. cbn [andb].
    subst X.
    assert (L1 : (length (le32 (zlen meta) ++ meta ++ body ++ rest) <? 4)%nat = false)
      by (apply Nat.ltb_ge; rewrite app_length, le32_length; lia).
    rewrite L1, firstn4_le32, skipn4_le32, of_le32_le32 by lia.
    assert (E0 : zlen meta =? 0 = false) by (apply Z.eqb_neq; lia).
    assert (E1 : zlen meta <? 0 = false) by (apply Z.ltb_ge; lia).
    assert (E2 : zlen (meta ++ body ++ rest) <? zlen meta = false).
    { apply Z.ltb_ge. rewrite zlen_app. pose proof (zlen_nonneg (body ++ rest)). lia. }
    rewrite E0, E1, E2, firstn_zlen_app, skipn_zlen_app, Hb.
    assert (E3 : (zlen body <? 0) || (zlen (body ++ rest) <? zlen body) = false).
    { apply orb_false_iff. split; apply Z.ltb_ge; [apply zlen_nonneg|]. rewrite zlen_app. pose proof (zlen_nonneg rest). lia. }
    rewrite E3, firstn_zlen_app, skipn_zlen_app. reflexivity.
  Qed.

  Lemma read_short b : (length b < 4)%nat -> read_msg body_len b = RdEnd.
  Proof. intros H. unfold read_msg. apply Nat.ltb_lt in H. now rewrite H. Qed.

  Lemma read_eos rest : read_msg body_len (EOS ++ rest) = RdEnd.
  Proof. reflexivity. Qed.

  Lemma read_frames ms : forall fuel tail, (length ms < fuel)%nat -> Forall wfm ms ->
    read_all body_len fuel (frames ms ++ tail)
    = match read_all body_len (fuel - length ms) tail with Some r => Some (ms ++ r) | None => None end.
  Proof.
    induction ms as [|m ms IH]; intros fuel tail Hf Hw.
    - cbn [frames map concat app length]. rewrite Nat.sub_0_r. now destruct (read_all body_len fuel tail).
    - inversion Hw as [|? ? Hm Hms]; subst. destruct fuel as [|fuel]; [cbn in Hf; lia|].
      cbn [frames map concat]. fold (frames ms). rewrite <- app_assoc. cbn [read_all].
      rewrite read_frame by assumption. cbn [length] in *. rewrite IH by (auto; lia).
      cbn [Nat.sub]. now destruct (read_all body_len (fuel - length ms) tail).
  Qed.

  Lemma frames_length ms : Forall wfm ms -> (length ms <= length (frames ms))%nat.
  Proof.
    induction 1 as [|m ms Hm _ IH]; [cbn; lia|]. cbn [frames map concat length]. fold (frames ms).
    rewrite app_length. unfold frame at 1. rewrite !app_length. cbn [CONT length]. lia.
  Qed.

  (* the writer's stream decodes to exactly its messages *)
  Theorem decode_roundtrip ms : Forall wfm ms -> decode_stream body_len (stream ms) = Some ms.
  Proof.
    intros H. unfold decode_stream, stream. pose proof (frames_length ms H).
    rewrite read_frames by (auto; rewrite app_length; cbn [EOS CONT app length]; lia).
    destruct (S (length (frames ms ++ EOS)) - length ms)%nat eqn:E;
      [rewrite app_length in E; cbn [EOS CONT app length] in E; lia|].
    cbn [read_all]. rewrite <- (app_nil_r EOS), read_eos. now rewrite app_nil_r.
  Qed.

  (* EOF without the end-of-stream marker is accepted: a stream that simply stops at a message boundary (or up to
     three bytes into the next message) decodes as a valid, shorter stream *)
  Theorem eof_without_eos_accepted ms junk : Forall wfm ms -> (length junk < 4)%nat ->
    decode_stream body_len (frames ms ++ junk) = Some ms.
  Proof.
    intros H Hj. unfold decode_stream. pose proof (frames_length ms H).
    rewrite read_frames by (auto; rewrite app_length; lia).
    destruct (S (length (frames ms ++ junk)) - length ms)%nat eqn:E; [rewrite app_length in E; lia|].
    cbn [read_all]. rewrite read_short by assumption. now rewrite app_nil_r.
  Qed.

  Lemma frames_app a b : frames (a ++ b) = frames a ++ frames b.
  Proof. unfold frames. now rewrite map_app, concat_app. Qed.

  (* ... so a reply cut at a batch boundary is, for the decoder alone, a complete answer with fewer batches *)
  Theorem ipc_cut_at_boundary_accepted schema a b :
    Forall wfm (schema :: a ++ b) -> b <> [] ->
    let whole := stream (schema :: a ++ b) in
    let k := length (frames (schema :: a)) in
    (k < length whole)%nat /\ decode_ipc body_len whole = Some (a ++ b) /\ decode_ipc body_len (firstn k whole) = Some a.
  Proof.
    intros H Hb whole k. subst whole k.
    assert (Hsa : Forall wfm (schema :: a)).
    { inversion H; subst. constructor; auto. apply Forall_app in H3. tauto. }
    assert (E : stream (schema :: a ++ b) = frames (schema :: a) ++ (frames b ++ EOS)).
    { unfold stream. change (schema :: a ++ b) with ((schema :: a) ++ b). now rewrite frames_app, <- app_assoc. }
    split; [|split].
    - rewrite E, !app_length. cbn [EOS CONT app length]. lia.
    - unfold decode_ipc. now rewrite decode_roundtrip.
    - rewrite E, firstn_app_exact. unfold decode_ipc.
      rewrite <- (app_nil_r (frames (schema :: a))), eof_without_eos_accepted by (auto; cbn; lia). reflexivity.
  Qed.

  (* ---------------- one shard ---------------- *)
  Notation recv := (recv body_len).
  Notation shard_of := (shard_of body_len).
  Notation is_fault := (is_fault body_len).

  (* every_truncation_fails: with the Content-Length check EVERY strict prefix of a well-formed reply is a failure,
     whatever the IPC decoder would have made of the bytes *)
  Theorem every_truncation_fails w k : wf w = true -> (k < length (render w))%nat ->
    recv (firstn k (render w)) = Failed.
  Proof. intros H Hk. unfold Model.recv, recv_with. now rewrite truncation_rejected_checked. Qed.

  Theorem recv_full w schema bs : wf w = true -> success (w_status w) = true ->
    w_body w = stream (schema :: bs) -> Forall wfm (schema :: bs) ->
    recv (render w) = Batches bs.
  Proof.
    intros H Hs Hb Hw. unfold Model.recv, recv_with.
    destruct (full_response_checked w H) as [_ ->]. cbn [expected r_status r_body]. rewrite Hs.
    unfold decode_ipc. now rewrite Hb, decode_roundtrip.
  Qed.

  Lemma http_error_fails w : wf w = true -> success (w_status w) = false -> recv (render w) = Failed.
  Proof.
    intros H Hs. unfold Model.recv, recv_with. destruct (full_response_checked w H) as [_ ->].
    cbn [expected r_status]. now rewrite Hs.
  Qed.

  Lemma corrupt_fails w : wf w = true -> decode_ipc body_len (w_body w) = None -> recv (render w) = Failed.
  Proof.
    intros H Hd. unfold Model.recv, recv_with. destruct (full_response_checked w H) as [_ ->].
    cbn [expected r_status r_body]. rewrite Hd. now destruct (success (w_status w)).
  Qed.

  Lemma fault_fails o : is_fault o = true -> shard_of o = Failed.
  Proof.
    destruct o as [w| |w|w k|w|w]; cbn [Model.is_fault Model.shard_of wire]; intros H; try discriminate; try reflexivity.
    - apply andb_true_iff in H as [H1 H2]. apply negb_true_iff in H2. now apply http_error_fails.
    - apply andb_true_iff in H as [H1 H2]. apply Nat.ltb_lt in H2. now apply every_truncation_fails.
    - apply andb_true_iff in H as [H1 H2]. apply corrupt_fails; [exact H1|].
      now destruct (decode_ipc body_len (w_body w)).
    - apply andb_true_iff in H as [H1 H2]. apply Z.eqb_eq in H2. apply http_error_fails; [exact H1|]. now rewrite H2.
  Qed.

  (* ---------------- the whole query ---------------- *)
  Lemma collect_failed rs : In Failed rs -> collect rs = None.
  Proof.
    induction rs as [|r t IH]; intros H; [destruct H|]. destruct r as [|b]; [reflexivity|].
    destruct H as [H|H]; [discriminate|]. cbn [collect]. now rewrite (IH H).
  Qed.

  (* any_failure_fails: one failing shard — transport error, HTTP error, a reply cut at any byte, a corrupt payload, a
     digest mismatch — and the distributed query has no answer, wherever the shard stands and whatever the others did *)
  Theorem any_failure_fails local outs o :
    In o outs -> is_fault o = true -> collect_outcomes body_len local outs = None.
  Proof.
    intros Hin Hf. unfold collect_outcomes. apply collect_failed. apply in_or_app. right.
    rewrite <- (fault_fails o Hf). now apply in_map.
  Qed.

  Theorem local_failure_fails outs : collect_outcomes body_len (Some Failed) outs = None.
  Proof. reflexivity. Qed.

  (* all or nothing: an answer exists only if EVERY shard delivered, and it is then made of all their batches *)
  Fixpoint batches_of (rs : list shard_result) : list msg :=
    match rs with [] => [] | Failed :: t => batches_of t | Batches b :: t => b ++ batches_of t end.
  Theorem all_or_nothing rs bs : collect rs = Some bs -> ~ In Failed rs /\ bs = batches_of rs.
  Proof.
    revert bs. induction rs as [|r t IH]; intros bs H; cbn [collect] in H.
    - inversion H. split; [intros []|reflexivity].
    - destruct r as [|b]; [discriminate|]. destruct (collect t) as [x|] eqn:E; [|discriminate]. inversion H; subst.
      destruct (IH x eq_refl) as [N ->]. split; [|reflexivity]. intros [X|X]; [discriminate|contradiction].
  Qed.
End IpcProofs.

(* ---------------- the client before 3b03f26, for the record ---------------- *)
(* "HTTP/1.1 200 OK\r\nContent-Length: 96\r\n\r\n" + schema, two batches, end marker; cut after the first batch.
   The old client returned the short body, the decoder accepted it: one batch instead of two. The client as it is
   now fails the shard (every_truncation_fails). *)
Definition ex_msgs : list msg := [syn_msg 8 0; syn_msg 8 16; syn_msg 8 16].
Definition ex_reply : wresp :=
  mkW [72;84;84;80;47;49;46;49] 200 [79;75]
      [([67;111;110;116;101;110;116;45;76;101;110;103;116;104], dec (zlen (stream ex_msgs)))] (stream ex_msgs).
Definition ex_cut : nat := (length (render_head ex_reply) + 4 + length (frames (firstn 2 ex_msgs)))%nat.

Theorem truncation_at_message_boundary_refuted_before_fix :
  wf ex_reply = true /\ (ex_cut < length (render ex_reply))%nat
  /\ recv syn_body_len (render ex_reply) = Batches (skipn 1 ex_msgs)
  /\ recv_before_fix syn_body_len (firstn ex_cut (render ex_reply)) = Batches [syn_msg 8 16]
  /\ recv syn_body_len (firstn ex_cut (render ex_reply)) = Failed.
Proof.
  split; [vm_compute; reflexivity|]. split; [apply Nat.ltb_lt; vm_compute; reflexivity|].
  split; [vm_compute; reflexivity|]. split; vm_compute; reflexivity.
Qed.

(* the hypotheses of any_failure_fails are satisfiable for every fault kind *)
Example faults_example :
  let bad := mkW [72;84;84;80;47;49;46;49] 500 [79;75] [([67;111;110;116;101;110;116;45;76;101;110;103;116;104], [49])] [120] in
  let garbage := mkW [72;84;84;80;47;49;46;49] 200 [79;75] [([67;111;110;116;101;110;116;45;76;101;110;103;116;104], [49])] [120] in
  forallb (is_fault syn_body_len) [OTransport; OHttp bad; OTruncated ex_reply 30; OTruncated ex_reply ex_cut; OCorrupt garbage;
                                   ODigest (mkW [72;84;84;80;47;49;46;49] 400 [79;75] [([67;111;110;116;101;110;116;45;76;101;110;103;116;104], [49])] [120])] = true
  /\ is_fault syn_body_len (OOk ex_reply) = false
  /\ collect_outcomes syn_body_len (Some (Batches [])) [OOk ex_reply; OOk ex_reply] = Some (skipn 1 ex_msgs ++ skipn 1 ex_msgs).
Proof. vm_compute. repeat split; reflexivity. Qed.

(* the executable framing model agrees with the theorems: a cut is accepted exactly on [boundary, boundary + 3] *)
Example cut_decodes_example :
  map (cut_decodes [(8, 0); (8, 16); (8, 16)]) [0; 15; 16; 19; 20; 47; 48; 51; 52; 80; 83; 84; 87; 88]%nat
  = [None; None; Some 0; Some 0; None; None; Some 1; Some 1; None; Some 2; Some 2; None; None; Some 2].
Proof. vm_compute. reflexivity. Qed.
