(* C10 model: what the coordinator makes of the shards' replies.
   anchors: src/distributed/coordinator.rs: scatter_sql_over_table (any shard failing fails the call; remote results
            decoded with decode_ipc), decode_ipc; src/distributed/server.rs: HttpTransport::send (client error or a
            non-2xx status is Err), fragment (HTTP 200 + Arrow IPC stream, or 400/500 + JSON error);
            src/distributed/http_client.rs: parse_response with the Content-Length check (= C16's parse_response_checked);
            arrow-ipc 58 reader.rs: MessageReader::{read_meta_len, maybe_next}, StreamReader::{try_new, maybe_next}.
   The HTTP layer is C16's model. An IPC stream is a sequence of framed messages
     0xFFFFFFFF | i32 LE metadata length | metadata (flatbuffer) | body (bodyLength bytes, from the metadata)
   closed by the end-of-stream marker 0xFFFFFFFF 0x00000000. The flatbuffer is opaque: `body_len` stands for
   root_as_message(meta).bodyLength(), None = the metadata does not parse. *)
From QV Require Export C16.Model.

Definition CONT : list Z := [255; 255; 255; 255].
Definition le32 (n : Z) : list Z := [n mod 256; (n / 256) mod 256; (n / 65536) mod 256; (n / 16777216) mod 256].
(* i32::from_le_bytes *)
Definition of_le32 (b : list Z) : Z :=
  match b with
  | [a; b; c; d] => let u := a + 256 * b + 65536 * c + 16777216 * d in if u <? 2147483648 then u else u - 4294967296
  | _ => 0
  end.

Record msg := mkMsg { m_meta : list Z; m_body : list Z }.
Definition frame (m : msg) : list Z := CONT ++ le32 (zlen (m_meta m)) ++ m_meta m ++ m_body m.
Definition EOS : list Z := CONT ++ [0; 0; 0; 0].
Definition frames (ms : list msg) : list Z := concat (map frame ms).
(* StreamWriter: schema message, one message per batch, finish() writes the end-of-stream marker *)
Definition stream (ms : list msg) : list Z := frames ms ++ EOS.

Section Ipc.
  Variable body_len : list Z -> option Z.

  Inductive rd := RdErr | RdEnd | RdMsg (m : msg) (rest : list Z).

  (* MessageReader::maybe_next *)
  Definition read_msg (b : list Z) : rd :=
    if (length b <? 4)%nat then RdEnd                          (* UnexpectedEof on the first read_exact: Ok(None) *)
    else
      let first := firstn 4 b in
      let b1 := skipn 4 b in
      if list_eqb Z.eqb first CONT && (length b1 <? 4)%nat then RdErr   (* marker read, length missing: Err *)
      else
        let lenb := if list_eqb Z.eqb first CONT then firstn 4 b1 else first in
        let b2 := if list_eqb Z.eqb first CONT then skipn 4 b1 else b1 in
        let n := of_le32 lenb in
        if n =? 0 then RdEnd                                    (* end-of-stream marker *)
        else if n <? 0 then RdErr                               (* "Invalid metadata length" *)
        else if zlen b2 <? n then RdErr                         (* read_exact(meta) fails *)
        else
          let meta := firstn (Z.to_nat n) b2 in
          let b3 := skipn (Z.to_nat n) b2 in
          match body_len meta with
          | None => RdErr                                       (* "Unable to get root as message" *)
          | Some bl =>
              if (bl <? 0) || (zlen b3 <? bl) then RdErr        (* read_exact(body) fails *)
              else RdMsg (mkMsg meta (firstn (Z.to_nat bl) b3)) (skipn (Z.to_nat bl) b3)
          end.

  Fixpoint read_all (fuel : nat) (b : list Z) : option (list msg) :=
    match fuel with
    | O => None
    | S f => match read_msg b with
             | RdErr => None
             | RdEnd => Some []
             | RdMsg m rest => match read_all f rest with Some ms => Some (m :: ms) | None => None end
             end
    end.
  Definition decode_stream (b : list Z) : option (list msg) := read_all (S (length b)) b.

  (* coordinator::decode_ipc: StreamReader::try_new wants a first (schema) message; the rest are the batches *)
  Definition decode_ipc (b : list Z) : option (list msg) :=
    match decode_stream b with Some (_schema :: batches) => Some batches | _ => None end.

  (* ---- one shard, as the initiator sees it ---- *)
  Inductive shard_result := Failed | Batches (bs : list msg).

  Definition success (st : Z) : bool := (200 <=? st) && (st <? 300).
  (* HttpTransport::send + decode_ipc on the bytes the client read off the socket; `client` is the HTTP client *)
  Definition recv_with (client : list Z -> result) (raw : list Z) : shard_result :=
    match client raw with
    | Err => Failed
    | Ok r => if success (r_status r)
              then match decode_ipc (r_body r) with Some bs => Batches bs | None => Failed end
              else Failed
    end.
  Definition recv := recv_with parse_response_checked.           (* the client as it is now *)
  Definition recv_before_fix := recv_with parse_response.        (* the client before 3b03f26 *)

  (* ---- what can happen to a shard ---- *)
  Inductive outcome :=
  | OOk (w : wresp)                     (* the worker's complete reply *)
  | OTransport                          (* connect / read error, timeout: the client returns Err *)
  | OHttp (w : wresp)                   (* a reply with a non-2xx status *)
  | OTruncated (w : wresp) (k : nat)    (* the connection closed after k bytes of the reply *)
  | OCorrupt (w : wresp)                (* a complete reply whose body is not an IPC stream *)
  | ODigest (w : wresp).                (* the worker's 400 "split digest mismatch" *)

  Definition wire (o : outcome) : option (list Z) :=
    match o with
    | OOk w | OHttp w | OCorrupt w | ODigest w => Some (render w)
    | OTransport => None
    | OTruncated w k => Some (firstn k (render w))
    end.
  Definition shard_of (o : outcome) : shard_result :=
    match wire o with None => Failed | Some raw => recv raw end.

  (* is this outcome a failure of the shard? (decidable from the outcome itself) *)
  Definition is_fault (o : outcome) : bool :=
    match o with
    | OOk _ => false
    | OTransport => true
    | OHttp w => wf w && negb (success (w_status w))
    | OTruncated w k => wf w && (k <? length (render w))%nat
    | OCorrupt w => wf w && match decode_ipc (w_body w) with None => true | Some _ => false end
    | ODigest w => wf w && (w_status w =? 400)
    end.

  (* scatter_sql_over_table: the local shard's own result first, then every remote one, any failure fails the call *)
  Fixpoint collect (rs : list shard_result) : option (list msg) :=
    match rs with
    | [] => Some []
    | Failed :: _ => None
    | Batches b :: t => match collect t with Some bs => Some (b ++ bs) | None => None end
    end.
  Definition collect_outcomes (local : option shard_result) (outs : list outcome) : option (list msg) :=
    collect ((match local with Some r => [r] | None => [] end) ++ map shard_of outs).
End Ipc.

(* ---------------- executable spec for the correspondence run ---------------- *)
(* synthetic metadata: the body length in the first four bytes, zero padding up to the real metadata length *)
Definition syn_body_len (meta : list Z) : option Z := if (length meta <? 4)%nat then None else Some (of_le32 (firstn 4 meta)).
Definition syn_msg (meta_len body_len : Z) : msg :=
  mkMsg (le32 body_len ++ repeat 0 (Z.to_nat (meta_len - 4))) (repeat 7 (Z.to_nat body_len)).
(* a reply cut after k bytes and handed on WITHOUT a length check: how many batches the decoder then returns *)
Definition cut_decodes (sizes : list (Z * Z)) (k : nat) : option Z :=
  match decode_ipc syn_body_len (firstn k (stream (map (fun s => syn_msg (fst s) (snd s)) sizes))) with
  | Some bs => Some (Z.of_nat (length bs))
  | None => None
  end.
(* C10's demand on any coordinator: some shard failed => the query fails; none failed => it answers *)
Definition spec_ok (some_fault : bool) (query_failed : bool) : bool := Bool.eqb some_fault query_failed.
