From QV Require Import Bytes.ByteStr C42.Model.
From Coq Require Import Sorted.

(* ---------- small helpers ---------- *)
Lemma is_nil_false {A} (l : list A) : l <> [] -> is_nil l = false.
Proof. destruct l; [congruence|reflexivity]. Qed.
Lemma trim_pad_l w v : all_ws w = true -> trim (w ++ v) = trim v.
Proof. intros H. rewrite <- (app_nil_r v) at 1. now rewrite trim_pad. Qed.
Lemma trim_pad_r v w : all_ws w = true -> trim (v ++ w) = trim v.
Proof. intros H. change (v ++ w) with ([] ++ v ++ w). now rewrite trim_pad. Qed.
Definition nosep (c : Z) (l : list Z) : bool := forallb (fun x => negb (Z.eqb c x)) l.
Lemma lacks_nosep c l : nosep c l = lacks c l.
Proof. unfold nosep, lacks. induction l as [|x l IH]; auto. cbn [forallb]. now rewrite IH, Z.eqb_sym. Qed.
Lemma ws_lacks c w : is_ws c = false -> all_ws w = true -> lacks c w = true.
Proof.
  intros Hc. unfold lacks, all_ws. induction w as [|x w IH]; auto. cbn [forallb]. intros H.
  apply andb_true_iff in H as [Hx Hw]. rewrite IH by assumption. rewrite andb_true_r.
  apply negb_true_iff, Z.eqb_neq. intros ->. congruence.
Qed.
Lemma lacks_app c a b : lacks c (a ++ b) = lacks c a && lacks c b.
Proof. apply forallb_app. Qed.
Lemma no_ws_app a b : no_ws (a ++ b) = no_ws a && no_ws b.
Proof. apply forallb_app. Qed.

Lemma trim_sandwich A M B : A <> [] -> B <> [] -> no_ws A = true -> no_ws B = true ->
  trim (A ++ M ++ B) = A ++ M ++ B.
Proof.
  intros HA HB NA NB. destruct A as [|x A']; [congruence|].
  cbn [no_ws forallb] in NA. apply andb_true_iff in NA as [Hx _]. apply negb_true_iff in Hx.
  destruct (exists_last HB) as (B' & y & ->).
  rewrite no_ws_app in NB. apply andb_true_iff in NB as [_ Hy]. cbn [no_ws forallb] in Hy.
  rewrite andb_true_r in Hy. apply negb_true_iff in Hy.
  unfold trim. cbn [app]. rewrite trim_start_nonws by assumption.
  change (x :: A' ++ M ++ B' ++ [y]) with ((x :: A') ++ M ++ B' ++ [y]).
  rewrite !app_assoc. apply trim_end_snoc. assumption.
Qed.

(* ---------- the outer `s.trim()` never matters ---------- *)
Fixpoint map_last {A} (g : A -> A) (l : list A) : list A :=
  match l with
  | [] => []
  | x :: r => match r with [] => [g x] | _ => x :: map_last g r end
  end.

Lemma split_by_prefix p w s : forallb (fun x => negb (p x)) w = true ->
  split_by p (w ++ s) = match split_by p s with q :: qs => (w ++ q) :: qs | [] => [] end.
Proof.
  induction w as [|x w IH]; cbn [app forallb]; intros H.
  - destruct (split_by p s); reflexivity.
  - apply andb_true_iff in H as [Hx Hw]. apply negb_true_iff in Hx. cbn [split_by]. rewrite Hx, (IH Hw).
    destruct (split_by p s) as [|q qs] eqn:E; [exfalso; revert E; apply split_by_nonnil|reflexivity].
Qed.
Lemma split_by_suffix p s w : forallb (fun x => negb (p x)) w = true ->
  split_by p (s ++ w) = map_last (fun q => q ++ w) (split_by p s).
Proof.
  intros Hw. induction s as [|x s IH]; cbn [app].
  - rewrite split_by_none by assumption. reflexivity.
  - cbn [split_by]. rewrite IH. destruct (p x).
    + destruct (split_by p s) as [|q qs] eqn:E; [exfalso; revert E; apply split_by_nonnil|]. reflexivity.
    + destruct (split_by p s) as [|q qs] eqn:E; [exfalso; revert E; apply split_by_nonnil|].
      cbn [map_last]. destruct qs; reflexivity.
Qed.
Lemma flat_map_map_last {B} (f : list Z -> list B) g l :
  (forall q, f (g q) = f q) -> flat_map f (map_last g l) = flat_map f l.
Proof.
  intros H. induction l as [|x r IH]; auto. cbn [map_last]. destruct r as [|y r'].
  - cbn [flat_map]. now rewrite H.
  - change (flat_map f (x :: map_last g (y :: r')) = flat_map f (x :: y :: r')).
    cbn [flat_map] in *. now rewrite IH.
Qed.

Lemma trim_start_decomp s : exists w, all_ws w = true /\ s = w ++ trim_start s.
Proof.
  induction s as [|x s (w & Hw & Es)]; [exists []; auto|].
  cbn [trim_start]. destruct (is_ws x) eqn:Hx.
  - exists (x :: w). split; [cbn [all_ws forallb]; rewrite Hx; exact Hw|]. cbn [app]. now f_equal.
  - exists []. auto.
Qed.
Lemma trim_end_decomp s : exists w, all_ws w = true /\ s = trim_end s ++ w.
Proof.
  induction s as [|x s (w & Hw & Es)]; [exists []; auto|].
  cbn [trim_end]. destruct (trim_end s) as [|t ts] eqn:E.
  - cbn [app] in Es. destruct (is_ws x) eqn:Hx.
    + exists (x :: w). split; [cbn [all_ws forallb]; rewrite Hx; exact Hw|]. cbn [app]. now f_equal.
    + exists w. split; auto. cbn [app]. now f_equal.
  - exists w. split; auto. cbn [app]. now f_equal.
Qed.
Lemma trim_decomp s : exists w1 w2, all_ws w1 = true /\ all_ws w2 = true /\ s = w1 ++ trim s ++ w2.
Proof.
  destruct (trim_start_decomp s) as (w1 & H1 & E1). destruct (trim_end_decomp (trim_start s)) as (w2 & H2 & E2).
  exists w1, w2. repeat split; auto. unfold trim. now rewrite <- E2.
Qed.

Lemma parse_part_trim_eq a b : trim a = trim b -> parse_part a = parse_part b.
Proof. unfold parse_part. now intros ->. Qed.

Definition parts_of (s : list Z) : list Z := flat_map parse_part (split_on 44 s).

Lemma parts_of_pad w1 s w2 : all_ws w1 = true -> all_ws w2 = true -> parts_of (w1 ++ s ++ w2) = parts_of s.
Proof.
  intros H1 H2. unfold parts_of, split_on.
  rewrite split_by_prefix by (fold (nosep 44 w1); rewrite lacks_nosep; now apply ws_lacks).
  rewrite split_by_suffix by (fold (nosep 44 w2); rewrite lacks_nosep; now apply ws_lacks).
  rewrite <- (flat_map_map_last parse_part (fun q => q ++ w2) (split_by (Z.eqb 44) s))
    by (intros q; apply parse_part_trim_eq; now apply trim_pad_r).
  destruct (map_last (fun q => q ++ w2) (split_by (Z.eqb 44) s)) as [|q qs]; auto.
  cbn [flat_map]. f_equal. apply parse_part_trim_eq. now apply trim_pad_l.
Qed.

Lemma outer_trim_irrelevant s : parts_of (trim s) = parts_of s.
Proof.
  destruct (trim_decomp s) as (w1 & w2 & H1 & H2 & E). rewrite E at 2. now rewrite parts_of_pad.
Qed.

(* ---------- split(',') undoes join(',') ---------- *)
Lemma split_join c parts : parts <> [] -> Forall (fun p => lacks c p = true) parts ->
  split_on c (join c parts) = parts.
Proof.
  induction parts as [|p ps IH]; [congruence|]. intros _ H. inversion H as [|? ? Hp Hps]; subst.
  destruct ps as [|p2 ps'].
  - cbn [join]. unfold split_on. apply split_by_none. fold (nosep c p). now rewrite lacks_nosep.
  - change (join c (p :: p2 :: ps')) with (p ++ c :: join c (p2 :: ps')).
    unfold split_on. rewrite split_by_app; [|fold (nosep c p); now rewrite lacks_nosep|apply Z.eqb_refl].
    f_equal. apply IH; [discriminate|assumption].
Qed.

(* ---------- one part ---------- *)
Lemma num_spec z n : in_usize n = true ->
  num z n <> [] /\ forallb is_digit (num z n) = true /\ digits_val (num z n) = n.
Proof.
  unfold in_usize, num, USIZE. intros H. apply andb_true_iff in H as [A B].
  apply Z.leb_le in A. apply Z.ltb_lt in B.
  assert (R : 0 <= n < 2 ^ 64) by (change (2 ^ 64) with 18446744073709551616; lia).
  destruct (dec_spec n R) as (V & D & NE).
  repeat split.
  - intros E. apply app_eq_nil in E as [_ E]. auto.
  - rewrite forallb_app, D, andb_true_r. induction z; auto.
  - rewrite digits_val_zeros. exact V.
Qed.
Lemma parse_num z n : in_usize n = true -> parse_uint USIZE (num z n) = Some n.
Proof.
  intros H. destruct (num_spec z n H) as (NE & D & V).
  rewrite parse_uint_digits; auto; rewrite V; auto.
  unfold in_usize in H. apply andb_true_iff in H as [_ B]. now apply Z.ltb_lt in B.
Qed.

Lemma parse_part_item it : item_ok it = true -> parse_part (render_item it) = item_set it.
Proof.
  destruct it as [n z w1 w2|a b za zb w1 w2 w3 w4]; cbn [item_ok render_item item_set]; intros H.
  - apply andb_true_iff in H as [H H2]. apply andb_true_iff in H as [Hn H1].
    destruct (num_spec z n Hn) as (NE & D & V).
    unfold parse_part. rewrite trim_pad by assumption. rewrite trim_nonws by now apply digits_no_ws.
    rewrite is_nil_false by assumption.
    rewrite split_once_none by (apply digits_lack; [reflexivity|assumption]).
    now rewrite parse_num.
  - apply andb_true_iff in H as [H H4]. apply andb_true_iff in H as [H H3].
    apply andb_true_iff in H as [H H2]. apply andb_true_iff in H as [H H1].
    apply andb_true_iff in H as [Ha Hb].
    destruct (num_spec za a Ha) as (NEa & Da & Va). destruct (num_spec zb b Hb) as (NEb & Db & Vb).
    unfold parse_part. rewrite trim_pad by assumption.
    assert (E : num za a ++ w2 ++ 45 :: w3 ++ num zb b = num za a ++ (w2 ++ 45 :: w3) ++ num zb b)
      by (now rewrite <- app_assoc).
    rewrite E, trim_sandwich; auto using digits_no_ws. rewrite <- E.
    rewrite is_nil_false by (destruct (num za a); [congruence|discriminate]).
    assert (E2 : num za a ++ w2 ++ 45 :: w3 ++ num zb b = (num za a ++ w2) ++ 45 :: (w3 ++ num zb b))
      by (now rewrite <- app_assoc).
    rewrite E2, split_once_app.
    2:{ rewrite lacks_app. apply andb_true_iff; split.
        - apply digits_lack; [reflexivity|assumption].
        - apply ws_lacks; [reflexivity|assumption]. }
    rewrite trim_pad_r by assumption. rewrite trim_pad_l by assumption.
    rewrite !trim_nonws by now apply digits_no_ws.
    now rewrite !parse_num.
Qed.

Lemma junk_char_props c : junk_char c = true ->
  is_ws c = false /\ is_digit c = false /\ c <> 43 /\ c <> 45.
Proof.
  unfold junk_char. intros H. apply negb_true_iff in H.
  repeat (apply orb_false_iff in H as [H ?]). repeat split; auto; apply Z.eqb_neq; assumption.
Qed.
Lemma parse_uint_junk bound l c : junk_char c = true -> In c l -> parse_uint bound l = None.
Proof.
  intros Hc Hin. destruct (parse_uint bound l) as [v|] eqn:E; auto.
  destruct (junk_char_props c Hc) as (_ & D & P & _).
  destruct (parse_uint_chars bound l v c E Hin); congruence.
Qed.

Lemma parse_part_junk j : junk_ok j = true -> parse_part j = [].
Proof.
  unfold junk_ok. intros H. apply andb_true_iff in H as [_ H]. apply orb_true_iff in H as [H|H].
  - unfold parse_part. now rewrite trim_all_ws.
  - apply existsb_exists in H as (c & Hin & Hc).
    destruct (junk_char_props c Hc) as (W & D & P & M).
    pose proof (trim_preserves_in c j W Hin) as Ht.
    unfold parse_part. destruct (trim j) as [|t ts] eqn:Et; [destruct Ht|]. cbn [is_nil].
    destruct (split_once 45 (t :: ts)) as [[a b]|] eqn:Es.
    + apply split_once_some in Es. rewrite Es in Ht. apply in_app_or in Ht as [Ha|[Hm|Hb]].
      * rewrite (parse_uint_junk USIZE (trim a) c); auto. now apply trim_preserves_in.
      * congruence.
      * rewrite (parse_uint_junk USIZE (trim b) c); auto; [|now apply trim_preserves_in].
        destruct (parse_uint USIZE (trim a)); reflexivity.
    + now rewrite (parse_uint_junk USIZE (t :: ts) c).
Qed.

Lemma parse_part_seg s : seg_ok s = true -> parse_part (render_seg s) = seg_set s.
Proof. destruct s as [it|j]; cbn [seg_ok render_seg seg_set]; [apply parse_part_item|apply parse_part_junk]. Qed.

(* rendered items and junk contain no comma *)
Lemma num_lacks_comma z n : in_usize n = true -> lacks 44 (num z n) = true.
Proof. intros H. destruct (num_spec z n H) as (_ & D & _). apply digits_lack; [reflexivity|assumption]. Qed.
Lemma seg_lacks_comma s : seg_ok s = true -> lacks 44 (render_seg s) = true.
Proof.
  destruct s as [[n z w1 w2|a b za zb w1 w2 w3 w4]|j]; cbn [seg_ok item_ok render_seg render_item]; intros H.
  - apply andb_true_iff in H as [H H2]. apply andb_true_iff in H as [Hn H1].
    rewrite !lacks_app, num_lacks_comma, !ws_lacks; auto.
  - apply andb_true_iff in H as [H H4]. apply andb_true_iff in H as [H H3].
    apply andb_true_iff in H as [H H2]. apply andb_true_iff in H as [H H1].
    apply andb_true_iff in H as [Ha Hb].
    rewrite !lacks_app. cbn [lacks forallb]. fold (lacks 44 (w3 ++ num zb b)). rewrite !lacks_app.
    rewrite !num_lacks_comma, !ws_lacks; auto.
  - unfold junk_ok in H. now apply andb_true_iff in H as [H _].
Qed.

Lemma parts_of_render segs : forallb seg_ok segs = true -> parts_of (render segs) = denote segs.
Proof.
  intros H. unfold parts_of, render, denote. destruct segs as [|s0 segs'] eqn:Es; [reflexivity|]. rewrite <- Es in *.
  rewrite split_join.
  - clear Es. induction segs as [|s segs IH]; auto. cbn [forallb] in H. apply andb_true_iff in H as [Hs H].
    cbn [map flat_map]. now rewrite parse_part_seg, IH.
  - subst segs. discriminate.
  - rewrite forallb_forall in H. apply Forall_forall. intros p Hp. apply in_map_iff in Hp as (s & <- & Hs).
    apply seg_lacks_comma. now apply H.
Qed.

(* ---------- sort + dedup = the sorted set ---------- *)
Lemma insert_sorted x l : StronglySorted Z.le l -> StronglySorted Z.le (insert Z.leb x l).
Proof.
  induction 1 as [|h t Ht IH Hall]; cbn [insert]; [repeat constructor|].
  destruct (Z.leb_spec x h).
  - constructor; [constructor; auto|]. constructor; [lia|]. eapply Forall_impl; [|exact Hall]. cbn; intros; lia.
  - constructor; auto. rewrite Forall_forall in *. intros y Hy.
    apply (Permutation_in _ (insert_perm Z.leb x t)) in Hy. destruct Hy as [<-|Hy]; [lia|auto].
Qed.
Lemma isort_sorted l : StronglySorted Z.le (isort Z.leb l).
Proof. induction l as [|x l IH]; cbn [isort fold_right]; [constructor|]. now apply insert_sorted. Qed.

Lemma dedup_in l x : In x (dedup l) <-> In x l.
Proof.
  induction l as [|h r IH]; [reflexivity|]. cbn [dedup]. destruct (dedup r) as [|y t] eqn:E.
  - cbn [In] in *. tauto.
  - destruct (Z.eqb_spec h y) as [->|Ne]; cbn [In] in *; tauto.
Qed.
Lemma dedup_sorted l : StronglySorted Z.le l -> StronglySorted Z.lt (dedup l).
Proof.
  induction 1 as [|h r Hr IH Hall]; cbn [dedup]; [constructor|].
  pose proof (fun x => proj1 (dedup_in r x)) as Hin.
  destruct (dedup r) as [|y t] eqn:E; [repeat constructor|].
  destruct (Z.eqb_spec h y) as [->|Ne]; auto.
  constructor; auto. rewrite Forall_forall in Hall. inversion IH as [|? ? _ Ft]; subst. rewrite Forall_forall in Ft.
  assert (h < y) by (assert (h <= y) by (apply Hall, Hin; now left); lia).
  constructor; auto. apply Forall_forall. intros z Hz. specialize (Ft z Hz). lia.
Qed.

Lemma sorted_set_unique l1 : forall l2, StronglySorted Z.lt l1 -> StronglySorted Z.lt l2 ->
  (forall x, In x l1 <-> In x l2) -> l1 = l2.
Proof.
  induction l1 as [|x t1 IH]; intros [|y t2] S1 S2 H; auto.
  - exfalso. apply (proj2 (H y)). now left.
  - exfalso. apply (proj1 (H x)). now left.
  - inversion S1 as [|? ? S1' F1]; inversion S2 as [|? ? S2' F2]; subst. rewrite Forall_forall in F1, F2.
    assert (x = y).
    { destruct (proj1 (H x) (or_introl eq_refl)) as [E|E]; [auto|].
      destruct (proj2 (H y) (or_introl eq_refl)) as [E'|E']; [auto|].
      apply F2 in E. apply F1 in E'. lia. }
    subst y. f_equal. apply IH; auto. intros z; split; intros Hz.
    + destruct (proj1 (H z) (or_intror Hz)) as [E|E]; auto. subst z. apply F1 in Hz. lia.
    + destruct (proj2 (H z) (or_intror Hz)) as [E|E]; auto. subst z. apply F2 in Hz. lia.
Qed.

Lemma sort_dedup_sorted l : StronglySorted Z.lt (sort_dedup l).
Proof. apply dedup_sorted, isort_sorted. Qed.
Lemma sort_dedup_in l x : In x (sort_dedup l) <-> In x l.
Proof.
  unfold sort_dedup. rewrite dedup_in. split; apply Permutation_in; [|symmetry]; apply isort_perm.
Qed.
Lemma sort_dedup_ext l1 l2 : (forall x, In x l1 <-> In x l2) -> sort_dedup l1 = sort_dedup l2.
Proof.
  intros H. apply sorted_set_unique; try apply sort_dedup_sorted.
  intros x. rewrite !sort_dedup_in. apply H.
Qed.

(* ---------- pinned theorems ---------- *)
Theorem parse_render : forall segs, forallb seg_ok segs = true ->
  parse_cpulist (render segs) = sort_dedup (denote segs).
Proof.
  intros segs H. unfold parse_cpulist. fold (parts_of (trim (render segs))).
  now rewrite outer_trim_irrelevant, parts_of_render.
Qed.

Theorem parse_render_set : forall segs S, forallb seg_ok segs = true ->
  (forall x, In x S <-> In x (denote segs)) ->
  parse_cpulist (render segs) = sort_dedup S /\ StronglySorted Z.lt (parse_cpulist (render segs)) /\
  (forall x, In x (parse_cpulist (render segs)) <-> In x S).
Proof.
  intros segs S H HS. rewrite parse_render by assumption.
  rewrite (sort_dedup_ext (denote segs) S) by (intros x; symmetry; apply HS).
  repeat split; [apply sort_dedup_sorted| |]; apply sort_dedup_in.
Qed.

Lemma denote_filter segs : denote (filter is_item segs) = denote segs.
Proof.
  unfold denote. induction segs as [|[it|j] segs IH]; auto; cbn [filter is_item flat_map seg_set]; now rewrite IH.
Qed.
Lemma seg_ok_filter segs : forallb seg_ok segs = true -> forallb seg_ok (filter is_item segs) = true.
Proof.
  intros H. rewrite forallb_forall in *. intros s Hs. apply filter_In in Hs as [Hs _]. now apply H.
Qed.
(* junk parts (blank, or containing a character that no number or range contains) change nothing *)
Theorem junk_ignored : forall segs, forallb seg_ok segs = true ->
  parse_cpulist (render segs) = parse_cpulist (render (filter is_item segs)).
Proof.
  intros segs H. rewrite !parse_render; auto using seg_ok_filter. now rewrite denote_filter.
Qed.

(* on every input whatsoever the answer is a strictly increasing list *)
Theorem parse_sorted : forall s, StronglySorted Z.lt (parse_cpulist s).
Proof. intros s. apply sort_dedup_sorted. Qed.

Lemma strict_sorted_of l : StronglySorted Z.lt l -> strict_sorted l = true.
Proof.
  induction 1 as [|h t Ht IH Hall]; auto. cbn [strict_sorted]. destruct t as [|y t']; auto.
  rewrite IH, andb_true_r. inversion Hall; subst. now apply Z.ltb_lt.
Qed.
Lemma same_set_of a b : (forall x, In x a <-> In x b) -> same_set a b = true.
Proof.
  intros H. unfold same_set. apply andb_true_iff; split; apply forallb_forall; intros x Hx;
  apply existsb_exists; exists x; (split; [apply H; exact Hx|apply Z.eqb_refl]).
Qed.
Theorem model_meets_spec : forall segs, forallb seg_ok segs = true ->
  spec_ok segs (parse_cpulist (render segs)) = true.
Proof.
  intros segs H. unfold spec_ok. rewrite strict_sorted_of by apply parse_sorted.
  rewrite parse_render by assumption. cbn [andb]. apply same_set_of. apply sort_dedup_in.
Qed.

(* fan-out helper, all work and pool sizes *)
Theorem workers_for_bounds : forall work pool, 0 <= work -> 0 <= pool ->
  1 <= workers_for work pool /\ workers_for work pool <= Z.max 1 work /\ workers_for work pool <= Z.max 1 pool /\
  workers_for work pool = Z.max 1 (Z.min work (Z.max 1 pool)).
Proof.
  intros work pool Hw Hp. unfold workers_for.
  destruct (Z.ltb_spec work 1); [lia|]. destruct (Z.ltb_spec (Z.max pool 1) work); lia.
Qed.
(* with real work and a real pool the literal reading holds: never more than the work, never more than the pool *)
Theorem workers_for_literal : forall work pool, 1 <= work -> 1 <= pool ->
  workers_for work pool = Z.min work pool.
Proof.
  intros work pool Hw Hp. unfold workers_for.
  destruct (Z.ltb_spec work 1); [lia|]. destruct (Z.ltb_spec (Z.max pool 1) work); lia.
Qed.
(* the literal reading fails at the floor: no work (or an empty pool) still yields one worker *)
Theorem workers_for_zero_work : forall pool, 0 <= pool -> workers_for 0 pool = 1.
Proof. intros. reflexivity. Qed.
Theorem workers_for_zero_pool : forall work, 1 <= work -> workers_for work 0 = 1.
Proof. intros work H. unfold workers_for. destruct (Z.ltb_spec work 1); [lia|]. cbn. destruct (Z.ltb_spec 1 work); lia. Qed.
Theorem workers_spec : forall work pool, 0 <= work -> 0 <= pool -> workers_spec_ok work pool (workers_for work pool) = true.
Proof.
  intros work pool Hw Hp. destruct (workers_for_bounds work pool Hw Hp) as (A & B & C & _).
  unfold workers_spec_ok. repeat (apply andb_true_iff; split); now apply Z.leb_le.
Qed.

(* satisfiable, non-trivial instances *)
Example ex_kernel : parse_cpulist [48;45;51;44;56;44;49;48;45;49;49;10] = [0;1;2;3;8;10;11].   (* "0-3,8,10-11\n" *)
Proof. vm_compute. reflexivity. Qed.
Example ex_render :
  let segs := [inl (Range 2 4 0 1 [32] [] [9] [10]); inr [120;49]; inl (Single 3 2 [] [32]); inr []; inl (Range 9 7 0 0 [] [] [] [])] in
  forallb seg_ok segs = true /\ parse_cpulist (render segs) = [2;3;4].
Proof. vm_compute. split; reflexivity. Qed.
