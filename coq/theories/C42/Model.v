(* C42 model: execution::topology::parse_cpulist and workers_for, transcribed.
   anchors: src/execution/topology.rs: parse_cpulist, workers_for.
   A `&str` is the list of its Unicode scalar values (see Bytes/ByteStr.v): `trim` strips Unicode
   White_Space exactly as Rust does, so the model is faithful on every valid `&str`, not only on ASCII.
   `usize` is 64-bit. `a..=b` is empty when a > b. *)
From QV Require Export Bytes.ByteStr.

Definition USIZE : Z := 18446744073709551616.   (* 2^64 *)

(* for c in a..=b { out.push(c) } *)
Definition range (a b : Z) : list Z := map (fun i => a + Z.of_nat i) (seq 0 (Z.to_nat (b - a + 1))).

(* one iteration of `for part in s.trim().split(',')`: what it pushes *)
Definition parse_part (part0 : list Z) : list Z :=
  let part := trim part0 in
  if is_nil part then []
  else match split_once 45 part with                      (* part.split_once('-') *)
       | Some (a, b) =>
           match parse_uint USIZE (trim a), parse_uint USIZE (trim b) with
           | Some a, Some b => range a b
           | _, _ => []
           end
       | None => match parse_uint USIZE part with Some a => [a] | None => [] end
       end.

(* Vec::dedup on a sorted vector *)
Fixpoint dedup (l : list Z) : list Z :=
  match l with
  | [] => []
  | x :: r => match dedup r with
              | y :: t => if x =? y then y :: t else x :: y :: t
              | [] => [x]
              end
  end.
Definition sort_dedup (l : list Z) : list Z := dedup (isort Z.leb l).

Definition parse_cpulist (s : list Z) : list Z :=
  sort_dedup (flat_map parse_part (split_on 44 (trim s))).

(* work_units.clamp(1, max.max(1))   (Ord::clamp: if self < min {min} else if self > max {max} else {self}) *)
Definition workers_for (work pool : Z) : Z :=
  let hi := Z.max pool 1 in
  if work <? 1 then 1 else if hi <? work then hi else work.

(* ------------------------------------------------------------------ *)
(* Specification side: cpulists as the kernel (and a sloppy human) would write them.        *)
(* A number may carry leading zeros; every pad is arbitrary Unicode whitespace.             *)
Inductive item :=
| Single (n : Z) (z : nat) (w1 w2 : list Z)                       (* w1 0*n w2 *)
| Range (a b : Z) (za zb : nat) (w1 w2 w3 w4 : list Z).           (* w1 0*a w2 - w3 0*b w4 *)

Definition num (z : nat) (n : Z) : list Z := repeat 48 z ++ dec n.
Definition render_item (it : item) : list Z :=
  match it with
  | Single n z w1 w2 => w1 ++ num z n ++ w2
  | Range a b za zb w1 w2 w3 w4 => w1 ++ (num za a ++ w2 ++ 45 :: w3 ++ num zb b) ++ w4
  end.
Definition item_set (it : item) : list Z :=
  match it with
  | Single n _ _ _ => [n]
  | Range a b _ _ _ _ _ _ => range a b
  end.
Definition in_usize (n : Z) : bool := (0 <=? n) && (n <? USIZE).
Definition item_ok (it : item) : bool :=
  match it with
  | Single n _ w1 w2 => in_usize n && all_ws w1 && all_ws w2
  | Range a b _ _ w1 w2 w3 w4 => in_usize a && in_usize b && all_ws w1 && all_ws w2 && all_ws w3 && all_ws w4
  end.

(* junk between the commas: blank, or containing a character that can occur in no number or range *)
Definition junk_char (c : Z) : bool := negb (is_digit c || is_ws c || (c =? 43) || (c =? 45) || (c =? 44)).
Definition junk_ok (j : list Z) : bool := lacks 44 j && (all_ws j || existsb junk_char j).

Definition seg := (item + list Z)%type.
Definition render_seg (s : seg) : list Z := match s with inl it => render_item it | inr j => j end.
Definition seg_set (s : seg) : list Z := match s with inl it => item_set it | inr _ => [] end.
Definition seg_ok (s : seg) : bool := match s with inl it => item_ok it | inr j => junk_ok j end.
Definition is_item (s : seg) : bool := match s with inl _ => true | inr _ => false end.

Fixpoint join (c : Z) (parts : list (list Z)) : list Z :=
  match parts with
  | [] => []
  | p :: ps => match ps with [] => p | _ => p ++ c :: join c ps end
  end.
Definition render (segs : list seg) : list Z := join 44 (map render_seg segs).
Definition denote (segs : list seg) : list Z := flat_map seg_set segs.

(* executable spec for any implementation's output on a rendered cpulist *)
Fixpoint strict_sorted (l : list Z) : bool :=
  match l with
  | x :: (y :: _) as r => (x <? y) && strict_sorted r
  | _ => true
  end.
Definition same_set (a b : list Z) : bool :=
  forallb (fun x => existsb (Z.eqb x) b) a && forallb (fun x => existsb (Z.eqb x) a) b.
(* "exactly the sorted set of CPUs its ranges and singletons denote, ignoring junk" *)
Definition spec_ok (segs : list seg) (out : list Z) : bool :=
  strict_sorted out && same_set out (denote segs).
(* on arbitrary text the property only fixes the shape of the answer: a strictly increasing list *)
Definition spec_ok_raw (out : list Z) : bool := strict_sorted out.

(* fan-out: "never exceeds the available work or the pool size" with the floor of 1 made explicit *)
Definition workers_spec_ok (work pool w : Z) : bool :=
  (1 <=? w) && (w <=? Z.max 1 work) && (w <=? Z.max 1 pool).

Definition out_eqb (a b : list Z) : bool := list_eqb Z.eqb a b.
