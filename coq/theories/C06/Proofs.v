(* C06 proofs: compiler correctness of the compiled-predicate register machine against the interpreter. *)
From QV Require Import Base.Util C06.Model.
Local Open Scope Z_scope.

(* ------------------------------------------------------------------ *)
(* list plumbing                                                        *)
Lemma nth_seq_all {A} (l : list A) d : map (fun i => nth i l d) (seq 0 (length l)) = l.
Proof.
  induction l as [|a l IH]; cbn [length seq map nth]; [reflexivity|].
  f_equal. rewrite <- seq_shift, map_map. exact IH.
Qed.

Lemma skipn_seq' n : forall start len, skipn n (seq start len) = seq (start + n) (len - n).
Proof.
  induction n as [|n IH]; intros start len.
  - now rewrite Nat.add_0_r, Nat.sub_0_r.
  - destruct len as [|len]; cbn [seq skipn Nat.sub]; [reflexivity|].
    rewrite IH. f_equal. lia.
Qed.
Lemma firstn_seq' n : forall start len, firstn n (seq start len) = seq start (Nat.min n len).
Proof.
  induction n as [|n IH]; intros start len; [reflexivity|].
  destruct len as [|len]; cbn [seq firstn Nat.min]; [reflexivity|]. now rewrite IH.
Qed.

Lemma slice_seq (l : list Z) start len d :
  (start + len <= length l)%nat -> slice start len l = map (fun i => nth i l d) (seq start len).
Proof.
  intros H. unfold slice. rewrite <- (nth_seq_all l d) at 1.
  rewrite skipn_map, firstn_map, skipn_seq', firstn_seq'. cbn [Nat.add].
  f_equal. f_equal. lia.
Qed.

Lemma firstn_seq_gen {A} (l : list A) start len d :
  (start + len <= length l)%nat -> firstn len (skipn start l) = map (fun i => nth i l d) (seq start len).
Proof.
  intros H. rewrite <- (nth_seq_all l d) at 1.
  rewrite skipn_map, firstn_map, skipn_seq', firstn_seq'. cbn [Nat.add].
  f_equal. f_equal. lia.
Qed.

Lemma zipw_map {A B C D} (f : A -> B -> C) (g1 : D -> A) (g2 : D -> B) l :
  zipw f (map g1 l) (map g2 l) = map (fun i => f (g1 i) (g2 i)) l.
Proof. induction l; cbn; congruence. Qed.

Lemma repeat_map_seq {A} (v : A) start len : repeat v len = map (fun _ => v) (seq start len).
Proof. revert start; induction len; intros; cbn; [reflexivity|]. f_equal. apply IHlen. Qed.

Lemma zipw_length {A B C} (f : A -> B -> C) x y : length (zipw f x y) = Nat.min (length x) (length y).
Proof. revert y; induction x; intros [|b y]; cbn; auto. Qed.

Lemma Forall_upd {A} (P : A -> Prop) i f l :
  Forall P l -> (forall x, P x -> P (f x)) -> Forall P (upd i f l).
Proof.
  intros H Hf. revert i; induction H; intros [|i]; cbn; constructor; auto.
Qed.

Lemma Forall_firstn' {A} (P : A -> Prop) n : forall l, Forall P l -> Forall P (firstn n l).
Proof. induction n; intros l H; cbn; [constructor|]. destruct H; constructor; auto. Qed.
Lemma Forall_skipn' {A} (P : A -> Prop) n : forall l, Forall P l -> Forall P (skipn n l).
Proof. induction n; intros l H; cbn; [assumption|]. destruct H; [constructor|auto]. Qed.

Lemma seq_app_len start a b : seq start (a + b) = seq start a ++ seq (start + a) b.
Proof. apply seq_app. Qed.

(* ------------------------------------------------------------------ *)
(* f64: where IEEE comparison and total order coincide                  *)
Lemma ieee_total_agree u v :
  nan_pair u v = false -> zero_pair u v = false -> f64_ieee_cmp u v = f64_total_cmp u v.
Proof.
  unfold nan_pair, zero_pair, f64_ieee_cmp. intros Hn Hz. rewrite Hn.
  destruct (f64_is_zero u && f64_is_zero v) eqn:Z0; [|reflexivity].
  cbn in Hz. apply negb_false_iff, Z.eqb_eq in Hz. subst v.
  unfold f64_total_cmp. now rewrite Z.compare_refl.
Qed.

(* the three ways the two orders differ, as concrete bit patterns *)
Definition NAN_BITS : Z := 9221120237041090560.      (* 0x7FF8_0000_0000_0000 *)
Definition NEG_NAN_BITS : Z := 18444492273895866368. (* 0xFFF8_0000_0000_0000, x86 default NaN *)
Definition NEG_ZERO_BITS : Z := 9223372036854775808. (* 0x8000_0000_0000_0000 *)
Definition HALF_BITS : Z := 4602678819172646912.     (* 0.5 *)

Lemma nan_is_greatest_in_total_order :
  cmp_apply CGt (f64_total_cmp NAN_BITS HALF_BITS) = true /\ cmp_apply CGt (f64_ieee_cmp NAN_BITS HALF_BITS) = false.
Proof. split; reflexivity. Qed.
Lemma neg_nan_is_least_in_total_order :
  cmp_apply CLt (f64_total_cmp NEG_NAN_BITS HALF_BITS) = true /\ cmp_apply CLt (f64_ieee_cmp NEG_NAN_BITS HALF_BITS) = false.
Proof. split; reflexivity. Qed.
Lemma neg_zero_differs_in_total_order :
  cmp_apply CEq (f64_total_cmp NEG_ZERO_BITS 0) = false /\ cmp_apply CEq (f64_ieee_cmp NEG_ZERO_BITS 0) = true.
Proof. split; reflexivity. Qed.

(* ------------------------------------------------------------------ *)
(* bit packing identity, for every chunk length                         *)
Definition bit01 (x : Z) : Prop := x = 0 \/ x = 1.

Lemma pack8_bits b0 b1 b2 b3 b4 b5 b6 b7 :
  bit01 b0 -> bit01 b1 -> bit01 b2 -> bit01 b3 -> bit01 b4 -> bit01 b5 -> bit01 b6 -> bit01 b7 ->
  map (fun j => Z.testbit
     (Z.lor (Z.lor (Z.lor (Z.lor (Z.lor (Z.lor (Z.lor b0 (u8 (Z.shiftl b1 1))) (u8 (Z.shiftl b2 2)))
              (u8 (Z.shiftl b3 3))) (u8 (Z.shiftl b4 4))) (u8 (Z.shiftl b5 5))) (u8 (Z.shiftl b6 6)))
              (u8 (Z.shiftl b7 7))) (Z.of_nat j)) (seq 0 8)
  = map (fun v => negb (v =? 0)) [b0; b1; b2; b3; b4; b5; b6; b7].
Proof.
  intros [->| ->] [->| ->] [->| ->] [->| ->] [->| ->] [->| ->] [->| ->] [->| ->]; reflexivity.
Qed.


Lemma pack_tail_bits : forall vs j acc k,
  Forall bit01 vs -> 0 <= acc ->
  Z.testbit (pack_tail j acc vs) (Z.of_nat k) =
  Z.testbit acc (Z.of_nat k) ||
  ((j <=? k)%nat && (k <? j + length vs)%nat && negb (nth (k - j) vs 0 =? 0)).
Proof.
  induction vs as [|v vs IH]; intros j acc k Hb Hacc; cbn [pack_tail length].
  - replace (k <? j + 0)%nat with (k <? j)%nat by (f_equal; lia).
    destruct (j <=? k)%nat eqn:E1, (k <? j)%nat eqn:E2; cbn; try now rewrite orb_false_r.
    apply Nat.leb_le in E1. apply Nat.ltb_lt in E2. lia.
  - inversion Hb as [|? ? Hv Hvs]; subst.
    rewrite IH; auto.
    2:{ destruct (v =? 0); auto. apply Z.lor_nonneg; split; auto. apply Z.shiftl_nonneg. lia. }
    destruct (Nat.eq_dec k j) as [->|Hne].
    + replace (S j <=? j)%nat with false by (symmetry; apply Nat.leb_gt; lia).
      replace (j <=? j)%nat with true by (symmetry; apply Nat.leb_le; lia).
      replace (j <? j + S (length vs))%nat with true by (symmetry; apply Nat.ltb_lt; lia).
      rewrite Nat.sub_diag. cbn [nth andb]. rewrite orb_false_r.
      destruct Hv as [->| ->]; cbn [Z.eqb negb].
      * now rewrite orb_false_r.
      * rewrite Z.lor_spec, Z.shiftl_spec by lia. rewrite Z.sub_diag. cbn. now rewrite orb_true_r.
    + assert (Hacc' : Z.testbit (if v =? 0 then acc else Z.lor acc (Z.shiftl 1 (Z.of_nat j))) (Z.of_nat k)
                      = Z.testbit acc (Z.of_nat k)).
      { destruct (v =? 0); auto. rewrite Z.lor_spec.
        replace (Z.testbit (Z.shiftl 1 (Z.of_nat j)) (Z.of_nat k)) with false; [now rewrite orb_false_r|].
        symmetry. rewrite Z.shiftl_1_l. apply Z.pow2_bits_false. lia. }
      rewrite Hacc'. f_equal.
      destruct (S j <=? k)%nat eqn:E1.
      * apply Nat.leb_le in E1.
        replace (j <=? k)%nat with true by (symmetry; apply Nat.leb_le; lia).
        replace (k - j)%nat with (S (k - S j)) by lia. cbn [nth].
        replace (k <? j + S (length vs))%nat with (k <? S j + length vs)%nat by (f_equal; lia).
        reflexivity.
      * apply Nat.leb_gt in E1.
        replace (j <=? k)%nat with false by (symmetry; apply Nat.leb_gt; lia). reflexivity.
Qed.

Lemma unpack_tail vs : Forall bit01 vs -> (length vs < 8)%nat -> vs <> [] ->
  unpack (length vs) [pack_tail 0 0 vs] = map (fun v => negb (v =? 0)) vs.
Proof.
  intros Hb Hl Hne. cbn [unpack]. rewrite app_nil_r.
  replace (Nat.min 8 (length vs)) with (length vs) by lia.
  transitivity (map (fun v => negb (v =? 0)) (map (fun i => nth i vs 0) (seq 0 (length vs))));
    [|now rewrite nth_seq_all].
  rewrite map_map.
  apply map_ext_in. intros k Hk. apply in_seq in Hk.
  rewrite pack_tail_bits by (auto; lia).
  rewrite Z.testbit_0_l. cbn [orb].
  replace (0 <=? k)%nat with true by (symmetry; apply Nat.leb_le; lia).
  replace (k <? 0 + length vs)%nat with true by (symmetry; apply Nat.ltb_lt; lia).
  now rewrite Nat.sub_0_r.
Qed.

Lemma unpack_full_step x r len :
  (8 <= len)%nat -> unpack len (x :: r) = map (fun j => Z.testbit x (Z.of_nat j)) (seq 0 8) ++ unpack (len - 8) r.
Proof. intros H. cbn [unpack]. now replace (Nat.min 8 len) with 8%nat by lia. Qed.

Lemma unpack_pack_full full : forall out extra tailp,
  Forall bit01 out -> (full * 8 <= length out)%nat ->
  unpack (full * 8 + extra) (pack_full full out ++ tailp) =
  map (fun v => negb (v =? 0)) (firstn (full * 8) out) ++ unpack extra tailp.
Proof.
  induction full as [|k IH]; intros out extra tailp Hb Hl.
  - reflexivity.
  - cbn [pack_full].
    destruct out as [|b0 [|b1 [|b2 [|b3 [|b4 [|b5 [|b6 [|b7 r]]]]]]]]; cbn [length] in Hl; try lia.
    repeat match goal with H : Forall _ (_ :: _) |- _ => inversion H; clear H; subst end.
    rewrite <- app_comm_cons, unpack_full_step by lia.
    rewrite pack8_bits by assumption.
    replace (S k * 8 + extra - 8)%nat with (k * 8 + extra)%nat by lia.
    rewrite IH by (auto; lia).
    replace (S k * 8)%nat with (8 + k * 8)%nat by lia.
    cbn [firstn Nat.add map app]. reflexivity.
Qed.

Lemma pack_bits_aux full r out :
  (r < 8)%nat -> Forall bit01 out -> (full * 8 + r <= length out)%nat ->
  unpack (full * 8 + r)
         (pack_full full out ++ match firstn r (skipn (full * 8) out) with [] => [] | _ :: _ => [pack_tail 0 0 (firstn r (skipn (full * 8) out))] end)
  = map (fun v => negb (v =? 0)) (firstn (full * 8 + r) out).
Proof.
  intros Hr Hb Hl.
  rewrite unpack_pack_full by (auto; lia).
  assert (Hsplit : firstn (full * 8 + r) out = firstn (full * 8) out ++ firstn r (skipn (full * 8) out)).
  { rewrite <- (firstn_skipn (full * 8) out) at 1.
    assert (Hlen1 : length (firstn (full * 8) out) = (full * 8)%nat) by (rewrite firstn_length; lia).
    rewrite firstn_app, Hlen1, firstn_firstn.
    replace (Nat.min (full * 8 + r) (full * 8)) with (full * 8)%nat by lia.
    now replace (full * 8 + r - full * 8)%nat with r by lia. }
  rewrite Hsplit, map_app. f_equal.
  remember (firstn r (skipn (full * 8) out)) as tail eqn:Et.
  assert (Htl : length tail = r).
  { subst tail. rewrite firstn_length, skipn_length. lia. }
  assert (Htb : Forall bit01 tail).
  { subst tail. now apply Forall_firstn', Forall_skipn'. }
  clear Et. subst r.
  destruct tail as [|t0 tl].
  - reflexivity.
  - apply unpack_tail; [auto | lia | congruence].
Qed.

(* pack_bits_id: what append_packed_range reads back is exactly the chunk's mask, for EVERY len *)
Theorem pack_bits_id len out :
  Forall bit01 out -> (len <= length out)%nat ->
  unpack len (pack len out) = map (fun v => negb (v =? 0)) (firstn len out).
Proof.
  intros Hb Hl. unfold pack.
  pose proof (Nat.div_mod len 8 ltac:(lia)) as Hdm.
  pose proof (Nat.mod_upper_bound len 8 ltac:(lia)) as Hr.
  remember (len / 8)%nat as full eqn:Efull. remember (len mod 8)%nat as r eqn:Er. clear Efull Er.
  replace (len - full * 8)%nat with r by lia.
  assert (Hlen : len = (full * 8 + r)%nat) by lia. clear Hdm. subst len.
  destruct (firstn r (skipn (full * 8) out)) eqn:Et.
  - rewrite <- (pack_bits_aux full r out) by (auto; lia). now rewrite Et.
  - rewrite <- (pack_bits_aux full r out) by (auto; lia). now rewrite Et.
Qed.

(* ------------------------------------------------------------------ *)
(* SSA bookkeeping                                                      *)
Lemma ssa_run_app d1 : forall nf nm d2,
  ssa_run nf nm (d1 ++ d2) =
  match ssa_run nf nm d1 with Some (nf1, nm1) => ssa_run nf1 nm1 d2 | None => None end.
Proof.
  induction d1 as [|i d1 IH]; intros nf nm d2; [reflexivity|].
  cbn [app ssa_run].
  destruct i; repeat match goal with |- context [if ?c then _ else _] => destruct c end; auto.
Qed.

Lemma ssa_run_mono d : forall nf nm nf' nm',
  ssa_run nf nm d = Some (nf', nm') -> (nf <= nf' /\ nm <= nm')%nat.
Proof.
  induction d as [|i d IH]; intros nf nm nf' nm' H; cbn [ssa_run] in H.
  - inversion H; subst; lia.
  - destruct i; match type of H with (if ?c then _ else _) = _ => destruct c; [|discriminate] end;
      apply IH in H; lia.
Qed.

Lemma ssa_run_bound d : forall nf nm nf' nm',
  (nf <= MAX_REGS)%nat -> (nm <= MAX_REGS)%nat ->
  ssa_run nf nm d = Some (nf', nm') -> (nf' <= MAX_REGS /\ nm' <= MAX_REGS)%nat.
Proof.
  induction d as [|i d IH]; intros nf nm nf' nm' Hf Hm H; cbn [ssa_run] in H.
  - inversion H; subst; lia.
  - destruct i; match type of H with (if ?c then _ else _) = _ => destruct c eqn:E; [|discriminate] end;
      repeat (apply andb_true_iff in E as [E ?]);
      repeat match goal with X : (_ <? _)%nat = true |- _ => apply Nat.ltb_lt in X end;
      eapply IH in H; eauto; lia.
Qed.

(* st' extends st by the instructions d *)
Definition ext (st st' : cst) (d : list instr) : Prop :=
  (exists xc, cs_cols st' = cs_cols st ++ xc) /\ cs_prog st' = cs_prog st ++ d /\
  ssa_run (cs_nf st) (cs_nm st) d = Some (cs_nf st', cs_nm st').

Lemma ext_refl st : ext st st [].
Proof. repeat split; [exists []; now rewrite app_nil_r | now rewrite app_nil_r]. Qed.

Lemma ext_trans st st1 st2 d1 d2 : ext st st1 d1 -> ext st1 st2 d2 -> ext st st2 (d1 ++ d2).
Proof.
  intros [[x1 H1] [P1 S1]] [[x2 H2] [P2 S2]]. repeat split.
  - exists (x1 ++ x2). now rewrite H2, H1, app_assoc.
  - now rewrite P2, P1, app_assoc.
  - now rewrite ssa_run_app, S1.
Qed.

Lemma ext_mono st st' d : ext st st' d -> (cs_nf st <= cs_nf st' /\ cs_nm st <= cs_nm st')%nat.
Proof. intros [_ [_ S]]. now apply ssa_run_mono in S. Qed.

Lemma falloc_ext st r st' : falloc st = Some (r, st') ->
  r = cs_nf st /\ cs_cols st' = cs_cols st /\ cs_prog st' = cs_prog st /\ cs_nf st' = S (cs_nf st) /\
  cs_nm st' = cs_nm st /\ (cs_nf st < MAX_REGS)%nat.
Proof.
  unfold falloc. destruct (MAX_REGS <=? cs_nf st)%nat eqn:E; [discriminate|].
  intros H; inversion H; subst; cbn. apply Nat.leb_gt in E. repeat split; auto.
Qed.
Lemma malloc_ext st r st' : malloc st = Some (r, st') ->
  r = cs_nm st /\ cs_cols st' = cs_cols st /\ cs_prog st' = cs_prog st /\ cs_nf st' = cs_nf st /\
  cs_nm st' = S (cs_nm st) /\ (cs_nm st < MAX_REGS)%nat.
Proof.
  unfold malloc. destruct (MAX_REGS <=? cs_nm st)%nat eqn:E; [discriminate|].
  intros H; inversion H; subst; cbn. apply Nat.leb_gt in E. repeat split; auto.
Qed.

(* ------------------------------------------------------------------ *)
(* register files                                                       *)
Definition shape (F : nat) (rs : regs) : Prop := length rs = F /\ Forall (fun sl => length sl = CHUNK) rs.

Lemma set_reg_ok F rs dst new :
  shape F rs -> (dst < F)%nat -> (length new <= CHUNK)%nat ->
  exists rs', set_reg rs dst new = Some rs' /\ shape F rs' /\
    (forall k, k <> dst -> nth k rs' [] = nth k rs []) /\
    rd (length new) (nth dst rs' []) = new.
Proof.
  intros [HL HF] Hd Hn. unfold set_reg.
  replace (dst <? length rs)%nat with true by (symmetry; apply Nat.ltb_lt; lia).
  eexists; split; [reflexivity|]. split; [|split].
  - split; [now rewrite upd_length|].
    apply Forall_upd; auto. intros x Hx. unfold wr. rewrite app_length, skipn_length. lia.
  - intros k Hk. apply nth_upd_other. congruence.
  - rewrite nth_upd_same by lia. unfold rd, wr.
    rewrite firstn_app, Nat.sub_diag, firstn_all. cbn. now rewrite app_nil_r.
Qed.

Lemma exec_app fop arrays start len d1 : forall d2 fm,
  exec fop arrays start len (d1 ++ d2) fm =
  match exec fop arrays start len d1 fm with Some fm' => exec fop arrays start len d2 fm' | None => None end.
Proof.
  induction d1 as [|i d1 IH]; intros d2 fm; [reflexivity|].
  cbn [app exec]. destruct (step fop arrays start len fm i); auto.
Qed.

(* ------------------------------------------------------------------ *)
(* schema / batch lookups                                               *)
Lemma find_field_schema_of cols c :
  find_field (map (fun x => (c_name x, c_ty x)) cols) c = option_map c_ty (find_col cols c).
Proof. induction cols as [|x r IH]; cbn; [reflexivity|]. destruct (c_name x =? c); auto. Qed.

Lemma position_spec c cols :
  match position c cols with
  | Some i => exists t, nth_error cols i = Some (c, t)
  | None => forall t, ~ In (c, t) cols
  end.
Proof.
  induction cols as [|[n t0] r IH]; cbn [position]; [intros t H; inversion H|].
  destruct (n =? c) eqn:E.
  - apply Z.eqb_eq in E; subst. exists t0; reflexivity.
  - destruct (position c r) as [i|]; cbn [option_map].
    + destruct IH as [t Ht]. exists t. exact Ht.
    + intros t [H|H]; [inversion H; subst; rewrite Z.eqb_refl in E; discriminate | eapply IH; eauto].
Qed.

Lemma ty_eqb_eq a b : ty_eqb a b = true <-> a = b.
Proof. destruct a, b; cbn; split; congruence. Qed.

Lemma find_col_In cols c col : find_col cols c = Some col -> In col cols /\ c_name col = c.
Proof.
  induction cols as [|x r IH]; cbn; [discriminate|].
  destruct (c_name x =? c) eqn:E; intros H.
  - inversion H; subst. apply Z.eqb_eq in E. auto.
  - destruct (IH H); auto.
Qed.

Ltac inv_do H :=
  repeat (match type of H with
          | match ?x with Some _ => _ | None => _ end = Some _ =>
              let E := fresh "E" in destruct x eqn:E; [|discriminate]
          | match ?p with (_, _) => _ end = Some _ => destruct p
          | (if ?c then _ else _) = Some _ => let C := fresh "C" in destruct c eqn:C; try discriminate
          end).

(* ------------------------------------------------------------------ *)
Section Correct.
  Variable fop : arith -> Z -> Z -> Z.
  Variable b : batch.
  Hypothesis Hwf : wf_batch b.
  Let s := schema_of b.
  Let n := b_rows b.

  Definition tcmp (fc : Z -> Z -> ord) (t : ty) : Z -> Z -> ord :=
    match t with TF64 => fc | _ => int_cmp end.

  (* row-wise boolean reading of e, parametric in the Float64 comparison *)
  Fixpoint bsem (fc : Z -> Z -> ord) (e : expr) (i : nat) : bool :=
    match e with
    | ECmp op x y => cmp_apply op (tcmp fc (ety s x) (vsem fop b x i) (vsem fop b y i))
    | EAnd x y => bsem fc x i && bsem fc y i
    | EOr x y => bsem fc x i || bsem fc y i
    | ENot x => negb (bsem fc x i)
    | EBetween x lo hi negated =>
        let r := cmp_apply CGe (tcmp fc (ety s x) (vsem fop b x i) (vsem fop b lo i)) &&
                 cmp_apply CLe (tcmp fc (ety s x) (vsem fop b x i) (vsem fop b hi i)) in
        if negated then negb r else r
    | EAlias x => bsem fc x i
    | _ => false
    end.

  Definition cols_ok (cols : list (Z * ty)) (arrays : list column) : Prop :=
    forall i nm t, nth_error cols i = Some (nm, t) ->
      exists col, nth_error arrays i = Some col /\ find_col (b_cols b) nm = Some col /\ c_ty col = t.
  Definition allvalid (cols : list (Z * ty)) (i : nat) : bool :=
    forallb (fun p => col_ok b (fst p) i) cols.

  Lemma cols_ok_ext st st' d arrays : ext st st' d -> cols_ok (cs_cols st') arrays -> cols_ok (cs_cols st) arrays.
  Proof.
    intros [[xc Hc] _] H i nm t Hi. apply (H i nm t). rewrite Hc.
    rewrite nth_error_app1; auto. apply nth_error_Some. congruence.
  Qed.

  Lemma col_len col nm : find_col (b_cols b) nm = Some col ->
    length (c_vals col) = n /\ length (c_valid col) = n.
  Proof.
    intros H. apply find_col_In in H as [H _]. unfold wf_batch in Hwf.
    rewrite Forall_forall in Hwf. now apply Hwf.
  Qed.

  Lemma col_slice col nm start len : find_col (b_cols b) nm = Some col -> (start + len <= n)%nat ->
    slice start len (c_vals col) = map (col_val b nm) (seq start len).
  Proof.
    intros H Hl. rewrite (slice_seq _ _ _ 0) by (destruct (col_len _ _ H); lia).
    apply map_ext. intros i. unfold col_val. now rewrite H.
  Qed.

  Lemma col_slot_ok st c dt slot st' :
    col_slot st c dt = Some (slot, st') ->
    ext st st' [] /\ nth_error (cs_cols st') slot = Some (c, dt) /\
    (forall i, allvalid (cs_cols st') i = allvalid (cs_cols st) i && col_ok b c i).
  Proof.
    unfold col_slot. pose proof (position_spec c (cs_cols st)) as P.
    destruct (position c (cs_cols st)) as [k|].
    - destruct P as [t Ht].
      rewrite (nth_error_nth _ _ _ Ht). cbn [snd].
      destruct (ty_eqb t dt) eqn:E; [|discriminate]. apply ty_eqb_eq in E. subst t.
      intros H; inversion H; subst. split; [apply ext_refl|]. split; [assumption|].
      intros i. unfold allvalid. destruct (forallb _ (cs_cols st')) eqn:A; [|reflexivity].
      rewrite forallb_forall in A. apply nth_error_In in Ht. specialize (A _ Ht). cbn in A. now rewrite A.
    - intros H; inversion H; subst; cbn [cs_cols cs_prog cs_nf cs_nm]. split; [|split].
      + repeat split; cbn; [eexists; reflexivity | now rewrite app_nil_r].
      + rewrite nth_error_app2 by lia. now rewrite Nat.sub_diag.
      + intros i. unfold allvalid. rewrite forallb_app. cbn. now rewrite andb_true_r.
  Qed.

  Lemma ext_falloc_push st dst st1 i :
    falloc st = Some (dst, st1) ->
    ssa_run (cs_nf st) (cs_nm st) [i] = Some (S (cs_nf st), cs_nm st) ->
    ext st (push i st1) [i] /\ dst = cs_nf st /\ cs_nf (push i st1) = S (cs_nf st) /\ cs_cols (push i st1) = cs_cols st.
  Proof.
    intros H Hs. apply falloc_ext in H as (-> & Hc & Hp & Hf & Hm & _).
    unfold ext, push; cbn [cs_cols cs_prog cs_nf cs_nm]. rewrite Hc, Hp, Hf, Hm.
    repeat split; auto. exists []. now rewrite app_nil_r.
  Qed.
  Lemma ext_malloc_push st dst st1 i :
    malloc st = Some (dst, st1) ->
    ssa_run (cs_nf st) (cs_nm st) [i] = Some (cs_nf st, S (cs_nm st)) ->
    ext st (push i st1) [i] /\ dst = cs_nm st /\ cs_nm (push i st1) = S (cs_nm st) /\ cs_cols (push i st1) = cs_cols st
    /\ cs_nf (push i st1) = cs_nf st.
  Proof.
    intros H Hs. apply malloc_ext in H as (-> & Hc & Hp & Hf & Hm & _).
    unfold ext, push; cbn [cs_cols cs_prog cs_nf cs_nm]. rewrite Hc, Hp, Hf, Hm.
    repeat split; auto. exists []. now rewrite app_nil_r.
  Qed.

  Lemma ltb_true a c : (a < c)%nat -> (a <? c)%nat = true.
  Proof. apply Nat.ltb_lt. Qed.

  Definition fexec_ok (st st' : cst) (d : list instr) (r : nat) (g : nat -> Z) : Prop :=
    forall arrays start len F f m,
      cols_ok (cs_cols st') arrays -> (start + len <= n)%nat -> (len <= CHUNK)%nat ->
      shape F f -> (cs_nf st' <= F)%nat ->
      exists f', exec fop arrays start len d (f, m) = Some (f', m) /\ shape F f' /\
        (forall k, (k < cs_nf st)%nat -> nth k f' [] = nth k f []) /\
        rd len (nth r f' []) = map g (seq start len).

  Lemma slice_len (l : list Z) start len : (start + len <= length l)%nat -> length (slice start len l) = len.
  Proof. intros. unfold slice. rewrite firstn_length, skipn_length. lia. Qed.

  Lemma num_f64_ok e : forall st r st',
    num_f64 s e st = Some (r, st') ->
    exists d, ext st st' d /\ (r < cs_nf st')%nat /\ ety s e = TF64 /\
      (forall i, allvalid (cs_cols st') i = allvalid (cs_cols st) i && rvalid b e i) /\
      fexec_ok st st' d r (vsem fop b e) /\
      (exists x v, interp_arr fop b e = Some (ANum TF64 x v)).
  Proof.
    induction e; intros st r st' H; cbn [num_f64] in H; try discriminate.
    - (* ECol *)
      destruct (find_field s c) as [[| | | |]|] eqn:Ef; try discriminate.
      destruct (col_slot st c TF64) as [[slot st1]|] eqn:E1; [|discriminate].
      destruct (falloc st1) as [[dst st2]|] eqn:E2; [|discriminate].
      inversion H; subst r st'; clear H.
      apply col_slot_ok in E1 as (X1 & Hslot & Hv).
      assert (Hssa : ssa_run (cs_nf st1) (cs_nm st1) [ILoadF slot dst] = Some (S (cs_nf st1), cs_nm st1)).
      { cbn [ssa_run]. pose proof (falloc_ext _ _ _ E2) as (-> & _ & _ & _ & _ & Hlt).
        now rewrite Nat.eqb_refl, (ltb_true _ _ Hlt). }
      destruct (ext_falloc_push _ _ _ _ E2 Hssa) as (X2 & -> & Hnf & Hcols).
      exists ([] ++ [ILoadF slot (cs_nf st1)]). split; [eapply ext_trans; eauto|].
      split; [rewrite Hnf; lia|]. split; [cbn; now rewrite Ef|].
      split; [intros i; rewrite Hcols; apply Hv|].
      unfold s in Ef. unfold schema_of in Ef. rewrite find_field_schema_of in Ef.
      destruct (find_col (b_cols b) c) as [col|] eqn:Efc; [|discriminate]. cbn in Ef.
      split.
      + intros arrays start len F f m Hok Hl Hc Hs HF.
        rewrite Hcols in Hok. destruct (Hok _ _ _ Hslot) as (col' & Ha & Hfc & Ht).
        rewrite Efc in Hfc. inversion Hfc; subst col'.
        cbn [app exec step]. rewrite Ha, Ht.
        assert (Hsl : length (slice start len (c_vals col)) = len).
        { apply slice_len. destruct (col_len _ _ Efc). lia. }
        destruct (set_reg_ok F f (cs_nf st1) (slice start len (c_vals col)) Hs) as (f' & Hset & Hs' & Hoth & Hrd);
          [rewrite Hnf in HF; lia | lia|].
        rewrite Hset. exists f'. split; [reflexivity|]. split; [assumption|]. split.
        * intros k Hk. apply Hoth. destruct (ext_mono _ _ _ X1). lia.
        * rewrite Hsl in Hrd. rewrite Hrd. cbn [vsem]. now apply col_slice.
      + cbn [interp_arr]. rewrite Efc. inversion Ef as [Ht]. rewrite Ht. eauto.
    - (* ELit *)
      destruct l as [bits| | | |]; try discriminate.
      destruct (falloc st) as [[dst st1]|] eqn:E; [|discriminate].
      inversion H; subst r st'; clear H.
      assert (Hssa : ssa_run (cs_nf st) (cs_nm st) [ILitF bits dst] = Some (S (cs_nf st), cs_nm st)).
      { cbn [ssa_run]. pose proof (falloc_ext _ _ _ E) as (-> & _ & _ & _ & _ & Hlt).
        now rewrite Nat.eqb_refl, (ltb_true _ _ Hlt). }
      destruct (ext_falloc_push _ _ _ _ E Hssa) as (X2 & -> & Hnf & Hcols).
      exists [ILitF bits (cs_nf st)]. split; [assumption|].
      split; [rewrite Hnf; lia|]. split; [reflexivity|].
      split; [intros i; rewrite Hcols; cbn; now rewrite andb_true_r|].
      split.
      + intros arrays start len F f m Hok Hl Hc Hs HF. cbn [exec step].
        destruct (set_reg_ok F f (cs_nf st) (repeat bits len) Hs) as (f' & Hset & Hs' & Hoth & Hrd);
          [rewrite Hnf in HF; lia | rewrite repeat_length; lia|].
        rewrite Hset. exists f'. split; [reflexivity|]. split; [assumption|]. split.
        * intros k Hk. apply Hoth. lia.
        * rewrite repeat_length in Hrd. rewrite Hrd. cbn [vsem lit_val]. apply repeat_map_seq.
      + cbn. eauto.
    - (* EArith *)
      destruct (num_f64 s e1 st) as [[ra st1]|] eqn:E1; [|discriminate].
      destruct (num_f64 s e2 st1) as [[rb st2]|] eqn:E2; [|discriminate].
      destruct (falloc st2) as [[dst st3]|] eqn:E3; [|discriminate].
      inversion H; subst r st'; clear H.
      destruct (IHe1 _ _ _ E1) as (d1 & X1 & R1 & T1 & V1 & Ex1 & (x1 & v1 & I1)).
      destruct (IHe2 _ _ _ E2) as (d2 & X2 & R2 & T2 & V2 & Ex2 & (x2 & v2 & I2)).
      assert (Hssa : ssa_run (cs_nf st2) (cs_nm st2) [IArith op ra rb dst] = Some (S (cs_nf st2), cs_nm st2)).
      { cbn [ssa_run]. pose proof (falloc_ext _ _ _ E3) as (-> & _ & _ & _ & _ & Hlt).
        destruct (ext_mono _ _ _ X2).
        rewrite Nat.eqb_refl, (ltb_true _ _ Hlt), (ltb_true ra), (ltb_true rb) by lia. reflexivity. }
      destruct (ext_falloc_push _ _ _ _ E3 Hssa) as (X3 & -> & Hnf & Hcols).
      exists ((d1 ++ d2) ++ [IArith op ra rb (cs_nf st2)]).
      split; [eapply ext_trans; [eapply ext_trans|]; eauto|].
      split; [rewrite Hnf; lia|]. split; [reflexivity|].
      split; [intros i; rewrite Hcols, V2, V1; cbn [rvalid]; now rewrite andb_assoc|].
      split.
      + intros arrays start len F f m Hok Hl Hc Hs HF.
        rewrite Hcols in Hok. rewrite Hnf in HF.
        destruct (ext_mono _ _ _ X1) as [M1 _]. destruct (ext_mono _ _ _ X2) as [M2 _].
        destruct (Ex1 arrays start len F f m (cols_ok_ext _ _ _ _ X2 Hok) Hl Hc Hs ltac:(lia))
          as (f1 & He1 & S1 & P1 & D1).
        destruct (Ex2 arrays start len F f1 m Hok Hl Hc S1 ltac:(lia)) as (f2 & He2 & S2 & P2 & D2).
        rewrite !exec_app, He1, He2. cbn [exec step]. unfold bin_reg.
        rewrite (ltb_true ra), (ltb_true rb) by lia. cbn [andb].
        assert (D1' : rd len (nth ra f2 []) = map (vsem fop b e1) (seq start len)).
        { rewrite P2 by lia. exact D1. }
        rewrite D1', D2, zipw_map.
        destruct (set_reg_ok F f2 (cs_nf st2)
                    (map (fun i => fop op (vsem fop b e1 i) (vsem fop b e2 i)) (seq start len)) S2)
          as (f' & Hset & Hs' & Hoth & Hrd); [lia | rewrite map_length, seq_length; lia|].
        rewrite Hset. exists f'. split; [reflexivity|]. split; [assumption|]. split.
        * intros k Hk. rewrite Hoth by lia. rewrite P2 by lia. apply P1. assumption.
        * rewrite map_length, seq_length in Hrd. rewrite Hrd. reflexivity.
      + cbn [interp_arr]. rewrite I1, I2. eauto.
    - (* EAlias *)
      destruct (IHe _ _ _ H) as (d & X & R & T & V & Ex & I).
      exists d. split; [exact X|]. split; [exact R|]. split; [exact T|]. split; [exact V|]. split; [exact Ex|exact I].
    - (* ECastF64 *)
      destruct (IHe _ _ _ H) as (d & X & R & T & V & Ex & (x & v & I)).
      exists d. split; [exact X|]. split; [exact R|]. split; [reflexivity|]. split; [exact V|]. split; [exact Ex|].
      cbn [interp_arr]. rewrite I. eauto.
  Qed.

  (* ---- comparison sides ---- *)
  Definition resolve_by (dt : ty) arrays start len (f : regs) (sr : src) : option operand :=
    match dt with
    | TF64 => resolve_f arrays start len f sr
    | TI64 => resolve_i64 arrays start len sr
    | TI32 | TD32 => resolve_i32 arrays start len sr
    | TOther => None
    end.
  Definition op_list (len : nat) (o : operand) : list Z :=
    match o with OSlice l => l | OScalar v => repeat v len end.

  Definition side_exec_ok (st st' : cst) (d : list instr) (sr : src) (dt : ty) (g : nat -> Z) : Prop :=
    forall arrays start len F f m,
      cols_ok (cs_cols st') arrays -> (start + len <= n)%nat -> (len <= CHUNK)%nat ->
      shape F f -> (cs_nf st' <= F)%nat ->
      exists f', exec fop arrays start len d (f, m) = Some (f', m) /\ shape F f' /\
        (forall k, (k < cs_nf st)%nat -> nth k f' [] = nth k f []) /\
        forall f'', shape F f'' -> (forall k, (k < cs_nf st')%nat -> nth k f'' [] = nth k f' []) ->
          exists o, resolve_by dt arrays start len f'' sr = Some o /\
                    op_list len o = map g (seq start len).

  Lemma side_ok e : forall st sr dt st',
    side s e st = Some (sr, dt, st') ->
    exists d, ext st st' d /\ src_ok (cs_nf st') sr = true /\ dt = ety s e /\ is_numeric dt = true /\
      (forall i, allvalid (cs_cols st') i = allvalid (cs_cols st) i && rvalid b e i) /\
      (exists x v, interp_arr fop b e = Some (ANum dt x v)) /\
      side_exec_ok st st' d sr dt (vsem fop b e).
  Proof.
    induction e; intros st sr dt st' H; cbn [side] in H; try discriminate.
    - (* ECol *)
      destruct (find_field s c) as [t|] eqn:Ef; [|discriminate].
      destruct (is_numeric t) eqn:Hnum; [|discriminate].
      destruct (col_slot st c t) as [[slot st1]|] eqn:E1; [|discriminate].
      inversion H; subst sr dt st'; clear H.
      apply col_slot_ok in E1 as (X1 & Hslot & Hv).
      exists []. split; [exact X1|]. split; [reflexivity|]. split; [cbn; now rewrite Ef|].
      split; [exact Hnum|]. split; [exact Hv|].
      unfold s in Ef. unfold schema_of in Ef. rewrite find_field_schema_of in Ef.
      destruct (find_col (b_cols b) c) as [col|] eqn:Efc; [|discriminate]. cbn in Ef.
      inversion Ef as [Ht].
      split; [cbn [interp_arr]; rewrite Efc, Ht; eauto|].
      intros arrays start len F f m Hok Hl Hc Hs HF. exists f. cbn [exec].
      split; [reflexivity|]. split; [assumption|]. split; [auto|].
      intros f'' Hs'' Hp. destruct (Hok _ _ _ Hslot) as (col' & Ha & Hfc & Ht').
      rewrite Efc in Hfc. inversion Hfc; subst col'.
      exists (OSlice (slice start len (c_vals col))). split.
      + unfold resolve_by, resolve_f, resolve_i64, resolve_i32. rewrite Ha, Ht'.
        destruct t; try reflexivity; discriminate.
      + cbn [op_list vsem]. now apply col_slice.
    - (* ELit *)
      destruct l; try discriminate; inversion H; subst sr dt st'; clear H;
        (exists []; split; [apply ext_refl|]; split; [reflexivity|]; split; [reflexivity|];
         split; [reflexivity|]; split; [intros i; cbn; now rewrite andb_true_r|];
         split; [cbn; eauto|];
         intros arrays start len F f m Hok Hl Hc Hs HF; exists f; cbn [exec];
         split; [reflexivity|]; split; [assumption|]; split; [auto|];
         intros f'' Hs'' Hp; eexists; split; [reflexivity|]; cbn [op_list vsem lit_val]; apply repeat_map_seq).
    - (* EArith *)
      destruct (num_f64 s (EArith op e1 e2) st) as [[r st1]|] eqn:E1; [|discriminate].
      inversion H; subst sr dt st'; clear H.
      destruct (num_f64_ok _ _ _ _ E1) as (d & X & R & T & V & Ex & I).
      exists d. split; [exact X|]. split; [cbn; now apply ltb_true|]. split; [reflexivity|].
      split; [reflexivity|]. split; [exact V|]. split; [exact I|].
      intros arrays start len F f m Hok Hl Hc Hs HF.
      destruct (Ex arrays start len F f m Hok Hl Hc Hs HF) as (f' & He & S' & P & D).
      exists f'. split; [exact He|]. split; [exact S'|]. split; [exact P|].
      intros f'' [HL'' HF''] Hp. exists (OSlice (rd len (nth r f'' []))). split.
      + cbn [resolve_by resolve_f]. rewrite ltb_true by lia. reflexivity.
      + cbn [op_list]. rewrite Hp by lia. exact D.
    - (* EAlias *)
      destruct (IHe _ _ _ _ H) as (d & X & R & T & Hn & V & I & Ex).
      exists d. split; [exact X|]. split; [exact R|]. split; [exact T|]. split; [exact Hn|].
      split; [exact V|]. split; [exact I|exact Ex].
  Qed.

  (* ---- comparisons ---- *)
  Lemma zipw_repeat_r {A B C} (f : A -> B -> C) x y : zipw f x (repeat y (length x)) = map (fun u => f u y) x.
  Proof. induction x; cbn; congruence. Qed.
  Lemma zipw_repeat_l {A B C} (f : A -> B -> C) x y : zipw f (repeat x (length y)) y = map (fun v => f x v) y.
  Proof. induction y; cbn; congruence. Qed.
  Lemma zipw_repeat_both {A B C} (f : A -> B -> C) x y len :
    zipw f (repeat x len) (repeat y len) = repeat (f x y) len.
  Proof. induction len; cbn; congruence. Qed.

  Lemma cmp_shapes_den fn oa ob len start ga gb :
    op_list len oa = map ga (seq start len) -> op_list len ob = map gb (seq start len) ->
    cmp_shapes fn oa ob len = map (fun i => b2z (fn (ga i) (gb i))) (seq start len).
  Proof.
    intros Ha Hb.
    assert (La : length (op_list len oa) = len) by (rewrite Ha, map_length, seq_length; reflexivity).
    assert (Lb : length (op_list len ob) = len) by (rewrite Hb, map_length, seq_length; reflexivity).
    rewrite <- (zipw_map (fun u v => b2z (fn u v)) ga gb), <- Ha, <- Hb.
    destruct oa as [x|x], ob as [y|y]; cbn [cmp_shapes op_list] in *.
    - reflexivity.
    - clear Lb Ha Hb. subst len. now rewrite zipw_repeat_r.
    - clear La Ha Hb. subst len. now rewrite zipw_repeat_l.
    - now rewrite zipw_repeat_both.
  Qed.

  Lemma src_ok_mono nf nf' sr : src_ok nf sr = true -> (nf <= nf')%nat -> src_ok nf' sr = true.
  Proof. destruct sr; cbn; auto. intros H Hle. apply Nat.ltb_lt in H. apply Nat.ltb_lt. lia. Qed.

  Definition bexec_ok (st st' : cst) (d : list instr) (r : nat) (g : nat -> bool) : Prop :=
    forall arrays start len F M f m,
      cols_ok (cs_cols st') arrays -> (start + len <= n)%nat -> (len <= CHUNK)%nat ->
      shape F f -> shape M m -> (cs_nf st' <= F)%nat -> (cs_nm st' <= M)%nat ->
      exists f' m', exec fop arrays start len d (f, m) = Some (f', m') /\ shape F f' /\ shape M m' /\
        (forall k, (k < cs_nf st)%nat -> nth k f' [] = nth k f []) /\
        (forall k, (k < cs_nm st)%nat -> nth k m' [] = nth k m []) /\
        rd len (nth r m' []) = map (fun i => b2z (g i)) (seq start len).

  Definition cmp_sem (fc : Z -> Z -> ord) (op : cmp) (l r : expr) (i : nat) : bool :=
    cmp_apply op (tcmp fc (ety s l) (vsem fop b l i) (vsem fop b r i)).

  Lemma m_set_ok M m dst start len (g : nat -> bool) :
    shape M m -> (dst < M)%nat -> (len <= CHUNK)%nat ->
    exists m', set_reg m dst (map (fun i => b2z (g i)) (seq start len)) = Some m' /\ shape M m' /\
      (forall k, (k < dst)%nat -> nth k m' [] = nth k m []) /\
      rd len (nth dst m' []) = map (fun i => b2z (g i)) (seq start len).
  Proof.
    intros Hs Hd Hl.
    destruct (set_reg_ok M m dst (map (fun i => b2z (g i)) (seq start len)) Hs Hd) as (m' & H1 & H2 & H3 & H4).
    { rewrite map_length, seq_length. exact Hl. }
    rewrite map_length, seq_length in H4.
    exists m'. repeat split; try apply H2; auto. intros k Hk. apply H3. lia.
  Qed.

  Lemma cmp_node_ok op l r : forall st res st',
    cmp_node s op l r st = Some (res, st') ->
    exists d, ext st st' d /\ (res < cs_nm st')%nat /\
      (forall i, allvalid (cs_cols st') i = allvalid (cs_cols st) i && (rvalid b l i && rvalid b r i)) /\
      bexec_ok st st' d res (cmp_sem f64_ieee_cmp op l r) /\
      is_numeric (ety s l) = true /\
      (exists x v y w, interp_arr fop b l = Some (ANum (ety s l) x v) /\
                       interp_arr fop b r = Some (ANum (ety s l) y w)).
  Proof.
    intros st res st' H. unfold cmp_node in H.
    destruct (side s l st) as [[[a ta] st1]|] eqn:E1; [|discriminate].
    destruct (side s r st1) as [[[b0 tb] st2]|] eqn:E2; [|discriminate].
    destruct (ty_eqb ta tb) eqn:Et; [|discriminate]. apply ty_eqb_eq in Et. subst tb.
    destruct (malloc st2) as [[dst st3]|] eqn:E3; [|discriminate].
    destruct (side_ok _ _ _ _ _ E1) as (d1 & X1 & R1 & T1 & N1 & V1 & (x & v & I1) & Ex1).
    destruct (side_ok _ _ _ _ _ E2) as (d2 & X2 & R2 & T2 & N2 & V2 & (y & w & I2) & Ex2).
    destruct (ext_mono _ _ _ X1) as [M1f M1m]. destruct (ext_mono _ _ _ X2) as [M2f M2m].
    pose (ins := match ta with
                 | TF64 => ICmpF a b0 op dst
                 | TI64 => ICmpI64 a b0 op dst
                 | _ => ICmpI32 a b0 op dst
                 end).
    assert (Hres : res = dst /\ st' = push ins st3).
    { destruct ta; try discriminate; inversion H; subst; auto. }
    destruct Hres as [-> ->]. clear H.
    assert (Hssa : ssa_run (cs_nf st2) (cs_nm st2) [ins] = Some (cs_nf st2, S (cs_nm st2))).
    { pose proof (malloc_ext _ _ _ E3) as (-> & _ & _ & _ & _ & Hlt).
      pose proof (src_ok_mono _ _ _ R1 M2f) as R1'.
      unfold ins. destruct ta; cbn [ssa_run]; rewrite R1', R2, Nat.eqb_refl, (ltb_true _ _ Hlt); reflexivity. }
    destruct (ext_malloc_push _ _ _ _ E3 Hssa) as (X3 & -> & Hnm & Hcols & Hnf).
    exists ((d1 ++ d2) ++ [ins]).
    split; [eapply ext_trans; [eapply ext_trans|]; eauto|].
    split; [rewrite Hnm; lia|].
    split; [intros i; rewrite Hcols, V2, V1; now rewrite andb_assoc|].
    split; [|split; [rewrite <- T1; exact N1|]].
    2:{ exists x, v, y, w. rewrite <- T1. split; [exact I1|]. exact I2. }
    intros arrays start len F M f m Hok Hl Hc Hsf Hsm HF HM.
    rewrite Hcols in Hok. rewrite Hnf in HF. rewrite Hnm in HM.
    destruct (Ex1 arrays start len F f m (cols_ok_ext _ _ _ _ X2 Hok) Hl Hc Hsf ltac:(lia))
      as (f1 & He1 & S1 & P1 & Res1).
    destruct (Ex2 arrays start len F f1 m Hok Hl Hc S1 ltac:(lia)) as (f2 & He2 & S2 & P2 & Res2).
    destruct (Res1 f2 S2 P2) as (oa & Ra & Da).
    destruct (Res2 f2 S2 (fun _ _ => eq_refl)) as (ob & Rb & Db).
    rewrite !exec_app, He1, He2.
    pose (g := cmp_sem f64_ieee_cmp op l r).
    destruct (m_set_ok M m (cs_nm st2) start len g Hsm ltac:(lia) Hc) as (m' & Hset & Hs' & Hoth & Hrd).
    exists f2, m'.
    split.
    { unfold ins. unfold resolve_by in Ra, Rb.
      destruct ta; try discriminate; cbn [exec step]; rewrite Ra, Rb;
        rewrite (cmp_shapes_den _ _ _ _ _ _ _ Da Db);
        unfold g, cmp_sem in Hset; rewrite <- T1 in Hset; cbn [tcmp] in Hset; rewrite Hset; reflexivity. }
    split; [exact S2|]. split; [exact Hs'|].
    split; [intros k Hk; rewrite P2 by lia; now apply P1|].
    split; [intros k Hk; apply Hoth; lia|]. exact Hrd.
  Qed.

  (* ---- boolean connectives ---- *)
  Lemma land_b2z x y : Z.land (b2z x) (b2z y) = b2z (x && y).
  Proof. now destruct x, y. Qed.
  Lemma lor_b2z x y : Z.lor (b2z x) (b2z y) = b2z (x || y).
  Proof. now destruct x, y. Qed.
  Lemma not_b2z x : 1 - b2z x = b2z (negb x).
  Proof. now destruct x. Qed.

  Definition bin_ins (isand : bool) (a c dst : nat) : instr := if isand then IAnd a c dst else IOr a c dst.
  Definition bin_op (isand : bool) : bool -> bool -> bool := if isand then andb else orb.

  Lemma bin_compose isand st st1 st2 st3 d1 d2 ra rb dst g1 g2 :
    ext st st1 d1 -> bexec_ok st st1 d1 ra g1 -> (ra < cs_nm st1)%nat ->
    ext st1 st2 d2 -> bexec_ok st1 st2 d2 rb g2 -> (rb < cs_nm st2)%nat ->
    malloc st2 = Some (dst, st3) ->
    let st' := push (bin_ins isand ra rb dst) st3 in
    ext st st' ((d1 ++ d2) ++ [bin_ins isand ra rb dst]) /\ (dst < cs_nm st')%nat /\
    cs_cols st' = cs_cols st2 /\
    bexec_ok st st' ((d1 ++ d2) ++ [bin_ins isand ra rb dst]) dst (fun i => bin_op isand (g1 i) (g2 i)).
  Proof.
    intros X1 Ex1 R1 X2 Ex2 R2 E3 st'.
    destruct (ext_mono _ _ _ X1) as [M1f M1m]. destruct (ext_mono _ _ _ X2) as [M2f M2m].
    assert (Hssa : ssa_run (cs_nf st2) (cs_nm st2) [bin_ins isand ra rb dst] = Some (cs_nf st2, S (cs_nm st2))).
    { pose proof (malloc_ext _ _ _ E3) as (-> & _ & _ & _ & _ & Hlt).
      destruct isand; cbn [bin_ins ssa_run];
        rewrite Nat.eqb_refl, (ltb_true _ _ Hlt), (ltb_true ra), (ltb_true rb) by lia; reflexivity. }
    destruct (ext_malloc_push _ _ _ _ E3 Hssa) as (X3 & -> & Hnm & Hcols & Hnf).
    fold st' in X3, Hnm, Hcols, Hnf.
    split; [eapply ext_trans; [eapply ext_trans|]; eauto|].
    split; [rewrite Hnm; lia|]. split; [exact Hcols|].
    intros arrays start len F M f m Hok Hl Hc Hsf Hsm HF HM.
    rewrite Hcols in Hok. rewrite Hnf in HF. rewrite Hnm in HM.
    destruct (Ex1 arrays start len F M f m (cols_ok_ext _ _ _ _ X2 Hok) Hl Hc Hsf Hsm ltac:(lia) ltac:(lia))
      as (f1 & m1 & He1 & Sf1 & Sm1 & Pf1 & Pm1 & D1).
    destruct (Ex2 arrays start len F M f1 m1 Hok Hl Hc Sf1 Sm1 ltac:(lia) ltac:(lia))
      as (f2 & m2 & He2 & Sf2 & Sm2 & Pf2 & Pm2 & D2).
    rewrite !exec_app, He1, He2.
    destruct (m_set_ok M m2 (cs_nm st2) start len (fun i => bin_op isand (g1 i) (g2 i)) Sm2 ltac:(lia) Hc)
      as (m' & Hset & Hs' & Hoth & Hrd).
    exists f2, m'. split.
    { assert (D1' : rd len (nth ra m2 []) = map (fun i => b2z (g1 i)) (seq start len))
        by (rewrite Pm2 by lia; exact D1).
      destruct isand; cbn [bin_ins exec step]; unfold bin_reg;
        rewrite (ltb_true ra), (ltb_true rb) by lia; cbn [andb]; rewrite D1', D2, zipw_map.
      - erewrite map_ext; [rewrite Hset; reflexivity|]. intros i. apply land_b2z.
      - erewrite map_ext; [rewrite Hset; reflexivity|]. intros i. apply lor_b2z. }
    split; [exact Sf2|]. split; [exact Hs'|].
    split; [intros k Hk; rewrite Pf2 by lia; now apply Pf1|].
    split; [intros k Hk; rewrite Hoth by lia; rewrite Pm2 by lia; now apply Pm1|]. exact Hrd.
  Qed.

  Lemma not_compose st st1 st2 d1 ra dst g1 :
    ext st st1 d1 -> bexec_ok st st1 d1 ra g1 -> (ra < cs_nm st1)%nat ->
    malloc st1 = Some (dst, st2) ->
    let st' := push (INot ra dst) st2 in
    ext st st' (d1 ++ [INot ra dst]) /\ (dst < cs_nm st')%nat /\ cs_cols st' = cs_cols st1 /\
    bexec_ok st st' (d1 ++ [INot ra dst]) dst (fun i => negb (g1 i)).
  Proof.
    intros X1 Ex1 R1 E3 st'.
    destruct (ext_mono _ _ _ X1) as [M1f M1m].
    assert (Hssa : ssa_run (cs_nf st1) (cs_nm st1) [INot ra dst] = Some (cs_nf st1, S (cs_nm st1))).
    { pose proof (malloc_ext _ _ _ E3) as (-> & _ & _ & _ & _ & Hlt).
      cbn [ssa_run]. rewrite Nat.eqb_refl, (ltb_true _ _ Hlt), (ltb_true ra) by lia. reflexivity. }
    destruct (ext_malloc_push _ _ _ _ E3 Hssa) as (X3 & -> & Hnm & Hcols & Hnf).
    fold st' in X3, Hnm, Hcols, Hnf.
    split; [eapply ext_trans; eauto|].
    split; [rewrite Hnm; lia|]. split; [exact Hcols|].
    intros arrays start len F M f m Hok Hl Hc Hsf Hsm HF HM.
    rewrite Hcols in Hok. rewrite Hnf in HF. rewrite Hnm in HM.
    destruct (Ex1 arrays start len F M f m Hok Hl Hc Hsf Hsm ltac:(lia) ltac:(lia))
      as (f1 & m1 & He1 & Sf1 & Sm1 & Pf1 & Pm1 & D1).
    rewrite !exec_app, He1.
    destruct (m_set_ok M m1 (cs_nm st1) start len (fun i => negb (g1 i)) Sm1 ltac:(lia) Hc)
      as (m' & Hset & Hs' & Hoth & Hrd).
    exists f1, m'. split.
    { cbn [exec step]. rewrite (ltb_true ra) by lia. rewrite D1, map_map.
      erewrite map_ext; [rewrite Hset; reflexivity|]. intros i. apply not_b2z. }
    split; [exact Sf1|]. split; [exact Hs'|].
    split; [exact Pf1|].
    split; [intros k Hk; rewrite Hoth by lia; now apply Pm1|]. exact Hrd.
  Qed.

  Lemma cmp_arrays_some op t x v y w : is_numeric t = true ->
    exists bx bv, cmp_arrays op (ANum t x v) (ANum t y w) = Some (ABool bx bv).
  Proof. intros H. destruct t; try discriminate; cbn; eauto. Qed.

  Lemma boolean_ok e : forall st res st',
    boolean s e st = Some (res, st') ->
    exists d, ext st st' d /\ (res < cs_nm st')%nat /\
      (forall i, allvalid (cs_cols st') i = allvalid (cs_cols st) i && rvalid b e i) /\
      bexec_ok st st' d res (bsem f64_ieee_cmp e) /\
      (exists x v, interp_arr fop b e = Some (ABool x v)).
  Proof.
    induction e; intros st res st' H; cbn [boolean] in H; try discriminate.
    - (* ECmp *)
      destruct (cmp_node_ok _ _ _ _ _ _ H) as (d & X & R & V & Ex & Hn & (x & v & y & w & I1 & I2)).
      exists d. split; [exact X|]. split; [exact R|]. split; [exact V|]. split; [exact Ex|].
      cbn [interp_arr]. rewrite I1, I2. now apply cmp_arrays_some.
    - (* EAnd *)
      destruct (boolean s e1 st) as [[ra st1]|] eqn:E1; [|discriminate].
      destruct (boolean s e2 st1) as [[rb st2]|] eqn:E2; [|discriminate].
      destruct (malloc st2) as [[dst st3]|] eqn:E3; [|discriminate].
      inversion H; subst res st'; clear H.
      destruct (IHe1 _ _ _ E1) as (d1 & X1 & R1 & V1 & Ex1 & (x1 & v1 & I1)).
      destruct (IHe2 _ _ _ E2) as (d2 & X2 & R2 & V2 & Ex2 & (x2 & v2 & I2)).
      destruct (bin_compose true _ _ _ _ _ _ _ _ _ _ _ X1 Ex1 R1 X2 Ex2 R2 E3) as (X & R & Hcols & Ex).
      eexists. split; [exact X|]. split; [exact R|].
      split; [intros i; cbn [bin_ins] in Hcols; rewrite Hcols, V2, V1; cbn [rvalid]; now rewrite andb_assoc|].
      split; [exact Ex|]. cbn [interp_arr]. rewrite I1, I2. cbn. eauto.
    - (* EOr *)
      destruct (boolean s e1 st) as [[ra st1]|] eqn:E1; [|discriminate].
      destruct (boolean s e2 st1) as [[rb st2]|] eqn:E2; [|discriminate].
      destruct (malloc st2) as [[dst st3]|] eqn:E3; [|discriminate].
      inversion H; subst res st'; clear H.
      destruct (IHe1 _ _ _ E1) as (d1 & X1 & R1 & V1 & Ex1 & (x1 & v1 & I1)).
      destruct (IHe2 _ _ _ E2) as (d2 & X2 & R2 & V2 & Ex2 & (x2 & v2 & I2)).
      destruct (bin_compose false _ _ _ _ _ _ _ _ _ _ _ X1 Ex1 R1 X2 Ex2 R2 E3) as (X & R & Hcols & Ex).
      eexists. split; [exact X|]. split; [exact R|].
      split; [intros i; cbn [bin_ins] in Hcols; rewrite Hcols, V2, V1; cbn [rvalid]; now rewrite andb_assoc|].
      split; [exact Ex|]. cbn [interp_arr]. rewrite I1, I2. cbn. eauto.
    - (* ENot *)
      destruct (boolean s e st) as [[ra st1]|] eqn:E1; [|discriminate].
      destruct (malloc st1) as [[dst st2]|] eqn:E2; [|discriminate].
      inversion H; subst res st'; clear H.
      destruct (IHe _ _ _ E1) as (d1 & X1 & R1 & V1 & Ex1 & (x1 & v1 & I1)).
      destruct (not_compose _ _ _ _ _ _ _ X1 Ex1 R1 E2) as (X & R & Hcols & Ex).
      eexists. split; [exact X|]. split; [exact R|].
      split; [intros i; rewrite Hcols, V1; reflexivity|].
      split; [exact Ex|]. cbn [interp_arr]. rewrite I1. cbn. eauto.
    - (* EBetween *)
      destruct (cmp_node s CGe e1 e2 st) as [[ge st1]|] eqn:E1; [|discriminate].
      destruct (cmp_node s CLe e1 e3 st1) as [[le st2]|] eqn:E2; [|discriminate].
      destruct (malloc st2) as [[dst st3]|] eqn:E3; [|discriminate].
      destruct (cmp_node_ok _ _ _ _ _ _ E1) as (d1 & X1 & R1 & V1 & Ex1 & Hn1 & (x1 & v1 & y1 & w1 & I1 & I1')).
      destruct (cmp_node_ok _ _ _ _ _ _ E2) as (d2 & X2 & R2 & V2 & Ex2 & Hn2 & (x2 & v2 & y2 & w2 & I2 & I2')).
      destruct (bin_compose true _ _ _ _ _ _ _ _ _ _ _ X1 Ex1 R1 X2 Ex2 R2 E3) as (X & R & Hcols & Ex).
      cbn [bin_ins] in *.
      assert (HI : exists bx bv, interp_arr fop b (EBetween e1 e2 e3 negated) = Some (ABool bx bv)).
      { cbn [interp_arr]. rewrite I1, I1', I2'.
        destruct (cmp_arrays_some CGe _ x1 v1 y1 w1 Hn1) as (g1 & gv1 & ->).
        destruct (cmp_arrays_some CLe _ x1 v1 y2 w2 Hn1) as (g2 & gv2 & ->).
        cbn. destruct negated; cbn; eauto. }
      destruct negated.
      + destruct (malloc (push (IAnd ge le dst) st3)) as [[nd st5]|] eqn:E5; [|discriminate].
        inversion H; subst res st'; clear H.
        destruct (not_compose _ _ _ _ _ _ _ X Ex R E5) as (X' & R' & Hcols' & Ex').
        eexists. split; [exact X'|]. split; [exact R'|].
        split; [intros i; rewrite Hcols', Hcols, V2, V1; cbn [rvalid]; symmetry; apply andb_assoc|].
        split; [exact Ex'|exact HI].
      + inversion H; subst res st'; clear H.
        eexists. split; [exact X|]. split; [exact R|].
        split; [intros i; rewrite Hcols, V2, V1; cbn [rvalid]; symmetry; apply andb_assoc|].
        split; [exact Ex|exact HI].
    - (* EAlias *)
      destruct (IHe _ _ _ H) as (d & X & R & V & Ex & I).
      exists d. split; [exact X|]. split; [exact R|]. split; [exact V|]. split; [exact Ex|exact I].
  Qed.

  (* ---- referenced columns exist in the batch with the compiled type ---- *)
  Definition cols_typed (cols : list (Z * ty)) : Prop :=
    forall nm t, In (nm, t) cols -> find_field s nm = Some t.

  Lemma col_slot_typed st c dt slot st' :
    cols_typed (cs_cols st) -> find_field s c = Some dt ->
    col_slot st c dt = Some (slot, st') -> cols_typed (cs_cols st').
  Proof.
    unfold col_slot. intros Ht Hf H.
    destruct (position c (cs_cols st)).
    - destruct (ty_eqb _ dt); inversion H; subst; auto.
    - inversion H; subst; cbn. intros nm t Hin. apply in_app_or in Hin as [Hin|[Hin|[]]]; auto.
      inversion Hin; subst; auto.
  Qed.
  Lemma falloc_cols st r st' : falloc st = Some (r, st') -> cs_cols st' = cs_cols st.
  Proof. intros H. now apply falloc_ext in H as (_ & H & _). Qed.
  Lemma malloc_cols st r st' : malloc st = Some (r, st') -> cs_cols st' = cs_cols st.
  Proof. intros H. now apply malloc_ext in H as (_ & H & _). Qed.

  Lemma num_f64_typed e : forall st r st',
    cols_typed (cs_cols st) -> num_f64 s e st = Some (r, st') -> cols_typed (cs_cols st').
  Proof.
    induction e; intros st r st' Ht H; cbn [num_f64] in H; try discriminate.
    - destruct (find_field s c) as [[| | | |]|] eqn:Ef; try discriminate.
      destruct (col_slot st c TF64) as [[slot st1]|] eqn:E1; [|discriminate].
      destruct (falloc st1) as [[dst st2]|] eqn:E2; [|discriminate].
      inversion H; subst; cbn [push cs_cols]. rewrite (falloc_cols _ _ _ E2).
      eapply col_slot_typed; eauto.
    - destruct l; try discriminate. destruct (falloc st) as [[dst st1]|] eqn:E; [|discriminate].
      inversion H; subst; cbn [push cs_cols]. now rewrite (falloc_cols _ _ _ E).
    - destruct (num_f64 s e1 st) as [[ra st1]|] eqn:E1; [|discriminate].
      destruct (num_f64 s e2 st1) as [[rb st2]|] eqn:E2; [|discriminate].
      destruct (falloc st2) as [[dst st3]|] eqn:E3; [|discriminate].
      inversion H; subst; cbn [push cs_cols]. rewrite (falloc_cols _ _ _ E3). eauto.
    - eauto.
    - eauto.
  Qed.

  Lemma side_typed e : forall st sr dt st',
    cols_typed (cs_cols st) -> side s e st = Some (sr, dt, st') -> cols_typed (cs_cols st').
  Proof.
    induction e; intros st sr dt st' Ht H; cbn [side] in H; try discriminate.
    - destruct (find_field s c) as [t|] eqn:Ef; [|discriminate].
      destruct (is_numeric t); [|discriminate].
      destruct (col_slot st c t) as [[slot st1]|] eqn:E1; [|discriminate].
      inversion H; subst. eapply col_slot_typed; eauto.
    - destruct l; try discriminate; inversion H; subst; auto.
    - destruct (num_f64 s (EArith op e1 e2) st) as [[r st1]|] eqn:E1; [|discriminate].
      inversion H; subst. eapply num_f64_typed; eauto.
    - eauto.
  Qed.

  Lemma cmp_node_typed op l r st res st' :
    cols_typed (cs_cols st) -> cmp_node s op l r st = Some (res, st') -> cols_typed (cs_cols st').
  Proof.
    intros Ht H. unfold cmp_node in H.
    destruct (side s l st) as [[[a ta] st1]|] eqn:E1; [|discriminate].
    destruct (side s r st1) as [[[b0 tb] st2]|] eqn:E2; [|discriminate].
    destruct (ty_eqb ta tb); [|discriminate].
    destruct (malloc st2) as [[dst st3]|] eqn:E3; [|discriminate].
    assert (cols_typed (cs_cols st3)).
    { rewrite (malloc_cols _ _ _ E3). eapply side_typed; [|exact E2]. eapply side_typed; eauto. }
    destruct ta; inversion H; subst; auto.
  Qed.

  Lemma boolean_typed e : forall st res st',
    cols_typed (cs_cols st) -> boolean s e st = Some (res, st') -> cols_typed (cs_cols st').
  Proof.
    induction e; intros st res st' Ht H; cbn [boolean] in H; try discriminate.
    - eapply cmp_node_typed; eauto.
    - destruct (boolean s e1 st) as [[ra st1]|] eqn:E1; [|discriminate].
      destruct (boolean s e2 st1) as [[rb st2]|] eqn:E2; [|discriminate].
      destruct (malloc st2) as [[dst st3]|] eqn:E3; [|discriminate].
      inversion H; subst; cbn [push cs_cols]. rewrite (malloc_cols _ _ _ E3). eauto.
    - destruct (boolean s e1 st) as [[ra st1]|] eqn:E1; [|discriminate].
      destruct (boolean s e2 st1) as [[rb st2]|] eqn:E2; [|discriminate].
      destruct (malloc st2) as [[dst st3]|] eqn:E3; [|discriminate].
      inversion H; subst; cbn [push cs_cols]. rewrite (malloc_cols _ _ _ E3). eauto.
    - destruct (boolean s e st) as [[ra st1]|] eqn:E1; [|discriminate].
      destruct (malloc st1) as [[dst st2]|] eqn:E2; [|discriminate].
      inversion H; subst; cbn [push cs_cols]. rewrite (malloc_cols _ _ _ E2). eauto.
    - destruct (cmp_node s CGe e1 e2 st) as [[ge st1]|] eqn:E1; [|discriminate].
      destruct (cmp_node s CLe e1 e3 st1) as [[le st2]|] eqn:E2; [|discriminate].
      destruct (malloc st2) as [[dst st3]|] eqn:E3; [|discriminate].
      assert (cols_typed (cs_cols st3)).
      { rewrite (malloc_cols _ _ _ E3). eapply cmp_node_typed; [|exact E2]. eapply cmp_node_typed; eauto. }
      destruct negated.
      + destruct (malloc (push (IAnd ge le dst) st3)) as [[nd st5]|] eqn:E5; [|discriminate].
        inversion H; subst; cbn [push cs_cols]. rewrite (malloc_cols _ _ _ E5). auto.
      + inversion H; subst; auto.
    - eauto.
  Qed.

  Lemma resolve_some cols : cols_typed cols -> exists arrays, resolve b cols = Some arrays.
  Proof.
    induction cols as [|[nm t] r IH]; intros Ht; cbn [resolve]; [eauto|].
    pose proof (Ht nm t (or_introl eq_refl)) as Hf.
    unfold s, schema_of in Hf. rewrite find_field_schema_of in Hf.
    destruct (find_col (b_cols b) nm) as [col|]; [|discriminate]. cbn in Hf. inversion Hf as [Hty].
    replace (ty_eqb (c_ty col) (c_ty col)) with true by (symmetry; now apply ty_eqb_eq).
    destruct IH as [arrays ->]; [intros nm' t' Hin; apply Ht; now right|]. cbn. eauto.
  Qed.

  Lemma resolve_spec cols : forall arrays, resolve b cols = Some arrays ->
    cols_ok cols arrays /\ forall i, row_valid arrays i = allvalid cols i.
  Proof.
    induction cols as [|[nm t] r IH]; intros arrays H; cbn [resolve] in H.
    - inversion H; subst. split; [intros [|i] nm t Hn; discriminate|reflexivity].
    - destruct (find_col (b_cols b) nm) as [col|] eqn:Ef; [|discriminate].
      destruct (ty_eqb (c_ty col) t) eqn:Et; [|discriminate]. apply ty_eqb_eq in Et.
      destruct (resolve b r) as [ar|]; [|discriminate]. cbn in H. inversion H; subst arrays.
      destruct (IH ar eq_refl) as [Hok Hv]. split.
      + intros [|i] nm' t' Hn; cbn in Hn.
        * inversion Hn; subst. exists col. auto.
        * apply Hok. exact Hn.
      + intros i. cbn [row_valid forallb allvalid fst]. unfold col_ok at 1. rewrite Ef.
        f_equal. apply Hv.
  Qed.

  Lemma no_nulls_valid arrays i : any_nulls arrays = false -> row_valid arrays i = true.
  Proof.
    unfold any_nulls, row_valid. intros H. apply forallb_forall. intros a Ha.
    assert (Hn : existsb negb (c_valid a) = false).
    { destruct (existsb negb (c_valid a)) eqn:E; [|reflexivity].
      assert (existsb (fun a => existsb negb (c_valid a)) arrays = true) by (apply existsb_exists; eauto).
      congruence. }
    clear -Hn. revert i. induction (c_valid a) as [|v l IH]; intros [|i]; cbn in *; auto.
    - now destruct v.
    - apply IH. now destruct v.
  Qed.

  (* ---- the chunk loop, for every batch length ---- *)
  Lemma pack_full_firstn full : forall out len, (full * 8 <= len)%nat ->
    pack_full full (firstn len out) = pack_full full out.
  Proof.
    induction full as [|k IH]; intros out len Hl; [reflexivity|].
    destruct out as [|b0 [|b1 [|b2 [|b3 [|b4 [|b5 [|b6 [|b7 r]]]]]]]];
      try (rewrite firstn_all2 by (cbn [length]; lia); reflexivity).
    do 8 (destruct len as [|len]; [lia|]). cbn [firstn pack_full]. f_equal. apply IH. lia.
  Qed.

  Lemma pack_firstn len out : (len <= length out)%nat -> pack len (firstn len out) = pack len out.
  Proof.
    intros Hl. unfold pack.
    pose proof (Nat.div_mod len 8 ltac:(lia)) as Hdm.
    remember (len / 8)%nat as full eqn:Efull. clear Efull.
    rewrite pack_full_firstn by lia. f_equal.
    replace (firstn (len - full * 8) (skipn (full * 8) (firstn len out)))
      with (firstn (len - full * 8) (skipn (full * 8) out)); [reflexivity|].
    rewrite skipn_firstn_comm, firstn_firstn. f_equal. lia.
  Qed.

  Lemma chunk_bits len start o (g : nat -> bool) :
    (len <= length o)%nat -> rd len o = map (fun i => b2z (g i)) (seq start len) ->
    unpack len (pack len o) = map g (seq start len).
  Proof.
    intros Hl Hrd. unfold rd in Hrd.
    rewrite <- pack_firstn by exact Hl. rewrite Hrd.
    rewrite pack_bits_id.
    - rewrite firstn_all2 by (rewrite map_length, seq_length; lia).
      rewrite map_map. apply map_ext. intros i. now destruct (g i).
    - apply Forall_forall. intros x Hx. apply in_map_iff in Hx as (i & <- & _).
      destruct (g i); [right|left]; reflexivity.
    - rewrite map_length, seq_length. lia.
  Qed.

  Lemma chunk_loop_ok prog out arrays F M (g : nat -> bool) :
    (out < M)%nat ->
    (forall start len f m, (start + len <= n)%nat -> (len <= CHUNK)%nat -> shape F f -> shape M m ->
       exists f' m', exec fop arrays start len prog (f, m) = Some (f', m') /\ shape F f' /\ shape M m' /\
         rd len (nth out m' []) = map (fun i => b2z (g i)) (seq start len)) ->
    forall fuel start f m bits vbits,
      (start <= n)%nat -> (n - start <= fuel)%nat -> shape F f -> shape M m ->
      chunk_loop fop fuel prog out arrays n start (f, m) bits vbits =
      Some (bits ++ map g (seq start (n - start)), vbits ++ map (row_valid arrays) (seq start (n - start))).
  Proof.
    intros Hout Hexec. induction fuel as [|k IH]; intros start f m bits vbits Hs Hfuel Sf Sm.
    - cbn [chunk_loop]. replace (start <? n)%nat with false by (symmetry; apply Nat.ltb_ge; lia).
      replace (n - start)%nat with 0%nat by lia. cbn. now rewrite !app_nil_r.
    - cbn [chunk_loop]. destruct (start <? n)%nat eqn:E.
      2:{ apply Nat.ltb_ge in E. replace (n - start)%nat with 0%nat by lia. cbn. now rewrite !app_nil_r. }
      apply Nat.ltb_lt in E.
      remember (Nat.min (n - start) CHUNK) as len eqn:Elen.
      assert (Hlen : (1 <= len /\ len <= CHUNK /\ start + len <= n)%nat) by (unfold CHUNK in *; lia).
      destruct (Hexec start len f m ltac:(lia) ltac:(lia) Sf Sm) as (f' & m' & He & Sf' & Sm' & Hrd).
      rewrite He. destruct Sm' as [LM FM].
      replace (out <? length m')%nat with true by (symmetry; apply Nat.ltb_lt; lia).
      assert (Ho : length (nth out m' []) = CHUNK).
      { rewrite Forall_forall in FM. apply FM. apply nth_In. lia. }
      rewrite (chunk_bits len start _ g) by (auto; lia).
      rewrite (IH (start + len)%nat f' m') by (try (split; assumption); auto; lia).
      rewrite <- !app_assoc, <- !map_app.
      replace (n - start)%nat with (len + (n - (start + len)))%nat by lia.
      now rewrite seq_app.
  Qed.

  (* ---- (A) the compiled predicate, row by row ---- *)
  Definition row_result (fc : Z -> Z -> ord) (e : expr) (i : nat) : option bool :=
    if rvalid b e i then Some (bsem fc e i) else None.

  Lemma shape_repeat k : shape k (repeat (repeat 0 CHUNK) k).
  Proof.
    split; [apply repeat_length|]. apply Forall_forall. intros x Hx.
    apply repeat_spec in Hx. subst. apply repeat_length.
  Qed.

  Lemma run_sem e p :
    compile e s = Some p ->
    run fop p b = Some (map (row_result f64_ieee_cmp e) (seq 0 n)) /\
    (exists x v, interp_arr fop b e = Some (ABool x v)) /\
    ssa_run 0 0 (p_prog p) = Some (p_fregs p, p_mregs p) /\ (p_out p < p_mregs p)%nat.
  Proof.
    unfold compile. destruct (boolean s e cst0) as [[out st]|] eqn:E; [|discriminate].
    intros H; inversion H; subst p; clear H.
    destruct (boolean_ok _ _ _ _ E) as (d & X & R & V & Ex & I).
    pose proof X as [_ [Hprog Hssa]]. cbn in Hprog, Hssa.
    split; [|split; [exact I|split; [rewrite Hprog; exact Hssa|exact R]]].
    assert (Ht : cols_typed (cs_cols st)).
    { eapply boolean_typed; [|exact E]. intros nm t []. }
    destruct (resolve_some _ Ht) as [arrays Hr].
    destruct (resolve_spec _ _ Hr) as [Hok Hrv].
    unfold run. cbn [p_cols p_prog p_out p_fregs p_mregs]. rewrite Hr.
    set (F := Nat.max (cs_nf st) 1). set (M := Nat.max (cs_nm st) 1).
    rewrite (chunk_loop_ok (cs_prog st) out arrays F M (bsem f64_ieee_cmp e)).
    - rewrite Nat.sub_0_r. cbn [app].
      assert (Hrow : forall i, row_valid arrays i = rvalid b e i).
      { intros i. rewrite Hrv, V. reflexivity. }
      f_equal. destruct (any_nulls arrays) eqn:An.
      + rewrite zipw_map. apply map_ext. intros i. unfold row_result. now rewrite Hrow.
      + rewrite map_map. apply map_ext. intros i. unfold row_result.
        now rewrite <- Hrow, (no_nulls_valid _ _ An).
    - unfold M. lia.
    - intros start len f m Hl Hc Sf Sm. rewrite Hprog.
      destruct (Ex arrays start len F M f m Hok Hl Hc Sf Sm ltac:(unfold F; lia) ltac:(unfold M; lia))
        as (f' & m' & He & Sf' & Sm' & _ & _ & Hrd).
      exists f', m'. auto.
    - lia.
    - lia.
    - apply shape_repeat.
    - apply shape_repeat.
  Qed.

  (* ---- (B) the interpreter, row by row ---- *)
  Lemma col_vals_seq col nm : find_col (b_cols b) nm = Some col ->
    c_vals col = map (col_val b nm) (seq 0 n) /\ c_valid col = map (col_ok b nm) (seq 0 n).
  Proof.
    intros H. destruct (col_len _ _ H) as [L1 L2]. split.
    - rewrite <- (nth_seq_all (c_vals col) 0) at 1. rewrite L1. apply map_ext. intros i.
      unfold col_val. now rewrite H.
    - rewrite <- (nth_seq_all (c_valid col) true) at 1. rewrite L2. apply map_ext. intros i.
      unfold col_ok. now rewrite H.
  Qed.

  Definition arr_sem (e : expr) (a : option arr) : Prop :=
    match a with
    | Some (ANum t x v) => t = ety s e /\ x = map (vsem fop b e) (seq 0 n) /\ v = map (rvalid b e) (seq 0 n)
    | Some (ABool x v) => x = map (bsem f64_total_cmp e) (seq 0 n) /\ v = map (rvalid b e) (seq 0 n)
    | None => True
    end.

  Lemma cmp_arrays_sem op l r al ar :
    arr_sem l (Some al) -> arr_sem r (Some ar) ->
    match cmp_arrays op al ar with
    | Some (ABool x v) => x = map (cmp_sem f64_total_cmp op l r) (seq 0 n) /\
                          v = map (fun i => rvalid b l i && rvalid b r i) (seq 0 n)
    | Some (ANum _ _ _) => False
    | None => True
    end.
  Proof.
    destruct al as [t1 x1 v1|]; [|intros; exact I]. destruct ar as [t2 x2 v2|]; [|intros; exact I].
    intros (T1 & X1 & V1) (T2 & X2 & V2). cbn [cmp_arrays].
    destruct (ty_eqb t1 t2); [|exact I]. subst x1 v1 x2 v2.
    unfold cmp_sem. rewrite <- T1.
    destruct t1; try exact I; rewrite !zipw_map; split; reflexivity.
  Qed.

  Lemma interp_arr_sem e : arr_sem e (interp_arr fop b e).
  Proof.
    induction e; cbn [interp_arr].
    - (* ECol *)
      destruct (find_col (b_cols b) c) as [col|] eqn:Ef; [|exact I]. cbn [arr_sem ety vsem rvalid].
      unfold s, schema_of. rewrite find_field_schema_of, Ef. cbn.
      destruct (col_vals_seq _ _ Ef). auto.
    - (* ELit *)
      destruct l; cbn [arr_sem]; try exact I;
        (split; [reflexivity|]; split; apply repeat_map_seq).
    - (* EArith *)
      revert IHe1 IHe2.
      destruct (interp_arr fop b e1) as [[t1 x1 v1|]|]; try (intros; exact I).
      destruct t1; try (intros; exact I).
      destruct (interp_arr fop b e2) as [[t2 x2 v2|]|]; try (intros; exact I).
      destruct t2; try (intros; exact I).
      intros (_ & -> & ->) (_ & -> & ->). cbn [arr_sem]. rewrite !zipw_map. auto.
    - (* ECmp *)
      revert IHe1 IHe2.
      destruct (interp_arr fop b e1) as [al|]; [|intros; exact I].
      destruct (interp_arr fop b e2) as [ar|]; [|intros; exact I].
      intros H1 H2. pose proof (cmp_arrays_sem op e1 e2 al ar H1 H2) as H.
      destruct (cmp_arrays op al ar) as [[|]|]; try exact I; [destruct H|exact H].
    - (* EAnd *)
      revert IHe1 IHe2.
      destruct (interp_arr fop b e1) as [[|x1 v1]|]; destruct (interp_arr fop b e2) as [[|x2 v2]|];
        try (intros; exact I).
      intros (-> & ->) (-> & ->). cbn [bool_arrays arr_sem]. rewrite !zipw_map. auto.
    - (* EOr *)
      revert IHe1 IHe2.
      destruct (interp_arr fop b e1) as [[|x1 v1]|]; destruct (interp_arr fop b e2) as [[|x2 v2]|];
        try (intros; exact I).
      intros (-> & ->) (-> & ->). cbn [bool_arrays arr_sem]. rewrite !zipw_map. auto.
    - (* ENot *)
      revert IHe.
      destruct (interp_arr fop b e) as [[|x1 v1]|]; try (intros; exact I).
      intros (-> & ->). cbn [not_array arr_sem]. rewrite map_map. auto.
    - (* EBetween *)
      revert IHe1 IHe2 IHe3.
      destruct (interp_arr fop b e1) as [a1|]; [|intros; exact I].
      destruct (interp_arr fop b e2) as [a2|]; [|intros; exact I].
      destruct (interp_arr fop b e3) as [a3|]; [|intros; exact I].
      intros H1 H2 H3.
      pose proof (cmp_arrays_sem CGe e1 e2 a1 a2 H1 H2) as Hge.
      pose proof (cmp_arrays_sem CLe e1 e3 a1 a3 H1 H3) as Hle.
      destruct (cmp_arrays CGe a1 a2) as [[|gx gv]|]; try exact I; [destruct Hge|].
      destruct (cmp_arrays CLe a1 a3) as [[|lx lv]|]; try exact I.
      destruct Hge as [-> ->]. destruct Hle as [-> ->]. cbn [bool_arrays].
      rewrite !zipw_map.
      destruct negated; cbn [not_array arr_sem]; rewrite ?map_map; split; reflexivity.
    - (* EAlias *) exact IHe.
    - (* ECastF64 *)
      revert IHe. destruct (interp_arr fop b e) as [[t x v|]|]; try (intros; exact I).
      destruct t; try (intros; exact I). intros (_ & -> & ->). cbn. auto.
    - exact I.
  Qed.

  Lemma interp_sem e x v : interp_arr fop b e = Some (ABool x v) ->
    interp fop e b = Some (map (row_result f64_total_cmp e) (seq 0 n)).
  Proof.
    intros H. pose proof (interp_arr_sem e) as Hs. unfold interp. rewrite H in *.
    destruct Hs as [-> ->]. now rewrite zipw_map.
  Qed.

  (* ---- (C) where the two row readings agree ---- *)
  Lemma bsem_agree e i :
    f64cmp_at fop nan_pair b e i = false -> f64cmp_at fop zero_pair b e i = false ->
    bsem f64_ieee_cmp e i = bsem f64_total_cmp e i.
  Proof.
    induction e; cbn [f64cmp_at bsem]; intros Hn Hz; try reflexivity.
    - (* ECmp *) fold s in Hn, Hz.
      destruct (ety s e1); cbn [is_f64 andb tcmp] in *; try reflexivity.
      now rewrite ieee_total_agree.
    - apply orb_false_iff in Hn as [? ?]. apply orb_false_iff in Hz as [? ?].
      now rewrite IHe1, IHe2.
    - apply orb_false_iff in Hn as [? ?]. apply orb_false_iff in Hz as [? ?].
      now rewrite IHe1, IHe2.
    - now rewrite IHe.
    - fold s in Hn, Hz.
      destruct (ety s e1); cbn [is_f64 andb tcmp] in *; try reflexivity.
      apply orb_false_iff in Hn as [? ?]. apply orb_false_iff in Hz as [? ?].
      now rewrite !ieee_total_agree.
    - now apply IHe.
  Qed.

  Lemma row_agree e i : special_row fop e b i = false ->
    row_result f64_ieee_cmp e i = row_result f64_total_cmp e i.
  Proof.
    unfold special_row, nan_row, negzero_row, row_result. intros H.
    destruct (rvalid b e i); [|reflexivity]. cbn [andb] in H.
    apply orb_false_iff in H as [Hn Hz]. now rewrite bsem_agree.
  Qed.
End Correct.

(* ------------------------------------------------------------------ *)
(* Main theorems                                                        *)
Section Main.
  Variable fop : arith -> Z -> Z -> Z.

  (* row-level compiler correctness: both evaluators succeed, and agree on every row that is not a
     valid row carrying a NaN / (+0,-0) pair in a Float64 comparison *)
  Theorem compile_correct_rows e b p :
    wf_batch b -> compile e (schema_of b) = Some p ->
    exists rc ri, run fop p b = Some rc /\ interp fop e b = Some ri /\
      length rc = b_rows b /\ length ri = b_rows b /\
      forall i, (i < b_rows b)%nat -> special_row fop e b i = false -> nth i rc None = nth i ri None.
  Proof.
    intros Hwf Hc.
    destruct (run_sem fop b Hwf e p Hc) as (Hrun & (x & v & Hi) & _).
    pose proof (interp_sem fop b Hwf e x v Hi) as Hint.
    eexists _, _. split; [exact Hrun|]. split; [exact Hint|].
    split; [now rewrite map_length, seq_length|]. split; [now rewrite map_length, seq_length|].
    intros i Hi' Hs.
    rewrite !(nth_indep _ None (row_result fop b f64_ieee_cmp e 0)) by (rewrite map_length, seq_length; lia).
    rewrite (map_nth (row_result fop b f64_ieee_cmp e)), seq_nth by lia.
    rewrite (nth_indep _ _ (row_result fop b f64_total_cmp e 0)) by (rewrite map_length, seq_length; lia).
    rewrite (map_nth (row_result fop b f64_total_cmp e)), seq_nth by lia.
    now apply row_agree.
  Qed.

  Lemma existsb_false_In {A} (f : A -> bool) l : existsb f l = false -> forall x, In x l -> f x = false.
  Proof.
    intros H x Hx. destruct (f x) eqn:E; [|reflexivity].
    assert (existsb f l = true) by (apply existsb_exists; eauto). congruence.
  Qed.

  (* the property, outside the known classes: compiled = interpreted, for every batch length *)
  Theorem compile_correct e b p :
    wf_batch b -> compile e (schema_of b) = Some p ->
    known_special_f64 fop e b = false ->
    run fop p b = interp fop e b.
  Proof.
    intros Hwf Hc Hk.
    destruct (run_sem fop b Hwf e p Hc) as (Hrun & (x & v & Hi) & _).
    rewrite Hrun, (interp_sem fop b Hwf e x v Hi). f_equal.
    apply map_ext_in. intros i Hin. apply row_agree.
    unfold known_special_f64, known_nan_f64, known_negzero_f64 in Hk.
    apply orb_false_iff in Hk as [Hn Hz]. unfold special_row.
    now rewrite (existsb_false_In _ _ Hn i Hin), (existsb_false_In _ _ Hz i Hin).
  Qed.

  Lemma schema_of_mk s :
    schema_of (mkBatch 0 (map (fun p => mkCol (fst p) (snd p) [] []) s)) = s.
  Proof.
    unfold schema_of. cbn [b_cols]. rewrite map_map.
    induction s as [|[a t] r IH]; [reflexivity|]. cbn [map]. f_equal. exact IH.
  Qed.

  (* SSA-shaped register use for every schema: dst is always the next fresh register, register operands
     are smaller (what split_at_mut needs), at most MAX_REGS per file, and the output register exists *)
  Theorem ssa_regs e s p :
    compile e s = Some p ->
    ssa_run 0 0 (p_prog p) = Some (p_fregs p, p_mregs p) /\
    (p_fregs p <= MAX_REGS)%nat /\ (p_mregs p <= MAX_REGS)%nat /\ (p_out p < p_mregs p)%nat.
  Proof.
    intros Hc. rewrite <- (schema_of_mk s) in Hc.
    assert (Hwf : wf_batch (mkBatch 0 (map (fun p => mkCol (fst p) (snd p) [] []) s))).
    { unfold wf_batch. cbn. apply Forall_forall. intros c Hin. apply in_map_iff in Hin as (q & <- & _). auto. }
    destruct (run_sem fop _ Hwf e p Hc) as (_ & _ & Hssa & Hout).
    split; [exact Hssa|].
    destruct (ssa_run_bound _ 0 0 _ _ ltac:(unfold MAX_REGS; lia) ltac:(unfold MAX_REGS; lia) Hssa).
    auto.
  Qed.

  (* ---- refutations: the property is false of the faithful model inside the known classes ---- *)
  Definition f_col (vals : list Z) : batch := mkBatch (length vals) [mkCol 0 TF64 vals (map (fun _ => true) vals)].
  Definition refutes (e : expr) (vals : list Z) (compiled interpreted : list (option bool)) : Prop :=
    wf_batch (f_col vals) /\
    exists p, compile e (schema_of (f_col vals)) = Some p /\
      run fop p (f_col vals) = Some compiled /\ interp fop e (f_col vals) = Some interpreted /\
      compiled <> interpreted.

  Ltac refute := split; [repeat constructor | eexists; split; [reflexivity|];
                         split; [vm_compute; reflexivity|]; split; [vm_compute; reflexivity|]; discriminate].

  (* f > 0.5 on a NaN row: compiled drops it, interpreted keeps it *)
  Theorem nan_gt_refuted :
    refutes (ECmp CGt (ECol 0) (ELit (LF64 HALF_BITS))) [NAN_BITS] [Some false] [Some true].
  Proof. refute. Qed.
  (* NOT (f > 0.5) on a NaN row: compiled keeps it, interpreted drops it *)
  Theorem nan_not_gt_refuted :
    refutes (ENot (ECmp CGt (ECol 0) (ELit (LF64 HALF_BITS)))) [NAN_BITS] [Some true] [Some false].
  Proof. refute. Qed.
  (* f < 0.5 on a negative-sign NaN (the x86 default NaN, e.g. inf - inf): interpreted keeps it *)
  Theorem neg_nan_lt_refuted :
    refutes (ECmp CLt (ECol 0) (ELit (LF64 HALF_BITS))) [NEG_NAN_BITS] [Some false] [Some true].
  Proof. refute. Qed.
  (* f = f on NaN: false compiled (IEEE), true interpreted (total order) *)
  Theorem nan_eq_self_refuted :
    refutes (ECmp CEq (ECol 0) (ECol 0)) [NAN_BITS] [Some false] [Some true].
  Proof. refute. Qed.
  (* f BETWEEN 0.0 AND NaN on 1.0-ish (0.5): compiled false, interpreted true (NaN is the greatest) *)
  Theorem nan_between_refuted :
    refutes (EBetween (ECol 0) (ELit (LF64 0)) (ELit (LF64 NAN_BITS)) false) [HALF_BITS] [Some false] [Some true].
  Proof. refute. Qed.
  (* f = 0.0 on -0.0: compiled matches, interpreted does not *)
  Theorem neg_zero_eq_refuted :
    refutes (ECmp CEq (ECol 0) (ELit (LF64 0))) [NEG_ZERO_BITS] [Some true] [Some false].
  Proof. refute. Qed.
  (* f < 0.0 on -0.0: interpreted keeps it (-0.0 < +0.0 in the total order), compiled drops it *)
  Theorem neg_zero_lt_refuted :
    refutes (ECmp CLt (ECol 0) (ELit (LF64 0))) [NEG_ZERO_BITS] [Some false] [Some true].
  Proof. refute. Qed.

  (* the witnesses are inside the decidable known classes *)
  Theorem witnesses_are_known :
    known_nan_f64 fop (ECmp CGt (ECol 0) (ELit (LF64 HALF_BITS))) (f_col [NAN_BITS]) = true /\
    known_negzero_f64 fop (ECmp CEq (ECol 0) (ELit (LF64 0))) (f_col [NEG_ZERO_BITS]) = true /\
    known_nan_f64 fop (ECmp CEq (ECol 0) (ELit (LF64 0))) (f_col [NEG_ZERO_BITS]) = false.
  Proof. repeat split; reflexivity. Qed.
End Main.

(* hypotheses of the main theorem are satisfiable on a non-trivial instance: Q6-shaped predicate with
   arithmetic, BETWEEN, NULLs and 2049 rows (three chunks) *)
Definition ex_fop (op : arith) (a b : Z) : Z := 0.
Definition ex_batch : batch :=
  mkBatch 2049 [mkCol 0 TF64 (repeat HALF_BITS 2049) (repeat true 1000 ++ false :: repeat true 1048);
                mkCol 1 TI64 (map Z.of_nat (seq 0 2049)) (repeat true 2049)].
Definition ex_expr : expr :=
  EAnd (EBetween (ECol 1) (ELit (LI64 5)) (ELit (LI64 2000)) false)
       (ECmp CLe (EArith Mul (ECol 0) (ELit (LF64 HALF_BITS))) (ECol 0)).
Example compile_correct_instance :
  wf_batchb ex_batch = true /\
  (exists p, compile ex_expr (schema_of ex_batch) = Some p) /\
  known_special_f64 ex_fop ex_expr ex_batch = false.
Proof. split; [vm_compute; reflexivity|]. split; [eexists; vm_compute; reflexivity|]. vm_compute. reflexivity. Qed.
